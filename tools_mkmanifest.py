#!/usr/bin/env python3
"""Regenerates MANIFEST.json from checklib/props.py + checklib/manifest_text.py (levels, notes)."""
import json, sys, os
sys.path.insert(0, os.path.dirname(os.path.abspath(__file__)))
from checklib.props import PROPS
from checklib.manifest_text import TEXT, NOT_APPLICABLE
import subprocess
# hook commits = every commit of /repo whose subject starts with "verif" (short hash + subject)
HOOK_COMMITS = [l.strip() for l in subprocess.run(["git", "-C", "/repo", "log", "--reverse", "--format=%h %s"], stdout=subprocess.PIPE).stdout.decode().splitlines() if l.split(" ", 1)[1].startswith("verif")]

checks = []
for pid in sorted(PROPS):
    t = TEXT[pid]
    checks.append({
        "property_id": pid,
        "quick_cmd": "./check %s --tier quick" % pid,
        "thorough_cmd": "./check %s --tier thorough" % pid,
        "evidence_file": "/verif/evidence/%s.json" % pid,
        "replay_cmd_template": "./check %s --replay {path}" % pid,
        "engine": "lean-model+correspondence+search",
        "level_claimed": {"category": "proof", "text": t["level"], "design_ref": "DESIGN.md §4 " + pid},
        "level_note": t["note"],
        "technique": t["technique"],
    })
m = {
    "version": 1,
    "setup_cmd": "./setup.sh",
    "hooks": {
        "guard": "verif",
        "enable": "go build -tags verif (harness module github.com/evanw/esbuild/verifharness with replace => /repo)",
        "baseline_off_cmd": "cd /repo && go test -vet=off -count=1 ./...",
        "source_commits": HOOK_COMMITS,
        "add_only": True,
    },
    "engines": [
        {"name": "lean-model+correspondence+search", "path": "/verif/check",
         "serves_properties": sorted(PROPS),
         "kind_free_text": "Lean 4 model + theorems (lake build, #print axioms audit), facts regenerated from /repo by go/ast extractors, correspondence harness (real Go routine vs compiled Lean model on generated operations), end-to-end search with Node 20 for a concrete failing input"},
    ],
    "checks": checks,
    "not_applicable": [{"property_id": p, "reason": r} for p, r in sorted(NOT_APPLICABLE.items()) if p not in PROPS],
    "notes": "See DESIGN.md. ./check <id> --tier quick|thorough; evidence in evidence/<id>.json; known findings in known-findings.jsonl.",
}
json.dump(m, open(os.path.join(os.path.dirname(os.path.abspath(__file__)), "MANIFEST.json"), "w"), indent=1)
print("MANIFEST.json written with", len(checks), "checks")
