#!/bin/bash
# tools_seeded_search.sh <patch> <search> <count>: apply patch to /repo, run one hapi search, revert
export GOFLAGS=-mod=mod GOPROXY=off GOSUMDB=off GOTOOLCHAIN=local
git -C /repo apply $1 || exit 2
(cd /verif/harness && go build -tags verif -o /tmp/vh/hapi-mut ./cmd/hapi)
git -C /repo checkout -- .
VERIF_BIN=/verif/.build/bin /tmp/vh/hapi-mut $2 1 $3 /tmp/vh/w > /tmp/vh/rep-mut.json
python3 - <<'PY'
import json
r=json.load(open('/tmp/vh/rep-mut.json'))
print({k:r[k] for k in ('evaluations','distinct_nontrivial')}, 'violations', len(r['violations']))
seen=set()
for v in r['violations']:
    k='/'.join(v['class'].split('/')[:2])
    if k in seen or len(seen)>=5: continue
    seen.add(k)
    print('  ==',v['class'],v['what'][:200])
PY
