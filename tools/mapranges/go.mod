module mapranges

go 1.23

require golang.org/x/tools v0.29.0

require (
	golang.org/x/mod v0.22.0 // indirect
	golang.org/x/sync v0.10.0 // indirect
)
