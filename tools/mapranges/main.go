// mapranges: lists every `for … range <map>` loop of the given packages of /repo (type-checked with
// go/packages) together with what the loop body appends to and whether those slices are sorted later in the
// same function. Output: Lean source (Gen/MapRanges.lean) — a regenerated fact for property C08 (determinism):
// Go randomises map iteration order, so a loop over a map may only feed order-insensitive sinks or slices
// that are sorted before use.
//
//	mapranges <repo-dir> <out.lean> <pkg>...
package main

import (
	"bytes"
	"fmt"
	"go/ast"
	"go/printer"
	"go/token"
	"go/types"
	"os"
	"sort"
	"strings"

	"golang.org/x/tools/go/packages"
)

type site struct {
	pkg, fn, expr string
	appends       []string
	sorted        bool // every appended slice is passed to a sort.* call later in the same function
	bodyKinds     string
}

func exprText(fset *token.FileSet, e ast.Expr) string {
	var b bytes.Buffer
	printer.Fprint(&b, fset, e)
	return strings.Join(strings.Fields(b.String()), " ")
}

func rootName(e ast.Expr) string {
	switch x := e.(type) {
	case *ast.Ident:
		return x.Name
	case *ast.SelectorExpr:
		return rootName(x.X) + "." + x.Sel.Name
	case *ast.IndexExpr:
		return rootName(x.X) + "[]"
	case *ast.StarExpr:
		return rootName(x.X)
	case *ast.ParenExpr:
		return rootName(x.X)
	}
	return "?"
}

func main() {
	repo, out := os.Args[1], os.Args[2]
	cfg := &packages.Config{Mode: packages.NeedName | packages.NeedFiles | packages.NeedSyntax | packages.NeedTypes | packages.NeedTypesInfo | packages.NeedImports | packages.NeedDeps, Dir: repo}
	pkgs, err := packages.Load(cfg, os.Args[3:]...)
	if err != nil {
		fmt.Fprintln(os.Stderr, err)
		os.Exit(1)
	}
	var sites []site
	for _, p := range pkgs {
		if len(p.Errors) > 0 {
			fmt.Fprintln(os.Stderr, p.PkgPath, p.Errors)
			os.Exit(1)
		}
		short := p.PkgPath[strings.LastIndex(p.PkgPath, "/")+1:]
		for _, f := range p.Syntax {
			name := p.Fset.Position(f.Pos()).Filename
			if strings.HasSuffix(name, "_test.go") || strings.Contains(name, "verif_") {
				continue
			}
			for _, d := range f.Decls {
				fd, ok := d.(*ast.FuncDecl)
				if !ok || fd.Body == nil {
					continue
				}
				fname := fd.Name.Name
				if fd.Recv != nil && len(fd.Recv.List) > 0 {
					fname = strings.TrimPrefix(exprText(p.Fset, fd.Recv.List[0].Type), "*") + "." + fname
				}
				// slices that are sorted somewhere in this function (by name of the root expression)
				sortedNames := map[string]bool{}
				ast.Inspect(fd.Body, func(nd ast.Node) bool {
					if c, ok := nd.(*ast.CallExpr); ok {
						if sel, ok := c.Fun.(*ast.SelectorExpr); ok {
							if id, ok := sel.X.(*ast.Ident); ok && (id.Name == "sort" || id.Name == "slices") && len(c.Args) > 0 {
								a := c.Args[0]
								if conv, ok := a.(*ast.CallExpr); ok && len(conv.Args) == 1 { // sort.Sort(T(x))
									a = conv.Args[0]
								}
								sortedNames[rootName(a)] = true
							}
						}
					}
					return true
				})
				ast.Inspect(fd.Body, func(nd ast.Node) bool {
					rs, ok := nd.(*ast.RangeStmt)
					if !ok {
						return true
					}
					t := p.TypesInfo.TypeOf(rs.X)
					if t == nil {
						return true
					}
					if _, ok := t.Underlying().(*types.Map); !ok {
						return true
					}
					s := site{pkg: short, fn: fname, expr: exprText(p.Fset, rs.X)}
					app := map[string]bool{}
					kinds := map[string]bool{}
					ast.Inspect(rs.Body, func(b ast.Node) bool {
						switch x := b.(type) {
						case *ast.AssignStmt:
							for i, rhs := range x.Rhs {
								if c, ok := rhs.(*ast.CallExpr); ok {
									if id, ok := c.Fun.(*ast.Ident); ok && id.Name == "append" && i < len(x.Lhs) {
										app[rootName(x.Lhs[i])] = true
										kinds["append"] = true
										continue
									}
								}
							}
							for _, lhs := range x.Lhs {
								if ix, ok := lhs.(*ast.IndexExpr); ok {
									if lt := p.TypesInfo.TypeOf(ix.X); lt != nil {
										if _, ok := lt.Underlying().(*types.Map); ok {
											kinds["map-store"] = true
											continue
										}
									}
									kinds["index-store"] = true
								}
							}
						case *ast.ReturnStmt:
							kinds["return"] = true
						case *ast.BranchStmt:
							if x.Tok == token.BREAK {
								kinds["break"] = true
							}
						case *ast.CallExpr:
							if id, ok := x.Fun.(*ast.Ident); ok && id.Name == "delete" {
								kinds["delete"] = true
							} else if id, ok := x.Fun.(*ast.Ident); !ok || id.Name != "append" {
								kinds["call"] = true
							}
						case *ast.IncDecStmt:
							kinds["incdec"] = true
						}
						return true
					})
					for a := range app {
						s.appends = append(s.appends, a)
					}
					sort.Strings(s.appends)
					s.sorted = len(s.appends) > 0
					for _, a := range s.appends {
						if !sortedNames[a] {
							s.sorted = false
						}
					}
					ks := []string{}
					for k := range kinds {
						ks = append(ks, k)
					}
					sort.Strings(ks)
					s.bodyKinds = strings.Join(ks, "+")
					sites = append(sites, s)
					return true
				})
			}
		}
	}
	sort.Slice(sites, func(i, j int) bool {
		a, b := sites[i], sites[j]
		if a.pkg != b.pkg {
			return a.pkg < b.pkg
		}
		if a.fn != b.fn {
			return a.fn < b.fn
		}
		return a.expr < b.expr
	})
	var sb strings.Builder
	sb.WriteString("/- GENERATED by tools/mapranges from /repo (do not edit): every `for … range <map>` loop of the listed packages. -/\n")
	sb.WriteString("namespace EsbuildModel.Gen.MapRanges\n\n")
	sb.WriteString("structure Site where\n  pkg : String\n  fn : String\n  expr : String\n  appends : List String\n  sorted : Bool\n  body : String\nderiving DecidableEq, Repr\n\n")
	sb.WriteString("def sites : List Site := [\n")
	for i, s := range sites {
		q := func(x string) string { return "\"" + strings.ReplaceAll(strings.ReplaceAll(x, "\\", "\\\\"), "\"", "\\\"") + "\"" }
		aps := make([]string, len(s.appends))
		for k, a := range s.appends {
			aps[k] = q(a)
		}
		comma := ","
		if i == len(sites)-1 {
			comma = ""
		}
		fmt.Fprintf(&sb, "  ⟨%s, %s, %s, [%s], %v, %s⟩%s\n", q(s.pkg), q(s.fn), q(s.expr), strings.Join(aps, ", "), s.sorted, q(s.bodyKinds), comma)
	}
	sb.WriteString("]\n\nend EsbuildModel.Gen.MapRanges\n")
	old, _ := os.ReadFile(out)
	if string(old) != sb.String() {
		os.WriteFile(out, []byte(sb.String()), 0644)
	}
	fmt.Printf("%d map-range sites (%d collect-then-sort)\n", len(sites), func() int { n := 0; for _, s := range sites { if s.sorted { n++ } }; return n }())
}
