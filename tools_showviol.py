#!/usr/bin/env python3
"""print violations of a hapi report compactly: tools_showviol.py rep.json [maxchars]"""
import json, sys
r = json.load(open(sys.argv[1]))
mx = int(sys.argv[2]) if len(sys.argv) > 2 else 900
print({k: r.get(k) for k in ('evaluations', 'distinct_nontrivial', 'inconclusive')}, 'violations:', len(r['violations']))
print({k: v for k, v in r['distribution'].items() if not k.startswith('gen:')})
seen = set()
for v in r['violations']:
    if v['class'] in seen:
        continue
    seen.add(v['class'])
    if len(seen) > int(sys.argv[3] if len(sys.argv) > 3 else 3):
        print('==', v['class'], '|', v['what'][:200]); continue
    print('==', v['class'], '|', v['what'][:300])
    rp = v.get('replay') or {}
    if isinstance(rp, dict) and 'source' in rp:
        print(rp['source'][:mx]); print('--out'); print((rp.get('output') or '')[:mx])
    else:
        print(json.dumps(rp)[:mx])
