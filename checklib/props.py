# Per-property configuration of ./check.
#   lean_modules : lake targets holding the property's theorems
#   theorems     : fully qualified theorem names audited with `#print axioms` (= the proof obligations)
#   open         : statements kept open / proved only partially (counted as NOT discharged, listed in evidence)
#   gen_facts    : Gen/*.lean files (regenerated from /repo) the theorems depend on
#   kernels      : (hinternal kernel, quick count, thorough count) correspondence runs
#   searches     : (hapi search, quick count, thorough count) end-to-end searches for a failing input
#   binaries     : extra binaries to build from /repo (esbuild, esbuild-race)
PROPS = {
    "C07": {
        "lean_modules": ["EsbuildModel.Props.C07"],
        "theorems": [
            "EsbuildModel.C07.base64_is_rfc4648",
            "EsbuildModel.C07.base64_roundtrip",
            "EsbuildModel.C07.vlq_roundtrip_digits",
            "EsbuildModel.C07.vlq_roundtrip_bytes",
        ],
        "gen_facts": ["Base64.lean"],
        "kernels": [("vlq", 20000, 1000000)],
        "searches": [("c07-map", 400, 30000)],
        "scope": "internal/sourcemap/sourcemap.go: encodeVLQ, DecodeVLQ, DecodeVLQUTF16 modelled",
        "assumptions": ["Go int is 64-bit; model integers are unbounded (|v| < 2^62 in every call site)"],
    },
    "C18": {
        "lean_modules": ["EsbuildModel.Props.C18"],
        "theorems": [
            "EsbuildModel.C18.lenprefix_injective",
            "EsbuildModel.C18.pieces_partition_output",
        ],
        "open": ["Hash.name_determines_bytes: FALSE on the current code (known finding c18-hash-ignores-reference-order): the pre-image omits which chunk each placeholder refers to"],
        "gen_facts": [],
        "kernels": [("pieces", 20000, 600000)],
        "searches": [("c18-hash", 120, 4000)],
        "scope": "internal/linker/linker.go: breakOutputIntoPieces, substituteFinalPaths (bytes), hashWriteLengthPrefixed/hashWriteUint32 modelled; chunk hashing as a whole reached by the search only",
        "assumptions": ["xxhash is treated as an injective function of its pre-image (collision freedom is an explicit hypothesis)", "component lengths < 2^32"],
    },
    "C19": {
        "lean_modules": ["EsbuildModel.Props.C19"],
        "theorems": [
            "EsbuildModel.C19.count_eq_len",
            "EsbuildModel.C19.pieces_partition_output",
        ],
        "gen_facts": [],
        "kernels": [("pieces", 20000, 600000)],
        "searches": [("c19-meta", 300, 12000)],
        "scope": "internal/linker/linker.go: accurateFinalByteCount vs substituteFinalPaths, breakOutputIntoPieces modelled; metafile JSON assembly reached by the search only",
        "assumptions": [],
    },
    "C03": {
        "lean_modules": ["EsbuildModel.Props.C03"],
        "theorems": [
            "EsbuildModel.C03.toInt32_correct",
            "EsbuildModel.C03.toUint32_correct",
        ],
        "open": ["Simplify.unused_equiv: FALSE for unused object literals with computed keys (known finding c03-unused-computed-key)"],
        "gen_facts": [],
        "kernels": [("toint32", 30000, 1500000)],
        "searches": [("c03-prog", 500, 40000)],
        "scope": "internal/js_ast/js_ast_helpers.go: ToInt32/ToUint32 modelled on exact dyadic values; all other minifier rewrites are reached by the Node differential search only",
        "assumptions": ["math.Mod and float->int truncation are exact (IEEE-754)", "generated programs exclude the documented minifier assumptions by construction (gen/js.go header)"],
    },
    "C14": {
        "lean_modules": ["EsbuildModel.Props.C14"],
        "theorems": [
            "EsbuildModel.C14.es_monotone",
            "EsbuildModel.C14.overrides_both_ways",
            "EsbuildModel.C14.every_feature_listed",
            "EsbuildModel.C14.features_fit",
        ],
        "gen_facts": ["CompatTable.lean"],
        "kernels": [("compat", 5000, 200000)],
        "searches": [("c14-scan", 300, 20000)],
        "binaries": ["hscan"],
        "scope": "internal/compat: compareVersions, isVersionSupported, UnsupportedJSFeatures, ApplyOverrides over the table regenerated from js_table.go; the lowering passes themselves are reached by the feature-scanner search only",
        "assumptions": ["the feature scanner (harness/cmd/hscan) relies on esbuild's own parser to build the AST it walks"],
    },
    "C02": {
        "lean_modules": ["EsbuildModel.Props.C02"],
        "theorems": [
            "EsbuildModel.C02.dataurl_roundtrip",
            "EsbuildModel.C02.dataurl_no_stripped_bytes",
        ],
        "open": ["Link.order_is_eval_order: FALSE with --tree-shaking=false (known finding c02-order-no-tree-shaking)"],
        "gen_facts": [],
        "kernels": [("dataurl", 20000, 600000)],
        "searches": [("c02-graph", 240, 12000)],
        "scope": "internal/helpers/dataurl.go: EncodeStringAsPercentEscapedDataURL modelled; export matching, module ordering, wrappers and runtime helpers are reached by the native-vs-bundle search only (so far)",
        "assumptions": ["Node 20 is the reference for native module semantics"],
    },
    "C01": {
        "lean_modules": ["EsbuildModel.Props.C01"],
        "theorems": ["EsbuildModel.C01.string_literal_value_preserved"],
        "gen_facts": [],
        "kernels": [("quote", 30000, 1500000)],
        "searches": [("c01-prog", 500, 40000)],
        "scope": "internal/js_printer/js_printer.go: printUnquotedUTF16 (all escaping branches incl. line-limit continuations, </script, ${, surrogates, ASCII-only with/without \\u{...}) modelled; the rest of the printer/parser is reached by the Node differential search only",
        "assumptions": ["utf8.EncodeRune is the standard UTF-8 encoder (validated by correspondence, not proved)", "Spec.JsString is my reading of ECMA-262 SV/TV for literal bodies"],
    },
    "C13": {
        "lean_modules": ["EsbuildModel.Props.C13"],
        "theorems": ["EsbuildModel.C13.string_literal_body_valid"],
        "open": ["Accept.all_renderings: `var await = 1; await` (script goal) is rejected — known finding c13-await-identifier-in-script"],
        "gen_facts": [],
        "kernels": [("quote", 30000, 1500000)],
        "searches": [("c13-syntax", 1500, 100000)],
        "scope": "string/template literal bodies (printUnquotedUTF16) modelled; statement/expression grammar validity, acceptance of valid input and the fixed-point property are decided by V8 (vm.Script / vm.SourceTextModule) in the search",
        "assumptions": ["V8 (Node 20) is the reference parser; one known V8 bug (destructuring assignment in call arguments) is cross-checked with esbuild's own parser"],
    },
    "C09": {
        "lean_modules": ["EsbuildModel.Props.C09"],
        "theorems": [
            "EsbuildModel.C09.js_cache_key_covers",
            "EsbuildModel.C09.css_cache_key_covers",
            "EsbuildModel.C09.cache_transparent",
        ],
        "open": ["Watch.complete: watch-mode change detection is not modelled yet (search covers Rebuild only); symlink retargeting is a candidate known finding"],
        "gen_facts": ["CacheKey.lean"],
        "kernels": [],
        "searches": [("c09-history", 60, 3000)],
        "scope": "AST cache hit rule (cache_ast.go) and the structural part of its key (js_parser/css_parser Options.Equal) over field lists regenerated from the source; file-system cache, resolver caches and watch mode are reached by the rebuild-vs-fresh search only",
        "assumptions": ["parse is a function of (source text, options)", "field lists are extracted by go/ast from the current source (harness/cmd/extract/cachekey.go)"],
    },
    "C11": {
        "lean_modules": ["EsbuildModel.Props.C11"],
        "theorems": ["EsbuildModel.C11.matching_pattern_keys_never_tie"],
        "gen_facts": [],
        "kernels": [("exports", 4000, 300000)],
        "searches": [("c11-resolve", 960, 30000)],
        "scope": "subpath-pattern selection (esmPackageImportsExportsResolve loop + expansionKeysArray.Less) modelled; target resolution (conditions, arrays, null, invalid targets), file probing and node_modules lookup are decided by the three-way search against Node itself",
        "assumptions": ["Node 20 (createRequire().resolve / import.meta.resolve) is the reference", "esbuild is run with platform=node, mainFields=[main], conditions=[node-addons] (Node's own set)"],
    },
    "C12": {
        "lean_modules": ["EsbuildModel.Props.C12"],
        "theorems": ["EsbuildModel.C12.compact_expand", "EsbuildModel.C12.canCompact_iff", "EsbuildModel.C12.compact_preserves_value"],
        "open": ["Import.order_equiv: FALSE for duplicate imports under cascade layers (known finding c12-import-dedupe-important-layers)", "Box.collapse_equiv: FALSE with logical properties (known finding c12-box-collapse-ignores-logical-properties)"],
        "gen_facts": [],
        "kernels": [("csshex", 20000, 500000)],
        "searches": [("c12-cascade", 600, 40000)],
        "scope": "hex colour shortening (compactHex/expandHex/parseHex) modelled; rule merging, duplicate removal, box shorthands, number/colour/calc rewriting, lowering and @import bundling are decided by the independent cascade evaluator in the search",
        "assumptions": ["the cascade evaluator (harness/cmd/hapi/cascade.go) is my reading of CSS Cascade 5 for compound selectors; there is no browser in the sandbox", "8-bit colour channels may differ by one step (alpha percentages)"],
    },
}
