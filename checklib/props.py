# Per-property configuration of ./check.
#   lean_modules : lake targets holding the property's theorems
#   theorems     : fully qualified theorem names audited with `#print axioms` (= the proof obligations)
#   open         : statements kept open / proved only partially (counted as NOT discharged, listed in evidence)
#   gen_facts    : Gen/*.lean files (regenerated from /repo) the theorems depend on
#   kernels      : (hinternal kernel, quick count, thorough count) correspondence runs
#   searches     : (hapi search, quick count, thorough count) end-to-end searches for a failing input
#   binaries     : extra binaries to build from /repo (esbuild, esbuild-race)
PROPS = {
    "C07": {
        "lean_modules": ["EsbuildModel.Props.C07", "EsbuildModel.Props.C07Join", "EsbuildModel.Props.C07Shifts"],
        "theorems": [
            "EsbuildModel.C07.base64_is_rfc4648",
            "EsbuildModel.C07.base64_roundtrip",
            "EsbuildModel.C07.vlq_roundtrip_digits",
            "EsbuildModel.C07.vlq_roundtrip_bytes",
            "EsbuildModel.C07Join.builder_roundtrip", "EsbuildModel.C07Join.builder_sorted",
            "EsbuildModel.C07Join.encodeChunk_roundtrip", "EsbuildModel.C07Join.append_is_sequential_encoding",
            "EsbuildModel.C07Join.join_is_sequential_encoding", "EsbuildModel.C07Join.join_decodes",
            "EsbuildModel.C07Join.join_sorted", "EsbuildModel.C07Join.place_indices",
            "EsbuildModel.C07Join.finalize_is_sequential_encoding", "EsbuildModel.C07Join.finalize_changes_only_columns",
            "EsbuildModel.C07Join.finalize_join_decodes",
            "EsbuildModel.C07Shifts.shifts_are_true_positions",
        ],
        "open": ["C07.mappings_true (each mapping points at the true origin in the printer's output): needs the printers; decided by the c07-map search",
                 "SmJoin.linker_loop_tie: the 'Write the mappings' loop of linker.generateSourceMapForChunk cannot be called on its own; it is transcribed in k_smjoin.go around the real AppendSourceMapChunk, so a change to the real loop is seen only by the c07-map search"],
        "gen_facts": ["Base64.lean"],
        "kernels": [("vlq", 20000, 1000000), ("smjoin", 50000, 1000000), ("pieces", 20000, 600000)],
        "searches": [("c07-map", 400, 30000)],
        "scope": "internal/sourcemap/sourcemap.go: encodeVLQ, DecodeVLQ, DecodeVLQUTF16, appendMappingToBuffer, ChunkBuilder (appendMappingWithoutRemapping, updateGeneratedLineAndColumn, AddSourceMapping after location/name lookup, GenerateChunk incl. the cover-lines rule and firstNameOffset), AppendSourceMapChunk, SourceMapPieces.Finalize, LineColumnOffset.ComesBefore / Add / AdvanceBytes / AdvanceString and the shifts computed by linker.substituteFinalPaths modelled; decoding is specified independently (Spec/SourceMapV3.lean)",
        "assumptions": ["Go int is 64-bit; model integers are unbounded (|v| < 2^62 in every call site)", "harness-side and trusted in the smjoin kernel: splitting printed text into line breaks / UTF-16 columns, byte offset -> line/column of an ASCII source, SourceMap.Find by linear scan, the names table, the duplicate-call test of AddSourceMapping", "null entries have offset (0,0) and no name offset, as linker.go constructs them; start states have no name of their own"],
    },
    "C15": {
        "lean_modules": ["EsbuildModel.Props.C15", "EsbuildModel.Props.C15Slots"],
        "theorems": ["EsbuildModel.Rename.name_injective", "EsbuildModel.Rename.name_starts_with_head", "EsbuildModel.Rename.assignSeq_spec",
                     "EsbuildModel.Rename.assigned_names_distinct", "EsbuildModel.Rename.assigned_names_allowed",
                     "EsbuildModel.Slots.visible_iff_paths", "EsbuildModel.Slots.slots_separate_visible",
                     "EsbuildModel.Slots.nested_symbol_gets_slot", "EsbuildModel.Slots.slot_counts_exact",
                     "EsbuildModel.Slots.top_level_symbol_has_no_slot", "EsbuildModel.Slots.minified_names_separate_visible",
                     "EsbuildModel.Slots.number_names_separate_visible", "EsbuildModel.Slots.number_names_not_reserved",
                     "EsbuildModel.Slots.number_names_avoid_keywords_and_pinned", "EsbuildModel.Slots.number_other_symbols_keep_name",
                     "EsbuildModel.Slots.number_renamed_only_on_collision", "EsbuildModel.Slots.rename_loop_terminates"],
        "open": ["Parser.scope_trees_wellformed: real parser scope trees satisfy the preconditions of the slot theorems (a symbol declared in two sibling scopes is also declared in an enclosing one; each label declared once; no slot set before): the parser is not modelled, decided by the c15-scope search. MinifyRenamer.top_level_slots_above_nested (AllocateTopLevelSymbolSlots) and symbols linked across files are not modelled",
                 "Rename.mangled_property_consistent: FALSE across separately linked entry points (known finding c15-mangle-props-differ-between-entry-points)"],
        "gen_facts": [],
        "kernels": [("rename", 6000, 200000), ("slots", 20000, 200000)],
        "searches": [("c15-scope", 300, 8000), ("c15-mangle", 150, 4000), ("c10-split", 100, 3000)],
        "scope": "internal/renamer/renamer.go: the short-name generator (NumberToMinifiedName over the default and frequency-shuffled alphabets), AssignNamesByFrequency (reserved names, JSX capitalisation, labels, private names), AssignNestedScopeSlots + assignNestedScopeSlotsHelper (all namespaces, labels, top-level marking, UnionMax), ComputeReservedNames, and the whole NumberRenamer (assignName, findUnusedName, findNameUse(AndCount), assignNamesInScope/Recursive, AssignNamesByScope, NameForSymbol; IsIdentifier/ForceValidIdentifier on ASCII) are modelled; scope analysis in the parser, top-level slot allocation, pinned names under eval/with, and property mangling are decided by searches",
        "assumptions": ["slots: fewer than 2^32-1 symbols; Symbol.Link unset; ASCII names; one source file", "alphabets are read off the real minifier through its public method", "Node 20 as run-time oracle for binding behaviour; V8 deviates from Annex B.3.3 for same-named functions in nested blocks, which the generator avoids"],
    },
    "C16": {
        "lean_modules": ["EsbuildModel.Props.C16", "EsbuildModel.Props.C16Decoders", "EsbuildModel.Props.C16Vlq", "EsbuildModel.Props.C16Wtf8"],
        "theorems": ["EsbuildModel.SmSections.step_inv", "EsbuildModel.SmSections.flatten_never_panics",
                     "EsbuildModel.C16Decoders.parseMappings_total_and_safe", "EsbuildModel.C16Decoders.parseMappings_sorted",
                     "EsbuildModel.C16Decoders.goStable_sorts_any_total_preorder", "EsbuildModel.C16Decoders.goStable_total_for_any_less",
                     "EsbuildModel.C16Decoders.find_total_and_safe",
                     "EsbuildModel.C16Vlq.decodeVLQ_panics_iff", "EsbuildModel.C16Vlq.decodeVLQ_safe_on_encoder_output",
                     "EsbuildModel.C16Wtf8.wtf8_total", "EsbuildModel.C16Wtf8.wtf8_scan_terminates", "EsbuildModel.C16Wtf8.utf16ToString_total", "EsbuildModel.C16Wtf8.utf16_wtf8_roundtrip",
                     "EsbuildModel.C16Wtf8.stringToUTF16_utf16ToString", "EsbuildModel.C16Wtf8.conversions_meet_unicode",
                     "EsbuildModel.C16Wtf8.utf16EqualsString_correct"],
        "open": ["Total.no_crash_no_hang (every byte string, every option set, whole program): no model of the parsers exists; decided by the c16-fuzz search, which samples",
                 "Css.deep_nesting_linear: FALSE (known finding c16-css-deep-nesting-quadratic)"],
        "gen_facts": [],
        "kernels": [("smsections", 5000, 200000), ("decoders", 20000, 600000)],
        "searches": [("c16-fuzz", 1500, 60000)],
        "scope": "decoders of untrusted input that index into slices are modelled with explicit bounds: js_parser/sourcemap_parser.go ParseSourceMap after the JSON is taken apart (the mappings loop with int32 wrap semantics, all range checks, needSort, sources/sourcesContent/names bookkeeping over any number of sections, mappingArray.Less), Go 1.23 sort.Stable in full (insertionSort, symMerge, rotate, swapRange), sourcemap.SourceMap.Find, DecodeVLQ / DecodeVLQUTF16, helpers/utf.go (encodeWTF8Rune, DecodeWTF8Rune, UTF16ToString, UTF16EqualsString, StringToUTF16 with Go's range decoding); everything else is exercised by mutation fuzzing in isolated worker processes with memory and time limits",
        "assumptions": ["decoders: total sources and names over all sections below 2^31; section offsets are integers in the int32 range; UTF-16 units below 65536", "a worker that exceeds 6 GB of address space or 12 s per case is a violation; thresholds are arbitrary readings of 'within seconds'", "mutation fuzzing is not coverage-guided here (deterministic per seed so that failures replay)"],
    },
    "C17": {
        "lean_modules": ["EsbuildModel.Props.C17"],
        "theorems": ["EsbuildModel.Writes.failed_build_writes_nothing", "EsbuildModel.Writes.no_write_no_effects", "EsbuildModel.Writes.inputs_never_overwritten",
                     "EsbuildModel.Writes.no_conflicting_writes", "EsbuildModel.Writes.writes_are_reported_outputs", "EsbuildModel.Writes.deletes_only_stale_own_outputs",
                     "EsbuildModel.Writes.table_is_latest_outputs", "EsbuildModel.Writes.run_deletes_own_outputs"],
        "open": ["Writes.path_identity (two path strings that name one file are treated as one path): outside the model, decided by the c17-fs search with real-path identity"],
        "gen_facts": [],
        "kernels": [("writes", 400, 8000)],
        "searches": [("c17-fs", 300, 8000)],
        "scope": "the write/delete decisions of a build context (error gating, implicit allow-overwrite when not writing, input-clobber and conflicting-output refusals, stale-output deletion, unchanged-file skip) are modelled over abstract paths; path identity (symlinks, case), name templates and plugin stages are decided by the search on real directories",
        "assumptions": ["file snapshots (content hash + mtime) see every write; two writes of identical bytes within one mtime tick would be missed", "the cancellation step relies on a plugin calling Cancel from another goroutine; when it lands too late the step is an ordinary build"],
    },
    "C18": {
        "lean_modules": ["EsbuildModel.Props.C18"],
        "theorems": [
            "EsbuildModel.C18.lenprefix_injective",
            "EsbuildModel.C18.pieces_partition_output",
            "EsbuildModel.C18.final_hash_covers_dependencies",
            "EsbuildModel.C18.dependency_change_changes_preimage",
        ],
        "open": ["Hash.name_determines_bytes: FALSE on the current code (known finding c18-hash-ignores-reference-order): the pre-image omits which chunk each placeholder refers to"],
        "gen_facts": [],
        "kernels": [("pieces", 20000, 600000), ("chunkhash", 8000, 300000)],
        "searches": [("c18-hash", 120, 4000)],
        "scope": "internal/linker/linker.go: breakOutputIntoPieces, substituteFinalPaths (bytes), hashWriteLengthPrefixed/hashWriteUint32 and appendIsolatedHashesForImportedChunks (the traversal that feeds a chunk's final hash) modelled; the isolated hash pre-image (generateIsolatedHash) is reached by the search only",
        "assumptions": ["xxhash is treated as an injective function of its pre-image (collision freedom is an explicit hypothesis)", "component lengths < 2^32"],
    },
    "C19": {
        "lean_modules": ["EsbuildModel.Props.C19"],
        "theorems": [
            "EsbuildModel.C19.count_eq_len",
            "EsbuildModel.C19.pieces_partition_output",
        ],
        "gen_facts": [],
        "kernels": [("pieces", 20000, 600000)],
        "searches": [("c19-meta", 300, 12000), ("c19-nobundle", 200, 8000)],
        "binaries": ["hscan"],
        "scope": "internal/linker/linker.go: accurateFinalByteCount vs substituteFinalPaths, breakOutputIntoPieces modelled; metafile JSON assembly reached by the search only",
        "assumptions": [],
    },
    "C03": {
        "lean_modules": ["EsbuildModel.Props.C03", "EsbuildModel.Props.C01NumPrint", "EsbuildModel.Props.C03Fold", "EsbuildModel.Props.C03MiniJS"],
        "theorems": [
            "EsbuildModel.C03.toInt32_correct",
            "EsbuildModel.C03.toUint32_correct",
            "EsbuildModel.C01Num.print_preserves_value",
            "EsbuildModel.C01Num.hex_value",
            "EsbuildModel.C03Fold.fold_binary_correct", "EsbuildModel.C03Fold.fold_binary_never_panics",
            "EsbuildModel.C03Fold.fold_unary_correct", "EsbuildModel.C03Fold.check_equality_correct",
            "EsbuildModel.C03Fold.pow_special_cases", "EsbuildModel.C03Fold.rem_special_cases",
            "EsbuildModel.C03Fold.shifts_and_bitops_correct", "EsbuildModel.C03Fold.number_comparisons_correct",
            "EsbuildModel.C03Fold.string_compare_correct", "EsbuildModel.C03Fold.toNumber_sound",
            "EsbuildModel.C03Fold.toString_sound", "EsbuildModel.C03Fold.stringToEquivalentNumberValue_sound",
            "EsbuildModel.C03Fold.typeof_sound", "EsbuildModel.C03Fold.toBoolean_sound",
            "EsbuildModel.C03Fold.toNullOrUndefined_sound", "EsbuildModel.C03Fold.exampleParams_laws",
            "EsbuildModel.MiniJS.simplifyBooleanExpr_preserves_truthiness", "EsbuildModel.MiniJS.simplifyBooleanExpr_wf", "EsbuildModel.MiniJS.maybeSimplifyNot_equiv", "EsbuildModel.MiniJS.not_equiv", "EsbuildModel.MiniJS.toBooleanWithSideEffects_sound", "EsbuildModel.MiniJS.knownPrimitiveType_sound", "EsbuildModel.MiniJS.mangleIfExpr_equiv", "EsbuildModel.MiniJS.valuesLookTheSame_sound", "EsbuildModel.MiniJS.typeof_flag_regression", "EsbuildModel.MiniJS.mangleIfExpr_typeof_flag_regression", "EsbuildModel.MiniJS.exprCanBeRemovedIfUnused_sound", "EsbuildModel.MiniJS.simplifyUnusedExpr_equiv", "EsbuildModel.MiniJS.maybeSimplifyEqualityComparison_equiv", "EsbuildModel.MiniJS.toNullOrUndefinedWithSideEffects_sound", "EsbuildModel.MiniJS.checkEqualityIfNoSideEffects_sound", "EsbuildModel.MiniJS.typeofWithoutSideEffects_equiv", "EsbuildModel.MiniJS.joinWithLeftAssociativeOp_equiv", "EsbuildModel.MiniJS.demo_boundOK",
        ],
        "open": ["Simplify.unused_equiv: FALSE for unused object literals with computed keys (known finding c03-unused-computed-key; object literals are outside the MiniJS language)",
                 "MiniJS.wf (the typeof flag sits only on `typeof <identifier>`) is a hypothesis of the boolean-context and unused-expression theorems that --define substitution under typeof does not establish (observation recorded in DESIGN.md)",
                 "optional chains (TryToInsertOptionalChain), object/array/function/template/BigInt literals, assignments, in/instanceof/delete, purity annotations, statement-level mangling: not modelled, decided by the c03-prog search"],
        "gen_facts": [],
        "kernels": [("toint32", 30000, 1500000), ("numprint", 20000, 1000000), ("fold", 50000, 1000000), ("minijs", 100000, 2000000)],
        "searches": [("c03-prog", 500, 40000)],
        "scope": "internal/js_ast/js_ast_helpers.go: ToInt32/ToUint32 modelled on exact dyadic values; FoldBinaryOperator (all cases), ShouldFoldBinaryOperatorWhenMinifying, CheckEqualityIfNoSideEffects, CheckEqualityBigInt, ToNumberWithoutSideEffects, ToStringWithoutSideEffects, TryToStringOnNumberSafely (radix 10), StringToEquivalentNumberValue, TypeofWithoutSideEffects, ToBoolean/ToNullOrUndefinedWithSideEffects on literals, stringCompareUCS2, and the unary folds of js_parser.visitExprInOut modelled against an independent ECMA-262 arithmetic spec (Spec/JsArith.lean); the expression rewrites of the minifier (MaybeSimplifyNot, SimplifyBooleanExpr, MangleIfExpr except the optional-chain rule, SimplifyUnusedExpr, ExprCanBeRemovedIfUnused, MaybeSimplifyEqualityComparison, ValuesLookTheSame, KnownPrimitiveType, ToBoolean/ToNullOrUndefinedWithSideEffects, JoinWithLeftAssociativeOp) modelled on an expression language with an independent big-step semantics with traces (Spec/MiniJS.lean); the minified number printing of js_printer.printNonNegativeFloat ('.5', '1e3', '12e3', hex form) modelled as text rewriting with value preservation; all other minifier rewrites are reached by the Node differential search only",
        "assumptions": ["MiniJS: BoundOK (declared identifiers never throw: esbuild's documented TDZ assumption, no getters on globals); numbers are NaN, -0, integers, ±Infinity; `this` of method calls not modelled", "Go's + - * / on float64 and the generic part of math.Pow are the IEEE operations JavaScript uses (parameters shared by model and spec; the fold driver instantiates them with exact correctly rounded arithmetic that the correspondence checks)", "PowLaws: the engine's implementation-approximated power gives 1 for base 1 and x for exponent 1", "number literals are float64; EAnnotation never wraps a primitive literal; standard prototypes unmodified", "math.Mod and float->int truncation are exact (IEEE-754)", "generated programs exclude the documented minifier assumptions by construction (gen/js.go header)"],
    },
    "C14": {
        "lean_modules": ["EsbuildModel.Props.C14"],
        "theorems": [
            "EsbuildModel.C14.es_monotone",
            "EsbuildModel.C14.overrides_both_ways",
            "EsbuildModel.C14.every_feature_listed",
            "EsbuildModel.C14.features_fit",
        ],
        "gen_facts": ["CompatTable.lean"],
        "kernels": [("compat", 5000, 200000)],
        "searches": [("c14-scan", 300, 20000)],
        "binaries": ["hscan"],
        "scope": "internal/compat: compareVersions, isVersionSupported, UnsupportedJSFeatures, ApplyOverrides over the table regenerated from js_table.go; the lowering passes themselves are reached by the feature-scanner search only",
        "assumptions": ["the feature scanner (harness/cmd/hscan) relies on esbuild's own parser to build the AST it walks"],
    },
    "C02": {
        "lean_modules": ["EsbuildModel.Props.C02", "EsbuildModel.Props.C02Parts"],
        "theorems": [
            "EsbuildModel.C02.dataurl_roundtrip",
            "EsbuildModel.C02.dataurl_no_stripped_bytes",
            "EsbuildModel.C02.chunk_file_order",
            "EsbuildModel.C02.chunk_file_order_is_esm_evaluation_order",
            "EsbuildModel.C02Parts.parts_emitted_once", "EsbuildModel.C02Parts.parts_emitted_exactly",
            "EsbuildModel.C02Parts.parts_of_a_file_in_source_order", "EsbuildModel.C02Parts.imports_of_a_part_come_first",
            "EsbuildModel.C02Parts.wrapped_blocks_first", "EsbuildModel.C02Parts.file_level_order_is_false",
            "EsbuildModel.C02Parts.single_part_file_hoists_plain_sibling", "EsbuildModel.C02Parts.runtime_part0_is_last",
            "EsbuildModel.C02Parts.part0_precedes_its_imports",
        ],
        "open": ["Link.order_is_eval_order: FALSE with --tree-shaking=false (known finding c02-order-no-tree-shaking; witnessed inside the model by C02Parts.single_part_file_hoists_plain_sibling)",
                 "the parser's placement of import statements in the first parts of a file (which turns the part-level theorem imports_of_a_part_come_first into module-level evaluation order) is not modelled"],
        "gen_facts": [],
        "kernels": [("dataurl", 20000, 600000), ("order", 1500, 60000)],
        "searches": [("c02-graph", 240, 12000)],
        "scope": "internal/helpers/dataurl.go: EncodeStringAsPercentEscapedDataURL modelled; internal/linker/linker.go: findImportedPartsInJSOrder (file and part order of a chunk) modelled in full and tied through the chunk-order observation hook on real builds; export matching, wrappers and runtime helpers are reached by the native-vs-bundle search only",
        "assumptions": ["Node 20 is the reference for native module semantics"],
    },
    "C01": {
        "lean_modules": ["EsbuildModel.Props.C01", "EsbuildModel.Props.C01NumPrint", "EsbuildModel.Props.C13Prec", "EsbuildModel.Props.C01LexNum"],
        "theorems": ["EsbuildModel.C01.string_literal_value_preserved",
                     "EsbuildModel.C01Num.rewrite_preserves_value", "EsbuildModel.C01Num.rewrite_not_longer",
                     "EsbuildModel.C01Num.hex_value", "EsbuildModel.C01Num.smallIntToBytes_decimal", "EsbuildModel.C01Num.smallIntToBytes_negative",
                     "EsbuildModel.C01Num.parseSmallInt_smallIntToBytes", "EsbuildModel.C01Num.print_preserves_value", "EsbuildModel.C01Num.print_not_longer",
                     "EsbuildModel.C13Prec.parse_print", "EsbuildModel.C13Prec.minified_no_glue", "EsbuildModel.C13Prec.optable_agrees_with_grammar",
                     "EsbuildModel.C01Lex.lex_number_value", "EsbuildModel.C01Lex.lex_number_complete_partial",
                     "EsbuildModel.C01Lex.legacy_int_with_tail_split", "EsbuildModel.C01Lex.lex_bigint_value",
                     "EsbuildModel.C01Lex.lex_bigint_complete", "EsbuildModel.C01Lex.lex_dots", "EsbuildModel.C01Lex.driver_rndOK"],
        "open": ["C01Lex.lex_number_complete (without hypothesis hnd): FALSE of the code — `0789.5`, `0789e1` (valid sloppy-mode literals) are split or rejected; witness theorem legacy_int_with_tail_split; known finding c13-nonoctal-decimal-with-fraction",
                 "JSON mode of the lexer and error message texts are not modelled; maximal munch is proved in the form of completeness under FollowOK"],
        "gen_facts": ["OpTable.lean"],
        "kernels": [("quote", 30000, 1500000), ("numprint", 20000, 1000000), ("prec", 40000, 1000000), ("lexnum", 40000, 1000000)],
        "searches": [("c01-prog", 500, 40000)],
        "scope": "internal/js_printer/js_printer.go: printUnquotedUTF16 (all escaping branches incl. line-limit continuations, </script, ${, surrogates, ASCII-only with/without \\u{...}) modelled; printNonNegativeFloat (text rewriting after FormatFloat, hex form, <1000 fast path, needSpaceBeforeDot flag), smallIntToBytes, parseSmallInt modelled (printNumber's sign/NaN/Infinity handling is not); the rest of the printer/parser is reached by the Node differential search only; internal/js_lexer/js_lexer.go parseNumericLiteralOrDot in full (NotJSON mode): TDot/TDotDotDot, decimal literals with '.', exponent and '_' separators, the uint32 fast path, 0b/0o/0x literals with float64 digit accumulation and the exact math/big re-conversion above 2^53, legacy octal, 08/089.5/0789 forms, BigInt literals, IsLegacyOctalLiteral, every SyntaxError with its position, identifier-start-after-literal — against the ECMA-262 12.9.3 + Annex B numeric literal grammar (Spec/JsNumericLiteral.lean)",
        "assumptions": ["lexnum: strconv.ParseFloat returns the IEEE round-to-nearest-even double of the decimal value of its text (parameter R; the driver instantiates it with an independent exact reference conversion, so the correspondence also checks ParseFloat on every sampled text); float64(uint32), Number*base+digit on integer-valued doubles and big.Float.Float64 are round-to-nearest-even of the exact integer (proved for the driver's instance: driver_rndOK); js_ast.IsIdentifierStart beyond ASCII is a parameter", "strconv.FormatFloat(x,'g',-1,64) is trusted: its text is an input of the model and is assumed to denote x (shortest round trip); its SHAPE (Spec.Num.ffShape) is checked on every sampled output by the numprint kernel", "strconv.FormatUint(n,16) modelled as lower-case hex digits (checked by correspondence)", "utf8.EncodeRune is the standard UTF-8 encoder (validated by correspondence, not proved)", "Spec.JsString is my reading of ECMA-262 SV/TV for literal bodies"],
    },
    "C13": {
        "lean_modules": ["EsbuildModel.Props.C13", "EsbuildModel.Props.C13Prec"],
        "theorems": ["EsbuildModel.C13.string_literal_body_valid",
                     "EsbuildModel.C13Prec.optable_agrees_with_grammar", "EsbuildModel.C13Prec.stratum_is_parser_level",
                     "EsbuildModel.C13Prec.parse_print", "EsbuildModel.C13Prec.parse_print_normalised",
                     "EsbuildModel.C13Prec.normComma_of_wellFormed", "EsbuildModel.C13Prec.print_injective",
                     "EsbuildModel.C13Prec.minified_tokens", "EsbuildModel.C13Prec.minified_no_glue"],
        "open": ["Accept.all_renderings: `var await = 1; await` (script goal) is rejected — known finding c13-await-identifier-in-script",
                 "Prec: optional chains, await/yield/spread/arrow, templates, object/array/function/class literals, private names, MinifySyntax rewrites, statement-start parentheses are not modelled; semantic equivalence of comma re-association is stated, not proved",
                 "Parser.rejects_invalid: esbuild's parser accepts some invalid programs and repairs them (`x++(y)`, `a++.b`, `new delete (a)()`, `y = (a,b,)`): outside the property (its output is valid), recorded"],
        "gen_facts": ["OpTable.lean"],
        "kernels": [("quote", 30000, 1500000), ("prec", 40000, 1000000)],
        "searches": [("c13-syntax", 1500, 100000)],
        "scope": "string/template literal bodies (printUnquotedUTF16) modelled; js_printer.go printExpr for EIdentifier, ENumber, EUnary, EBinary (binaryExprVisitor incl. the ?? and ** special cases, forbidIn), EIf, EDot, EIndex, ECall, ENew (isNewTarget), printSpaceBeforeOperator / printSpaceBeforeIdentifier / needSpaceBeforeDot modelled over the operator table REGENERATED from js_ast.go (levels, associativity, texts), against an independent ECMA-262 expression grammar (with [In]) and maximal-munch spec; the rest of the statement/expression grammar validity, acceptance of valid input and the fixed-point property are decided by V8 (vm.Script / vm.SourceTextModule) in the search",
        "assumptions": ["prec: numeric leaves are non-negative integers; the 'was originally' flags of ECall/EUnary are set as the parser sets them; the prec kernel cross-checks acceptance with Node", "V8 (Node 20) is the reference parser; one known V8 bug (destructuring assignment in call arguments) is cross-checked with esbuild's own parser"],
    },
    "C09": {
        "lean_modules": ["EsbuildModel.Props.C09", "EsbuildModel.Props.C09Watch"],
        "theorems": [
            "EsbuildModel.C09.js_cache_key_covers",
            "EsbuildModel.C09.css_cache_key_covers",
            "EsbuildModel.C09.cache_transparent",
            "EsbuildModel.C09Watch.watch_complete",
            "EsbuildModel.C09Watch.undetected_edit_keeps_build",
            "EsbuildModel.C09Watch.build_answers_are_fresh",
            "EsbuildModel.C09Watch.warm_ok",
            "EsbuildModel.C09Watch.run_eq_of_answers",
            "EsbuildModel.C09Watch.no_conflict_on_files",
        ],
        "open": ["Watch: the pkg/api watcher's polling / sampling loop and the resolver and bundler above fs.FS are not modelled (decided by the c09-history search); three orders of operations on one path that is NOT a file remain lossy (hypothesis H4, each witnessed by an example and run on the real code)"],
        "gen_facts": ["CacheKey.lean"],
        "kernels": [("watch", 2000, 60000)],
        "searches": [("c09-history", 60, 3000)],
        "scope": "AST cache hit rule (cache_ast.go) and the structural part of its key (js_parser/css_parser Options.Equal) over field lists regenerated from the source; internal/fs/fs_real.go realFS.ReadDirectory (entries cache, watchData, keep-file-state branch), ReadFile, ModKey, kind/kindOfPath recording (watchKinds), WatchData (stateFileNeedModKey resolution, all six predicates, kind/symlink wrapper); internal/fs/fs.go DirEntries.Get, SortedKeys, Entry.Kind/Symlink; internal/cache/cache_fs.go FSCache.ReadFile are modelled (Impl/Watch.lean) and proved complete: an edit no predicate reports cannot change any answer a deterministic build got; resolver caches and whole rebuilds are reached by the rebuild-vs-fresh search only",
        "assumptions": ["H1: an equal usable mod key implies the same file type and content", "H2: the file system is unchanged between the build's reads and WatchData()", "H3: no directory entry is replaced by one differing only in case", "H4: no two operations conflict on one watchData slot (directory read then content read on a non-file; directory read then ModKey on a missing path; content read then directory read on a missing path)", "answers are compared up to the error KIND and the mod-key value; Unix, ASCII names, no .zip / virtual path components", "parse is a function of (source text, options)", "field lists are extracted by go/ast from the current source (harness/cmd/extract/cachekey.go)"],
    },
    "C11": {
        "lean_modules": ["EsbuildModel.Props.C11", "EsbuildModel.Props.C11PkgExports"],
        "theorems": ["EsbuildModel.C11.matching_pattern_keys_never_tie",
                     "EsbuildModel.C11.model_refines_spec_exports", "EsbuildModel.C11.model_refines_spec_imports",
                     "EsbuildModel.C11.node_resolves_iff_esbuild_resolves", "EsbuildModel.C11.esbuild_refuses_when_node_throws",
                     "EsbuildModel.C11.first_matching_condition_wins", "EsbuildModel.C11.exact_null_blocks",
                     "EsbuildModel.C11.most_specific_null_blocks", "EsbuildModel.C11.less_is_strict_weak_order"],
        "open": ["the 14 documented differences D1-D14 between esbuild's exports/imports resolution and Node's documented algorithm (Props/C11PkgExports.lean) are excluded by the hypotheses exportsOK/importsOK, not proved away; D1 (pattern match whose first segment is '..' or 'node_modules') is a genuine defect and was fixed or recorded (see known-findings.jsonl)"],
        "gen_facts": [],
        "kernels": [("exports", 4000, 100000), ("pkgexports", 20000, 300000)],
        "searches": [("c11-resolve", 960, 30000)],
        "scope": "internal/resolver/package_json.go: esmPackageExportsResolve, esmPackageImportsResolve, esmPackageImportsExportsResolve, esmPackageTargetResolve (conditions, arrays, null, invalid targets), findInvalidSegment, expansionKeysArray.Less + sort.Stable, parseImportsExportsMap (pjInvalid / expansion keys), path.Join/Clean modelled and proved to refine Node's documented algorithm (Spec/NodeExports.lean, validated on 9000 cases against Node 20 with harness/nodecheck) under explicit hypotheses; file probing, node_modules lookup, main fields and symlinks are decided by the three-way search against Node itself",
        "assumptions": ["esbuild always passes packageURL '/'", "an object's key list stands for a JS object (pairwise distinct keys)", "the spec models URLs as plain paths: %, ?, # have no special meaning; 'valid URL' is approximated by 'has a scheme'", "the pkgexports kernel observes statuses through the resolver's error notes; requests contain no % ? *", "Node 20 (createRequire().resolve / import.meta.resolve) is the reference", "esbuild is run with platform=node, mainFields=[main], conditions=[node-addons] (Node's own set)"],
    },
    "C04": {
        "lean_modules": ["EsbuildModel.Props.C04", "EsbuildModel.Props.C03MiniJS"],
        "theorems": ["EsbuildModel.Shake.entry_live", "EsbuildModel.Shake.deps_of_live_part_are_live", "EsbuildModel.Shake.file_of_live_part_is_live",
                     "EsbuildModel.Shake.part_with_side_effects_is_kept", "EsbuildModel.Shake.dropped_part_was_removable",
                     "EsbuildModel.Shake.dropped_part_is_unreferenced", "EsbuildModel.Shake.imported_file_with_side_effects_is_kept",
                     "EsbuildModel.Shake.kept_unless_annotated", "EsbuildModel.Shake.live_is_least", "EsbuildModel.Shake.no_tree_shaking_keeps_entry_parts",
                     "EsbuildModel.MiniJS.exprCanBeRemovedIfUnused_sound", "EsbuildModel.MiniJS.simplifyUnusedExpr_equiv"],
        "open": ["Shake.purity_sound (CanBeRemovedIfUnused implies no observable effect): decided by the c04-shake search against Node, not by a theorem"],
        "gen_facts": [],
        "kernels": [("shake", 250, 6000)],
        "searches": [("c04-shake", 200, 6000)],
        "scope": "liveness marking (markFileLiveForTreeShaking/markPartLiveForTreeShaking) modelled over the real part graph; the parser's purity flags and the linker's symbol-use dependencies are inputs of the model",
        "assumptions": ["the observation hook reports the part graph the marking ran on (it runs right after treeShakingAndCodeSplitting inside Link)", "Node 20 as run-time oracle; `accessor` cases use the lowered no-tree-shaking bundle as reference"],
    },
    "C05": {
        "lean_modules": ["EsbuildModel.Props.C05", "EsbuildModel.Props.C05Assign", "EsbuildModel.Props.C05Calls"],
        "theorems": ["EsbuildModel.Lower.fin_ok", "EsbuildModel.Lower.capture_ok", "EsbuildModel.Lower.lowerC_good", "EsbuildModel.Lower.lowering_preserves_behaviour",
                     "EsbuildModel.Lower2.lowerC_good", "EsbuildModel.Lower2.lowering2_preserves_behaviour",
                     "EsbuildModel.Lower2.logical_assign_lowering_preserves_behaviour",
                     "EsbuildModel.Lower2.exponent_assign_lowering_preserves_behaviour",
                     "EsbuildModel.Lower2.template_lowering_preserves_behaviour",
                     "EsbuildModel.Lower2.powOp_faithful", "EsbuildModel.Lower2.evalC_nm", "EsbuildModel.Lower2.evalC_keeps",
                     "EsbuildModel.Lower2.lowerC_bound", "EsbuildModel.Lower2.evalT_tm",
                     "EsbuildModel.Lower2.reassigned_base_example_differs",
                     "EsbuildModel.Lower2.key_assigns_base_example_differs", "EsbuildModel.Lower2.bigint_pow_differs",
                     "EsbuildModel.Lower2.optional_call_lowering_preserves_behaviour", "EsbuildModel.Lower2.tagged_template_lowering_preserves_behaviour",
                     "EsbuildModel.Lower2.delete_chain_lowering_preserves_behaviour", "EsbuildModel.Lower2.lowering2_preserves_state",
                     "EsbuildModel.Lower2.template_cache_expression_is_GetTemplateObject", "EsbuildModel.Lower2.template_object_is_cached",
                     "EsbuildModel.Lower2.template_objects_of_different_sites_differ", "EsbuildModel.Lower2.template_uncached_would_differ",
                     "EsbuildModel.Lower2.evalC_inv", "EsbuildModel.Lower2.paren_null_callee_example_differs", "EsbuildModel.Lower2.this_reread_example_differs"],
        "open": ["Lower2.safe_hypothesis: the behaviour-preservation theorems need the hypothesis Safe (an identifier base / key of a compound assignment target is not reassigned while the target is evaluated): FALSE without it on the real code (known finding c05-assign-target-reread-after-mutation); Safe also covers (1) `o.p?.()`, `(o?.p)()`, `(o?.p)`x``: an identifier base is re-read as the `this` argument after the key/getter ran (same finding), (2) `(o?.p)(args)` / `(o?.p)`${s}``: a null/undefined callee makes the lowered `.call` throw before the arguments are evaluated (known finding c05-paren-optional-callee-null-args-skipped)",
                 "Lower.other_passes (classes, private names, accessors, static blocks, object rest/spread, destructuring, async, generators, for-await, using): not modelled; decided by the c05-prog search in Node, `using` by nothing (Node 20 cannot run it)",
                 "Lower.bigint_pow: FALSE on the real code (known finding c05-bigint-pow)"],
        "gen_facts": [],
        "kernels": [("lower", 8000, 300000), ("lower2", 8000, 300000), ("lower2sem", 2000, 30000)],
        "searches": [("c05-prog", 250, 8000)],
        "scope": "js_parser_lower.go lowerAssignmentOperator, lowerLogicalAssignmentOperator, lowerNullishCoalescingAssignmentOperator, lowerExponentiationAssignmentOperator (non-private paths), lowerNullishCoalescing, lowerOptionalChain in full except super/private names (property, index and ECall links, startsWithCall, thisArg capture, storeThisArgForParentOptionalChain, delete with value true), lowerParenthesizedOptionalChain, lowerTemplateLiteral untagged and tagged (__template cache temporary, .call(this, ...) when the tag is a lowered chain), the visitors of ECall/EDot/EIndex/EUnary(delete)/ETemplate as far as they pass storeThis/thisArgFunc/thisArgWrapFunc/childContainsOptionalChain around, and captureValueWithPossibleSideEffects are modelled on an expression language with mutable variables, property get/set and toString/valueOf as world events (Impl/Lower2.lean; its evaluators are validated against Node 20 by the lower2sem kernel); the lowering of optional property chains and nullish coalescing is also modelled as a function on a small expression language with a side-effect semantics (calls whose results may depend on the whole call history, TypeError on member access of null/undefined) and proved behaviour preserving for every expression; the model's output is compared structurally (S-expression of the real lowered AST) with the real parser",
        "assumptions": ["Lower2: reading the `call` property of a callee is unobservable and yields Function.prototype.call for functions (a Proxy callee can observe it: inherent to the .call technique); at most 2 arguments / template substitutions per call, no spread; tagged-template strings are cooked = raw", "Lower2: temporaries are fresh symbols nobody else touches; String.prototype.concat and Math.pow are the built-ins; ToPropertyKey runs at every read and every write (as V8 does); numbers are integers or NaN with arithmetic a world parameter", "Lower (first model): identifiers are bound variables whose reads have no effect and whose value does not change during the evaluation of one expression (the fragment has no assignments)", "esbuild also folds literal operands (`null?.x`, `1 ?? y`) at compile time; the generator keeps literals out of tested positions", "Node 20 as run-time oracle for everything else; lowered `await` microtask timing excluded as in the property"],
    },
    "C06": {
        "lean_modules": ["EsbuildModel.Props.C06", "EsbuildModel.Props.C03Fold"],
        "theorems": ["EsbuildModel.TsEnum.inlined_value_is_runtime_value", "EsbuildModel.TsEnum.lookup_run", "EsbuildModel.TsEnum.values_length", "EsbuildModel.TsEnum.first_auto_is_zero",
                     "EsbuildModel.C03Fold.fold_binary_correct", "EsbuildModel.C03Fold.fold_unary_correct"],
        "open": ["TsErase.typed_eq_untyped (type erasure leaves the emitted code unchanged): no model of the parser; decided by the c06-erase search",
                 "TsErase.minified_names: FALSE under --minify-identifiers (known finding c06-minified-names-depend-on-type-text)"],
        "gen_facts": [],
        "kernels": [("tsenum", 6000, 200000), ("fold", 30000, 600000)],
        "searches": [("c06-erase", 4000, 150000), ("c06-tsrun", 240, 6000)],
        "scope": "enum member values (auto-increment, integer/string constant folding, references to earlier members) and the emitted enum closure are modelled; type erasure and ts-vs-js loader equality are decided by marker-based typed/untyped program pairs; namespaces, merged enums, cross-file const enums and parameter properties by generated programs whose expected trace comes from the generator's reading of TypeScript's scoping rules",
        "assumptions": ["enum arithmetic is modelled on integers in the safe range only (no signed zero, no fractions, no NaN)", "the typed/untyped generator emits only syntax TypeScript 5 accepts; the expected traces of c06-tsrun encode my reading of checker.ts resolveName (no tsc in the sandbox)"],
    },
    "C08": {
        "lean_modules": ["EsbuildModel.Props.C08"],
        "theorems": ["EsbuildModel.Det.less_strict_weak_order", "EsbuildModel.Det.unordered_iff_same_key", "EsbuildModel.Det.sortMsgs_sorted",
                     "EsbuildModel.Det.sorted_msgs_independent_of_arrival_order", "EsbuildModel.Det.serializer_runs_in_index_order",
                     "EsbuildModel.Det.every_map_iteration_is_sorted_or_reviewed"],
        "open": ["Det.whole_build_deterministic: scheduling and path independence of the whole pipeline are decided by repeated real builds (search), not by a theorem; map iteration is covered by the regenerated MapRanges fact only up to my review of the order-insensitive sites (Impl/MapRangeReview.lean)"],
        "gen_facts": ["MapRanges.lean"],
        "binaries": ["mapranges"],
        "kernels": [("det", 20000, 400000)],
        "searches": [("c08-det", 60, 1500)],
        "scope": "the diagnostics comparator (logger.SortableMsgs.Less + sort.Stable) and helpers.Serializer are modelled and proved order-independent; every `for ... range <map>` loop of internal/{linker,bundler,graph,resolver,js_printer,css_printer,renamer} and pkg/api is extracted with go/packages (type-checked) on every run and must be collect-then-sort or on the reviewed list; everything else that feeds output order (sorted cross-chunk imports/exports, renamer slot order, mangle-props order, hashing, typo suggestions) is exercised by the search under varying GOMAXPROCS, per-file load delays, concurrent sibling builds and a moved project",
        "assumptions": ["Go's < on strings is a strict total order (strings are sent to the model as ranks)", "scheduling diversity comes from GOMAXPROCS changes and random per-file load delays; the Go scheduler is not controlled"],
    },
    "C10": {
        "lean_modules": ["EsbuildModel.Props.C10", "EsbuildModel.Props.C02", "EsbuildModel.Props.C02Parts"],
        "theorems": ["EsbuildModel.Split.reach_is_reachability", "EsbuildModel.Split.chunk_edge_strict", "EsbuildModel.Split.no_static_cycle",
                     "EsbuildModel.Split.edges_between_existing_chunks", "EsbuildModel.Split.live_file_in_exactly_one_chunk",
                     "EsbuildModel.Split.dead_file_in_no_chunk", "EsbuildModel.Split.named_import_covered",
                     "EsbuildModel.Split.entry_chunk_loads_reachable", "EsbuildModel.Split.shared_file_single_instance",
                     "EsbuildModel.C02.chunk_file_order", "EsbuildModel.C02Parts.parts_emitted_once", "EsbuildModel.C02Parts.parts_emitted_exactly",
                     "EsbuildModel.C02Parts.imports_of_a_part_come_first", "EsbuildModel.C02Parts.wrapped_blocks_first"],
        "open": ["Split.runtime_equiv (each module's effects in original order, shared state observed by all entries): decided by the search against Node, not by a theorem",
                 "Split.self_dynamic_import: FALSE on the real code (known finding c10-self-dynamic-import)"],
        "gen_facts": [],
        "kernels": [("split", 1500, 40000), ("order", 1000, 40000)],
        "searches": [("c10-split", 150, 4000)],
        "scope": "chunk assignment (entry-point bit sets over static edges, dynamic-import entry points, one chunk per distinct key, entry facade chunks) and static cross-chunk import edges are modelled at file granularity and compared with the real linker through the metafile; cross-chunk export naming, binding liveness across chunks and run-time behaviour are decided by the search (Node runs every order of entry points in one runtime against the unsplit bundles)",
        "assumptions": ["the metafile reports chunk membership and chunk imports faithfully (its consistency is C19)", "Node 20 module loader as the run-time oracle"],
    },
    "C12": {
        "lean_modules": ["EsbuildModel.Props.C12", "EsbuildModel.Props.C12CssNumber", "EsbuildModel.Props.C12Box"],
        "theorems": ["EsbuildModel.C12.compact_expand", "EsbuildModel.C12.canCompact_iff", "EsbuildModel.C12.compact_preserves_value",
                     "EsbuildModel.C12Num.mangleNumber_preserves_value", "EsbuildModel.C12Num.shiftDot_scales_value",
                     "EsbuildModel.C12Num.shiftDot_refuses_exponent", "EsbuildModel.C12Num.mangleDimension_preserves_time",
                     "EsbuildModel.C12Box.box_collapse_preserves_sides_partial", "EsbuildModel.C12Box.minifyDecls_never_panics",
                     "EsbuildModel.C12Box.output_not_longer", "EsbuildModel.C12Box.merged_value_expands_to_sides",
                     "EsbuildModel.C12Box.merged_value_is_shortest", "EsbuildModel.C12Box.logical_property_counterexample",
                     "EsbuildModel.C12Box.lowering_can_lengthen", "EsbuildModel.C12Box.toy_facts"],
        "open": ["Import.order_equiv: FALSE for duplicate imports under cascade layers (known finding c12-import-dedupe-important-layers)", "Box.collapse_equiv without the NoFlow hypothesis: FALSE (known finding c12-box-collapse-ignores-logical-properties; theorem logical_property_counterexample)",
                 "box theorem with inset lowering on, the border-radius tracker, nested rules / at-rules between declarations: not covered by the cascade theorem (model and correspondence cover inset lowering)"],
        "gen_facts": [],
        "kernels": [("csshex", 20000, 500000), ("numprint", 20000, 1000000), ("cssbox", 20000, 300000)],
        "searches": [("c12-cascade", 600, 40000)],
        "scope": "hex colour shortening (compactHex/expandHex/parseHex) and number mangling (css_parser.go mangleNumber, shiftDot, mangleDimension incl. strings.EqualFold on ms/s) modelled; box shorthand collapsing modelled in full (css_decls_box.go: isSafeWith, includeUnitOf, updateSide, mangleSides, mangleSide, compactRules; css_decls.go: expandTokenQuad, compactTokenQuad, lowerInset, the margin/padding/inset cases of processDeclarations; duplicate-declaration removal) against an independent one-rule cascade spec (Spec/BoxCascade.lean); rule merging, colour/calc rewriting, lowering and @import bundling are decided by the independent cascade evaluator in the search",
        "assumptions": ["CssFacts of the user agent (box theorem): numeric tokens and auto contain no substitution; unit optional for zero lengths; the four longhands share one grammar; shorthand = <longhand>{1,4}; 0, percentages, absolute/em lengths and auto are accepted (false for negative paddings: recorded); acceptance of other lengths depends on the unit only", "the cascade evaluator (harness/cmd/hapi/cascade.go) is my reading of CSS Cascade 5 for compound selectors; there is no browser in the sandbox", "8-bit colour channels may differ by one step (alpha percentages)"],
    },
    "C20": {
        "lean_modules": ["EsbuildModel.Props.C20", "EsbuildModel.Props.C20Stdio"],
        "theorems": ["EsbuildModel.Ctx.inv_init", "EsbuildModel.Ctx.inv_step", "EsbuildModel.Ctx.inv_run", "EsbuildModel.Ctx.one_build_at_a_time",
                     "EsbuildModel.Ctx.wait_returns_after_build_end", "EsbuildModel.Ctx.no_deadlock", "EsbuildModel.Ctx.fresh_build_sees_all_edits",
                     "EsbuildModel.Ctx.rebuild_joins_active_build", "EsbuildModel.Ctx.disposed_context_starts_no_build",
                     "EsbuildModel.C20Stdio.codec_roundtrip_wire", "EsbuildModel.C20Stdio.codec_roundtrip",
                     "EsbuildModel.C20Stdio.decoded_value_canonical", "EsbuildModel.C20Stdio.decodePacket_total",
                     "EsbuildModel.C20Stdio.decoder_fuel_irrelevant", "EsbuildModel.C20Stdio.visit_consumes",
                     "EsbuildModel.C20Stdio.decodePacket_panics_on_bare_id", "EsbuildModel.C20Stdio.decodePacket_no_panic_partial",
                     "EsbuildModel.C20Stdio.truncated_packet_never_accepted", "EsbuildModel.C20Stdio.framing_total",
                     "EsbuildModel.C20Stdio.framing_spec", "EsbuildModel.C20Stdio.framing_chunk_independent",
                     "EsbuildModel.C20Stdio.framing_same_stream", "EsbuildModel.C20Stdio.framing_delivers",
                     "EsbuildModel.C20Stdio.service_chunk_independent", "EsbuildModel.C20Stdio.sync_response_matches_request",
                     "EsbuildModel.C20Stdio.session_answers"],
        "open": ["Ctx.data_race_freedom, watch/serve paths: not modelled; data races are searched with the Go race detector",
                 "C20Stdio.decodePacket_never_panics: FALSE of the code for malformed packets from the host process (bytes[0] without a length check; explicit panic for unknown kinds); the host is trusted by design, so this is outside the property (every REQUEST gets a response) and recorded here only",
                 "serve-request callbacks and the contents of the watch / serve loops are not modelled"],
        "gen_facts": [],
        "kernels": [("ctx", 600, 12000), ("stdio", 3000, 60000)],
        "searches": [("c20-plugins", 200, 5000), ("c20-race", 60, 1500), ("c20-watch", 12, 300)],
        "binaries": ["hapi-race", "hinternal-race"],
        "scope": "the mutex-protected steps of internalContext.rebuild / Cancel / Dispose are modelled as an interleaving state machine over any number of threads; real histories (stamped calls, returns, build starts and ends, returned build identity, versions seen) are linearised by the harness and replayed on the model; plugin callback ordering is checked from stamped logs; data races by the race detector. cmd/esbuild/stdio_protocol.go (readUint32, writeUint32, readLengthPrefixedSlice, encodePacket, decodePacket) is transcribed with explicit PANIC, the read/framing loop of runService and the synchronous part of handleIncomingPacket (cmd/esbuild/service.go) are modelled; the real routines run through cmd/esbuild/verif_codec_test.go (go test -tags verif), whole runService sessions over pipes with exact read chunks",
        "assumptions": ["stamps are taken outside the context's mutex, so the harness chooses the moments of the locked steps inside the observed windows (two strategies); a history is rejected only if no choice fits", "scheduling is perturbed with random delays, not enumerated: an interleaving that never occurs in the runs is covered by the theorems only, not by the tie", "watch mode and serve mode are not exercised", "stdio: Go int is 64 bit; make(count) succeeds (the generator clamps counts to 65535); no pings, active builds or outstanding requests in the modelled sessions"],
    },
}


# ---------------------------------------------------------------------------------------------------------
# Work packages integrated later: each call extends the property's registration (lists are appended, texts joined).
def _extend(prop, **kw):
    p = PROPS[prop]
    for k, v in kw.items():
        if isinstance(v, list):
            p.setdefault(k, [])
            p[k] = list(p[k]) + v
        else:
            p[k] = (p.get(k, "") + "; " + v) if p.get(k) else v


_HELD = lambda *a, **k: None  # a registration that is held back while its model is being brought up to a fix in /repo


def _thms(ns, names):
    return ["EsbuildModel.%s.%s" % (ns, n) for n in names.split()]


# metafile (C19): byte attribution of the metafile
_extend("C19",
    lean_modules=["EsbuildModel.Props.C19Metafile"],
    theorems=_thms("C19Meta", "output_is_concatenation_of_contributions attribution_sums_below_size attribution_is_contribution zero_iff_no_bytes "
                   "wellKeyed_is_checked css_attribution_sums_below_size css_keys_distinct css_attribution_is_contribution css_zero_iff_no_bytes "
                   "reported_bytes_is_length css_reported_bytes_is_length dec_value entry_numeral json_text_lists_entries css_json_text_lists_entries input_bytes_numeral"),
    open=["C19Meta: the text in front of the first / behind the last compile result (hashbang, banner, directives, IIFE wrapper, cross-chunk code, entry-point tail, legal comments at end of file, footer) is an input of the model (nobody's bytes), not derived"],
    kernels=[("metafile", 2000, 60000)],
    scope="internal/linker/linker.go: the compile-result loop of generateChunkJS (file-path comments, the newline in front of them, prevFileNameComment, OmitFromSourceMapsAndMetafile, metaOrder/metaBytes) and of generateChunkCSS; breakJoinerIntoPieces incl. the Joiner.Contains shortcut; breakOutputIntoPieces per slice and on the whole chunk; jsonMetadataChunkCallback (accurateFinalByteCount per input, text of inputs/bytes, MaybeRemoveWhitespace); the head of the output JSON (imports/exports/entryPoint/cssBundle) and its path substitution; what generateChunksInParallel appends (legal-comment link, source-map comment, EnsureNewlineAtEnd) and len(outputContents); internal/bundler/bundler.go: the input metadata chunk (bytes/imports/format) and generateMetadataJSON — modelled (Impl/Metafile.lean) and tied through the metafile hook on real builds",
    assumptions=["metafile: WellKeyed (the unique-key prefix occurs in the chunk only as the head of a complete valid key lying inside one joined part) is decidable (wellKeyedB, proved equivalent) and reported for every real chunk by the kernel", "metafile: pretty paths of the inputs of one chunk are distinct", "metafile: JavaScript compile results are obtained by running the real generateCodeForFileInChunkJS / renameSymbolsInChunk a second time in the hook (a mismatch with the chunk text is reported as a disagreement); CSS compile results are cut out of the chunk text by the harness"])

# cssimport (C12): @import order / de-duplication
_extend("C12",
    lean_modules=["EsbuildModel.Props.C12Import"],
    theorems=_thms("C12Import", "traversal_is_inlining external_imports_first hoist_keeps_relative_order external_imports_first_preserves_winners "
                   "import_order_dedupe_preserves_cascade_partial layer_passes_preserve_cascade_partial bundle_preserves_cascade_partial "
                   "bundle_preserves_cascade_without_layered_imports css_import_order_never_fails css_files_in_js_order safeBundle_of_check'"),
    open=["C12Import.import_order_dedupe_preserves_cascade without SafePair: FALSE (known findings c12-import-dedupe-important-layers, c12-import-dedupe-own-layer-normal, c12-import-dedupe-anonymous-important)",
          "C12Import.traversal_is_inlining without GraphNoAnon: FALSE (known finding c12-import-anonymous-layer-split: one anonymous @import layer is printed as one anonymous layer per file)",
          "C12Import.layer_passes_preserve_cascade without SafeLayers: FALSE (known finding c12-import-layer-pass-drops-nested-layer-declaration)",
          "C12Import.external_imports_first_preserves_winners without ExtSilent/ExtCondsNoLayer: FALSE (by design for competing external rules; known finding c12-import-hoisted-external-layer-order)",
          "C12Import: the meaning of the printed text (wrapRulesWithConditions: empty anonymous layers and empty @supports/@media omitted) is tied by correspondence only"],
    kernels=[("cssimport", 1500, 60000)],
    scope="internal/linker/linker.go findImportedFilesInCSSOrder (visit with the visited chain, pre-import @layer entries, external entries, conditions appended per import; hoisting passes; backward de-duplication with isConditionalImportRedundant; forward @layer pass incl. simplification, layerDuplicates, replace-previous case; merge of adjacent @layer entries), findImportedCSSFilesInJSOrder, importConditionsAreEqual, wrapRulesWithConditions and the external data-URL nesting of generateChunkCSS modelled (Impl/CssImport.lean) against a CSS Cascade 5 spec (Spec/CssImportCascade.lean), observed through api.Build",
    assumptions=["cssimport: spec = my reading of CSS Cascade 5 (import conditions nest as @media{@supports{@layer{}}}; a layer's own rules beat its sub-layers for normal declarations, order reversed for important); cycles as WebKit (the spec is silent); media query lists / supports conditions are abstract identifiers with equality = TokensEqualIgnoringWhitespace; external style sheets declare no layers for the de-duplication theorems"])

# cssrules (C12): rule-level minification
_extend("C12",
    lean_modules=["EsbuildModel.Props.C12Rules"],
    theorems=_thms("CssRules", "remove_earlier_duplicate_preserves_cascade removeDeadRules_preserves_cascade merge_adjacent_preserves_cascade "
                   "unwrap_nested_same_media_preserves_cascade mangleFile_preserves_cascade minifyChunk_preserves_cascade "
                   "Examples.nested_rules_not_merged Example.reading_sound"),
    kernels=[("cssrules", 3000, 60000)],
    open=["CssRules: @scope contents, @container conditions (element-dependent), @keyframes/@font-face (read as inert), same-file url() tokens, local CSS names, nesting lowering and `&{}` inlining are not covered by the rule-level cascade theorems",
          "CssRules: unwrapping an @media inside a style rule's body is sound under the current CSS Nesting 'nested declarations' order only (not under the older 'declarations hoisted' order)"],
    scope="css_parser.go mangleRules, containsNestedRules, MakeDeadRuleMangler/RemoveDeadRulesInPlace, isSafeSelectors, allSelectorsAreDead, 'Omit duplicate selectors' of parseSelectorList; css_ast.go Equal of all rule and selector types (RAtLayer, RAtImport, RKnownAt(layer) never equal; SSPseudoClass compares Args==nil); linker.go generateChunkCSS (one remover, last file first; wrapRulesWithConditions re-done by hand in the harness for one condition) — modelled (Impl/CssRules.lean) against an independent rule cascade spec (Spec/RuleCascade.lean)",
    assumptions=["cssrules: hash buckets abstracted away (Equal implies same hash; tested by the correspondence); Reading.Sound: the reading of the opaque texts respects the code's Equal / isSafeSelectors (safe implies understood by the user agent) / dead (:is() matches nothing) and treats the parent list of a nested selector as a set; at-tokens ASCII-case-insensitive; CSS Nesting read with the current nested-declarations rule; no browser in the sandbox"])

# c14facts (C14): regenerated facts about override implications, feature gates and runtime guards
_extend("C14",
    lean_modules=["EsbuildModel.Props.C14Facts"],
    theorems=_thms("C14Facts", "fix_body_as_modelled applyAll_total calls_order_ok calls_transitively_closed overrides_closed overrides_closed_in_any_order "
                   "overrides_sound overrides_exact overrides_only_grow calls_cover_reviewed_dependencies calls_imply_only_reviewed_dependencies "
                   "dependents_follow override_calls_as_reviewed override_calls_name_features later_writes_keep_closure no_unclassified_reference "
                   "every_mark_reports gates_as_reviewed gates_all_counted every_feature_has_a_gate_partial ungated_features_have_no_gate "
                   "symbol_features_listed runtime_syntax_guarded runtime_text_parses_for_every_target runtime_guards_name_features"),
    gen_facts=["OverrideCalls.lean", "FeatureGates.lean", "RuntimeGuards.lean"],
    kernels=[("c14facts", 6000, 150000)],
    open=["C14Facts.every_feature_has_a_gate: FALSE — compat.Hashbang is tested nowhere (known finding c14-hashbang-ungated)"],
    scope="bundler.applyOptionDefaults: the ordered fixInvalidUnsupportedJSFeatureOverrides calls and that helper's body (regenerated, interpreted); every reference to a compat.JSFeature constant in internal/, pkg/, cmd/ with file, function and syntactic role, and the case table of js_parser.markSyntaxFeature (regenerated); the text segments of runtime.Source with their !Has(F) conditions and token-scanned syntax features (regenerated)",
    assumptions=["c14facts: feature sets are modelled as name lists (|= is append, Has is membership of a single bit); go/ast extractor without type information (`compat` resolved per file from its import path; gate = syntactic reference in a Has(...) / markSyntaxFeature(...) argument, a variable flowing into one, a syntaxFeature{feature:} literal, or Has(compat.SymbolFeature(..))); the runtime scanner sees tokens only (default arguments, parameter destructuring, `async (..) =>` and shorthand properties are not recognised; the c14facts kernel parses every variant with the real parser instead); reviewed lists in Impl/C14FactsReview.lean (call order, dependency relation, per-feature gate counts and handling kinds, ungated = [Hashbang])"])

# crosschunk (C10): computeCrossChunkDependencies
_extend("C10",
    lean_modules=["EsbuildModel.Props.C10CrossChunk"],
    theorems=_thms("CrossChunk", "used_symbol_is_imported_and_exported imported_symbol_is_used_and_declared import_uses_the_exporters_alias "
                   "exported_symbol_is_imported export_aliases_distinct entry_exports_are_available entry_imports_all_its_chunks "
                   "chunks_are_valid_modules export_aliases_always_exist"),
    kernels=[("crosschunk", 1000, 20000)],
    open=["CrossChunk: link-following form of used_symbol_is_imported_and_exported (the routine never calls FollowSymbols; needs hypothesis `links`, checked by the driver on every observed build, never violated)",
          "CrossChunk.tail-declared hypothesis is FALSE on real code for `export var x=1; var x=2` with no in-module use (known finding c10-redeclared-exported-var-dropped)"],
    scope="internal/linker/linker.go computeCrossChunkDependencies (per-part symbol-use resolution incl. unbound/missing/ImportsToBind/CJS-wrapper skip/namespace alias, ChunkIndex assignment, entry-point export table, exports/wrapper refs, entry-imports-all-its-chunks rule, dynamic-import chunk edges), sortedCrossChunkImports, sortedCrossChunkExportItems, internal/renamer/renamer.go ExportRenamer.NextRenamedName/NextMinifiedName, and the FormatESModule branch of generateEntryPointTailJS (which symbols the tail mentions/declares/exports) modelled (Impl/CrossChunk.lean) against ECMA-262 module linking at symbol level (Spec/CrossChunk.lean), tied through the cross-chunk observation hook on real builds; the per-use skip `Wrap == WrapCJS && ref != WrapperRef` is transcribed, not justified (the theorems are about what the routine's own resolution keeps; whether the skip is safe is decided by the run-time search); the generator contains require()d ES re-export barrels whose namespace-export part uses symbols of other chunks directly",
    assumptions=["crosschunk: the hook recovers rewritten import() records from record.Path.Text == chunk uniqueKey; DeclUnique and NonJSDeclareNothing (driver checks decl-unique / nonjs-chunk on every build); uint32 overflow of the rename counter ignored"])

# exportmatch (C02): import/export matching against ECMA-262 ResolveExport
_extend("C02",
    lean_modules=["EsbuildModel.Props.C02ExportMatch"],
    theorems=_thms("C02ExportMatch", "import_binds_to_spec_binding resolvedExports_eq_spec resolvedExports_keys_eq_exportedNames export_aliases_eq_namespace_exports linker_model_total"),
    kernels=[("exportmatch", 800, 60000)],
    open=["ExportMatch: hasDynamicExportsDueToExportStar / recursivelyWrapDependencies (steps 1-2 of scanImportsAndExports), error texts, reExports dependency lists, symbol flags are not modelled",
          "ExportMatch.import_binds_to_spec_binding without NoReexportCycle: FALSE on the real code (the tracker reports an ambiguity where ECMA-262 skips a circular re-export path next to a real binding; known finding c02-reexport-cycle-false-ambiguity); the former hypothesis LocInj is gone since the fix of the same-binding-different-clause defect"],
    scope="internal/linker/linker.go scanImportsAndExports steps 3-5: addExportsForExportStar, advanceImportTracker, matchImportWithExport, matchImportsWithExportsForFile, the ambiguity filter behind SortedAndFilteredExportAliases, and the initial ResolvedExports of internal/graph/graph.go are modelled in full (incl. CommonJS / dynamic-fallback / external / TypeScript branches; Impl/ExportMatch.lean) and tied through the exports observation hook on real builds; the theorems relate the ESM-only part to ECMA-262 16.2.1.7 GetExportedNames / ResolveExport (Spec/EsModules.lean)",
    assumptions=["exportmatch: Spec/EsModules.lean is my transcription of ECMA-262 GetExportedNames/ResolveExport (compared by its author with Node 20 on 1100 random export graphs: 0 disagreements apart from two V8 deviations); toSpec reads an exported namespace import as `export * as ns from` (the linker's tables cannot tell it from `import * as ns; export {ns}`); hypotheses WF (parser guarantees), EsmOnly, NoReexportCycle, ReexportsLink; the last two are necessary (counterexample tables in the Props file)"])

# objrest (C05): object spread / rest lowering
_extend("C05",
    lean_modules=["EsbuildModel.Props.C05ObjRest"],
    theorems=_thms("Lower3", "object_spread_lowering_preserves_behaviour object_rest_lowering_preserves_behaviour expression_lowering_preserves_behaviour "
                   "lowerStmt_ok thmE lowerSpread_ok visitPPL_ok visitObj_ok spreadValuesH_spec objRestH_spec execStmt_guard evalE_hz evalE_frame "
                   "proto_after_spread_differs accessor_split_differs object_key_differs proto_key_differs null_rest_differs key_reread_differs not_quiet_differs"),
    kernels=[("objrest", 8000, 60000), ("objrestsem", 2500, 20000)],
    open=["Lower3.hazards: object spread/rest lowering preserves behaviour only when the guarded source run stops at none of protoAfterSpread, accessorSplit, objectKey, keyReread, protoKey, nullRest and the world is Quiet; each excluded situation is FALSE on the real code (known findings c05-spread-proto-literal, c05-rest-key-reread, c05-spread-accessor-pair-split, c05-rest-own-proto-key, c05-rest-object-key-converted-twice, c05-rest-of-null)",
          "Lower3: array patterns (splitArrayPattern; known finding c05-array-rest-split-drains-iterator), member-expression targets, for-in/of heads, catch bindings, function parameters: not modelled"],
    scope="js_parser_lower.go lowerObjectSpread, lowerObjectRestInDecls, lowerAssign (objRestReturnValueIsUnused and objRestMustReturnInitExpr), lowerObjectRestToDecls, lowerObjectRestHelper (visit, lowerObjectRestPattern, splitObjectPattern, captureIntoRef), captureKeyForObjectRest; runtime.go __spreadValues, __spreadProps, __defNormalProp, __objRest, __restKey as JavaScript — modelled (Impl/Lower3.lean) over an object semantics with ordered string/symbol keys, accessors, prototypes and world events (Spec/ObjectOps.lean), validated against Node 20 by the objrestsem kernel",
    assumptions=["objrest: objects the program makes are referenced by nobody else while they are built; world objects are ordinary objects (no Proxy), every property read is an event; keys defined by literals are neither array indices nor names of Object.prototype properties; identifiers are declared variables and temporaries are fresh; the helpers see the built-ins captured when the file started; __defNormalProp's `key in obj` test collapsed into define"])

# isohash (C18): the isolated hash of one chunk and the hashed name
_extend("C18",
    lean_modules=["EsbuildModel.Props.C18IsoHash"],
    theorems=_thms("C18IsoHash", "isolated_hash_function_of_preimage preimage_is_tuple_encoding isolated_preimage_injective_partial isolated_covers_output "
                   "output_change_changes_tuple unwritten_modes_do_not_matter name_is_function_of_hash name_shape name_determines_first_five_bytes name_panics_iff_empty"),
    kernels=[("isohash", 12000, 300000)],
    open=["C18IsoHash.isolated_preimage_injective (full, no shape hypotheses): FALSE of the code — the number of part ranges, of template parts and of pieces, and the presence of the public path, of the map and of the legal comments, are not written to the hash; six counterexample tuple families are proved in Props/C18IsoHash.lean and replayed on the real routine by the kernel (stat collision-pair-*); no way to obtain equal NAMES with different contents through them was found; proved instead: isolated_preimage_injective_partial"],
    scope="internal/linker/linker.go generateIsolatedHash + generateIsolatedHashInParallel (every hash.Write in order: per part range namespace / pretty-or-key path / partIndexBegin / partIndexEnd for JS chunks only, finalTemplate Data, public path if non-empty, piece data or joiner bytes, source-map Prefix/Mappings/Suffix, external legal comments if non-empty; panic on a sourceIndex out of range), hashWriteUint32/hashWriteLengthPrefixed; internal/xxhash New/Reset, Digest.Write, writeBlocks, Sum64, Sum (the streaming XXH64 digest is part of the model: the kernel compares digests); internal/bundler/bundler.go HashForFileName (base32, [:8]); the two mode writes (source map / legal comments) and the trailer part of generateChunksInParallel (legal link, sourceMappingURL comment / inline data URL / nothing per mode, EnsureNewlineAtEnd, JS vs CSS comment style), tied end to end through pkg/api builds",
    assumptions=["isohash: a written source-map mode is 1-4; external legal comments have >= 4 bytes, the first four non-NUL, < 16 MiB - 8; own-path strings (pathBetweenChunks, URL escaping, Finalize + base64) are inputs of the trailer model; SMShape (a source map is absent or its Prefix starts with '{' and its Mappings do not — true of generateSourceMapForChunk, which is not modelled); written lengths and part indices < 2^32; xxhash collision freedom (unchanged)"])

# lineoffset (C07): byte offset -> (line, UTF-16 column), original and generated side
_extend("C07",
    lean_modules=["EsbuildModel.Props.C07LineOffset"],
    theorems=_thms("C07LineOffset", "range_decoding_is_specified lookup_is_true_position lookup_inside_character offset_boundary_or_inside tables_wellformed "
                   "panics_only_on_negative_inputs lookup_monotone generated_position update_generated_position generated_position_two_calls update_two_calls "
                   "addSourceMapping_records_true_positions spec_decoder_characterised"),
    kernels=[("lineoffset", 6000, 300000)],
    scope="internal/sourcemap/sourcemap.go GenerateLineOffsetTables (whole body), the top of ChunkBuilder.AddSourceMapping (duplicate test, binary search over byteOffsetToStartOfLine, column from columnsForNonASCII or the byte difference), LineColumnOffset.AdvanceString / AdvanceBytes, ChunkBuilder.updateGeneratedLineAndColumn (line/column bookkeeping) and the position fields GenerateChunk reports — against Spec/TextPosition.lean (UTF-8 decoding with one U+FFFD per ill-formed byte, ECMA-262 line terminators, UTF-16 columns)",
    assumptions=["lineoffset: contents shorter than 2^31 bytes; the ChunkBuilder has no input source map; mappings are added at character boundaries and never between CR and LF (the code does not handle a CR|LF split across two calls: examples in the Props file; no printer path that does so was found)"])

# watchloop (C09): the polling loop of watch mode
_extend("C09",
    lean_modules=["EsbuildModel.Props.C09WatchLoop"],
    theorems=_thms("C09WatchLoop", "reachable_inv poll_never_panics panic_only_outside_keys dirty_path_found_within_bound round_at_most_20 bound_le_39_at_loop_head "
                   "bound_is_attained recent_items_asked_every_poll recent_dirty_found_at_once no_item_lost every_key_asked_once_per_round found_path_is_dirty "
                   "clean_poll_asked_all recent_items_bounded recent_items_are_most_recent_hits loop_rebuilds_only_on_dirty loop_detects_within_bound loop_stops "
                   "setWatchData_idem afterRebuild_eq transient_edit_window change_seen_by_watch_data_is_reported"),
    kernels=[("watchloop", 3000, 60000)],
    open=["WatchLoop: log messages, real time beyond the Sleep events, the mutex (each method is atomic) and --watch=forever (stdin handling in cmd/esbuild) are not modelled; a transient edit (undone before the path is looked at again, window up to 39 polls) is missed by design (theorem transient_edit_window)"],
    scope="pkg/api/watcher.go, whole file: setWatchData; tryToFindDirtyPath (refill, itemsPerIteration = max(64, ceil(n/20)), the recent-items loop with move-to-back, the toCheck split, append and evict at 16); the start goroutine (shouldStop, 100 ms sleep, --watch-delay, rebuild + setWatchData, also when the rebuild callback calls setWatchData itself); stop. The map range order plus the math/rand shuffle are one nondeterministic permutation",
    assumptions=["watchloop: methods are atomic (each holds w.mutex); fewer than 2^31 paths; the kernel compares by trace inclusion (the model is fed the refill order the real code produced and checks that it is a permutation); recent_items_are_most_recent_hits assumes predicate answers do not change during one poll"])

# mangleprops (C15): property mangling name assignment
_extend("C15",
    lean_modules=["EsbuildModel.Props.C15MangleProps"],
    theorems=_thms("MangleProps", "mangle_total mangle_consistent mangle_injective fresh_name_is_new cache_honoured cache_completed cacheInj_preserved "
                   "less_strict_total_order mangle_deterministic_partial mangle_file_order_independent_partial cacheInj_needed tie_broken_by_file_order"),
    kernels=[("mangleprops", 5000, 100000)],
    open=["MangleProps.mangle_deterministic as a function of the multiset of (name, total count) and the cache only: FALSE of the code — ties on the count are broken by the stable index of the first reachable file that mentions the property, then by the parser's symbol index, not by name (theorem tie_broken_by_file_order); this is deterministic, not a nondeterminism. Proved instead: independence of Go map iteration order (mangle_deterministic_partial) and of file order when no two merged counts tie (mangle_file_order_independent_partial)",
          "MangleProps: which names the parser makes candidates (isMangledProp / --mangle-props / --reserve-props / --mangle-quoted / @__KEY__) is a hypothesis (WF, Spec/MangleProps.lean), not modelled; separate links without a cache (known finding c15-mangle-props-differ-between-entry-points) are a remark: the theorems are about ONE mangleProps call"],
    scope="internal/linker/linker.go mangleProps in full (reserved set from js_lexer.Keywords / cache targets / `false` keys / ReservedProps of reachable non-runtime JS files, merging of MangledProps by name, sort, name generation with the skip loop, cache read and write-back, nil cache), internal/ast/ast.go MergeSymbols, MergeContentsWith, FollowSymbols, CharFreq.Include, NameMinifier.ShuffleByCharFreq on DefaultNameMinifierJS, internal/renamer StableSymbolCountArray.Less, js_printer mangledPropName; NumberToMinifiedName reused from Impl/Rename.lean; tied through the verif export linker.VerifMangleProps on hand-built links",
    assumptions=["mangleprops: Go maps are association lists traversed in list order (the Go side iterates in Go's random order, so every agreement also tests order independence); sort.Sort modelled by a stable insertion sort with the same comparator (equal when StableSourceIndices is injective); CharFreq is a fixed [64]int32; cyclic Symbol.Link chains are not generated; WF = what parser/bundler/api establish (one unlinked flag-free symbol of its own file per (file, candidate), each file reachable once, cache values string or false with unique keys)"])

# jsxtext (C01): JSX text children, entities, attribute strings
_extend("C01",
    lean_modules=["EsbuildModel.Props.C01JsxText"],
    theorems=_thms("C01JsxText", "jsx_text_structure jsx_text_is_ecma_spec jsx_text_is_spec_partial exotic_whitespace_trimmed no_newline_only_entities no_newline_is_decode "
                   "normalised_text_fixed_point normalised_twice whitespace_with_newline_is_empty whitespace_without_newline_is_kept entity_decode_spec entity_value_is_spec "
                   "decimal_entity_is_code_point hex_entity_is_code_point utf16_surrogate_pair surrogate_reference_is_one_unit attr_value attr_value_verbatim attr_unterminated "
                   "child_token_never_panics child_token_spec child_dropped_iff indentation_child_dropped spec_trimEnd_is_reverse_dropWhile"),
    kernels=[("jsxtext", 30000, 1500000)],
    open=["C01JsxText.jsx_text_is_spec (Babel's class: only space/tab trimmed): FALSE by design — esbuild trims every ECMA-262 WhiteSpace next to a line break (TypeScript's reading without U+0085/U+200B); observation, witness exotic_whitespace_trimmed; proved under the hypothesis in jsx_text_is_spec_partial",
          "JSX: --jsx=preserve (EJSXText raw), TS-mode errors for } and >, the printer's re-escaping of the decoded strings, tag/attribute-name parsing and {...} children are not modelled"],
    scope="internal/js_lexer/js_lexer.go: decodeJSXEntities (numeric branch strconv.ParseUint(...,32) && value <= utf8.MaxRune; surrogate code points accepted and emitted as one unit) and fixWhitespaceAndDecodeJSXEntities in full (index machine, slice-bounds panics explicit), the text token of NextJSXElementChild, the string-literal case of NextInsideJSXElement, tables.go jsxEntity (253 entries, transcribed by tools_gen_jsx_entity_table.py), js_ast.IsWhitespace; js_parser.go parseJSXElement: the len(str) > 0 test that drops empty text children — against Spec/JsxText.lean (split at LF/CR/LS/PS, trim, drop empty, join with one space, decode references afterwards)",
    assumptions=["jsxtext: a Go string is modelled as the rune list utf8.DecodeRuneInString yields (ill-formed bytes are in the generator); hypothesis Runes (elements <= U+10FFFF) is true of every decoded Go string; strconv.ParseUint modelled from its documentation, checked by correspondence; Spec/JsxText.lean is the package author's reading of Babel's cleanJSXElementLiteralChild / TypeScript's fixupWhitespaceAndDecodeEntities (neither installed; hand-written node reference)"])

# cjswrap (C02): wrapping decisions / ExportsKind (steps 1-2 of scanImportsAndExports)
_extend("C02",
    lean_modules=["EsbuildModel.Props.C02Wrap"],
    theorems=_thms("C02Wrap", "recursivelyWrapDependencies_terminates hasDynamicExports_terminates scan_terminates wrap_iff wrap_closed wrap_least wrap_kind "
                   "unwrapped_commonjs_is_unimported_entry dynamic_exports_iff_reachable_commonjs_star hasDynamicExports_fresh_visited_exact "
                   "exports_kind_monotone scan_order_independent wrapped_contains_intended wrapped_eq_intended_of_no_splitting"),
    kernels=[("cjswrap", 600, 20000)],
    open=["CjsWrap: the wrapped set is least for the closure relation the code uses (every import record with a valid SourceIndex); against the intended relation it is a superset and equal without code splitting: under --splitting an import() inside a wrapped file also wraps the separately loaded chunk (Props example exS, reproduced on the real binary; sound, costs scope hoisting)",
          "CjsWrap: IsAsyncOrHasAsyncDependency (set in bundler.go), createWrapperForFile, UsesExportsRef, CSS/copy-loader record rewriting and log messages of step 1 are not modelled"],
    scope="internal/linker/linker.go: the entry-point loop of Link (lazy-export entry -> CommonJS, ForceIncludeExportsForEntryPoint), scanImportsAndExports step 1 (ImportStmt/ImportRequire/ImportDynamic effects on Wrap and ExportsKind, the no-implicit-CommonJS-wrapper rule), step 2 (recursivelyWrapDependencies with DidWrapDependencies, hasDynamicExportsDueToExportStar with its visited map, the imported-CommonJS rule) and the NeedsExportsVariable assignment of step 4 — modelled (Impl/CjsWrap.lean) against Spec/Wrap.lean, tied through the exports observation hook (WrapFiles/WrapOpts) on real api.Build runs",
    assumptions=["cjswrap: the pre-link ExportsKind is read from the metafile ('format' of each input; builds with link errors have no metafile and are skipped, ~7%); the runtime's pre-link kind is taken to be ESM; hypotheses WF / Fresh / Covers / RuntimeESM / no-initial-dynamic-fallback are evaluated by the driver (op hyp) on a quarter of the real tables, never violated; Spec/Wrap.lean is the package author's reading of the linker comments and of what lazy evaluation needs"])

# outpaths (C17): how an output PATH is computed
_extend("C17",
    lean_modules=["EsbuildModel.Props.C17OutPaths", "EsbuildModel.Props.C17Templates", "EsbuildModel.Props.C17Lca"],
    theorems=_thms("C17OutPaths", "output_inside_outdir output_inside_outdir_template relative_path_injective default_output_path default_output_path_injective custom_output_path rel_is_relative_path")
             + _thms("C17Templates", "template_roundtrip template_parse_print_parse substitute_is_textual substitute_leaves_no_placeholder substitute_all_leaves_none substitute_keeps_unknown final_path_is_expansion")
             + _thms("C17Lca", "lca_is_common_prefix lca_ignores_explicit_paths no_two_outputs_share_a_path collision_is_reported"),
    kernels=[("outpaths", 12000, 300000)],
    open=["C17OutPaths.output_inside_outdir for ALL templates / extensions / paths: FALSE of the code (known finding c17-output-escapes-outdir); proved under: no backslash in paths, no '/' in the out-extension, template without '.', name not '.' / '..'",
          "C17Templates.template_roundtrip for templates ending in '[': FALSE (the text after the last placeholder is dropped: `--entry-names=[name]-x[` writes a.js; observation)",
          "C17Lca.lca_is_common_prefix for names with upper-case letters or backslashes: FALSE (case-insensitive comparison on every platform: `esbuild src/B/x.js src/b/y.js --outdir=o` writes o/_.._/B/x.js; still inside the output directory; observation; see also known finding c02-files-differing-in-case-are-one-file)",
          "OutPaths: the composite flow of a user entry point (sanitize -> Join(cwd) -> Rel(outbase) -> strip extension -> PathRelativeToOutbase) and the virtual-namespace branch are modelled and covered by the end-to-end op only, no theorem; symlink realPath, Windows paths and non-ASCII input to sanitize / LCA are not covered"],
    scope="internal/fs/filepath.go (POSIX: isAbs clean join base dir ext rel) + fs_real.go Join/Rel; logger.PlatformIndependentPathDirBaseExt; internal/bundler/bundler.go PathRelativeToOutbase, lowestCommonAncestorDirectory, sanitizeFilePathForVirtualModulePath, the output-path part of addEntryPoints, the copy-loader asset path of processScannedFiles, the overwrite-input and duplicate-output checks of Compile; internal/config/config.go TemplateToString / HasPlaceholder / SubstituteTemplate; pkg/api/api_impl.go validatePathTemplate; internal/linker/linker.go finalTemplate (computeChunks) and finalRelPath / AbsPath (generateChunksInParallel) — against Spec/OutPath.lean (POSIX pathname resolution, Inside, lowest common ancestor, relative, textual expansion)",
    assumptions=["outpaths: POSIX only (GOOS=linux, volume names empty); strings are byte strings (sanitize and lowestCommonAncestorDirectory decode UTF-8: model exact on ASCII, the driver refuses other input); clean abstracts Go's lazybuf into a stack of path elements; overwrite check modelled without symbolic links; [hash] values are not predicted (the build op avoids [hash])"])

# strlex (C01): the lexer's decoding of string and template literals
_extend("C01",
    lean_modules=["EsbuildModel.Props.C01StrLex"],
    theorems=_thms("C01Str", "lex_string_value lex_string_complete lex_template_raw_value lex_template_raw_complete lex_template_value lex_template_complete print_then_lex print_then_lex_template"),
    kernels=[("strlex", 40000, 1000000)],
    open=["strlex: JSON / TSConfigJSON modes of the lexer, SyntaxError message texts, invalid UTF-8 in the source, and the parser's handling of LegacyOctalLoc are not modelled"],
    scope="internal/js_lexer/js_lexer.go (NotJSON mode): the quote/backtick arm of (*Lexer).Next (loop, needsSlowPath, all five token kinds, 'Unterminated string literal' with position, fast-path copy), RescanCloseBraceAsTemplateToken, StringLiteral() (lazy decoding, SyntaxError position), CookedAndRawTemplateContents() (CR/CRLF->LF loop, cooked nil on failure), tryToDecodeEscapeSequences in full (every escape, 1-3 digit octal with the <256 rule, \\8 \\9, \\xHH, \\uHHHH, \\u{...} with int32 wrap and sticky isOutOfRange, line continuations LF/CR/CRLF/LS/PS, the failure returns incl. the three !reportErrors early returns that make the cooked value of a tagged template nil, LegacyOctalLoc, final UTF-16 encoding) — against ECMA-262 12.9.4 + 12.9.6 (Spec/JsStringLiteral.lean); composed with the printing model: lexing what printUnquotedUTF16 prints gives back the sequence",
    assumptions=["strlex: the source is well-formed UTF-8 (the model works on code points, the driver converts to byte offsets by UTF-8 width); LegacyOctalLoc.Start == 0 is read as 'not set'; Spec.JsStringLiteral is the package author's reading of ECMA-262, and Spec.JsString (used by the printing side) is proved to refine it (Lemmas/StrLexBridge)"])

# tspaths (C11): tsconfig paths / baseUrl, the browser map, the resolution walk
_extend("C11",
    lean_modules=["EsbuildModel.Props.C11TsPaths", "EsbuildModel.Props.C11BrowserMap", "EsbuildModel.Props.C11ResolveWalk"],
    theorems=_thms("C11TsPaths", "paths_match_is_longest_prefix paths_choice_is_unique_best paths_no_match_falls_through paths_total paths_order_independent "
                   "finish_order_independent paths_hit_wins baseUrl_before_rest rest_only_after_tsconfig")
             + ["EsbuildModel.TsPaths.parsePaths_valid"]
             + _thms("C11BrowserMap", "browser_map_spec_file browser_map_spec_module browser_map_off browser_answer_is_an_entry browser_order_independent parsed_browser_map_is_a_map parsed_browser_map_lookup")
             + _thms("C11ResolveWalk", "tsconfig_ignored_inside_node_modules paths_before_node_modules baseUrl_before_node_modules resolution_never_panics browser_false_disables_file browser_remaps_module_first index_remap_joined_to_wrong_directory"),
    kernels=[("tspaths", 8000, 60000)],
    open=["ResolveWalk: browser-map recursion (a map value that is a package path resolving back to the same key) overflows the Go stack: modelled as R.overflow with fuel, not excluded by any theorem, the generator avoids it (known finding c16-browser-map-self-reference-stack-overflow)",
          "ResolveWalk: loadAsIndexWithBrowserRemapping / loadMainField join the replacement to the loaded directory instead of the browser scope's directory (theorem index_remap_joined_to_wrong_directory; known finding c11-browser-index-remap-joined-to-wrong-directory)",
          "TsPaths: ties on prefix length go to the longest suffix (TypeScript: first in file order); a key whose array has no valid entry is absent from the map (TypeScript still treats the exact key as matched): documented differences",
          "ResolveWalk: exports/imports interplay, PnP, NODE_PATH, externals, symlinks, package aliases, the CSS extension order, autoMain, jsconfig.json, package-style extends, Windows paths and log messages are not modelled; the ResolveWalk theorems are structural (precedence order), the full walk is tied differentially"],
    scope="internal/resolver/resolver.go: matchTSConfigPaths, the no-baseUrl filter of parseTSConfigFromSource, tsConfigForDir, the tsconfig stage and node_modules walk of loadNodeModules (+ tryToResolvePackage), resolveWithoutSymlinks, resolveWithoutRemapping, loadAsFile / loadAsDirectory / loadAsMainField / loadAsIndex / loadAsIndexWithBrowserRemapping, IsPackagePath, the isNodeModules / hasNodeModules / enclosingBrowserScope / enclosingTSConfigJSON parts of dirInfoUncached; tsconfig_json.go: isValidTSConfigPathPattern, isValidTSConfigPathNoBaseURLPattern, getSubstitutedPathWithConfigDirTemplate, paths / baseUrl / extends of ParseTSConfigJSON, applyExtendedConfig; package_json.go: the browser part of parsePackageJSON, checkBrowserMap, esmParsePackageName — against Spec/TsPaths.lean (TypeScript handbook) and Spec/BrowserField.lean (package-browser-field-spec, rules F1-F6)",
    assumptions=["tspaths: a Go map is an association list with pairwise distinct keys; `load` (loadAsFileOrDirectory) is a parameter of the paths theorems; Go's path.Join is shared by model and browser spec; the walk model covers worlds without exports/imports maps, PnP, NODE_PATH, externals, symlinks, aliases, CSS imports, with MainFields=[main] and lower-case file names; extends covers relative/absolute file paths only; the Go recursion is modelled with fuel 600 (OVERFLOW = Go stack overflow); the generator never produces browser-map cycles (they kill the Go process)"])

# glob (C04): package.json sideEffects patterns and import globs
_extend("C04",
    lean_modules=["EsbuildModel.Props.C04Glob", "EsbuildModel.Props.C04GlobImport"],
    theorems=_thms("C04Glob", "miniregex_matcher_correct glob_total escape_complete literal_pattern_matches_only_itself glob_regex_exact glob_regex_is_glob_partial glob_regex_sound glob_regex_bytes glob_regex_bytes_valid sideeffects_no_panic sideeffects_entry_keeps_file sideeffects_invalid_utf8_keeps_all")
             + _thms("C04GlobImport", "import_glob_escape_complete import_glob_regex_exact import_glob_bytes_ascii template_glob_is_documented_glob template_glob_subset_runtime template_glob_sound_partial resolve_glob_no_panic import_glob_compile_any resolve_glob_invalid_utf8_no_result entry_glob_regex_exact entry_glob_is_glob_partial"),
    open=["C04Glob.glob_regex_is_glob (regexp = Spec/Glob for ALL patterns): FALSE of the code: `?` is `.` (matches `/`; does not match U+000A: a file `a<LF>b.js` is dropped under [\"./a?b.js\"]), `a/**/` also matches `a/x`; proved: _partial (no `?`, last token not `**/`) and glob_regex_sound / sideeffects_entry_keeps_file (spec match and no U+000A implies kept, all patterns); observation (webpack's regexp does the same)",
          "C04Glob dialect: `{a,b}` and `[a-z]` are literal in esbuild (documented: only `*` and `?`), webpack's glob-to-regexp reads them: [\"*.{css,js}\"] drops other.js; observation",
          "C04GlobImport.template_glob_sound (every path the expression can evaluate to is bundled): FALSE (documented): a hole not preceded by `/` is `*`; proved under holesAfterSlash; observation: the runtime helper __glob throws synchronously for a missing module where import() would reject",
          "ResolveGlob's directory walk (symlinks, externals, case-insensitive entries) is modelled as a filter and tied only by the kernel; fs.Join = Unix path.Clean only"],
    kernels=[("glob", 6000, 200000)],
    scope="internal/resolver/package_json.go globstarToEscapedRegexp and the sideEffects-array loop of parsePackageJSON (UTF16ToString, `**/` prefix, fs.Join, backslash replacement, regexp.Compile with the empty-regexp fallback, map vs regexps); resolver.go: the sideEffectsMap/sideEffectsRegexps lookup, ResolveGlob (prefix test, leading directories, regexp text, QuoteMeta, regexp.Compile with the nil fallback, walk as a filter); helpers/glob.go ParseGlobPattern, GlobPatternToString; js_parser.go parts loop of handleGlobPattern; Go regexp.Compile/MatchString restricted to the fragment of Spec/MiniRegex with Go's UTF-8 decoding (ill-formed bytes = U+FFFD) in front",
    assumptions=["glob: Spec/MiniRegex parser+matcher = Go regexp on the generated texts (tied by the kernel against the real regexp package); Spec/Glob is the package author's reading of the dialect (`*`, `?`, `**` as a whole segment; `[ ]` and `{ }` literal); mock/Unix file system: Join = path.Clean, trailing slashes trimmed before directory lookup"])

# partdeps (C04): the dependency edges between parts
_extend("C04",
    lean_modules=["EsbuildModel.Props.C04PartDeps"],
    theorems=_thms("PartDeps", "use_covered reexports_covered alias_facts deps_cover_uses deps_only_uses live_closed no_dangling_reference toShake_carries "
                   "exempt_iff_printer_inlines wrapper_dep namespace_dep merged_declarations_dep sound_on_nested_redeclaration sound_needs_aliasOk") + ["EsbuildModel.Spec.PartDeps.no_dangling"],
    kernels=[("partdeps", 250, 20000)],
    open=["PartDeps.deps_cover_uses without aliasOk: FALSE of the code (theorem sound_needs_aliasOk) — a parser link chain that ends at the exports/module symbol of a CommonJS-style file (`var exports = {}; { var exports; ... }`) gets the alias table built before the wrapper part and the namespace part exist; real builds reach it (about 6% of the generated builds); no behavioural consequence found (wrapper kept by the importer, part 0 not needed); observation",
          "PartDeps: the const-value skip deletes the wrong key (`delete(part.SymbolUses, importData.Ref)` instead of `ref`): modelled as the code does; imprecision only (an unused cross-chunk import binding under --splitting --minify-syntax); observation",
          "PartDeps: how the parser computes SymbolUses/DeclaredSymbols/SymbolCallUses, ImportSymbolPropertyUses (TS enum inlining) and how ReExports is computed are inputs, not modelled; the printer side of exempt_iff_printer_inlines is a transcription of two conditions in js_printer.go, not observed"],
    scope="js_parser.go toAST 'Map locals to parts' (topLevelSymbolToParts: link following, the alias entries for merged symbols, NSExportPartIndex); graph.go AddPartToFile overlay / TopLevelSymbolToParts / GenerateSymbolImportAndUse / GenerateRuntimeSymbolImportAndUse; linker.go scanImportsAndExports: createWrapperForFile (step 4), createExportsForFile deps+uses, the SymbolCallUses loop, the const-value skip, the local-dependency loop with LocalPartsWithUses (step 5), the ImportsToBind loop incl. ReExports, the entry-point part, the import-record loop and the export-star loop (step 6) — modelled on the final tables (Impl/PartDeps.lean) against Spec/PartDeps.lean, tied through the partdeps observation hook on real builds; composed with Impl/Shake.lean",
    assumptions=["partdeps: the hook observes AFTER steps 4-6, so the final SymbolUses are an input and linker-added uses are checked to be among them; Dependencies/LocalPartsWithUses/TopLevelSymbolToParts compared as sets; wf (8 bits + xu) is evaluated by the driver on every real dump and was never violated; aliasOk is a separate hypothesis of soundness that real builds can violate (see open)"])

# scope (C15): the parser's scope analysis (declare / hoist / lookup)
_extend("C15",
    lean_modules=["EsbuildModel.Props.C15Scopes", "EsbuildModel.Props.C15Redecl", "EsbuildModel.Props.C15Lookup", "EsbuildModel.Props.C15WithPin"],
    theorems=_thms("Scopes", "hoisted_tree_wellformed parser_tree_slots_separate_visible sibling_scopes_declare_disjoint_symbols "
                   "redeclaration_error_implies_early_error no_early_error_no_redeclaration_error redeclaration_errors_iff_early_error_partial "
                   "lookup_agrees_with_spec_partial lookup_agrees_with_spec_partial_follow "
                   "pinned_symbol_pins_merge_target with_pin_reaches_follow_partial var_in_with_body_flags_chain flagged_symbol_flags_chain with_reference_flags_chain hoisted_var_arguments_pins_variable"),
    kernels=[("scope", 30000, 600000)],
    open=["Scopes.with_pin_reaches_follow: proved per walk / per reference for the whole link chain under ChainsEnd only (no link cycle; the NoPassing side condition is gone, Lemmas/ScopesChains.lean has the pigeonhole argument); open: the lift to the final symbol table (links added by later walks of hoistSymbols and by relinkFns / lowerClass); not refuted (560 000 cases, programs in Props/C15WithPin.lean)",
          "Scopes.lookup_agrees_with_spec (every program of the fragment: var in nested blocks, Annex B block functions, classes, declarations of `arguments`): stated in Props/C15Lookup.lean under p.earlyError = false, dupBlockFnL = false, blockFnClashL = false; proved for flat programs only; the full statement is evaluated by checkProps on every `core` case of the kernel (0 counterexamples under the three hypotheses; each hypothesis is a reproduced esbuild/Node difference: known findings c15-scope-*)",
          "Scopes.redeclaration_errors_iff_early_error for non-flat programs: stated in Props/C15Redecl.lean under moduleFnVarClash = false, argumentsClashL = false, catchFnClashL [] = false (each forced by a program with an early error that esbuild accepts: observations, esbuild's output is valid); direction error -> early error proved for every program, iff proved for flat programs"],
    scope="internal/js_parser/js_parser.go: pushScopeForParsePass / popScope, declareSymbol + canMergeSymbols (whole table, non-TS), the arguments step of parseFn, the use-strict and class strictness steps, prepareForVisitPass (ESM strictness, hoistSymbols in full incl. sloppy block functions and the CommonJS symbols), pushScopeForVisitPass, findSymbol (with / eval flags, unbound symbols), the class name scope + lowerClass inner-name merge, the block-function relinking of visitStmts, labels, incl. the MustNotBeRenamed loops of the two with/arguments fix commits in hoistSymbols and findSymbol, relinkFns incl. the hoisted-variable condition and the function flag of fix 984c8f5 — against Spec/JsScopes.lean (VarDeclaredNames / LexicallyDeclaredNames / early errors / Annex B.3.2-B.3.4 / ResolveBinding). The kernel compares the whole scope tree, symbol table (kind, name, link, MustNotBeRenamed), reference list and sorted error list, on generated source text through js_parser.Parse, on raw operation sequences and on the full canMergeSymbols table",
    assumptions=["scope: one file, no TypeScript, no JSX; names are small integers; errors compared as a sorted multiset; use counts enter only through `the inner class name is referenced`; dead-code elimination that drops references is avoided by the generator; Spec early errors validated against Node 20 by the package author (4523/4523); flat = var/function declarations only at the top level of a function/script/module, no class declaration, nothing declares `arguments`"])

# jsonrt (C13 / C01 / C16): the JSON parser and the lexer's JSON mode
_JSON_SCOPE = ("internal/js_parser/json_parser.go: parseExpr, parseMaybeTrailingComma, ParseJSON (both flavours, the ObjectExtensions/__proto__ flag, duplicate-key warnings) modelled in full; internal/js_lexer/js_lexer.go in JSON mode: NewLexerJSON, Next (all token cases reachable in JSON mode, white space, comments and their JSON errors), the string scanner, StringLiteral + tryToDecodeEscapeSequences, scanIdentifierWithEscapes, parseNumericLiteralOrDot through the LexNum model plus the JSON number check, LexerPanic recovery — against Spec/Json.lean (RFC 8259 + ECMA-262 JSON.parse value semantics); an end-to-end op imports api.Transform(loader json, format esm) in Node and compares with JSON.parse")
_JSON_ASSUME = ["jsonrt: Json.ParamsOK (the LexNum.ParamsOK contract on strconv.ParseFloat / integer conversions; no ECMAScript white-space code point is ID_Start or ID_Continue; IsIdentifierStart/Continue beyond ASCII are parameters instantiated on a menu of 8 code points); a text is a list of Unicode scalar values (invalid UTF-8 is checked by correspondence only); Spec/Json.lean is the package author's reading of RFC 8259 / ECMA-404 with JSON.parse value semantics; Node 20's JSON.parse is the oracle of the end-to-end op"]
_extend("C13",
    lean_modules=["EsbuildModel.Props.C13Json"],
    theorems=_thms("C13Json", "json_accepts_iff_valid_partial json_accepts_rfc8259 tsconfig_accepts_iff tsconfig_accepts_strict toy_ok"),
    kernels=[("jsonrt", 6000, 100000)],
    open=["C13Json.json_accepts_iff_valid (the strict flavour accepts exactly RFC 8259): FALSE of the code — it also accepts (1) VT, FF, NBSP, BOM, LS, PS, Zs white space between tokens, (2) HTML-like comments `<!--` and `-->` (warning only), (3) integer parts 08.. / 09.., (4) escapes \\8 \\9; every accepted text still yields valid output, so this is an observation (esbuild is more permissive than JSON.parse), not a violation of the property; proved instead: json_accepts_iff_valid_partial (accepts exactly the dialect esbuildStrict) and json_accepts_rfc8259"],
    scope=_JSON_SCOPE, assumptions=_JSON_ASSUME)
_extend("C01",
    lean_modules=["EsbuildModel.Props.C01Json"],
    theorems=_thms("C01Json", "json_value json_value_rfc json_value_unique tsconfig_same_value_as_strict json_value_noproto_partial"),
    kernels=[("jsonrt", 6000, 100000)],
    open=["C01Json.json_value without objExt (target lacks computed keys, es5): FALSE of the code — a `__proto__` key is printed as a plain property and sets the prototype (known finding c01-json-proto-key-es5); proved instead: json_value_noproto_partial"])
_extend("C16",
    lean_modules=["EsbuildModel.Props.C16Json"],
    theorems=_thms("C16Json", "json_total json_token_progress json_fuel_irrelevant"),
    kernels=[("jsonrt", 6000, 100000)])

# csslex (C16 / C12): the CSS tokenizer and the printing of single tokens
_extend("C16",
    lean_modules=["EsbuildModel.Props.C16CssLex", "EsbuildModel.Props.C16CssSyntax"],
    theorems=_thms("C16CssLex", "lexer_total token_ranges_inside token_ranges_ordered cover_ranges cover_ordered startState_raw")
             + _thms("C16CssSyntax", "lexer_is_css_syntax_3_partial tame_of_input tameInput_of_check"),
    kernels=[("csslex", 8000, 120000)],
    open=["C16CssSyntax.lexer_is_css_syntax_3 with the standard readings, without TameInput and with URL values compared: FALSE of the code (four readings numberTrailingDot / badUrlSkipsAfterEscape / eofStringIsBad / stringHexEscapeKeepsNewline; excluded inputs NUL, hex escape + CR LF, '-' + ill-formed byte; URL value offsets) — each shown by an example in the Props file and run on the real tokenizer; observations (error recovery differences), except the URL offset which is known finding c12-escaped-url-function-name",
          "csslex: ApproximateLineCount, legal comment text, log messages, RangeOfIdentifier are not modelled"],
    scope="internal/css_lexer/css_lexer.go: Tokenize, step, next, consumeToEndOfMultiLineComment, isValidEscape, wouldStartIdentifier, wouldStartNumber, consumeName, consumeEscape, consumeIdentLike, consumeURL (incl. bad-url remnants), consumeString, consumeNumeric, character classes, decodeEscapesInToken, Token.DecodedText — modelled (Impl/CssLex.lean, CssLexTok.lean) against CSS Syntax 3 sections 3.3 + 4 (Spec/CssSyntax.lean); total by well-founded recursion without fuel",
    assumptions=["csslex: input decoded once with Go's utf8.DecodeRuneInString semantics (one U+FFFD per ill-formed BYTE); lexer state = suffix of decoded runes; offsets below 2^31; Spec = CSS Syntax 3 CR 16 July 2019; numeric tokens compared by representation; runs of whitespace tokens collapsed on both sides"])
_extend("C12",
    lean_modules=["EsbuildModel.Props.C12CssPrint"],
    theorems=_thms("C12CssPrint", "escape_roundtrip string_roundtrip initialEscape_ne_hex"),
    kernels=[("csslex", 8000, 120000)],
    open=["C12CssPrint.print_relex for token LISTS: FALSE of the code (printTokens has no needs-whitespace-between logic; tokens separated only by a comment are printed glued together: known finding c12-tokens-glued-across-comment) — proved per token only: printIdent (identifier/function/at/hash texts) and printQuoted; dimension units, unquoted url(), printTokens nesting are covered by the correspondence only",
          "C12CssPrint: remaining hypotheses are necessary: no U+0000 (printIdent writes it raw, printQuoted as \\0: both re-read as U+FFFD), valid UTF-8 text (ill-formed byte under ASCIIOnly: known finding c12-escaped-url-function-name), FollowOK (what follows does not continue the name / start an escape; whitespace only under mayNeedWhitespaceAfter)"],
    scope="internal/css_printer/css_printer.go: printIdent, printWithEscape (with isShort), printQuoted, printQuotedWithQuote, bestQuoteCharForString, printIndent, functionMultiLineCommaPeriod, printTokens (MinifyWhitespace, ASCIIOnly, InlineStyle feature; LineLimit 0) — modelled (Impl/CssPrint.lean); re-lexing the printed text of an identifier or string gives back its code points",
    assumptions=["csslex print: fmt.Sprintf(\"%x\") as hexDigitsOf; strings.ToLower compared with ASCII literals only; URL text passed inline instead of through importRecords"])

# stdioasync (C20): the asynchronous part of the stdio service at packet level
_extend("C20",
    lean_modules=["EsbuildModel.Props.C20Async"],
    theorems=_thms("C20Async", "one_response_per_request never_more_responses_than_requests stdin_is_fifo service_request_ids_unique "
                   "answer_reaches_its_sender stale_answer_panics no_deadlock_under_responsive_host draining_terminates drained_state_is_settled "
                   "settled_means_answered every_service_request_sent_once writer_is_serial written_packet_decodes dispose_waits cancel_waits "
                   "honest_host_never_panics honest_host_invariants"),
    open=["C20Async.cancel_waits in history form is false by design (rebuildWaitGroup.Done() runs before the rebuild's sendPacket); the step form is proved",
          "C20Async.service_returns: after EOF an honest session ends only if the host also disposes every context by a dispose sent after the context's build response (a dispose taken before createActiveBuild is answered and the context lives on: observed HANG on the real service, canExit = false in the model); not a theorem; the host process is trusted by design",
          "C20Async: outside honest_host_never_panics the service does panic, as the model says: a response nobody waits for (callback nil) and a build key re-used while its context is alive (createActiveBuild 'Internal error'); the host is trusted by design: observations",
          "C20Async: response contents, serve-request callbacks, uint32 wrap of nextRequestID, stdout write errors, a host that stops reading stdout, malformed request values: not modelled"],
    kernels=[("stdioasync", 200, 20000)],
    scope="cmd/esbuild/service.go: runService (sequential reader loop, single writer goroutine on the unbuffered outgoingPackets channel, keepAliveWaitGroup at EOF, sendPings), sendPacket, sendRequest (id allocation + callbacks under the mutex), handleIncomingPacket (responses: lookup+delete; build/transform/format-msgs/... on their own goroutine; resolve/rebuild/watch/serve/cancel/dispose keyed by build key incl. the reader-side refusals), getActiveBuild/createActiveBuild/destroyActiveBuild, disposeWaitGroup, rebuildWaitGroup/withinRebuildCount/didGetCancel, handleBuildRequest (one-shot, context creation, the OnStart cancel helper) modelled at packet level (Impl/StdioAsync.lean); real runService sessions against a scripted host (cmd/esbuild/verif_async_test.go) are replayed as accepted traces",
    assumptions=["stdioasync: what a handler computes is abstracted: it may ask the host any number of times and ends only when all those requests have returned (checked by trace inclusion); fewer than 2^31 service->host requests per session; the harness scheduler (trusted only for completeness) places the invisible steps, the Lean driver checks every step, the packets written and the ending; honest host = responses only as answers (each once) + no build key used twice; scheduling is perturbed by random answer delays, not enumerated"])

# stmtprint (C13): statement-level printing hazards
_extend("C13",
    lean_modules=["EsbuildModel.Props.C13Stmt"],
    theorems=["EsbuildModel.C13Stmt.statement_start_safe", "EsbuildModel.StmtPrint.printE_headOk", "EsbuildModel.StmtPrint.printE_not_letBracket", "EsbuildModel.C13Stmt.forbidden_of_head"],
    kernels=[("stmtprint", 1500, 60000)],
    open=["C13Stmt.parse_print_stmt (parsing the printed statement text gives back the statement tree, incl. the if/else association), no_asi_dependence and minified statement gluing: stated in Props/C13Stmt.lean, NOT proved; evidence is the kernel op `round`: the reference parser of Spec/StmtGrammar.lean on the model's tokens and esbuild's real parser on the real printed text both give back the printed tree (27 206 of 27 206 sampled programs), compared on the real lexer's tokens",
          "StmtPrint: arrow bodies, directives, function / class declarations, switch, try, with, comments, LineLimit and MinifySyntax are not in the model"],
    scope="internal/js_printer/js_printer.go: printStmt (SExpr, SEmpty, SBlock, SIf, SFor, SForIn, SForOf, SWhile, SDoWhile, SLabel, SReturn, SThrow, SBreak, SContinue, SLocal, SExportDefault with an expression), printIf, wrapToAvoidAmbiguousElse, printBody, printBlock, printForLoopInit, printDecls, printSemicolonAfterStatement, printSemicolonIfNeeded, the top-level loop of Print; in printExpr the markers stmtStart / exportDefaultStart / forOfInitStart on top of PrecPrint.print; options default and MinifyWhitespace — against Spec/StmtGrammar.lean (ASI-free statement grammar with the lookahead restrictions)",
    assumptions=["stmtprint: tokens and line breaks only (blanks and indentation not modelled); IsSingleLine flags false; atoms: identifier 0 = `let`, 1 = `async`, 2 = EObject{}, 3 = EFunction{}, 4 = EClass{}, 5 = async EFunction{}; needsSemicolon is false on entry of printStmt"])

# interop (C02): the ESM/CommonJS interop helpers of the runtime library
_extend("C02",
    lean_modules=["EsbuildModel.Props.C02Interop"],
    theorems=_thms("C02Interop", "esm_init_once esm_error_cached esm_result_cached commonJS_reentry_returns_current_exports commonJS_throw_resets "
                   "copyProps_never_overwrites_existing copyProps_adds_only_listed_keys copyProps_forwards_preserving_enumerability forwarder_reads_live "
                   "toESM_steps toESM_default_rule_node_mode toESM_default_rule_esModule toESM_namespace_shape toCommonJS_shape export_defines_getter "
                   "thunk_getter_reads_live export_assignment_refused") + ["EsbuildModel.ModuleInterop.table"],
    kernels=[("interop", 600, 20000)],
    open=["Interop: one end-to-end theorem `__toESM(__toCommonJS(ns))` reads back every binding is not stated (it follows from toCommonJS_shape, toESM_namespace_shape, forwarder_reads_live, thunk_getter_reads_live); the whole `__export` loop with an arbitrary world and `__commonJS` 'body runs at most once unless it threw' over arbitrary call trees are not proved (per-property / re-entry / reset forms are)",
          "Interop: the linker side (who passes isNodeMode, `__toESM(require_x(), 1)`, wrapper creation), `__require` and `__glob` are not covered"],
    scope="internal/runtime/runtime.go: the JavaScript text of __export, __copyProps, __reExport, __toESM, __toCommonJS, __esm, __esmMin, __commonJS, __commonJSMin — transcribed statement by statement on a heap model of JavaScript objects (Impl/Interop.lean) against Spec/ModuleInterop.lean (the documented default-export table); the kernel runs the REAL helper text from runtime.Source (modern and ES5 variants) in Node 20 on generated objects and compares event traces and descriptors",
    assumptions=["interop: objects are ordinary objects (no Proxy); keys are not names of built-in prototype properties; own name/length of the closures the helpers create are not modelled; the for-in loop of __export takes its keys when it starts and skips a key only if it has been deleted (V8's behaviour, forced by the kernel); recursion through getters and prototype chains is bounded by fuel"])

# calc (C12): calc() simplification
_extend("C12",
    lean_modules=["EsbuildModel.Props.C12Calc"],
    theorems=_thms("C12Calc", "simplify_preserves_value real_test_never_on_zero merged_constant_is_left_fold merged_units_distinct simplified_sum_units_distinct"),
    kernels=[("calc", 4000, 60000)],
    open=["C12Calc: float64 intermediate rounding is not related to the exact value (`calc(1e16px + 1px - 1e16px)` -> `0px`; observation); the printed decimals of n and fl(1/n) being exact reciprocals is a paper argument + harness check only",
          "C12Calc.simplify_idempotent: FALSE of the code (`calc(2 * (min(1px,2px) * 0.5))` needs two runs; value preserved; observation); print_parse_roundtrip and no-panic on tokenizer-produced tokens are not proved (checked numerically with big rationals by the harness)"],
    scope="internal/css_parser/css_reduce_calc.go in full (tryToReduceCalcExpression, tryToParseCalcTerm, partiallySimplify of calcSum / calcProduct / calcNegate / calcInvert, convertToToken of all node types, floatToStringForCalc) + strconv.ParseFloat on CSS numeric texts — against Spec/CssCalc.lean (calculation trees valued in any field, units and opaque leaves as indeterminates)",
    assumptions=["calc: EqualFold = ASCII folding; ParseFloat for texts over 0-9+-.eE and inf/infinity/nan; the value theorem is over exact field arithmetic (any Lean.Grind.Field), the abstract reciprocal test only assumed never to fire on 0, which is proved of the float64 test"])

# smchunk (C07): assembling the source map of a chunk
_extend("C07",
    lean_modules=["EsbuildModel.Props.C07Chunk"],
    theorems=_thms("C07Chunk", "find_is_lookup builder_with_input_map_is_composition_partial builder_with_input_map_is_composition chunk_map_sources_consistent "
                   "source_index_in_range sourcesContent_aligned names_follow_results relative_source_names_file other_sources_untouched quoted_contents_ascii_only quoted_contents_verbatim"),
    kernels=[("smchunk", 1500, 20000)],
    open=["SmChunk: totality of generateSourceMapForChunk as a whole; a per-segment theorem combining chunk_map_sources_consistent with C07Join.join_decodes; percent-encoding / query + fragment of file URLs; the caller's loop (null entries, OmitFromSourceMapsAndMetafile, ShouldIgnore) in generateChunkJS/CSS: not covered",
          "SmChunk.builder_with_input_map_is_composition needs NoEmptyNames: an input map whose mapping refers to an EMPTY names entry makes esbuild drop the name instead of keeping the printer's name (`if originalName != \"\"` runs after the replacement); observation"],
    scope="internal/sourcemap/sourcemap.go ChunkBuilder.appendMapping (Find lookup, remapping of source index / original line+column / name, namesMap + quotedNames) on top of the ChunkBuilder of Impl/SmJoin; internal/bundler/bundler.go computeDataForSourceMapsInParallel (QuotedContents per source, isASCIIOnly); internal/linker/linker.go generateSourceMapForChunk (sourceIndexToSourcesIndex / nextSourcesIndex, items, sources relative to the chunk directory, sourceRoot, sourcesContent, mappings loop, names) — against Spec/SourceMapCompose.lean (a map as a partial function, composition)",
    assumptions=["smchunk: Go int / int32 never wrap; URL handling modelled as the identity only for file:// + absolute path over [A-Za-z0-9/._-] and for strings not starting with file: (anything else answers UNMODELLED on both sides); QuoteForJSON opaque with the stated ASCII-only guarantee; Unix real FS; the input map's mappings are sorted and its name indices in range (established by ParseSourceMap)"])

# targets (C14): from the option text to the feature set
_extend("C14",
    lean_modules=["EsbuildModel.Props.C14Targets"],
    theorems=_thms("C14Targets", "version_order_total version_line_strict_total compare_semver_respects_line range_membership js_closed_rows css_closed_rows "
                   "engine_monotone css_engine_monotone multi_engine_is_intersection css_multi_engine_is_intersection css_ignores_non_browsers "
                   "duplicate_engine_keeps_lowest prefix_emitted_iff prefix_antitone prefix_data_entries version_regex_is_modelled version_text_accepted_iff "
                   "version_parts version_refused_iff engine_names_prefix_free engine_item engine_item_missing es_item es_year_arithmetic target_list_ok target_list_first_error"),
    gen_facts=["TargetTables.lean"],
    kernels=[("targets", 6000, 200000)],
    open=["C14Targets.target_text_roundtrip (the printed target environment re-parses to the same constraints): not proved; checked by the kernel on every cliv operation",
          "C14Targets: for duplicates of ONE engine the result is the feature set of the LOWEST version, not the intersection: `--target=node12.20,node13.1` keeps import() although esbuild's table says node 13.1 lacks it (closed-range rows of the Node column; known finding c14-duplicate-engine-keeps-lowest)"],
    scope="pkg/cli/cli_impl.go splitWithEmptyCheck, parseTargets, the --supported: case; pkg/api/api_impl.go versionRegex, validateFeatures, validateSupported; pkg/api/api_js_table.go convertEngineName; internal/compat/compat.go Semver.String, CompareSemver, splitOffNextPreReleasePart, preReleasePartToNumber; internal/compat/css_table.go UnsupportedCSSFeatures, CSSPrefixData; config.PrettyPrintTargetEnvironment; tables regenerated (css_table.go cssTable / cssPrefixTable / feature bits, StringToJS/CSSFeature, Engine.String, IsBrowser, cli validEngines, validTargets, the ES switch of validateFeatures, the regex text)",
    assumptions=["targets: text = list of code points; strings.ToLower modelled as ASCII lower-casing plus U+212A and U+0130; Go int is 64 bit; error messages compared as a sorted list; the Go map iteration order is irrelevant (engine_names_prefix_free; masks are ORs)"])

# identlex (C01 / C13 / C15): identifiers
_IDENT_SCOPE = ("internal/js_lexer/js_lexer.go: identifier arms of (*Lexer).Next (byte fast path, slow path, Keywords lookup, the backslash arm, '#' arm), scanIdentifierWithEscapes (both passes, Invalid identifier, TEscapedKeyword), Keywords / StrictModeReservedWords (regenerated); internal/js_ast/js_ident.go IsIdentifier(ES5AndESNext)(UTF16), IsIdentifierStart/Continue, ForceValidIdentifier; internal/js_printer QuoteIdentifier, canPrintIdentifier(UTF16), printIdentifier(UTF16) — against Spec/JsIdentifier.lean (ECMA-262 12.7); the identifier range tables and keyword tables are regenerated from the real packages (Gen/IdentTables.lean)")
_extend("C01",
    lean_modules=["EsbuildModel.Props.C01IdentLex", "EsbuildModel.Props.C01IdentSound", "EsbuildModel.Props.C13IdentPrint"],
    theorems=["EsbuildModel.Props.C01IdentSound.lex_identifier_value_partial", "EsbuildModel.Props.C01IdentSound.surrogate_pair_escapes_accepted",
              "EsbuildModel.Props.C01IdentLex.lex_identifier_complete", "EsbuildModel.Props.C01IdentLex.lex_identifier_complete_spec",
              "EsbuildModel.Props.C01IdentLex.keyword_tables_consistent", "EsbuildModel.Props.C01IdentLex.keyword_tokens",
              "EsbuildModel.Props.C01IdentLex.force_valid_identifier", "EsbuildModel.Props.C01IdentLex.force_valid_identifier_spec",
              "EsbuildModel.Props.C01IdentLex.force_valid_identifier_prefix",
              "EsbuildModel.Props.C13IdentPrint.print_identifier_roundtrip", "EsbuildModel.Props.C13IdentPrint.print_identifier_utf16_roundtrip",
              "EsbuildModel.IdentLex.gen_agree", "EsbuildModel.IdentLex.gen_both_subset"],
    gen_facts=["IdentTables.lean"],
    binaries=["identtables"],
    kernels=[("identlex", 20000, 150000)],
    open=["IdentLex.lex_identifier_value at full strength: FALSE of the code — two escapes that each denote a surrogate half are joined before IsIdentifier looks at them, so `var \\uD835\\uDC9C = 1` is accepted (ECMA-262 12.7.1.1 makes each escape a Syntax Error; V8 rejects) and printed as `\\u{1D49C}`; the output is valid, so this is an accepts-invalid observation; theorem surrogate_pair_escapes_accepted",
          "IdentLex: soundness for #private names, printSpaceBeforeIdentifier, 'a rejected name is never printed bare' (caller pattern) and the link NumberToMinifiedName never yields a keyword are covered by the kernel only"],
    scope=_IDENT_SCOPE,
    assumptions=["identlex: source text and Go strings are well-formed UTF-8; Agree: the generated range tables = the spec's ID_Start / ID_Continue from U+007F on plus three UCD facts (met by the regenerated tables: gen_agree); the tables themselves are a regenerated fact, not proved equal to any Unicode version"])

# chunknames (C15): renameSymbolsInChunk
_extend("C15",
    lean_modules=["EsbuildModel.Props.C15ChunkNames"],
    theorems=_thms("ChunkNames", "import_is_top_ref wrapper_is_top_ref live_top_level_declaration_is_top_ref cjs_hoisted_external_import_is_top_ref "
                   "cjs_module_scope_is_started live_part_scope_is_started chunk_names_injective_where_visible_number no_capture_of_free_globals_number "
                   "cross_chunk_import_has_own_name_number unrenamed_when_possible minified_names_differ_of_slots_differ chunk_names_injective_where_visible_minify "
                   "no_capture_of_free_globals_minify minified_label_not_keyword pinned_symbol_keeps_name_minify cross_chunk_import_has_own_slot_minify "
                   "rename_deterministic_imports resolve_members_perm sorted_top_level_array_perm accumulate_calls_commute rename_deterministic_symbol_uses "
                   "hypWF_iff hypSlots_spec hypImports_spec"),
    kernels=[("chunknames", 400, 20000)],
    open=["ChunkNames rename_deterministic: commutation of Slots.assignRecList over the nested scope lists of different files (goroutines of AssignNamesByScope) is tested, not proved",
          "ChunkNames chunk_names_injective_where_visible_minify takes hnested / hbelow as hypotheses: the composition with the per-file Slots theorems (different symbol numbering) is not proved; hbelow is checked by the driver on every real chunk"],
    scope="internal/linker/linker.go renameSymbolsInChunk (reserved names, sortedImportsFromOtherChunks, MinifyRenamer branch: firstTopLevelSlots, AccumulateSymbolCount calls, AllocateTopLevelSymbolSlots, AssignNamesByFrequency; NumberRenamer branch: AddTopLevelSymbol for cross-chunk imports, wrapper refs, hoisted external import bindings, top-level declarations of live parts, nestedScopes + AssignNamesByScope); internal/renamer/renamer.go ComputeReservedNames, MinifyRenamer, NumberRenamer, StableSymbolCountArray.Less; ast.FollowSymbols — modelled (Impl/ChunkNames.lean, reusing Impl/Slots.lean and Impl/Rename.lean) and tied through the chunk-names observation hook on real api.Build runs, one operation per JS chunk",
    assumptions=["chunknames: the hook numbers refs densely by (StableSourceIndex, InnerIndex) and gives part.Scopes as child-index paths; the minifier alphabets (after ShuffleByCharFreq) are inputs; ASCII names only; uint32 count wrap-around ignored; the parallel phases are run sequentially in file order; the driver checks the hypotheses wf / slots / imp on every real chunk"])

# regexlex (C13 / C14): regular-expression literals
_extend("C13",
    lean_modules=["EsbuildModel.Props.C13RegexLex", "EsbuildModel.Props.C14RegexFeat"],
    theorems=_thms("C13RegexLex", "scan_regexp_is_grammar scan_regexp_complete scan_regexp_sound regexp_token_unique regexp_token_longest regexp_body_nonempty printed_regexp_relexes regexp_to_string_roundtrip")
             + _thms("C14RegexFeat", "feature_scan_sound feature_scan_complete_partial class_property_escape_missed body_has_reading"),
    kernels=[("regexlex", 4000, 200000)],
    open=["C14RegexFeat.feature_scan_complete (every property escape under u/v is noticed): FALSE of the code: the class loop skips every escape, so `/[\\p{L}]/u` is kept under es2015..es2017 (known finding c14-es5-and-regexp-leaks), and only the u flag is looked at, not v; proved: feature_scan_complete_partial (top-level shapes) + class_property_escape_missed",
          "regexlex: `/[</script]/` is printed verbatim (`</script` inside a class) although strings and `a< /script/` are protected: observation, outside printed_regexp_relexes (which is about lexing)",
          "regexlex: message texts, ill-formed UTF-8 in the source, and the whole-parser decision that a `/` is in prefix position (covered by kernel prec) are not modelled"],
    scope="internal/js_lexer/js_lexer.go: the `/` arm of (*Lexer).Next and (*Lexer).ScanRegExp in full (validateAndStep, class loop, flags loop, duplicate-flag error, the u/v exclusivity error, SyntaxError); internal/js_parser/js_parser.go: isUnsupportedRegularExpression and the ERegExp arm of visitExprInOut (new RegExp(pattern[, flags])); internal/js_printer/js_printer.go: the ERegExp arm of printExpr (space after `/`, space between `<` and `/script`), printSpaceBeforeIdentifier (prevRegExpEnd) — against Spec/JsRegExpLiteral.lean (ECMA-262 12.9.5, flag early errors, 13.2.7.3); composed with Quote.decode_print",
    assumptions=["regexlex: the source is well-formed UTF-8; TableAgrees: Unicode ID_Continue below U+007F is [A-Za-z0-9_] and esbuild's table is Unicode's from U+007F on (the kernel passes the table values of the code points it uses); RegExp in `new RegExp` is the intrinsic; Spec.JsRegExpLiteral is the package author's reading of ECMA-262"])

# ---------------------------------------------------------------- batch 7
# commentindent (C16 / C13): re-indentation of multi-line comments
_CI_THMS = _thms("C16CommentIndent", "never_panics panics_iff_out_of_range never_hangs final_indent_invariant not_a_comment_unchanged "
                 "lines_preserved reindent_roundtrip idempotent_at_column_zero result_is_comment")
_extend("C16",
    lean_modules=["EsbuildModel.Props.C16CommentIndent"],
    theorems=_CI_THMS,
    kernels=[("commentindent", 4000, 60000)],
    open=["CommentIndent: prefixes ending in U+2028/U+2029 are outside the column lemma behind reindent_roundtrip (exercised by the kernel only); the callers' range computation is tied through the kernel's js / css operations, not modelled"],
    scope="internal/logger/logger.go (*Source).CommentTextWithoutIndent, transcribed whole: both slices of Contents, the backward loop with utf8.DecodeLastRuneInString, the range loop with start/lines, the minimum-indent loop, line[indent:], strings.Join. Tied differentially through the kernel's js/css operations: the ranges js_lexer.scanCommentText records and js_parser.parseStmtsUpTo passes, and css_lexer.consumeToEndOfMultiLineComment's commentRange",
    assumptions=["commentindent: bytes are naturals (List Nat), the theorems hold for every list; Go's range over a string is Wtf8.goDecodeRune, utf8.DecodeLastRuneInString is transcribed from Go's unicode/utf8; InRange: 0 <= start, 0 <= len, start+len <= len(contents), start+len < 2^31 (panics_iff_out_of_range covers everything else, int32 wrap included)"])
_extend("C13",
    lean_modules=["EsbuildModel.Props.C16CommentIndent"],
    theorems=_thms("C16CommentIndent", "result_is_comment reindent_roundtrip idempotent_at_column_zero"),
    kernels=[("commentindent", 4000, 60000)])

# realpath (C11): symbolic links and real paths in the resolver
_extend("C11",
    lean_modules=["EsbuildModel.Props.C11RealPath"],
    theorems=_thms("C11RealPath", "realpath_deterministic realpath_idempotent evalSymlinks_correct dir_real_path_correct dir_info_exists resolved_file_is_real "
                   "existing_file_found_and_real two_paths_one_module cache_order_irrelevant preserve_symlinks_identity"),
    kernels=[("realpath", 2500, 13000)],
    open=["RealPath.dir_real_path_correct / resolved_file_is_real without NoCaseClash: FALSE of the code on a case-sensitive file system (ReadDirectory keys entries by strings.ToLower(name): `Lib/` and `lib -> …` collapse into the one listed last; known finding c11-case-clash-siblings-collapse); permission errors, link chains near the 40 / 255 limits, Windows, zip / PnP are not covered"],
    scope="internal/resolver/resolver.go: dirInfoCached, dirInfoUncached (parent lookup, ReadDirectory, absRealPath), finalizeResolve (path rewrite), Resolve→loadAsFile/loadNodeModules only for imports naming an existing file exactly (cross-check); internal/fs/filepath.go: goFilepath.evalSymlinks (POSIX side); internal/fs/fs_real.go: kind, kindOfPath, ReadDirectory (ToLower-keyed map, readdir order), EvalSymlinks; internal/fs/fs.go: Entry.Symlink, Entry.Kind, DirEntries.Get — against Spec/RealPath.lean (POSIX pathname resolution / realpath(3) on a finite entry table). Kernel runs on real temporary trees with os.Symlink through the hooks VerifDirInfo / VerifFinalizeResolve, cross-checked with filepath.EvalSymlinks",
    assumptions=["realpath: the OS implements POSIX pathname resolution with at most 40 link expansions (Linux; modelled by osResolve); the file tree does not change during a build (memoisation in realFS.entries / Entry.needStat is not modelled; dirCache is); every path handled is a clean absolute POSIX path, names ASCII; NoCaseClash (forced; recorded defect without it); no permission errors"])

# assethash (C18): names of file / copy loader outputs
_extend("C18",
    lean_modules=["EsbuildModel.Props.C18AssetHash"],
    theorems=_thms("C18AssetHash", "hash_iff_template hash_at_each_position same_name_same_bytes changed_bytes_change_name same_name_same_bytes_literal_prefix "
                   "importer_string_is_output_path emitted_path importer_string_relative_partial template_substitution_exact asset_path_is_expansion"),
    kernels=[("assethash", 1500, 7500), ("assethashfn", 5000, 20000)],
    open=["AssetHash.importer_string_resolves_to_output (without a public path the rewritten import path, resolved from the directory of the importing chunk, is the emitted file): not proved (needs a theory of Rel on two relative paths); proved instead: importer_string_relative_partial",
          "AssetHash.same_name_same_bytes needs the first [hash] at the same offset in both names: without it two BUILDS can emit one hashed name with different bytes (a name or extension that contains the other file's hash text; demonstrated on the real binary, one build reports the collision): observation",
          "AssetHash: a backslash in a POSIX file name is emitted verbatim but referenced with `/` (known finding c18-backslash-asset-name-dangling-reference)"],
    scope="internal/bundler/bundler.go processScannedFiles: the block that creates AdditionalFiles for LoaderFile/LoaderCopy (template choice via entryPointSourceIndexToMetaIndex, HasPlaceholder, xxhash + HashForFileName, useOutputFile, PathRelativeToOutbase, SubstituteTemplate/TemplateToString + ext, Join(AbsOutputDir, relPath)); parseFile uniqueKey+IgnoredSuffix; internal/linker/linker.go substituteFinalPaths (asset piece), pathBetweenChunks, joinWithPublicPath; Compile's duplicate-output check via OutPaths.dedupe; pkg/api validateBuildOptions (outfile to outdir, templates, default asset template) via Impl/OutPathsDriver",
    assumptions=["assethash: HashInj (the 40-bit content hash is injective on the contents considered: explicit hypothesis of the same_name theorems); namespace `file` inputs, POSIX paths, entry-point paths ASCII; tree shaking not modelled (an asset is emitted when its importer is live)"])

# metaimports (C19): imports / exports / entryPoint / cssBundle / inputs[*].imports of the metafile
_extend("C19",
    lean_modules=["EsbuildModel.Props.C19MetaImports", "EsbuildModel.Props.C19MetaQuote"],
    theorems=_thms("MetaImports.Props", "output_imports_exact output_imports_count output_imports_exact_css imports_emitted_aligned chunk_reference_final_path "
                   "external_path_unchanged output_exports_exact entrypoint_cssbundle input_imports_exact input_imports_unbundled quote_valid quote_ascii"),
    kernels=[("metaimports", 600, 26000)],
    open=["MetaImports.json_wellformed for a whole output entry AFTER path substitution (final paths are inserted unescaped: known finding c19-final-path-substituted-unescaped); only QuoteForJSON itself is proved valid (quote_valid)",
          "MetaImports: an unused TypeScript import that is never resolved is listed in inputs[*].imports as `external: true` (resolveResult == nil is treated as external); an unbundled build with the default format omits require() calls from outputs[*].imports although --format=cjs lists them: observations (the metafile says more / less than the emitted code, no emitted file is wrong)"],
    scope="internal/linker/linker.go generateChunkJS / generateChunkCSS `Start the metadata` (imports from the cross-chunk prefix + JSONMetadataImports of the compile results, the file-loader entry of generateCodeForFileInChunkJS, exports, entryPoint, cssBundle); computeCrossChunkDependencies only as source of crossChunkImports / crossChunkPrefixStmts / exportsToOtherChunks; js_printer printPath and css_printer recordImportPathForMetafile (entry shape, external flag, kind); generateChunksInParallel key->final-path substitution of the metadata; internal/bundler/bundler.go processScannedFiles `Generate metadata about each import`; helpers.QuoteForJSON; MetafileFormat.MaybeRemoveWhitespace",
    assumptions=["metaimports: print events of a chunk come from re-parsing the emitted file (js_parser / css_parser + a scanner for the runtime's __require shim) and are matched to records by path text; which statements survive tree shaking and printing is input, not modelled; strings are the code points of valid UTF-8 text; import attributes and the `format` field of inputs are not modelled"])

# printkey (C13 / C01): property keys of object literals and classes
_extend("C13",
    lean_modules=["EsbuildModel.Props.C13PrintKey"],
    theorems=_thms("Props.C13PrintKey", "printed_key_parses_to_same_key with_infinity_key_is_bracketed no_special_key_created_or_lost class_specials_preserved "
                   "proto_setter_preserved shorthand_proto_without_object_extensions prefix_unambiguous prefix_unambiguous_last"),
    kernels=[("printkey", 4000, 60000)],
    open=["PrintKey.key_fixed_point (print∘parse∘print = print for keys): needs a model of the parser side (parseProperty key forms, PreferQuotedKey, computed-flag removal and '123'→123 in visitExpr/visitClass); not proved",
          "PrintKey: member-level reference parser round trip (modifiers + key + tail as one PropertyDefinition / ClassElement parse): only the key, the special-name semantics and the semicolon rule are proved"],
    scope="internal/js_printer/js_printer.go: printProperty (whole), printClass (no extends/decorators), printExpr cases EObject, EIdentifier, EImportIdentifier (namespace alias, inlined const), ENumber=printNumber (NaN/Infinity, withNesting), EBigInt, EString=printQuotedUTF16 (quote choice), ENameOfSymbol, EInlinedEnum, EFunction/printFn/printBlock with empty body, canUseShorthandProperty, printSpace/printNewline/printIndent/printSpaceBeforeIdentifier/endsWithBracedUnicodeEscape, printSemicolonAfterStatement/IfNeeded, numericKeyMustBeComputed (as used by printProperty; printBinding's use of it is not modelled); re-uses models IdentLex, Quote, NumPrint — against Spec/PropertyKey.lean (ECMA-262 PropertyName, ToPropertyKey, __proto__ / constructor / prototype static semantics)",
    assumptions=["printkey: token view (a printed name / string / number lexes to the token with that value: cited from C13IdentPrint, C01, C01NumPrint); `NaN` / `Infinity` denote the global constants (not shadowed, not inside `with`); mangled property names are not special names; no comments, decorators, extends, LineLimit; strconv.FormatFloat text is an input (as in numprint)"])
_extend("C01",
    lean_modules=["EsbuildModel.Props.C13PrintKey"],
    theorems=_thms("Props.C13PrintKey", "printed_key_parses_to_same_key no_special_key_created_or_lost proto_setter_preserved class_specials_preserved"),
    kernels=[("printkey", 4000, 60000)])

# fscache (C09): the file content cache and the modification key it trusts
_extend("C09",
    lean_modules=["EsbuildModel.Props.C09FsCache", "EsbuildModel.Props.C09FsWatch", "EsbuildModel.Props.C09ModKey"],
    theorems=_thms("C09FsCache", "readfile_is_current_of_trusted readfile_is_current zero_mtime_never_usable "
                   "watch_file_predicate_complete_of_trusted watch_file_predicate_complete ast_cache_hit_sound")
           + _thms("C09ModKey", "check_order unix_too_new_is_gap_in_ns other_too_new_is_gap_in_ns gap_constant "
                   "model_unix_matches_source model_other_matches_source key_fields"),
    gen_facts=["ModKeyFacts.lean"],
    kernels=[("fscache", 2500, 60000)],
    open=["FsCache.watch_file_predicate_complete speaks about the LAST read of a path in a build: if one build reads the same file twice (./a.js and ./a.js?2, or two import-attribute variants), the file is edited in between and the build is still running more than modKeySafetyGap seconds later, realFS.ModKey overwrites the recorded key with the second one and the watcher idles on an output that contains the old contents (known finding c09-double-read-overwrites-watch-key; reproduced through pkg/api)",
          "FsCache: hypothesis flip (a path seen missing and then read successfully within ONE build keeps stateFileMissing: a later deletion is not reported) and hypothesis viaCache (a direct fs.ReadFile that is never followed by FSCache.ReadFile gets its key at WatchData() time) are model-level counterexamples, not reproduced end to end",
          "FsCache: on the `other` platforms ResFits asks for resolution <= gap - 1 s + 1 ns (sufficient; not shown necessary)"],
    scope="internal/cache/cache_fs.go FSCache.ReadFile; internal/fs/fs.go ModKey, modKeySafetyGap, modKeyUnusable; internal/fs/modkey_unix.go and modkey_other.go modKey (stat error, zero-mtime rule, too-new rule, key fields; conditions, constant and time units regenerated into Gen/ModKeyFacts.lean by harness/cmd/extract/modkey.go); internal/fs/fs_real.go watch recording of realFS.ModKey and realFS.ReadFile for a path that is a file or missing, WatchData (stateFileNeedModKey resolution; predicates of stateFileMissing / stateFileHasModKey / stateFileUnusableModKey); internal/cache/cache_ast.go CSSCache.Parse, JSONCache.Parse, JSCache.Parse (map keyed by KeyPath, hit rule) - in a world of files (inode, mtime, mode, uid, contents), a clock, a time-stamp resolution, edits by other processes also between the stat and the read of one call",
    assumptions=["fscache: times are unbounded integers of nanoseconds; st_size = length of the contents; only regular files or nothing at a path",
                 "fscache: Trusted = every change of a path leaves a file that is too new at that moment (mtime + gap > clock), or (unix) has an inode number the path never held, or keeps contents and inode with a time stamp that does not go backwards; the clock never goes backwards. Operational form: write/create/replace/touch stamp the clock rounded down to the resolution, 0 < resolution <= gap, no utimes to the past, no rename of an old file over the path, no clock set-back - each part shown necessary by an example",
                 "fscache: the scripted fs.FS of the `hist` operations transcribes modKey in the harness; the real modKey is compared with the model by the `probe` and `wd` operations on real temp files (real clock, margins >= 100 ms / 1 s)",
                 "fscache: parse is a function of (source, options) and Equal options parse alike (C09.js_cache_key_covers / css_cache_key_covers)"])

# privlower (C05): private names lowered to WeakMap / WeakSet helpers
_extend("C05",
    lean_modules=["EsbuildModel.Props.C05Private"],
    theorems=_thms("PrivLower", "private_get_same_outcome private_in_same_outcome private_set_same_outcome private_add_same_outcome brand_check_order_assign "
                   "brand_check_order_compound brand_check_order_logical brand_check_order_call spec_brand_check_order_assign spec_brand_check_order_compound "
                   "weakmap_isolation_set weakmap_isolation_add weakmap_isolation_shadowing"),
    kernels=[("privlower", 1500, 8000), ("privlowersem", 300, 3000)],
    open=["PrivLower.lowered_private_same_outcome (for ALL expressions / programs / fuel the lowered run equals the source run): only the operation-level cases are proved (missing: induction over Expr threading capture temporaries, preservation of Inv, fuel induction)",
          "PrivLower.init_order as a theorem; the order is compared structurally (privlower) and behaviourally with Node (privlowersem) only; guard_transparent is not proved",
          "PrivLower: FALSE of the code, recorded as known findings: a class evaluated more than once shares one hoisted WeakMap (brands of the copies merge); an identifier base is re-read after a private getter ran (`o.#g ||= v`, `o.#g?.()`); `#x in o` inside a computed key of the same class throws; a non-callable private member throws before its arguments are evaluated"],
    scope="js_parser_lower_class.go lowerPrivateBrandCheck/lowerPrivateGet/lowerPrivateSet/lowerPrivateSetUnOp/lowerPrivateSetBinOp and the placement decisions of lowerClass (WeakMap per field, one WeakSet per class+placement, __privateAdd(this,_C_instances) first, fields in source order, static brand then static fields, `this`->class in static initializers, nested class expressions); js_parser.go captureValueWithPossibleSideEffects and the private-name branches of EIndex/EBinary(= op= ||= &&= ??= in)/EUnary(++ --)/ECall/ETemplate visitors; js_parser_lower.go logical-assignment private branch; runtime.go __privateIn/__privateGet/__privateAdd/__privateSet/__privateMethod/__privateWrapper/__accessCheck (text pinned, compared by the kernel) — against Spec/JsPrivate.lean (ECMA-262 PrivateFieldGet/Set/Add, PrivateMethodOrAccessorAdd, PrivateBrandCheck)",
    assumptions=["privlower: every class definition is evaluated at most once (Private Name = (class, name)); no computed member keys; probe functions do not call back into the program; ToPrimitive runs no user code; __publicField on model objects = define own data property; temporaries are numbered by one counter per body (the kernel renumbers by first appearance)"])

# tsclass (C06): TypeScript / ES class lowering (parameter properties, fields, the super() shim)
_extend("C06",
    lean_modules=["EsbuildModel.Props.C06TsClass"],
    theorems=_thms("C06TsClass", "each_super_reaches_its_own_base each_class_is_well_scoped shim_not_used_when_found_at_top_level inserted_statements_follow_super_statement "
                   "shim_used_when_called_twice shim_used_when_not_at_top_level no_shim_without_base_class publicField_is_define "
                   "parameter_property_statements_mean_what_typescript_defines typed_equals_untyped_partial"),
    kernels=[("tsclass", 2000, 30000), ("tsclasssem", 500, 8000)],
    open=["TsClass.lowered_class_same_trace (run m e = run Mode.js (lowerProgram m e) for source programs outside the four recorded defects): NOT proved; tested by kernel tsclasssem against Node",
          "TsClass.shim_forms_same_trace (arrow form and inline form of insertStmtsAfterSuperCall mean the same) and typed_equals_untyped for derived classes, parameter defaults and classes with instance fields: not proved",
          "TsClass: FALSE of the code, recorded as known findings (c06-super-*): `return super()` / `if (super())` / `throw super()` as the LAST thing of a statement head loses the field initialisers; `super()` in a parameter default refers to `__super` out of scope; a constructor that returns an object without calling super() now throws; `super()` inside a nested class's heritage or computed key is not (or wrongly) shimmed"],
    scope="internal/js_parser/js_parser.go visitClass (p.superCtorRef save/override/restore incl. the extends expression, lowerClass afterwards) and the ESuper case of the ECall visit; js_parser_lower_class.go computeClassLoweringInfo, lowerClass -> processProperties/analyzeProperty/lowerField/lowerStaticBlock/lowerMethod (parameter properties), insertInitializersIntoConstructor, insertStmtsAfterSuperCall (SExpr/SReturn/SThrow/SIf), findFirstTopLevelSuperCall, finishAndGenerateCode for class EXPRESSIONS; loader ts, no minify, no decorators/private names/computed keys/auto-accessors/keepNames — against Spec/TsClass.lean (ES2022 class evaluation order + TypeScript parameter properties / useDefineForClassFields)",
    assumptions=["tsclass: no dead code (conditions are never literals, nothing follows return/throw); ES2015 and ES2021 behave alike for this fragment; a constructor never returns an object of another class; TypeScript semantics as read from the Handbook, the TSConfig reference and tsc's emit order (tsc not installed), Node 20 validates the JavaScript part; answers compared modulo comma nesting and with __super symbols renumbered by first appearance"])

# tsns (C06): TypeScript namespaces and enums
_extend("C06",
    lean_modules=["EsbuildModel.Props.C06TsNs"],
    theorems=_thms("C06TsNs", "uninstantiated_emit_nothing uninstantiated_emit_nothing_module uninstantiated_file_emits_nothing dotted_form_is_dropped "
                   "declared_once_partial second_block_reuses_binding minified_joins_preserve_semantics closure_argument_spellings_agree"),
    kernels=[("tsns", 2000, 40000), ("tsnsrun", 600, 12000)],
    open=["TsNs.reference_resolution_matches_ts (every bare identifier is compiled to the binding / ns.member / closure argument / global that TypeScript's resolveName designates) and namespace_object_equal (runJs (compile P) = Spec.run P: outcome, heap with key order, bindings, trace): stated in the header of Props/C06TsNs.lean with the hypotheses found so far, NOT proved; tested by kernel tsnsrun (model and specification against Node) on programs outside the four recorded differences",
          "TsNs.declared_once for whole programs (only the closure generator's step is proved)",
          "TsNs: FALSE of the code, recorded as known finding c06-namespace-enum-hazards: nested `namespace N` then `enum N` hits the TDZ of the `let`; a sibling block's export named like the namespace resolves to the closure argument; a module-level enum is bound only after its closure returns; an enum initialiser referring to an enum in an EARLIER sibling namespace is not a constant"],
    scope="internal/js_parser/ts_parser.go parseTypeScriptNamespaceStmt, parseTypeScriptEnumStmt, getOrCreateExportedNamespaceMembers, generateClosureForTypeScriptNamespaceOrEnum, generateClosureForTypeScriptEnum; js_parser.go declareSymbol/canMergeSymbols (kinds var/let/const/function/namespace/enum), findSymbol, handleIdentifier (reads), the namespace-member case of maybeRewritePropertyAccess, visitStmts' enum pre-pass, visitAndAppendStmt cases SLocal/SFunction/SEnum/SNamespace, mangleStmts joins SExpr+SExpr / SExpr+SReturn / SLocal+SLocal; js_ast FoldBinaryOperator(+), FoldStringAddition, KnownPrimitiveType, ExprCanBeRemovedIfUnused on the model's forms — against Spec/TsNamespaces.lean (instantiation, merged symbols, resolveName, constant enum members, run-time semantics)",
    assumptions=["tsns: numbers are integers below 2^53 in magnitude; every block body runs at most once (no loops; functions without parameters or locals); property names are never inherited ones; tsnsrun compares the specification only on programs outside the four reported differences; tsc is not installed: the TypeScript side cites checker / binder / transformer rules"])

# ctxlock (C20): the lock level of a build context
_extend("C20",
    lean_modules=["EsbuildModel.Props.C20Lock"],
    theorems=_thms("C20Lock", "facts_match_model held_table_closed entries_free locks_never_nested mutex_not_held_while_waiting "
                   "only_wait_under_mutex goroutines_start_without_mutex threads_end_without_mutex held_mutex_name_stable"),
    gen_facts=["CtxLockFacts.lean"],
    kernels=[("ctxlock", 15, 1500)],
    open=["C20Lock.no_deadlock (every reachable state: no panic, and all threads finished or some thread inside a call can step; waits-for ranking): stated in Props/C20Lock.lean, NOT proved",
          "C20Lock.held_iff (dynamic form of the held-mutex table), termination_under_fairness, dispose_waits_for_build, cancel_waits_for_build, joiners_get_result: stated, NOT proved; the dynamic behaviour of the model is tied to the code by the conformance kernel only",
          "C20Lock: event-stream clients (channel send in broadcastBuildResult under apiHandler.mutex) are excluded by assumption; with a client that stops reading the context deadlocks (known finding c20-sse-client-stops-reading-deadlock)"],
    scope="pkg/api/api_impl.go internalContext.rebuild / Rebuild / activeBuildOrRecentBuildOrRebuild / Watch (+ its goroutine and the watcher's rebuild closure) / Cancel / Dispose; pkg/api/watcher.go start (+ polling goroutine) / stop / setWatchData / tryToFindDirtyPath; pkg/api/serve_other.go Serve (+ server goroutine, first-build goroutine, closures handler.rebuild and handler.stop), hackListener.Accept, broadcastBuildResult: every Lock/Unlock/defer Unlock of the four mutexes, WaitGroup Add/Done/Wait, read/write of didDispose, activeBuild, recentBuild, watcher, handler, the two shouldStop flags, build.state, every go statement, in source order (regenerated skeleton = model skeleton); rebuildImpl, http.Server.Serve/Close, CancelFlag.Cancel are library models",
    assumptions=["ctxlock: no server-sent-event client is connected; plugin callbacks do not call methods of their own context; defer Unlock is the first or second statement of its function (treated as an epilogue of every return); the conformance search executes thread-local steps eagerly, never schedules the 250 ms recentBuild goroutine and generates no HTTP connections (affects completeness only: every `ok` is a checked model trace); heldTab is a pasted certificate checked by allPointsOK_true"])

# parwrites (C08): goroutines and what they write
_extend("C08",
    lean_modules=["EsbuildModel.Props.C08ParWrites"],
    theorems=_thms("ParWrites", "disjoint_slot_writers_commute sequential_is_a_schedule neighbour_read_is_schedule_dependent "
                   "mutex_commutative_accumulator mutex_map_insert_distinct_keys map_insert_same_key_is_schedule_dependent "
                   "channel_collect_then_sort first_writer_wins_keeps_first_arrival first_writer_wins_is_schedule_dependent "
                   "append_under_mutex_keeps_arrival_order facts_match_review review_complete no_unreviewed_first_writer_wins "
                   "no_goroutine_uses_a_shared_loop_variable review_verdicts"),
    gen_facts=["ParWrites.lean"],
    kernels=[("parwrites", 40, 1000)],
    open=["ParWrites F1 (diagnostics order; known finding c08-equal-messages-keep-arrival-order): messages that agree on (location, kind, text) keep ARRIVAL order (sort.Stable in the logger): two plugins whose parallel onStart callbacks return the same text are ordered by the schedule",
          "ParWrites F2 (diagnostics location; known finding c08-load-error-blames-first-importer): a message about LOADING a file that several modules import carries the import statement of whichever importer the scanner handled first",
          "ParWrites: callees of goroutine bodies are not analysed; they are listed per site (`calls`) and reviewed by hand"],
    scope="every `go` statement of internal/linker, bundler, graph, renamer, js_printer, css_printer, js_parser, css_parser, resolver, cache, runtime and pkg/api (without serve_*.go, watcher.go): 25 sites (bundler.go 9, linker.go 9, graph.go 1, renamer.go 1, api_impl.go 5), found by the type-checked extractor harness/cmd/extract/parwrites.go; for `go f(..)` the body of f (generateChunkJS/CSS, generateCodeForFileInChunkJS, generateIsolatedHash, parseFile); each site's writes to captured variables classified (own slot / under mutex / atomic / channel / other) and tied to a reviewed table by facts_match_review",
    assumptions=["parwrites: a step is atomic (a write to a location no other goroutine touches before the join, a mutex section, a channel send, a sync/atomic op); data races are excluded by the slot discipline the extractor checks, not modelled; distinct slots hold distinct objects; alias analysis is intra-body and syntactic; range VALUES used as slot index are distinct (reviewed)"])

# stmtmangle (C03): the statement-level minifier
_extend("C03",
    lean_modules=["EsbuildModel.Props.C03StmtMangle"],
    theorems=_thms("MiniJS", "mangleIf_equiv mangleIfShape_equiv dead_code_keeps_hoisted_declarations dead_var_loses_initialisers dead_list_keeps_hoisted_declarations "
                   "expr_stmts_merge_equiv expr_return_merge_equiv expr_throw_merge_equiv expr_if_absorb_equiv unused_expr_stmt_equiv appendBody_equiv"),
    kernels=[("stmtmangle", 8000, 60000)],
    open=["StmtMangle.mangleStmts_preserves_completion (execBody (visitFnBody ss) = execBody ss for every fuel): NOT proved as a whole. Proved: each rewrite of the main loop, mangleIf as a whole, the hoisted names of shouldKeepStmtInDeadControlFlow. Not proved: the loop invariant of mangleStmts (result stack + dead flag), the implicit-jump rule, if/else chain flattening, finalize, label removal, the block/loop/label cases of the visitor; mangleFor_equiv; wf preservation of MangleIfExpr (hypothesis condWf of mangleIf_equiv); the whole is tied by the kernel and its end-to-end witnesses",
          "StmtMangle.idempotent: FALSE of the code (`!u4; throw v5(); return u4();` needs two passes, `L0: { return a.p; break L0 }` keeps its label for one pass; behaviour equal): observation"],
    scope="internal/js_parser/js_parser.go: mangleStmts (without the inlined-constant prepass and the single-use let/const substitution), mangleIf, mangleFor, dropFirstStatement, stmtsToSingleStmt, appendIfOrLabelBodyPreservingScope, shouldKeepStmt(s)InDeadControlFlow incl. the in-place trimming order, stmtCaresAboutScope, isJumpStatement, jumpStmtsLookTheSame, visitStmts (dead-code filter), visitSingleStmt, visitLoopBody, and the SEmpty/SExpr/SLocal/SReturn/SThrow/SBreak/SContinue/SBlock/SIf/SFor/SWhile/SDoWhile/SLabel/SFunction cases of visitAndAppendStmt; driven through js_parser.Parse on generated function bodies — against Spec/MiniJSStmt.lean (completion records, var hoisting, block scope, labels, loops with fuel)",
    assumptions=["stmtmangle: BoundOK and the typeof-flag invariant wf, as in C03MiniJS; TDZ: a let/const binding is written when its declaration runs (esbuild's documented assumption: `{ x; let x = 1 }` loses its ReferenceError); function declarations are opaque; visitExpr is the identity on the generated expressions; the branch of an if is not a declaration"])
