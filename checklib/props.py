# Per-property configuration of ./check.
#   lean_modules : lake targets holding the property's theorems
#   theorems     : fully qualified theorem names audited with `#print axioms` (= the proof obligations)
#   open         : statements kept open / proved only partially (counted as NOT discharged, listed in evidence)
#   gen_facts    : Gen/*.lean files (regenerated from /repo) the theorems depend on
#   kernels      : (hinternal kernel, quick count, thorough count) correspondence runs
#   searches     : (hapi search, quick count, thorough count) end-to-end searches for a failing input
#   binaries     : extra binaries to build from /repo (esbuild, esbuild-race)
PROPS = {
    "C07": {
        "lean_modules": ["EsbuildModel.Props.C07"],
        "theorems": [
            "EsbuildModel.C07.base64_is_rfc4648",
            "EsbuildModel.C07.base64_roundtrip",
            "EsbuildModel.C07.vlq_roundtrip_digits",
            "EsbuildModel.C07.vlq_roundtrip_bytes",
        ],
        "gen_facts": ["Base64.lean"],
        "kernels": [("vlq", 20000, 1000000)],
        "searches": [],
        "scope": "internal/sourcemap/sourcemap.go: encodeVLQ, DecodeVLQ, DecodeVLQUTF16 modelled",
        "assumptions": ["Go int is 64-bit; model integers are unbounded (|v| < 2^62 in every call site)"],
    },
    "C18": {
        "lean_modules": ["EsbuildModel.Props.C18"],
        "theorems": [
            "EsbuildModel.C18.lenprefix_injective",
            "EsbuildModel.C18.pieces_partition_output",
        ],
        "open": ["Hash.name_determines_bytes: FALSE on the current code (known finding c18-hash-ignores-reference-order): the pre-image omits which chunk each placeholder refers to"],
        "gen_facts": [],
        "kernels": [("pieces", 20000, 600000)],
        "searches": [("c18-hash", 120, 4000)],
        "scope": "internal/linker/linker.go: breakOutputIntoPieces, substituteFinalPaths (bytes), hashWriteLengthPrefixed/hashWriteUint32 modelled; chunk hashing as a whole reached by the search only",
        "assumptions": ["xxhash is treated as an injective function of its pre-image (collision freedom is an explicit hypothesis)", "component lengths < 2^32"],
    },
    "C19": {
        "lean_modules": ["EsbuildModel.Props.C19"],
        "theorems": [
            "EsbuildModel.C19.count_eq_len",
            "EsbuildModel.C19.pieces_partition_output",
        ],
        "gen_facts": [],
        "kernels": [("pieces", 20000, 600000)],
        "searches": [("c19-meta", 300, 12000)],
        "scope": "internal/linker/linker.go: accurateFinalByteCount vs substituteFinalPaths, breakOutputIntoPieces modelled; metafile JSON assembly reached by the search only",
        "assumptions": [],
    },
}
