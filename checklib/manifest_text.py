HOOK_COMMITS = ["d747c05"]

TEXT = {
    "C07": {
        "level": "Lean theorems for all integers/inputs on the model of internal/sourcemap (VLQ codec round-trip over the alphabet extracted from the source); the model is tied to the code by the regenerated alphabet fact and by a correspondence run; mapping truth end-to-end is searched, not proved.",
        "note": "Trusted: Lean kernel, extractor, correspondence harness generator quality, Go int = 64 bit. Where the printer adds mappings is not modelled (search only).",
        "technique": "Lean 4 proof on hand-written model + regenerated facts + differential correspondence; Node/Lean-decoded end-to-end search",
    },
}

_pending = "check not built yet in this session (work in progress; the Lean-proof technique does apply — see DESIGN.md §4)"
NOT_APPLICABLE = {("C%02d" % i): _pending for i in range(1, 21)}
