HOOK_COMMITS = ["d747c05", "verif hook: export piece splitting / substitution / hash pre-image helpers of the linker under build tag verif", "verif hook: export printUnquotedUTF16 under build tag verif", "verif hook: synchronous access to a context's watch predicates under build tag verif", "verif hook: export css hex colour helpers under build tag verif", "verif: tree-shaking observation hook (build tag verif; no-op otherwise)", "verif hook: run AssignNamesByFrequency on given slots under build tag verif"]

TEXT = {
    "C07": {
        "level": "Lean theorems for all integers/inputs on the model of internal/sourcemap (VLQ codec round-trip over the alphabet extracted from the source); the model is tied to the code by the regenerated alphabet fact and by a correspondence run; mapping truth end-to-end is searched, not proved.",
        "note": "Trusted: Lean kernel, extractor, correspondence harness generator quality, Go int = 64 bit. Where the printer adds mappings is not modelled (search only).",
        "technique": "Lean 4 proof on hand-written model + regenerated facts + differential correspondence; Node/Lean-decoded end-to-end search",
    },
    "C15": {
        "level": "Lean theorems: the short-name function is injective for every duplicate-free alphabet (bijective numeration), names start with an identifier-start character, and the names AssignNamesByFrequency hands out in one namespace are pairwise different, never reserved (keywords, free identifiers) and capitalised where JSX needs it; tied by correspondence with the real minifier and the real AssignNamesByFrequency (verif hook). Binding preservation itself is a search: scope-heavy scripts with shadowing, hoisting, eval/with and ~60 free globals named like minified identifiers, run in Node before and after renaming; property mangling consistency is a text search over multi-entry builds. Seven defects found, six fixed, two known findings.",
        "note": "Trusted: Lean kernel, hook + harness, Node 20. Scope analysis, slot assignment and the non-minifying renamer are exercised, not modelled.",
        "technique": "Lean 4 proof on hand-written model + differential correspondence; Node run-time search; text search",
    },
    "C16": {
        "level": "PARTIAL. One Lean theorem: flattening an index source map never asks for a negative-length slice and never lets sourcesContent outgrow sources, for every list of sections (tied by correspondence with the real ParseSourceMap, recovered panics included). The property as a whole (all bytes, all options, no panic/hang) is NOT proved: it is searched by deterministic structure-aware mutation of ~21000 literals from the repository's own parser tests across all loaders and option sets, each case in a worker process with address-space and time limits. One defect found and fixed (renamer quadratic/cubic on nested scopes), one known finding (CSS deep nesting quadratic).",
        "note": "Trusted: Lean kernel, harness, worker limits. A fuzz search cannot show absence of crashes; the theorem covers one arithmetic crash site only.",
        "technique": "Lean 4 proof on hand-written model + differential correspondence (one crash site); mutation-fuzz search in isolated workers",
    },
    "C17": {
        "level": "Lean theorems over a model of a build context's file-system effects, for every table, request and history: failed, cancelled and non-writing builds write nothing; no written path is an input unless overwriting was allowed; never two contents for one path; writes are reported outputs; deletions are stale outputs of the same context (also as an invariant over whole rebuild histories). Tied by correspondence: real contexts on real directories, tree snapshots before/after every Rebuild vs the model's predicted deletions/writes/next table. Path identity and output placement are a search on real directories with symlinks, coinciding outdir/outbase, hash-less templates, assets, plugins. One defect found and fixed (symlinked outdir), one known finding (on-end errors come after the write).",
        "note": "Trusted: Lean kernel, harness snapshots (mtime granularity), Linux file system semantics. Windows path canonicalisation and the serve/watch paths are not covered.",
        "technique": "Lean 4 proof on hand-written model + differential correspondence on operation histories; file-system invariant search",
    },
    "C18": {
        "level": "Lean theorems (all inputs) that the length-prefixed hash pre-image encoding is injective and that piece splitting partitions the output; model tied to the linker by a correspondence run through verif-tagged exports. Whole-build oracles (same name => same bytes over single-point edits, reference integrity, no placeholder) are a search, not a proof; name_determines_bytes is a recorded known finding.",
        "note": "Trusted: Lean kernel, correspondence harness, xxhash collision freedom. Modelled not verified: Go code of the linker; only the pre-image encoding and piece splitting are modelled.",
        "technique": "Lean 4 proof on hand-written model + differential correspondence; build-pair search",
    },
    "C19": {
        "level": "Lean theorem for all piece lists and path functions that the byte count reported in the metafile equals the length of the substituted output, tied to the linker by correspondence; the rest of the metafile contract (exact output set, lengths, imports, exports, per-input attribution re-derived from the emitted text) is checked by search over generated builds.",
        "note": "Trusted: Lean kernel, correspondence harness, the independent re-derivation rule for bytesInOutput (unminified ESM only).",
        "technique": "Lean 4 proof on hand-written model + differential correspondence; metafile-vs-output search",
    },
    "C03": {
        "level": "Lean theorem for every float64 value (and every value of Go's unspecified out-of-range conversion) that the compile-time ToInt32/ToUint32 equal ECMA-262's, tied by correspondence over float bit-pattern classes; behaviour preservation of the minifier as a whole is searched with a Node differential over generated probe programs, not proved.",
        "note": "Trusted: Lean kernel, correspondence harness, Node 20 as reference semantics. One recorded known finding (unused object literal with computed key).",
        "technique": "Lean 4 proof on hand-written model + differential correspondence; Node trace differential search",
    },
    "C14": {
        "level": "Lean theorems over the compat table REGENERATED from js_table.go on every run: ES-target monotonicity of the unsupported-feature set, supported-override algebra in both directions, every feature constant has a table row and fits the bit mask; UnsupportedJSFeatures/ApplyOverrides tied by correspondence. That every lowering pass removes its feature is checked by an independent AST feature scanner over outputs (search).",
        "note": "Trusted: Lean kernel, go/ast extractor (output is readable Lean literals), correspondence harness, esbuild's parser as AST provider for the scanner.",
        "technique": "Lean 4 proof over regenerated facts + differential correspondence; AST feature-scanner search",
    },
    "C02": {
        "level": "Lean theorem for all byte strings that the percent-escaped data URL emitted for an imported file decodes (WHATWG percent-decode) to exactly the file's bytes and contains no byte the URL parser strips, tied to helpers.EncodeStringAsPercentEscapedDataURL by correspondence. Module-graph semantics (order, live bindings, interop shapes, errors, entry exports) are checked by loading generated graphs natively in Node and as esm/cjs/iife bundles: a search, not a proof.",
        "note": "Trusted: Lean kernel, correspondence harness, Node 20 as native reference. One recorded known finding (evaluation order with --tree-shaking=false).",
        "technique": "Lean 4 proof on hand-written model + differential correspondence; native-vs-bundle Node differential search",
    },
    "C01": {
        "level": "Lean theorem for ALL UTF-16 sequences, quote kinds and option sets that the escaped string/template body printed by esbuild decodes (ECMA-262 SV/TV, written as an executable spec) to exactly the input value, tied to printUnquotedUTF16 by correspondence through a verif-tagged export. Behaviour preservation of whole programs under charset/whitespace/line-limit/format settings is searched with a Node differential, not proved.",
        "note": "Trusted: Lean kernel, my transcription of the ECMA-262 literal semantics, correspondence harness, UTF-8 encoder, Node 20 as reference semantics.",
        "technique": "Lean 4 proof on hand-written model + differential correspondence; Node trace differential search",
    },
    "C13": {
        "level": "Lean theorem that every string/template literal body the printer emits is a valid literal body (for all inputs/options), tied by correspondence. Validity of whole outputs, acceptance of every V8-valid input and the fixed-point property are decided by V8 and a second compile over grammar-generated programs: a search.",
        "note": "Trusted: Lean kernel, correspondence harness, V8 as reference parser (with one cross-checked V8 bug). One recorded known finding (`await` identifier in scripts).",
        "technique": "Lean 4 proof on hand-written model + differential correspondence; V8 accept/reject + idempotence search",
    },
    "C09": {
        "level": "Lean theorems: (1) over the option-field lists REGENERATED from the source on every run, every field the JS/CSS parser reads is distinguished by the cache key's Equal (decide over the extracted lists); (2) for every request history the AST cache returns exactly a fresh parse, given (1). Equivalence of whole rebuilds with fresh builds over edit histories is a search.",
        "note": "Trusted: Lean kernel, the go/ast extractor, the abstraction of the cache as (source, options) -> AST. Watch mode is not covered by a theorem.",
        "technique": "Lean 4 proof over regenerated facts (translator route) + rebuild-vs-fresh-build history search",
    },
    "C11": {
        "level": "Lean theorem (all keys, all requests) that applicable subpath patterns never tie in PATTERN_KEY_COMPARE, so esbuild's sorted first-match is Node's unique best match independent of JSON key order; the pattern selection of the real resolver is tied to the model by correspondence on a mock file system. Agreement of whole resolutions with Node is decided by asking Node itself on generated package trees: a search.",
        "note": "Trusted: Lean kernel, correspondence harness, Node 20 as oracle. Legacy trailing-slash mappings and specifiers ending in / are excluded as in the property; percent-encoded specifiers are not generated (esbuild does not URL-decode them: candidate finding, not yet probed).",
        "technique": "Lean 4 proof on hand-written model + differential correspondence; Node-as-oracle resolution search",
    },
    "C04": {
        "level": "Lean theorems over a model of the linker's liveness marking on arbitrary part graphs: dependencies of live parts are live (no reference to a removed declaration), a part of an included file is dropped only if flagged removable with no kept import and tree shaking applies, dropped parts are unreferenced, imports of files with side effects are kept unless annotated, and the live set is the least fixed point. Tied by correspondence: the real part graph and IsLive marks of real builds (verif observation hook) vs the model. The purity classification that produces the flags is a search: ~110 statement templates hiding probes, native Node vs bundles with tree shaking on/off.",
        "note": "Trusted: Lean kernel, hook + harness, Node 20. CanBeRemovedIfUnused and symbol-use dependencies are inputs of the model, not modelled; annotation-driven removal (@__PURE__, sideEffects:false) is only covered for the marking, not for call-level purity.",
        "technique": "Lean 4 proof on hand-written model + differential correspondence; Node run-time search",
    },
    "C05": {
        "level": "PARTIAL. Lean theorem lowering_preserves_behaviour: for every expression built from identifiers, literals, calls, property reads, optional property reads, parentheses and ??, in every world and from every state, esbuild's lowering (as modelled) yields the same value or exception and the same calls with the same arguments in the same order — by structural induction, no bound on nesting. The model's lowering is tied to the real parser by comparing S-expressions of the lowered AST on generated expressions. All other lowering passes named by the property are covered only by a search (programs lowered to each target and run in Node 20); `using` is not covered at all. One recorded known finding (BigInt ** lowered to Math.pow).",
        "note": "Trusted: Lean kernel, harness (S-expression printer over js_ast), Node 20. The theorem covers two of the roughly fifteen lowering passes.",
        "technique": "Lean 4 proof on hand-written model (transformation + semantics) + structural correspondence; Node run-time search",
    },
    "C06": {
        "level": "Lean theorems on a model of enum compilation: for every enum with distinct member names the constant inlined for a member equals what the emitted closure stores under that name at run time (last-write-wins object semantics), every member gets a value, auto-increment starts at 0; tied by correspondence with the constants the real ts transform inlines. Type erasure is a search: ~120 kinds of erasable syntax wrapped in markers, typed rendering vs untyped rendering vs js loader must give identical code. Run-time constructs (merged namespaces/enums, cross-file const enums, parameter properties) are a search against the generator's reference semantics in Node. Three recorded known findings.",
        "note": "Trusted: Lean kernel, harness, Node 20, my reading of TypeScript's scoping rules. Decorators, import-equals, JSX options and tsconfig extends are not covered.",
        "technique": "Lean 4 proof on hand-written model + differential correspondence; marker-based erasure search; reference-semantics search",
    },
    "C08": {
        "level": "Lean theorems: the diagnostics comparator is a strict weak order whose unordered pairs have identical keys, so the sorted diagnostics do not depend on arrival order; the entry-point serializer admits only index order under every schedule. Tied by correspondence (real sort.Stable(SortableMsgs), real Serializer with goroutines). Whole-build determinism is a search: repeated in-process builds under varying GOMAXPROCS, random load delays, concurrent siblings and a moved project, comparing files, metafile, mangle cache and diagnostics. One defect found and fixed (diagnostics without location kept arrival order).",
        "note": "Trusted: Lean kernel, harness, Go string order. The Go scheduler is perturbed, not enumerated: the search cannot show absence of a rare interleaving.",
        "technique": "Lean 4 proof on hand-written model + differential correspondence; repeated-build search",
    },
    "C10": {
        "level": "Lean theorems over a model of chunk assignment: executable reachability is graph reachability (pigeonhole, any graph size), every static cross-chunk import goes to a chunk shared by strictly more entry points hence no static import cycle, edges only between existing chunks, each live file in exactly one chunk, used bindings and everything an entry reaches are covered by a static chunk import. Tied by correspondence with real --splitting builds via the metafile. Run-time equivalence with the unsplit bundle is a search (every order of entry points in one Node runtime). One recorded known finding.",
        "note": "Trusted: Lean kernel, the correspondence harness and metafile reader, Node 20 as run-time oracle. Modelled at file granularity (esbuild assigns whole files to chunks); cross-chunk export aliasing and the renamer are covered only by the search.",
        "technique": "Lean 4 proof on hand-written model + differential correspondence; Node run-time search",
    },
    "C12": {
        "level": "Lean theorems that hex colour shortening is applied exactly when it preserves the colour value (all 32-bit colours), tied by correspondence. Cascade preservation of minification, lowering and @import bundling is checked by an independent cascade evaluator over an enumerated universe of elements x environments x properties: a search. Two recorded known findings.",
        "note": "Trusted: Lean kernel, correspondence harness, the evaluator's reading of the cascade (layers, importance, specificity, order) for compound selectors only. Colour-space maths, gradients, nesting expansion and CSS modules are not covered yet.",
        "technique": "Lean 4 proof on hand-written model + differential correspondence; cascade-evaluator search",
    },
    "C20": {
        "level": "PARTIAL. Lean theorems over an interleaving model of a build context (any number of threads, any schedule): an invariant preserved by every atomic step, at most one build at a time, Cancel/Dispose/joined Rebuild return only after the build they saw is done, no deadlock (a blocked thread always has an enabled action of its own or of the build's owner), a Rebuild that finds no active build starts one that sees all earlier edits, a disposed context starts no build. Tied by history correspondence: real goroutines on a real context, stamped histories linearised and replayed on the model. Plugin callback ordering (start before resolve/load, load once, end once after write) and data races (Go race detector) are searches. Watch, serve and the stdio service protocol are not covered.",
        "note": "Trusted: Lean kernel, harness linearisation, Go race detector. Real schedules are sampled, not enumerated.",
        "technique": "Lean 4 proof on hand-written state machine + history (trace) correspondence; callback-log search; race-detector search",
    },
}

_pending = "(unused) not claimed: the search c05-prog exists (programs lowered to every target and run in Node; it finds the recorded BigInt ** defect and seeded change C05-m1) but no Lean model of a lowering pass is tied to the code yet, so the property is not claimed on a search alone; the technique does apply (see DESIGN.md A.6); seeded change C05-m2 (`using`) cannot be detected with Node 20"
NOT_APPLICABLE = {("C%02d" % i): _pending for i in range(1, 21)}
