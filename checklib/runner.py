import sys, os, json, subprocess, time, hashlib, fcntl, re, shutil, argparse, concurrent.futures

VERIF = os.path.dirname(os.path.dirname(os.path.abspath(__file__)))
REPO = os.environ.get("VERIF_REPO", "/repo")
BUILD = os.path.join(VERIF, ".build")
BIN = os.path.join(BUILD, "bin")
LEAN = os.path.join(VERIF, "lean")
GEN = os.path.join(LEAN, "EsbuildModel", "Gen")
DRIVER = os.path.join(LEAN, ".lake", "build", "bin", "modeldriver")
ALLOWED_AXIOMS = {"propext", "Classical.choice", "Quot.sound"}

GOENV = dict(os.environ, GOFLAGS="-mod=mod", GOPROXY="off", GOSUMDB="off", GOTOOLCHAIN="local",
             CGO_ENABLED=os.environ.get("CGO_ENABLED", "0"))

from checklib.props import PROPS  # noqa: E402


def log(*a):
    print("[check]", *a, file=sys.stderr, flush=True)


def sh(cmd, cwd=None, env=None, timeout=None, input=None):
    p = subprocess.run(cmd, cwd=cwd, env=env, stdout=subprocess.PIPE, stderr=subprocess.PIPE,
                       timeout=timeout, input=input)
    return p.returncode, p.stdout.decode("utf8", "replace"), p.stderr.decode("utf8", "replace")


class Lock:
    def __init__(self, name):
        os.makedirs(BUILD, exist_ok=True)
        self.path = os.path.join(BUILD, name + ".lock")

    def __enter__(self):
        self.f = open(self.path, "w")
        fcntl.flock(self.f, fcntl.LOCK_EX)

    def __exit__(self, *a):
        fcntl.flock(self.f, fcntl.LOCK_UN)
        self.f.close()


# ----------------------------------------------------------------------------------------------
# step 1: build tools from /repo's working tree

def build_tools(need):
    """returns {tool: error-or-None}"""
    os.makedirs(BIN, exist_ok=True)
    res = {}
    harness = os.path.join(VERIF, "harness")
    # go.sum must match /repo's
    try:
        shutil.copyfile(os.path.join(REPO, "go.sum"), os.path.join(harness, "go.sum"))
    except Exception:
        pass
    with Lock("gobuild"):
        for tool in need:
            if tool == "esbuild":
                cmd = ["go", "build", "-tags", "verif", "-o", os.path.join(BIN, "esbuild"), "./cmd/esbuild"]
                cwd = REPO
            elif tool == "esbuild-race":
                cmd = ["go", "build", "-race", "-tags", "verif", "-o", os.path.join(BIN, "esbuild-race"), "./cmd/esbuild"]
                cwd = REPO
            elif tool == "mapranges":
                cmd = ["go", "build", "-o", os.path.join(BIN, "mapranges"), "."]
                cwd = os.path.join(VERIF, "tools", "mapranges")
            elif tool.endswith("-race"):
                cmd = ["go", "build", "-race", "-tags", "verif", "-o", os.path.join(BIN, tool), "./cmd/" + tool[:-5]]
                cwd = harness
            else:
                cmd = ["go", "build", "-tags", "verif", "-o", os.path.join(BIN, tool), "./cmd/" + tool]
                cwd = harness
            env = dict(GOENV)
            if tool.endswith("-race"):
                env["CGO_ENABLED"] = "1"
            rc, out, err = sh(cmd, cwd=cwd, env=env, timeout=1200)
            res[tool] = None if rc == 0 else (out + err)[-4000:]
            if rc != 0 and tool == "hapi":
                # the verif-tagged hooks of /repo no longer compile: fall back to the public API only, so that the
                # end-to-end searches can still look for a failing input
                cmd2 = ["go", "build", "-o", os.path.join(BIN, tool), "./cmd/" + tool]
                rc2, out2, err2 = sh(cmd2, cwd=cwd, env=env, timeout=1200)
                if rc2 == 0:
                    res["hapi-noverif"] = res[tool]
                    res[tool] = None
    return res


# ----------------------------------------------------------------------------------------------
# step 2: facts + theorems

MAPRANGE_PKGS = ["./internal/linker", "./internal/bundler", "./pkg/api", "./internal/graph", "./internal/resolver",
                 "./internal/js_printer", "./internal/css_printer", "./internal/renamer"]


def run_extract(with_mapranges=False, with_identtables=False):
    with Lock("lake"):
        rc, out, err = sh([os.path.join(BIN, "extract"), REPO, GEN], timeout=300)
        if rc == 0 and with_identtables:
            # the identifier range tables and keyword tables, dumped from the real js_ast / js_lexer packages
            rc, out, err = sh([os.path.join(BIN, "identtables"), os.path.join(GEN, "IdentTables.lean")], env=GOENV, timeout=600)
        if rc == 0 and with_mapranges:
            # type-checked facts (go/packages): every `for ... range <map>` loop of the build pipeline
            rc, out, err = sh([os.path.join(BIN, "mapranges"), REPO, os.path.join(GEN, "MapRanges.lean")] + MAPRANGE_PKGS,
                              env=GOENV, timeout=600)
    return None if rc == 0 else (out + err)[-4000:]


def gen_hashes(files):
    h = {}
    for f in files:
        p = os.path.join(GEN, f)
        if os.path.exists(p):
            h[f] = hashlib.sha256(open(p, "rb").read()).hexdigest()[:16]
    return h


def lake_build(targets):
    with Lock("lake"):
        rc, out, err = sh(["lake", "build"] + targets, cwd=LEAN, timeout=3000)
    if rc == 0:
        return None
    lines = [l for l in (out + err).splitlines() if "error" in l.lower() or "✖" in l]
    return "\n".join(lines[:40]) or (out + err)[-3000:]


def strip_comments(src):
    # remove /- ... -/ (nested) and -- comments
    out = []
    i = 0
    depth = 0
    n = len(src)
    while i < n:
        if src.startswith("/-", i):
            depth += 1
            i += 2
        elif depth > 0 and src.startswith("-/", i):
            depth -= 1
            i += 2
        elif depth > 0:
            i += 1
        elif src.startswith("--", i):
            while i < n and src[i] != "\n":
                i += 1
        else:
            out.append(src[i])
            i += 1
    return "".join(out)


FORBIDDEN = re.compile(r"\b(sorry|admit|native_decide|bv_decide|implemented_by|unsafe)\b|^\s*axiom\s|maxHeartbeats\s+0", re.M)


def grep_forbidden():
    hits = []
    for root, _, files in os.walk(LEAN):
        if ".lake" in root:
            continue
        for f in files:
            if f.endswith(".lean"):
                p = os.path.join(root, f)
                src = strip_comments(open(p, encoding="utf8").read())
                # ignore string literals crudely
                src = re.sub(r'"(\\.|[^"\\])*"', '""', src)
                for m in FORBIDDEN.finditer(src):
                    hits.append("%s: %s" % (os.path.relpath(p, LEAN), m.group(0).strip()))
    return hits


def audit(prop, modules, theorems):
    """returns (results {thm: [axioms] or None if missing}, error)"""
    os.makedirs(os.path.join(BUILD, "audit"), exist_ok=True)
    path = os.path.join(BUILD, "audit", prop + ".lean")
    with open(path, "w") as f:
        for m in modules:
            f.write("import %s\n" % m)
        for t in theorems:
            f.write("#print axioms %s\n" % t)
    rc, out, err = sh(["lake", "env", "lean", path], cwd=LEAN, timeout=1200)
    text = out + err
    res = {}
    # messages: "'X' depends on axioms: [a, b]" / "'X' does not depend on any axioms"
    flat = re.sub(r"\s+", " ", text)
    for t in theorems:
        m = re.search(r"'%s' depends on axioms: \[([^\]]*)\]" % re.escape(t), flat)
        if m:
            res[t] = [a.strip() for a in m.group(1).split(",") if a.strip()]
            continue
        if re.search(r"'%s' does not depend on any axioms" % re.escape(t), flat):
            res[t] = []
            continue
        res[t] = None
    return res, (None if rc == 0 else text[-3000:])


# ----------------------------------------------------------------------------------------------
# step 3: correspondence

def correspondence(kernel, seed, count, tier, workdir):
    ops = os.path.join(workdir, kernel + ".ops")
    exp = os.path.join(workdir, kernel + ".exp")
    got = os.path.join(workdir, kernel + ".got")
    stats = os.path.join(workdir, kernel + ".stats")
    wit = os.path.join(workdir, kernel + ".wit")
    env = dict(os.environ, VERIF_TIER=tier, GOMAXPROCS=os.environ.get("GOMAXPROCS", "8"))
    try:
        rc, out, err = sh([os.path.join(BIN, "hinternal"), kernel, str(seed), str(count), ops, exp, stats, wit], env=env, timeout=4 * 3600)
    except subprocess.TimeoutExpired:
        return {"kernel": kernel, "error": "hinternal did not finish %d cases within 4 h" % count, "cases": 0, "disagreements": []}
    if rc != 0:
        return {"kernel": kernel, "error": "hinternal failed: " + (out + err)[-2000:], "cases": 0, "disagreements": []}
    with open(ops, "rb") as fi, open(got, "wb") as fo:
        try:
            p = subprocess.run([DRIVER], stdin=fi, stdout=fo, stderr=subprocess.PIPE, timeout=4 * 3600)
        except subprocess.TimeoutExpired:
            return {"kernel": kernel, "error": "modeldriver did not finish %d cases within 4 h" % count, "cases": 0, "disagreements": []}
    if p.returncode != 0:
        return {"kernel": kernel, "error": "modeldriver failed: " + p.stderr.decode()[-2000:], "cases": 0, "disagreements": []}
    dis = []
    n = 0
    with open(ops, encoding="utf8", errors="replace") as fo, open(exp, encoding="utf8", errors="replace") as fe, open(got, encoding="utf8", errors="replace") as fg:
        for o, e in zip(fo, fe):
            g = fg.readline()
            n += 1
            if e != g:
                if len(dis) < 20:
                    dis.append({"index": n - 1, "op": o.rstrip("\n"), "implementation": e.rstrip("\n"), "model": g.rstrip("\n")})
                else:
                    dis.append(None)
    ndis = len(dis)
    dis = [d for d in dis if d]
    # end-to-end witnesses of the disagreeing operations (kernels that provide them, see emitW in hinternal)
    try:
        want = {d["index"]: d for d in dis}
        if want and os.path.exists(wit):
            with open(wit, encoding="utf8", errors="replace") as fw:
                for i, line in enumerate(fw):
                    if i in want and line.strip():
                        want[i]["witness"] = json.loads(line)
    except Exception:
        pass
    st = {}
    try:
        st = json.load(open(stats))
    except Exception:
        pass
    sample = []
    try:
        with open(ops, encoding="utf8", errors="replace") as fo, open(exp, encoding="utf8", errors="replace") as fe:
            for i, (o, e) in enumerate(zip(fo, fe)):
                if i % max(1, n // 3) == 0 and len(sample) < 3:
                    sample.append({"op": o.rstrip("\n")[:300], "result": e.rstrip("\n")[:300]})
    except Exception:
        pass
    return {"kernel": kernel, "cases": n, "distribution": st, "disagreement_count": ndis, "disagreements": dis, "samples": sample, "error": None}


# ----------------------------------------------------------------------------------------------
# step 4: search

def search(name, seed, count, tier, workdir, extra=None):
    env = dict(os.environ, VERIF_TIER=tier, VERIF_NODE_DIR=os.path.join(VERIF, "node"), VERIF_BIN=BIN,
               VERIF_DRIVER=DRIVER, VERIF_REPO=REPO)
    wd = os.path.join(workdir, "search-" + name)
    os.makedirs(wd, exist_ok=True)
    cmd = [os.path.join(BIN, "hapi"), name, str(seed), str(count), wd] + (extra or [])
    try:
        rc, out, err = sh(cmd, env=env, timeout=6 * 3600)
    except subprocess.TimeoutExpired:
        return {"search": name, "error": "timeout", "evaluations": 0, "violations": []}
    try:
        res = json.loads(out)
    except Exception:
        return {"search": name, "error": "hapi %s failed rc=%d: %s" % (name, rc, (out[-1500:] + err[-2500:])), "evaluations": 0, "violations": []}
    res["search"] = name
    res.setdefault("error", None)
    res.setdefault("violations", [])
    return res


# ----------------------------------------------------------------------------------------------
# known findings

def load_known():
    path = os.path.join(VERIF, "known-findings.jsonl")
    out = []
    if os.path.exists(path):
        for line in open(path):
            line = line.strip()
            if line and not line.startswith("#"):
                out.append(json.loads(line))
    return out


def match_known(known, prop, vclass):
    for k in known:
        if k.get("property") == prop and k.get("status") == "known" and k.get("class") == vclass:
            return k
    return None


def write_replay(prop, obj):
    os.makedirs(os.path.join(VERIF, "replays"), exist_ok=True)
    blob = json.dumps(obj, indent=1, sort_keys=True)
    h = hashlib.sha256(blob.encode()).hexdigest()[:12]
    path = os.path.join(VERIF, "replays", "%s-%s.json" % (prop, h))
    with open(path, "w") as f:
        f.write(blob)
    return path


# ----------------------------------------------------------------------------------------------

def do_replay(prop, path):
    obj = json.load(open(path))
    kind = obj.get("kind")
    tools = build_tools(["extract", "hinternal", "hapi"])
    if kind == "search":
        env = dict(os.environ, VERIF_NODE_DIR=os.path.join(VERIF, "node"), VERIF_BIN=BIN, VERIF_DRIVER=DRIVER, VERIF_REPO=REPO)
        wd = os.path.join(BUILD, "work", "replay")
        os.makedirs(wd, exist_ok=True)
        rc, out, err = sh([os.path.join(BIN, "hapi"), "replay", path, wd], env=env, timeout=3600)
        print(out)
        print(err, file=sys.stderr)
        try:
            res = json.loads(out)
            if res.get("violations"):
                print("VIOLATION property=%s replay=%s" % (prop, path))
                return 1
            return 0
        except Exception:
            return 2
    elif kind == "correspondence":
        op = obj["op"]
        run_extract()
        lake_build(["modeldriver"])
        p = subprocess.run([DRIVER], input=(op + "\n").encode(), stdout=subprocess.PIPE)
        model = p.stdout.decode().rstrip("\n")
        print("op:            ", op)
        print("implementation:", obj.get("implementation"), "(recorded)")
        print("model:         ", model)
        if model != obj.get("implementation"):
            print("VIOLATION property=%s replay=%s no-failing-input-found" % (prop, path))
            return 1
        return 0
    else:
        print(json.dumps(obj, indent=1))
        return 1


def main(argv):
    ap = argparse.ArgumentParser()
    ap.add_argument("prop")
    ap.add_argument("--tier", default=os.environ.get("VERIF_TIER", "quick"))
    ap.add_argument("--replay")
    ap.add_argument("--skip-search", action="store_true")
    ap.add_argument("--only-search", action="store_true")
    args = ap.parse_args(argv)
    prop = args.prop
    if prop not in PROPS:
        print("unknown property", prop, file=sys.stderr)
        return 2
    if args.replay:
        return do_replay(prop, args.replay)
    tier = args.tier if args.tier in ("quick", "thorough") else "quick"
    try:
        seed = int(os.environ.get("VERIF_SEED", "1"))
    except ValueError:
        seed = 1
    cfg = PROPS[prop]
    t0 = time.time()
    workdir = os.path.join(BUILD, "work", "%s-%s-%d" % (prop, tier, os.getpid()))
    os.makedirs(workdir, exist_ok=True)
    evidence_path = os.path.join(VERIF, "evidence", prop + ".json")
    os.makedirs(os.path.dirname(evidence_path), exist_ok=True)

    broken = []        # list of dicts {kind: theorem|correspondence|tie, name, detail}
    violations = []    # concrete failing inputs from search: dicts {class, what, replay{...}}
    known_lines = []

    # 1. build
    need = ["extract", "hinternal", "hapi"] + cfg.get("binaries", [])
    tools = build_tools(need)
    log("tools built:", {k: (v is None) for k, v in tools.items()})
    if tools.get("extract"):
        broken.append({"kind": "tie", "name": "extract (fact extractors do not build)", "detail": tools["extract"]})
    if tools.get("hinternal"):
        broken.append({"kind": "correspondence", "name": "hinternal does not compile against /repo (internal API changed)", "detail": tools["hinternal"]})
    if tools.get("hapi-noverif"):
        broken.append({"kind": "tie", "name": "the verif-tagged hooks of /repo do not compile (search harness rebuilt on the public API only)", "detail": tools["hapi-noverif"]})
    for b in cfg.get("binaries", []):
        if tools.get(b):
            broken.append({"kind": "tie", "name": b + " does not build", "detail": tools[b]})

    # 2. facts + theorems
    theorems = cfg.get("theorems", [])
    audit_res = {}
    lean_err = None
    if not tools.get("extract"):
        e = run_extract(with_mapranges=("mapranges" in cfg.get("binaries", []) and not tools.get("mapranges")),
                        with_identtables=("identtables" in cfg.get("binaries", []) and not tools.get("identtables")))
        if e:
            broken.append({"kind": "tie", "name": "fact extraction from /repo failed", "detail": e})
    if not args.only_search:
        lean_err = lake_build(cfg.get("lean_modules", []) + ["modeldriver"])
        if lean_err:
            # distinguish: does the driver alone build? which theorem module fails?
            broken.append({"kind": "theorem", "name": "lake build of %s failed (a proof obligation over regenerated facts no longer checks)" % ",".join(cfg.get("lean_modules", [])), "detail": lean_err})
            drv = lake_build(["modeldriver"])
            if drv:
                broken.append({"kind": "tie", "name": "modeldriver does not build", "detail": drv})
        else:
            audit_res, aerr = audit(prop, cfg.get("lean_modules", []), theorems)
            for t in theorems:
                ax = audit_res.get(t)
                if ax is None:
                    broken.append({"kind": "theorem", "name": t, "detail": "theorem missing from build"})
                elif set(ax) - ALLOWED_AXIOMS:
                    broken.append({"kind": "theorem", "name": t, "detail": "depends on axioms %s" % ax})
        if tier == "thorough" and not lean_err:
            # independent re-check of the compiled proofs of this property's modules (and everything they import)
            with Lock("lake"):
                rcL, outL, errL = sh(["lake", "env", "leanchecker"] + cfg.get("lean_modules", []), cwd=LEAN, timeout=3000)
            if rcL != 0:
                broken.append({"kind": "theorem", "name": "leanchecker rejects the compiled modules", "detail": (outL + errL)[-3000:]})
        forb = grep_forbidden()
        if forb:
            broken.append({"kind": "theorem", "name": "forbidden construct in Lean sources", "detail": "; ".join(forb[:10])})
    discharged = sum(1 for t in theorems if audit_res.get(t) is not None and not (set(audit_res[t]) - ALLOWED_AXIOMS)) if not lean_err else 0

    # 3. correspondence
    corr = []
    if not tools.get("hinternal") and os.path.exists(DRIVER) and not args.only_search:
        ks = cfg.get("kernels", [])
        with concurrent.futures.ThreadPoolExecutor(max_workers=4) as ex:
            futs = [ex.submit(correspondence, k, seed, (q if tier == "quick" else t), tier, workdir) for (k, q, t) in ks]
            for f in futs:
                corr.append(f.result())
        for c in corr:
            if c.get("error"):
                broken.append({"kind": "correspondence", "name": c["kernel"], "detail": c["error"]})
            elif c["disagreement_count"]:
                first = c["disagreements"][0]
                concrete = False
                if prop == "C16":
                    # C16 is crash freedom: an input on which the real code panics IS a failing input
                    for d in c["disagreements"]:
                        if str(d.get("implementation", "")).startswith("PANIC"):
                            first, concrete = d, True
                            break
                if prop == "C20":
                    # a recorded real history that admits no linearisation (e.g. Cancel returned while the build
                    # it saw was still running) is a concrete failing history
                    for d in c["disagreements"]:
                        if str(d.get("implementation", "")).startswith("NO-LINEARISATION"):
                            first, concrete = d, True
                            break
                broken.append({"kind": "correspondence", "name": c["kernel"], "detail": "%d of %d cases disagree" % (c["disagreement_count"], c["cases"]), "first": first, "concrete": concrete})

    # 3b. a disagreeing operation that comes with an end-to-end witness is replayed on the REAL code through the
    # search harness: if the property itself fails on it, that input is the replay of the violation
    witness_violations = []
    if not tools.get("hapi"):
        tried = 0
        for c in corr:
            for d in c.get("disagreements", []):
                w = d.get("witness")
                if not w or tried >= 12:
                    continue
                tried += 1
                pf = os.path.join(workdir, "witness-%d.json" % tried)
                json.dump({"search": w["search"], "case": w["case"]}, open(pf, "w"))
                env = dict(os.environ, VERIF_NODE_DIR=os.path.join(VERIF, "node"), VERIF_BIN=BIN, VERIF_DRIVER=DRIVER, VERIF_REPO=REPO)
                wd = os.path.join(workdir, "witness-wd-%d" % tried)
                os.makedirs(wd, exist_ok=True)
                try:
                    rc2, out2, err2 = sh([os.path.join(BIN, "hapi"), "replay", pf, wd], env=env, timeout=600)
                    res2 = json.loads(out2)
                    for v in res2.get("violations", [])[:1]:
                        witness_violations.append(dict(v, search=w["search"], replay=v.get("replay") or w["case"],
                                                       what="%s [witness of disagreeing %s operation: %s]" % (v.get("what"), c["kernel"], d.get("op", "")[:200])))
                except Exception:
                    pass

    # 4. search (standing sweep; boosted when something above broke)
    searches = []
    if not args.skip_search and not tools.get("hapi"):
        boost = 4 if broken else 1
        for (name, q, t) in cfg.get("searches", []):
            n = (q if tier == "quick" else t) * boost
            r = search(name, seed, n, tier, workdir)
            searches.append(r)
            if r.get("error"):
                broken.append({"kind": "tie", "name": "search " + name, "detail": r["error"]})
    elif tools.get("hapi"):
        broken.append({"kind": "tie", "name": "hapi (public-API search harness) does not build", "detail": tools["hapi"]})

    known = load_known()
    # known findings carry a probe (one specific failing input). It is re-run on every check: if it still
    # fails the finding is printed as KNOWN-FINDING; the standing generators avoid that construct, so any
    # violation they report is a different one.
    probes_run = 0
    if not args.skip_search and not tools.get("hapi"):
        for k in known:
            if k.get("property") == prop and k.get("status") == "known" and k.get("probe"):
                pf = os.path.join(workdir, "probe-%d.json" % probes_run)
                probes_run += 1
                json.dump({"search": k["probe"]["search"], "case": k["probe"]["case"]}, open(pf, "w"))
                env = dict(os.environ, VERIF_NODE_DIR=os.path.join(VERIF, "node"), VERIF_BIN=BIN, VERIF_DRIVER=DRIVER, VERIF_REPO=REPO)
                wd = os.path.join(workdir, "probe-wd-%d" % probes_run)
                os.makedirs(wd, exist_ok=True)
                try:
                    rc2, out2, err2 = sh([os.path.join(BIN, "hapi"), "replay", pf, wd], env=env, timeout=600)
                    res2 = json.loads(out2)
                    if res2.get("violations"):
                        known_lines.append("KNOWN-FINDING: property=%s %s" % (prop, k.get("what", "")))
                except Exception as e:
                    broken.append({"kind": "tie", "name": "known-finding probe failed to run", "detail": str(e)})
    violations.extend(witness_violations)
    for r in searches:
        for v in r.get("violations", []):
            k = match_known(known, prop, v.get("class"))
            if k:
                line = "KNOWN-FINDING: property=%s %s" % (prop, k.get("what", v.get("class")))
                if line not in known_lines:
                    known_lines.append(line)
            else:
                violations.append(dict(v, search=r["search"]))

    # 5. report
    out_lines = []
    rc = 0
    seen_classes = set()
    for v in violations:
        c = v.get("class")
        if c in seen_classes:
            continue
        seen_classes.add(c)
        path = write_replay(prop, {"property": prop, "kind": "search", "search": v.get("search"), "class": c, "what": v.get("what"), "seed": seed, "case": v.get("replay"), "broken": [{"kind": b["kind"], "name": b["name"]} for b in broken]})
        out_lines.append("VIOLATION property=%s replay=%s" % (prop, path))
        rc = 1
    if broken and not violations:
        for b in broken:
            obj = {"property": prop, "kind": b["kind"], "name": b["name"], "detail": b.get("detail"), "seed": seed,
                   "note": "no concrete failing input for the property itself was found by the search stage; the named theorem / correspondence / tie no longer checks, so the property is no longer shown to hold"}
            if b.get("first"):
                obj["kind"] = "correspondence"
                obj.update(b["first"])
            path = write_replay(prop, obj)
            out_lines.append("VIOLATION property=%s replay=%s%s" % (prop, path, "" if b.get("concrete") else " no-failing-input-found"))
            rc = 1
    for l in known_lines:
        print(l)
    for l in out_lines:
        print(l)

    # evidence
    evals = sum(c.get("cases", 0) for c in corr) + sum(r.get("evaluations", 0) for r in searches)
    distinct = sum(r.get("distinct_nontrivial", 0) for r in searches) + sum(c.get("cases", 0) for c in corr)
    samples = []
    for t in theorems[:3]:
        samples.append({"obligation": t, "axioms": audit_res.get(t)})
    for c in corr:
        samples += c.get("samples", [])[:2]
    for r in searches:
        samples += r.get("samples", [])[:2]
    ev = {
        "property_id": prop,
        "tier": tier,
        "seed": seed,
        "level": "proof",
        "coverage": {
            "obligations": max(1, len(theorems)),
            "discharged": discharged,
            "checker_cmd": "cd /verif/lean && lake build %s && lake env lean .build/audit/%s.lean  (#print axioms per theorem)" % (" ".join(cfg.get("lean_modules", [])), prop),
            "trusted_base": ["Lean 4.33 kernel", "axioms allowed: propext, Classical.choice, Quot.sound (no native_decide/bv_decide/sorry)",
                             "fact extractors harness/cmd/extract", "correspondence harness harness/cmd/hinternal + lean/Driver.lean",
                             "Node 20 as executor in the search stage"] + cfg.get("trusted", []),
            "theorems": {t: audit_res.get(t) for t in theorems},
            "open_statements": cfg.get("open", []),
            "generated_facts": gen_hashes(cfg.get("gen_facts", [])),
            "correspondence": [{k: c.get(k) for k in ("kernel", "cases", "distribution", "disagreement_count", "error")} for c in corr],
            "search": [{k: r.get(k) for k in ("search", "evaluations", "distinct_nontrivial", "rule", "distribution", "error")} for r in searches],
            "evaluations": evals,
            "distinct_nontrivial": distinct,
            "rule": "correspondence cases are generated operations on the modelled kernels (each compared implementation vs model); search cases are generated programs/builds judged by the property's oracle; see per-search 'rule'",
            "samples": samples or [{"note": "no samples"}],
            "broken": [{"kind": b["kind"], "name": b["name"]} for b in broken],
            "known_findings_seen": known_lines,
            "modelled_scope": cfg.get("scope", ""),
        },
        "assumptions": cfg.get("assumptions", []),
        "wall_s": round(time.time() - t0, 2),
        "violations": len(out_lines),
    }
    with open(evidence_path, "w") as f:
        json.dump(ev, f, indent=1, sort_keys=True)
    log("%s %s: obligations=%d discharged=%d corr=%d search=%d broken=%d violations=%d known=%d wall=%.1fs" % (
        prop, tier, len(theorems), discharged, sum(c.get("cases", 0) for c in corr), sum(r.get("evaluations", 0) for r in searches),
        len(broken), len(violations), len(known_lines), time.time() - t0))
    shutil.rmtree(workdir, ignore_errors=True)
    return rc
