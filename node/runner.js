// runner.js — executes generated programs under a probe runtime and reports (trace, outcome).
//
//   node runner.js <cases.json> <results.jsonl>
//
// cases.json: [{id, variants:[{name, code, kind}]}]   kind: "script" | "cjs"
// For every variant a fresh vm context is created with:
//   p(...args)    host-visible probe: records deep-serialised args, returns its LAST argument
//   module/exports/require (kind "cjs") — require only knows a tiny set of fake modules
// The result line is {id, results:[{name, trace:[...], outcome}]}; outcome is
//   "ok" | "throw:<serialised value>" | "syntax:<msg>" | "timeout"
// Serialisation distinguishes -0/NaN/bigint/undefined/holes/symbols, prints strings as JSON with
// lone surrogates escaped, functions as [fn] (no name, no source text: both are documented
// exclusions), objects deep in own-key order with accessor flags, cycles as [cycle].
'use strict';
const vm = require('vm');
const fs = require('fs');

function serStr(s) {
  let out = '"';
  for (let i = 0; i < s.length; i++) {
    const c = s.charCodeAt(i);
    if (c === 0x22) out += '\\"';
    else if (c === 0x5c) out += '\\\\';
    else if (c >= 0x20 && c < 0x7f) out += s[i];
    else out += '\\u' + c.toString(16).padStart(4, '0');
  }
  return out + '"';
}

function makeSer(ctxGlobal) {
  return function ser(v, depth, seen) {
    depth = depth || 0;
    const t = typeof v;
    if (v === undefined) return 'undefined';
    if (v === null) return 'null';
    if (t === 'number') return Object.is(v, -0) ? '-0' : String(v);
    if (t === 'bigint') return String(v) + 'n';
    if (t === 'boolean') return String(v);
    if (t === 'string') return serStr(v);
    if (t === 'symbol') return 'Symbol(' + String(v.description) + ')';
    if (t === 'function') return '[fn]';
    seen = seen || [];
    if (seen.indexOf(v) >= 0) return '[cycle]';
    if (depth > 6) return '[deep]';
    seen = seen.concat([v]);
    try {
      if (Array.isArray(v)) {
        const parts = [];
        for (let i = 0; i < v.length && i < 64; i++) parts.push(i in v ? ser(v[i], depth + 1, seen) : '<hole>');
        return '[' + parts.join(',') + ']';
      }
      // errors: constructor name only for native errors (message text legitimately mentions renamed identifiers)
      const proto = Object.getPrototypeOf(v);
      let tag = '';
      if (v instanceof ctxGlobal.Error || v instanceof Error) {
        let n = 'Error';
        try { n = String(v.name); } catch (e) {}
        return 'Error<' + n + '>';
      }
      if (v instanceof ctxGlobal.Promise || v instanceof Promise) return '[promise]';
      if (v instanceof ctxGlobal.RegExp) return 'RegExp(' + serStr(v.source) + ',' + serStr(v.flags) + ')';
      if (v instanceof ctxGlobal.Map) tag = 'Map';
      else if (v instanceof ctxGlobal.Set) tag = 'Set';
      if (proto === null) tag += '<null-proto>';
      const keys = Reflect.ownKeys(v);
      const parts = [];
      for (const k of keys.slice(0, 64)) {
        const d = Object.getOwnPropertyDescriptor(v, k);
        const ks = typeof k === 'symbol' ? '[' + ser(k) + ']' : serStr(k);
        if (!d) continue;
        let flags = (d.enumerable ? '' : '~e') + (d.configurable ? '' : '~c');
        if ('value' in d) parts.push(ks + flags + (d.writable ? '' : '~w') + ':' + ser(d.value, depth + 1, seen));
        else parts.push(ks + flags + ':<' + (d.get ? 'get' : '') + (d.set ? 'set' : '') + '>');
      }
      if (tag === 'Map') for (const [a, b] of v) parts.push(ser(a, depth + 1, seen) + '=>' + ser(b, depth + 1, seen));
      if (tag === 'Set') for (const a of v) parts.push(ser(a, depth + 1, seen));
      return tag + '{' + parts.join(',') + '}';
    } catch (e) {
      return '[unserialisable]';
    }
  };
}

function makeContext(kind, trace) {
  const sandbox = {};
  const ctx = vm.createContext(sandbox);
  const g = vm.runInContext('globalThis', ctx);
  // Documented exclusions made unobservable instead of merely "not generated": function source text
  // (a method read from an object and concatenated to a string) and the text of native error messages
  // (which legitimately mentions renamed identifiers and helper names).
  vm.runInContext('Function.prototype.toString = function () { return "[fn-source]"; };' +
    'Error.prototype.toString = function () { return String(this.name); };', ctx);
  const ser = makeSer(g);
  let budget = 4000;
  sandbox.p = function () {
    if (--budget < 0) throw new g.Error('probe budget exhausted');
    const parts = [];
    for (let i = 0; i < arguments.length; i++) parts.push(ser(arguments[i]));
    trace.push(parts.join(' '));
    return arguments.length ? arguments[arguments.length - 1] : undefined;
  };
  // JSX runtime stand-ins
  sandbox.React = {
    createElement: function (type, props) {
      const kids = Array.prototype.slice.call(arguments, 2);
      trace.push('createElement ' + ser(type) + ' ' + ser(props) + ' ' + ser(kids));
      return { type: typeof type === 'function' ? '[fn]' : type, props: props, kids: kids };
    },
    Fragment: 'Fragment',
  };
  if (kind === 'cjs' || kind === 'esm') {
    sandbox.module = { exports: {} };
    sandbox.exports = sandbox.module.exports;
    sandbox.require = function (name) {
      trace.push('require ' + ser(name));
      if (name === 'react/jsx-runtime' || name === 'react/jsx-dev-runtime') {
        const jsx = function (type, props, key) { trace.push('jsx ' + ser(type) + ' ' + ser(props) + ' ' + ser(key)); return { type: typeof type === 'function' ? '[fn]' : type, props: props, key: key }; };
        return { jsx: jsx, jsxs: jsx, jsxDEV: jsx, Fragment: 'Fragment' };
      }
      return { name: name };
    };
  }
  return { ctx, sandbox, ser };
}

async function drain(trace) {
  // let promise chains finish; stop when two consecutive turns add nothing (max 50 turns)
  let last = -1, idle = 0;
  for (let i = 0; i < 50 && idle < 2; i++) {
    await new Promise((r) => setImmediate(r));
    if (trace.length === last) idle++; else idle = 0;
    last = trace.length;
  }
}

async function runVariant(v) {
  // syntax-only kinds: the text is compiled, never executed
  if (v.kind === 'syntax-script') {
    try { new vm.Script(v.code, { filename: 'case.js' }); return { name: v.name, trace: [], outcome: 'ok' }; }
    catch (e) { return { name: v.name, trace: [], outcome: 'syntax:' + String(e && e.message) }; }
  }
  if (v.kind === 'syntax-module') {
    try { new vm.SourceTextModule(v.code, { identifier: 'case.mjs' }); return { name: v.name, trace: [], outcome: 'ok' }; }
    catch (e) { return { name: v.name, trace: [], outcome: 'syntax:' + String(e && e.message) }; }
  }
  const trace = [];
  const { ctx, sandbox, ser } = makeContext(v.kind, trace);
  let outcome = 'ok';
  let script;
  try {
    // ESM output without import/export statements is executed as a strict script (modules are strict)
    script = new vm.Script(v.kind === 'esm' ? '"use strict";' + v.code : v.code, { filename: 'case.js' });
  } catch (e) {
    return { name: v.name, trace, outcome: 'syntax:' + String(e && e.message) };
  }
  const onRej = (e) => { trace.push('unhandledRejection ' + ser(e)); };
  process.on('unhandledRejection', onRej);
  try {
    script.runInContext(ctx, { timeout: v.timeoutMs || 1000 });
  } catch (e) {
    if (e && e.code === 'ERR_SCRIPT_EXECUTION_TIMEOUT') outcome = 'timeout';
    else outcome = 'throw:' + ser(e);
  }
  if (outcome !== 'timeout') await drain(trace);
  process.removeListener('unhandledRejection', onRej);
  if (v.kind === 'cjs' && outcome === 'ok' && v.reportExports) {
    trace.push('exports ' + ser(sandbox.module.exports));
  }
  return { name: v.name, trace, outcome };
}

async function main() {
  const cases = JSON.parse(fs.readFileSync(process.argv[2], 'utf8'));
  const out = fs.openSync(process.argv[3], 'w');
  for (const c of cases) {
    const results = [];
    for (const v of c.variants) {
      let r;
      try { r = await runVariant(v); } catch (e) { r = { name: v.name, trace: [], outcome: 'runner-error:' + String(e) }; }
      results.push(r);
    }
    fs.writeSync(out, JSON.stringify({ id: c.id, results }) + '\n');
  }
  fs.closeSync(out);
}
main().catch((e) => { console.error(e); process.exit(1); });
