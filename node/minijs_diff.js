// minijs_diff.js — end-to-end differential check of the REAL helper outputs recorded by the `minijs` kernel.
//
//   node minijs_diff.js <ops-file> <expected-file> [maxCases]
//
// For every kernel operation whose result is an expression (notx, not, sbe, ifx, unused, eqcmp, join) the
// generated input tree and the tree the REAL esbuild helper returned are printed as JavaScript text and executed
// in V8 under an instrumented host: bound identifiers are local variables, identifiers that the operation's
// `isUnbound` mask reports stay undeclared, objects are proxies whose property reads, calls and
// valueOf/toString are logged and answered from a pool (the k-th answer depends only on the case seed and k, so
// the same history gives the same answers).  Compared, depending on the context the helper is specified for:
//   value context (not, notx, ifx, eqcmp, join): result value (Object.is / identity), exception, event trace
//   boolean context (sbe): truthiness, exception, trace        unused context (unused): exception, trace
// This does not use the Lean model or Spec/MiniJS.lean at all; it is an independent check that the rewrites
// esbuild really makes on these trees preserve behaviour in a real engine.
'use strict'
const fs = require('fs')

function parse(toks, pos) {
  const t = toks[pos.i++]
  if (t === undefined) throw new Error('eof')
  const c = t.indexOf(':'), kind = c < 0 ? t : t.slice(0, c), arg = c < 0 ? '' : t.slice(c + 1)
  switch (kind) {
    case 'U': return { k: 'undef' }
    case 'Z': return { k: 'null' }
    case 'T': return { k: 'bool', v: true }
    case 'F': return { k: 'bool', v: false }
    case 'n': return { k: 'num', v: arg }
    case 's': return { k: 'str', v: hex(arg) }
    case 'i': return { k: 'id', v: +arg }
    case 'u': return { k: 'un', op: arg, a: parse(toks, pos) }
    case 'b': { const a = parse(toks, pos), b = parse(toks, pos); return { k: 'bin', op: arg, a, b } }
    case 'if': { const a = parse(toks, pos), b = parse(toks, pos), d = parse(toks, pos); return { k: 'if', a, b, c: d } }
    case 'c': { const f = parse(toks, pos), args = []; for (let i = 0; i < +arg; i++) args.push(parse(toks, pos)); return { k: 'call', f, args } }
    case 'd': return { k: 'dot', name: hex(arg), a: parse(toks, pos) }
    case 'x': { const a = parse(toks, pos), b = parse(toks, pos); return { k: 'idx', a, b } }
  }
  throw new Error('bad token ' + t)
}
function hex(h) { let s = ''; for (let i = 0; i < h.length; i += 4) s += String.fromCharCode(parseInt(h.slice(i, i + 4), 16)); return s }
function parseExpr(s) { const toks = s.split(' '), pos = { i: 0 }; const e = parse(toks, pos); if (pos.i !== toks.length) throw new Error('trailing'); return e }

const BIN = { and: '&&', or: '||', nullish: '??', comma: ',', seq: '===', sne: '!==', leq: '==', lne: '!=', add: '+', sub: '-', ushr: '>>>', lt: '<', gt: '>', le: '<=', ge: '>=' }
const UN = { not: '!', neg: '- ', pos: '+ ', cpl: '~', void: 'void ' }
// fully parenthesised text; `typeof0 <identifier>` is what esbuild prints as `typeof (0, x)`
function js(e) {
  switch (e.k) {
    case 'undef': return '(void 0)'
    case 'null': return 'null'
    case 'bool': return String(e.v)
    case 'num': return e.v === 'nan' ? 'NaN' : e.v === 'inf' ? 'Infinity' : e.v === '-inf' ? '(-Infinity)' : e.v === '-0' ? '(-0)' : '(' + e.v + ')'
    case 'str': return JSON.stringify(e.v)
    case 'id': return 'i' + e.v
    case 'un':
      if (e.op === 'typeof1') return e.a.k === 'id' ? '(typeof ' + js(e.a) + ')' : '(typeof (' + js(e.a) + '))'
      if (e.op === 'typeof0') return e.a.k === 'id' ? '(typeof (0, ' + js(e.a) + '))' : '(typeof (' + js(e.a) + '))'
      return '(' + UN[e.op] + js(e.a) + ')'
    case 'bin':
      if (e.op === 'nullish') return '((' + js(e.a) + ') ?? (' + js(e.b) + '))'
      return '(' + js(e.a) + ' ' + BIN[e.op] + ' ' + js(e.b) + ')'
    case 'if': return '(' + js(e.a) + ' ? ' + js(e.b) + ' : ' + js(e.c) + ')'
    case 'call': return (e.f.k === 'dot' || e.f.k === 'idx' ? js(e.f) : '(0, ' + js(e.f) + ')') + '(' + e.args.map(js).join(', ') + ')'
    case 'dot': return '(' + js(e.a) + ')[' + JSON.stringify(e.name) + ']'
    case 'idx': return '(' + js(e.a) + ')[' + js(e.b) + ']'
  }
}

function rng(seed) { let s = seed >>> 0; return () => { s = (s + 0x9e3779b9) >>> 0; let z = s; z = Math.imul(z ^ (z >>> 16), 0x85ebca6b); z = Math.imul(z ^ (z >>> 13), 0xc2b2ae35); return (z ^ (z >>> 16)) >>> 0 } }

// one run of `text` in a fresh, deterministic world
function run(text, seed, mask) {
  const trace = [], next = rng(seed)
  const syms = [Symbol('s0'), Symbol('s1')]
  const objs = []
  function mkObj(callable) {
    const id = objs.length
    const target = callable ? function () { } : {}
    const p = new Proxy(target, {
      get(_, key) {
        if (key === Symbol.toPrimitive) return undefined
        if (key === 'valueOf' || key === 'toString') {
          return function () { trace.push('toPrim o' + id + ' ' + String(key)); return answer(true) }
        }
        trace.push('get o' + id + ' ' + String(key)); return answer(false)
      },
      apply(_, thisArg, args) { trace.push('call o' + id + ' (' + args.map(show).join(',') + ')'); return answer(false) },
      has() { return false },
    })
    objs.push(p); return p
  }
  const show = v => typeof v === 'symbol' ? v.toString() : (typeof v === 'object' || typeof v === 'function') && v !== null ? 'o' + objs.indexOf(v) : Object.is(v, -0) ? '-0' : typeof v === 'bigint' ? v + 'n' : typeof v === 'string' ? JSON.stringify(v) : String(v)
  function pick(primOnly) {
    const r = next() % (primOnly ? 14 : 18)
    switch (r) {
      case 0: return undefined; case 1: return null; case 2: return true; case 3: return false
      case 4: return 0; case 5: return -0; case 6: return NaN; case 7: return 1; case 8: return ''
      case 9: return 'a'; case 10: return 'undefined'; case 11: return 0n; case 12: return 5n; case 13: return syms[next() % 2]
      case 14: case 15: return mkObj(false)
      default: return mkObj(true)
    }
  }
  function answer(primOnly) { if (next() % 9 === 0) { throw { thrown: next() % 3 } } return pick(primOnly) }
  const names = [], vals = []
  for (let i = 0; i < 6; i++) if (!((mask >> i) & 1) || next() % 4 === 0 && false) { names.push('i' + i); vals.push(pick(false)) }
  let res
  try {
    const f = new Function(...names, 'return (' + text + ')')
    const v = f(...vals)
    res = { ok: true, v }
  } catch (e) {
    res = { ok: false, e: e instanceof Error ? e.constructor.name + (e instanceof ReferenceError ? ':' + e.message : '') : 'host:' + JSON.stringify(e) }
  }
  return { res, trace: trace.join(';'), show }
}

function hasFlagMismatchRisk(e) { // a `typeof0 <identifier>` node (former defect class, fixed: now counted as a real difference)
  if (e.k === 'un' && e.op === 'typeof0' && e.a.k === 'id') return true
  return ['a', 'b', 'c', 'f'].some(k => e[k] && hasFlagMismatchRisk(e[k])) || (e.args || []).some(hasFlagMismatchRisk)
}

function hasFlagOnNonIdentifier(e) { // `typeof1 <non-identifier>`: never produced by the parser (only by --define substitution)
  if (e.k === 'un' && e.op === 'typeof1' && e.a.k !== 'id') return true
  return ['a', 'b', 'c', 'f'].some(k => e[k] && hasFlagOnNonIdentifier(e[k])) || (e.args || []).some(hasFlagOnNonIdentifier)
}

const [opsFile, expFile, maxArg] = process.argv.slice(2)
const ops = fs.readFileSync(opsFile, 'utf8').split('\n'), exps = fs.readFileSync(expFile, 'utf8').split('\n')
const max = maxArg ? +maxArg : Infinity
let n = 0, diffs = 0, known = 0, knownWf = 0, skipped = 0
const byKind = {}
for (let li = 0; li < ops.length && n < max; li++) {
  const f = ops[li].split('\t'), out = exps[li]
  if (f[0] !== 'minijs' || out === 'bad-op' || out === undefined) continue
  let input, ctx, mask = 0
  try {
    switch (f[1]) {
      case 'notx': input = { k: 'un', op: 'not', a: parseExpr(f[2]) }; ctx = 'value'; break
      case 'not': if (out === 'none') continue; input = { k: 'un', op: 'not', a: parseExpr(f[2]) }; ctx = 'value'; break
      case 'sbe': mask = +f[2]; input = parseExpr(f[3]); ctx = 'bool'; break
      case 'ifx': mask = +f[3]; input = { k: 'if', a: parseExpr(f[4]), b: parseExpr(f[5]), c: parseExpr(f[6]) }; ctx = 'value'; break
      case 'unused': mask = +f[2]; input = parseExpr(f[3]); ctx = 'unused'; break
      case 'eqcmp': if (out === 'none') continue; input = { k: 'bin', op: f[3], a: parseExpr(f[4]), b: parseExpr(f[5]) }; ctx = 'value'; break
      case 'join': input = { k: 'bin', op: f[2], a: parseExpr(f[3]), b: parseExpr(f[4]) }; ctx = 'value'; break
      default: continue
    }
  } catch (e) { skipped++; continue }
  const outText = out === 'NIL' ? '0' : js(parseExpr(out))
  const inText = js(input)
  n++
  byKind[f[1]] = (byKind[f[1]] || 0) + 1
  for (let rep = 0; rep < 3; rep++) {
    const seed = li * 7919 + rep * 104729 + 1
    const a = run(inText, seed, mask), b = run(outText, seed, mask)
    let same = a.trace === b.trace && a.res.ok === b.res.ok
    if (same && !a.res.ok) same = a.res.e === b.res.e
    if (same && a.res.ok && ctx === 'value') same = a.show(a.res.v) === b.show(b.res.v) && typeof a.res.v === typeof b.res.v
    if (same && a.res.ok && ctx === 'bool') same = !!a.res.v === !!b.res.v
    if (!same) {
      if (hasFlagOnNonIdentifier(input)) { knownWf++; break }
      diffs++
      if (diffs <= 10) console.log('DIFF line ' + (li + 1) + ' ' + f[1] + ' mask=' + mask + '\n  in : ' + inText + '\n  out: ' + outText + '\n  in  -> ' + JSON.stringify({ ok: a.res.ok, v: a.res.ok ? a.show(a.res.v) : a.res.e, trace: a.trace }) + '\n  out -> ' + JSON.stringify({ ok: b.res.ok, v: b.res.ok ? b.show(b.res.v) : b.res.e, trace: b.trace }))
      break
    }
  }
}
console.log(JSON.stringify({ cases: n, byKind, differences: diffs, knownTypeofFlagDifferences: known, knownFlagOnNonIdentifierDifferences: knownWf, unparsable: skipped }))
process.exit(diffs ? 1 : 0)
