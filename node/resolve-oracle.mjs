// resolve-oracle.mjs — asks Node itself how it resolves specifiers.
//   node --experimental-import-meta-resolve resolve-oracle.mjs <cases.json> <results.jsonl>
// cases: [{id, importer: "/abs/file.js", spec, kind: "import"|"require"}]
// result: {id, ok: true, path} | {id, ok: false, code}
import { createRequire } from 'node:module';
import { pathToFileURL, fileURLToPath } from 'node:url';
import fs from 'node:fs';

const cases = JSON.parse(fs.readFileSync(process.argv[2], 'utf8'));
const out = fs.openSync(process.argv[3], 'w');
for (const c of cases) {
  let res;
  try {
    let p;
    if (c.kind === 'require') {
      p = createRequire(c.importer).resolve(c.spec);
    } else {
      const u = import.meta.resolve(c.spec, pathToFileURL(c.importer).href);
      p = u.startsWith('file:') ? fileURLToPath(u) : u;
      // import.meta.resolve does not check existence for relative/absolute specifiers
      if (u.startsWith('file:') && !fs.existsSync(p)) throw Object.assign(new Error('missing'), { code: 'ERR_MODULE_NOT_FOUND' });
      if (u.startsWith('file:') && fs.statSync(p).isDirectory()) throw Object.assign(new Error('dir'), { code: 'ERR_UNSUPPORTED_DIR_IMPORT' });
    }
    res = { id: c.id, ok: true, path: p.startsWith('/') ? fs.realpathSync(p) : p };
  } catch (e) {
    res = { id: c.id, ok: false, code: String(e && e.code) };
  }
  fs.writeSync(out, JSON.stringify(res) + '\n');
}
fs.closeSync(out);
