// graph-runner.js — loads module trees natively and their bundles, recording probe traces.
//
//   node graph-runner.js <cases.json> <results.jsonl>
//
// cases.json: [{id, runs:[{name, file, kind, globalName}]}]  kind: "esm" | "cjs" | "iife"
//   esm  : await import(file URL)      exports = namespace object
//   cjs  : require(file)               exports = module.exports
//   iife : vm.runInThisContext(source) exports = globalThis[globalName] (if given)
// All runs share one process; `globalThis.p` appends to the current run's trace. After loading, the
// event loop is drained (so a single dynamic-import chain finishes), then the exports are summarised:
// sorted own enumerable string keys (minus __esModule / module.exports) with serialised values
// (functions as [fn]). Result line: {id, results:[{name, trace, outcome, exports}]}.
'use strict';
const fs = require('fs');
const vm = require('vm');
const path = require('path');
const url = require('url');

function serStr(s) {
  let out = '"';
  for (let i = 0; i < s.length; i++) {
    const c = s.charCodeAt(i);
    if (c === 0x22) out += '\\"';
    else if (c === 0x5c) out += '\\\\';
    else if (c >= 0x20 && c < 0x7f) out += s[i];
    else out += '\\u' + c.toString(16).padStart(4, '0');
  }
  return out + '"';
}
function ser(v, depth, seen) {
  depth = depth || 0;
  const t = typeof v;
  if (v === undefined) return 'undefined';
  if (v === null) return 'null';
  if (t === 'number') return Object.is(v, -0) ? '-0' : String(v);
  if (t === 'bigint') return String(v) + 'n';
  if (t === 'boolean') return String(v);
  if (t === 'string') return serStr(v);
  if (t === 'symbol') return 'Symbol(' + String(v.description) + ')';
  if (t === 'function') return '[fn]';
  seen = seen || [];
  if (seen.indexOf(v) >= 0) return '[cycle]';
  if (depth > 5) return '[deep]';
  seen = seen.concat([v]);
  try {
    if (v instanceof Error) return 'Error<' + String(v.name) + (v.code ? ':' + v.code : '') + '>';
    if (v instanceof Uint8Array) return 'Uint8Array<' + Buffer.from(v).toString('hex') + '>';
    if (v instanceof Promise) return '[promise]';
    if (Array.isArray(v)) return '[' + v.map((x) => ser(x, depth + 1, seen)).join(',') + ']';
    const keys = Object.keys(v).filter((k) => k !== '__esModule' && k !== 'module.exports').sort();
    return '{' + keys.map((k) => {
      let val;
      try { val = ser(v[k], depth + 1, seen); } catch (e) { val = 'throws<' + (e && e.name) + '>'; }
      return serStr(k) + ':' + val;
    }).join(',') + '}';
  } catch (e) {
    return '[unserialisable]';
  }
}

let trace = null;
globalThis.p = function () {
  const parts = [];
  for (let i = 0; i < arguments.length; i++) parts.push(ser(arguments[i]));
  if (trace) trace.push(parts.join(' '));
  return arguments.length ? arguments[arguments.length - 1] : undefined;
};

async function drain() {
  // a dynamic import of a chunk on disk needs real I/O turns: wait with short timers until the trace has
  // been quiet for a while
  let last = -1, idle = 0;
  for (let i = 0; i < 2000 && idle < 8; i++) {
    await new Promise((r) => setTimeout(r, 2));
    await new Promise((r) => setImmediate(r));
    // pending file-system requests (the module loader reading a chunk) mean that something is still coming,
    // however long the machine takes: a loaded machine must not lose the events of a dynamic import
    const busy = typeof process.getActiveResourcesInfo === 'function' &&
      process.getActiveResourcesInfo().some((x) => /^FSReq/.test(x));
    if (trace.length === last && !busy) idle++; else idle = 0;
    last = trace.length;
  }
}

async function runOne(run) {
  trace = [];
  let outcome = 'ok';
  let exportsSer = '';
  const onRej = (e) => { trace.push('unhandledRejection ' + ser(e)); };
  process.on('unhandledRejection', onRej);
  try {
    let exp;
    if (run.kind === 'esm') {
      exp = await import(url.pathToFileURL(run.file).href);
    } else if (run.kind === 'cjs') {
      exp = require(run.file);
    } else {
      const code = fs.readFileSync(run.file, 'utf8');
      if (run.globalName) Reflect.deleteProperty(globalThis, run.globalName);
      vm.runInThisContext(code, { filename: run.file });
      exp = run.globalName ? globalThis[run.globalName] : undefined;
    }
    // wait for exported promises (the single dynamic-import chain is exported by the generator)
    if (exp && (typeof exp === 'object' || typeof exp === 'function')) {
      for (const k of Object.keys(exp)) {
        let v;
        try { v = exp[k]; } catch (e) { continue; }
        if (v && typeof v.then === 'function') { try { await v; } catch (e) {} }
      }
    }
    await drain();
    exportsSer = ser(exp);
  } catch (e) {
    outcome = 'throw:' + ser(e);
    try { await drain(); } catch (e2) {}
  }
  process.removeListener('unhandledRejection', onRej);
  const t = trace;
  trace = null;
  return { name: run.name, trace: t, outcome, exports: exportsSer };
}

async function main() {
  const cases = JSON.parse(fs.readFileSync(process.argv[2], 'utf8'));
  const out = fs.openSync(process.argv[3], 'w');
  for (const c of cases) {
    const results = [];
    for (const run of c.runs) {
      let r;
      try { r = await runOne(run); } catch (e) { r = { name: run.name, trace: [], outcome: 'runner-error:' + String(e), exports: '' }; }
      results.push(r);
    }
    fs.writeSync(out, JSON.stringify({ id: c.id, results }) + '\n');
  }
  fs.closeSync(out);
}
main().catch((e) => { console.error(e); process.exit(1); });
