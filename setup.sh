#!/bin/sh
# Build the framework offline from files on disk only: Lean library + model driver, Go harnesses.
set -e
cd "$(dirname "$0")"
export GOFLAGS=-mod=mod GOPROXY=off GOSUMDB=off GOTOOLCHAIN=local
mkdir -p .build/bin evidence replays
cp /repo/go.sum harness/go.sum
(cd harness && go build -tags verif -o ../.build/bin/extract ./cmd/extract && ../.build/bin/extract /repo ../lean/EsbuildModel/Gen)
(cd harness && go build -tags verif -o ../.build/bin/identtables ./cmd/identtables && ../.build/bin/identtables ../lean/EsbuildModel/Gen/IdentTables.lean)
(cd tools/mapranges && go build -o ../../.build/bin/mapranges . && ../../.build/bin/mapranges /repo ../../lean/EsbuildModel/Gen/MapRanges.lean ./internal/linker ./internal/bundler ./pkg/api ./internal/graph ./internal/resolver ./internal/js_printer ./internal/css_printer ./internal/renamer)
(cd lean && lake build)
(cd harness && go build -tags verif -o ../.build/bin/hinternal ./cmd/hinternal && go build -tags verif -o ../.build/bin/hapi ./cmd/hapi)
echo setup ok
