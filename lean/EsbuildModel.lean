import EsbuildModel.Props.C07
import EsbuildModel.Props.C18
import EsbuildModel.Props.C19
