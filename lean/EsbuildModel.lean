import EsbuildModel.Props.C07
