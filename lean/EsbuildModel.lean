import EsbuildModel.Props.C07
import EsbuildModel.Props.C18
import EsbuildModel.Props.C19
import EsbuildModel.Props.C03
import EsbuildModel.Props.C14
import EsbuildModel.Props.C02
import EsbuildModel.Props.C01
import EsbuildModel.Props.C13
