import EsbuildModel.Util.F64
/-
Value-level helpers on the exact dyadic model of float64 (`F64`): classification, comparison of the real
values of finite doubles, conversion from integers, encoding back to the 64 bit pattern with
round-to-nearest-even, and exact (correctly rounded) `+ - * /` used by compiled drivers to instantiate the
IEEE parameters of models.  A value `.fin neg m e` need not be normalised; everything here is insensitive
to the choice of representation except where a result is built (documented there).
-/
namespace EsbuildModel
namespace F64

def isNaN : F64 → Bool
  | .nan => true
  | _ => false

def isInf : F64 → Bool
  | .inf _ => true
  | _ => false

/-- `math.IsInf(f, +1)` / `math.IsInf(f, -1)` -/
def isInfSign (neg : Bool) : F64 → Bool
  | .inf n => n == neg
  | _ => false

/-- ±0 -/
def isZero : F64 → Bool
  | .fin _ m _ => m == 0
  | _ => false

/-- `math.Signbit`; NaN patterns are not distinguished by the model, their sign is reported as false -/
def signbit : F64 → Bool
  | .nan => false
  | .inf n => n
  | .fin n _ _ => n

/-- IEEE negation (sign flip) -/
def neg : F64 → F64
  | .nan => .nan
  | .inf n => .inf (!n)
  | .fin n m e => .fin (!n) m e

/-- `math.Abs` -/
def abs : F64 → F64
  | .nan => .nan
  | .inf _ => .inf false
  | .fin _ m e => .fin false m e

/-- the exact conversion `float64(i)` of an integer of at most 53 bits (int32, uint32) -/
def ofInt (i : Int) : F64 := .fin (decide (i < 0)) i.natAbs 0

abbrev zero : F64 := .fin false 0 0
abbrev one : F64 := .fin false 1 0

/-- the integer `N` with (−1)^neg · m · 2^e = N · 2^e0, for e0 ≤ e -/
def scaled (neg : Bool) (m : Nat) (e e0 : Int) : Int :=
  let a : Int := (m * 2 ^ (e - e0).toNat : Nat)
  if neg then -a else a

/-- ℝ(x) < ℝ(y) for finite doubles -/
def finLt (n1 : Bool) (m1 : Nat) (e1 : Int) (n2 : Bool) (m2 : Nat) (e2 : Int) : Bool :=
  decide (scaled n1 m1 e1 (min e1 e2) < scaled n2 m2 e2 (min e1 e2))

/-- ℝ(x) = ℝ(y) for finite doubles (so +0 and −0 are equal) -/
def finEq (n1 : Bool) (m1 : Nat) (e1 : Int) (n2 : Bool) (m2 : Nat) (e2 : Int) : Bool :=
  decide (scaled n1 m1 e1 (min e1 e2) = scaled n2 m2 e2 (min e1 e2))

/-- IEEE-754 `compareQuietEqual`: Go's `==` on float64 -/
def ieeeEq : F64 → F64 → Bool
  | .nan, _ => false
  | _, .nan => false
  | .inf a, .inf b => a == b
  | .inf _, .fin .. => false
  | .fin .., .inf _ => false
  | .fin n1 m1 e1, .fin n2 m2 e2 => finEq n1 m1 e1 n2 m2 e2

/-- IEEE-754 `compareQuietLess`: Go's `<` on float64 -/
def ieeeLt : F64 → F64 → Bool
  | .nan, _ => false
  | _, .nan => false
  | .inf a, .inf b => a && !b
  | .inf a, .fin .. => a
  | .fin .., .inf b => !b
  | .fin n1 m1 e1, .fin n2 m2 e2 => finLt n1 m1 e1 n2 m2 e2

/-- Go's `<=`, `>`, `>=`, `!=` (IEEE-754: false on NaN except `!=`) -/
def ieeeLe (a b : F64) : Bool := ieeeLt a b || ieeeEq a b
def ieeeGt (a b : F64) : Bool := ieeeLt b a
def ieeeGe (a b : F64) : Bool := ieeeLt b a || ieeeEq a b
def ieeeNe (a b : F64) : Bool := !ieeeEq a b

/-- does the double hold an integer value? (`f == math.Trunc(f)` for finite f) -/
def isInteger : F64 → Bool
  | .fin _ m e => isIntegral m e
  | _ => false

/-- the integer value (truncated toward zero) of a finite double; 0 for NaN and ±∞ -/
def truncInt : F64 → Int
  | .fin n m e => if n then -(truncAbs m e : Int) else (truncAbs m e : Int)
  | _ => 0

-- ---------------------------------------------------------------- encoding with rounding

/-- bit pattern of the double nearest (ties to even) to (−1)^neg · m · 2^e; overflow gives ±∞ -/
def roundBits (neg : Bool) (m : Nat) (e : Int) : Nat :=
  let s : Nat := if neg then 2 ^ 63 else 0
  if m = 0 then s else
  let len : Int := (Nat.log2 m + 1 : Nat)
  let e' : Int := max (e + len - 53) (-1074)       -- exponent of the last kept bit
  let q : Nat :=
    if e' ≤ e then m * 2 ^ (e - e').toNat
    else
      let sh := (e' - e).toNat
      let q := m / 2 ^ sh
      let r := m % 2 ^ sh
      let half := 2 ^ (sh - 1)
      if r < half then q else if r = half then (if q % 2 = 0 then q else q + 1) else q + 1
  let (q, e') : Nat × Int := if q = 2 ^ 53 then (2 ^ 52, e' + 1) else (q, e')
  if q < 2 ^ 52 then s + q
  else
    let ex : Int := e' + 1075
    if ex ≥ 2047 then s + 2047 * 2 ^ 52 else s + ex.toNat * 2 ^ 52 + (q - 2 ^ 52)

/-- NaN payloads and signs are not modelled (Go's `math.NaN()` is 0x7ff8000000000001, an invalid operation on
amd64 gives 0xfff8000000000000): drivers and harnesses print every NaN as this one pattern. -/
def nanBits : Nat := 0x7ff8000000000000

def toBits : F64 → Nat
  | .nan => nanBits
  | .inf n => (if n then 2 ^ 63 else 0) + 2047 * 2 ^ 52
  | .fin n m e => roundBits n m e

/-- round a real given as (−1)^neg · m · 2^e to a double value -/
def round (neg : Bool) (m : Nat) (e : Int) : F64 := ofBits (roundBits neg m e)

-- ---------------------------------------------------------------- exact IEEE arithmetic (driver instances)

def exactAdd : F64 → F64 → F64
  | .nan, _ => .nan
  | _, .nan => .nan
  | .inf a, .inf b => if a == b then .inf a else .nan
  | .inf a, .fin .. => .inf a
  | .fin .., .inf b => .inf b
  | .fin n1 m1 e1, .fin n2 m2 e2 =>
    let e0 := min e1 e2
    let s := scaled n1 m1 e1 e0 + scaled n2 m2 e2 e0
    if s = 0 then
      -- exact zero sum: +0 unless both operands are negative (zeros)
      .fin (n1 && n2) 0 0
    else round (decide (s < 0)) s.natAbs e0

def exactSub (a b : F64) : F64 := exactAdd a (neg b)

def exactMul : F64 → F64 → F64
  | .nan, _ => .nan
  | _, .nan => .nan
  | .inf a, .inf b => .inf (a != b)
  | .inf a, .fin n m _ => if m = 0 then .nan else .inf (a != n)
  | .fin n m _, .inf b => if m = 0 then .nan else .inf (n != b)
  | .fin n1 m1 e1, .fin n2 m2 e2 =>
    if m1 * m2 = 0 then .fin (n1 != n2) 0 0 else round (n1 != n2) (m1 * m2) (e1 + e2)

def exactDiv : F64 → F64 → F64
  | .nan, _ => .nan
  | _, .nan => .nan
  | .inf _, .inf _ => .nan
  | .inf a, .fin n _ _ => .inf (a != n)
  | .fin n _ _, .inf b => .fin (n != b) 0 0
  | .fin n1 m1 e1, .fin n2 m2 e2 =>
    if m2 = 0 then (if m1 = 0 then .nan else .inf (n1 != n2))
    else if m1 = 0 then .fin (n1 != n2) 0 0
    else
      let k : Nat := 56 + (Nat.log2 m2 + 1)
      let q := (m1 * 2 ^ k) / m2
      let sticky : Nat := if (m1 * 2 ^ k) % m2 = 0 then 0 else 1
      round (n1 != n2) (2 * q + sticky) (e1 - e2 - (k : Int) - 1)

/-- the IEEE operations a model takes as parameters: Go's `+ - * /` on float64 and the part of `math.Pow`
that is left after its special cases (finite non-zero operands) -/
structure Arith where
  add : F64 → F64 → F64
  sub : F64 → F64 → F64
  mul : F64 → F64 → F64
  div : F64 → F64 → F64
  pow : F64 → F64 → F64

/-- instance used by compiled drivers: correctly rounded `+ - * /`; `pow` answers with a value supplied by the
harness (the real `math.Pow` of the same operands) -/
def Arith.exact (powOracle : F64) : Arith :=
  { add := exactAdd, sub := exactSub, mul := exactMul, div := exactDiv, pow := fun _ _ => powOracle }

/-- two representations of the same float64 value (−0 and +0 are different values; all NaNs are one) -/
def same : F64 → F64 → Prop
  | .nan, .nan => True
  | .inf a, .inf b => a = b
  | .fin n1 m1 e1, .fin n2 m2 e2 =>
    n1 = n2 ∧ m1 * 2 ^ (e1 - min e1 e2).toNat = m2 * 2 ^ (e2 - min e1 e2).toNat
  | _, _ => False

theorem same_refl (a : F64) : same a a := by
  cases a <;> simp [same]

end F64
end EsbuildModel
