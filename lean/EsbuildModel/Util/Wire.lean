/-
Line protocol helpers shared by every kernel driver (DESIGN.md Appendix B, simplified):
one operation per line, TAB separated: `<kernel>\t<arg>\t<arg>…`; the model answers one line.
Integers are decimal; byte/UTF-16 strings are lowercase hex ("-" = empty); lists of integers are
comma separated ("-" = empty).
-/
namespace EsbuildModel.Wire

def hexDigit (c : Char) : Option Nat :=
  if '0' ≤ c ∧ c ≤ '9' then some (c.toNat - '0'.toNat)
  else if 'a' ≤ c ∧ c ≤ 'f' then some (c.toNat - 'a'.toNat + 10)
  else none

/-- parse hex string into units of `w` hex digits each (w=2: bytes, w=4: UTF-16 units) -/
def parseHexUnits (w : Nat) (s : String) : Option (List Nat) :=
  if s = "-" then some [] else
  let rec go (cs : List Char) (k acc : Nat) (out : List Nat) : Option (List Nat) :=
    match cs with
    | [] => if k = 0 then some out.reverse else none
    | c :: cs =>
      match hexDigit c with
      | none => none
      | some d =>
        if k + 1 = w then go cs 0 0 ((acc * 16 + d) :: out) else go cs (k + 1) (acc * 16 + d) out
  go s.toList 0 0 []

def hexChar (d : Nat) : Char := if d < 10 then Char.ofNat (48 + d) else Char.ofNat (87 + d)

def hexUnit (w : Nat) (n : Nat) : String :=
  let rec go (k n : Nat) (acc : List Char) : List Char :=
    match k with
    | 0 => acc
    | k + 1 => go k (n / 16) (hexChar (n % 16) :: acc)
  String.ofList (go w n [])

def hexUnits (w : Nat) (l : List Nat) : String :=
  if l.isEmpty then "-" else String.join (l.map (hexUnit w))

def parseInt (s : String) : Option Int := s.toInt?
def parseNat (s : String) : Option Nat := s.toNat?

def parseIntList (s : String) : Option (List Int) :=
  if s = "-" then some [] else (s.splitOn ",").mapM (·.toInt?)

def parseNatList (s : String) : Option (List Nat) :=
  if s = "-" then some [] else (s.splitOn ",").mapM (·.toNat?)

def showIntList (l : List Int) : String :=
  if l.isEmpty then "-" else ",".intercalate (l.map toString)
def showNatList (l : List Nat) : String :=
  if l.isEmpty then "-" else ",".intercalate (l.map toString)

end EsbuildModel.Wire
