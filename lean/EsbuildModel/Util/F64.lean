/-
Exact model of IEEE-754 binary64 values as dyadic rationals: ±m·2^e, ±∞, NaN.
Lean's `Float` is opaque to the kernel, so models never use it.
-/
namespace EsbuildModel

inductive F64
  | nan
  | inf (neg : Bool)
  | fin (neg : Bool) (m : Nat) (e : Int)   -- value = (−1)^neg · m · 2^e
  deriving Repr, DecidableEq

namespace F64

/-- decode the 64 bit pattern -/
def ofBits (b : Nat) : F64 :=
  let sign : Bool := b / 2 ^ 63 % 2 == 1
  let ex : Nat := b / 2 ^ 52 % 2048
  let frac : Nat := b % 2 ^ 52
  if ex = 2047 then (if frac = 0 then .inf sign else .nan)
  else if ex = 0 then .fin sign frac (-1074)
  else .fin sign (frac + 2 ^ 52) ((ex : Int) - 1075)

/-- |x| truncated toward zero -/
def truncAbs (m : Nat) (e : Int) : Nat :=
  if e ≥ 0 then m * 2 ^ e.toNat else m / 2 ^ (-e).toNat

def isIntegral (m : Nat) (e : Int) : Bool :=
  e ≥ 0 || m % 2 ^ (-e).toNat == 0

end F64
end EsbuildModel
