import EsbuildModel.Lemmas.PartDeps
import EsbuildModel.Spec.PartDeps
import EsbuildModel.Props.C04
/-!
C04 — tree shaking removes only code whose removal is unobservable: the dependency edges between parts.

Impl/Shake.lean (Props/C04.lean) proves that the kept parts are closed under GIVEN edges.  Here the edges are the ones
the linker computes (Impl/PartDeps.lean, compared with the real `Part.Dependencies`, `LocalPartsWithUses` and
`TopLevelSymbolToParts` of real builds by kernel `partdeps`), and they are related to the specification
Spec/PartDeps.lean: a part must depend on every part that declares a binding it refers to and on the statements that
forward its imports (`Sound`), and on nothing else (`Precise`, as far as it is true).

`wf s` is the decidable well-formedness of a dump (Impl/PartDeps.lean); the kernel evaluates it on every real dump
(answer `wf=11111111`), so it is an observed invariant of the linker's tables, not an assumption about the model.
-/
namespace EsbuildModel.PartDeps
open EsbuildModel.Spec.PartDeps (PartId Program Needs Sound Precise Closed)

-- ---------------------------------------------------------------- the program a linker state stands for

/-- the file and symbol a key of `SymbolUses` stands for: a named import that was bound stands for the symbol of the
other file, everything else for itself in the file that owns the symbol -/
def resolveUse (F : File) (r : Ref) : Nat × Ref :=
  if F.nimps.contains r then
    match F.bind? r with
    | some b => (b.src, b.ref)
    | none => (r.src, r)
  else (r.src, r)

/-- the binding (file, symbol) a use key denotes: redeclarations merged by the parser (`var x; var x`, a hoisted `var`)
are one binding, the symbol at the end of the link chain -/
def denotes (s : State) (F : File) (r : Ref) : Option (Nat × Ref) :=
  (s.file? (resolveUse F r).1).bind (fun G => (pfollow G G.fuel (resolveUse F r).2).map (fun b => ((resolveUse F r).1, b)))

def partAt (s : State) (p : PartId) : Option (File × Part) :=
  (s.file? p.file).bind (fun F => (F.parts[p.idx]?).map (fun P => (F, P)))

/-- what the linker's tables say about the parts: a part refers to the bindings its (not inlined) symbol uses denote; it
declares the bindings of its top-level declared symbols, and part 0 of a file declares the file's exports object
("pulling in the exports of this module always pulls in the export part"); the statements recorded in `ReExports`
forward a used import -/
def programOf (s : State) : Program (Nat × Ref) where
  refers p b := ∃ F P r, partAt s p = some (F, P) ∧ r ∈ P.uses ∧ constSkip s F r = false ∧ denotes s F r = some b
  declares p b := p.file = b.1 ∧ ∃ G Q, partAt s p = some (G, Q) ∧
    (declares G Q b.2 = true ∨ (b.2 = G.exportsRef ∧ p.idx = 0))
  forwards p q := ∃ F P r b, partAt s p = some (F, P) ∧ r ∈ P.uses ∧ constSkip s F r = false ∧
    F.nimps.contains r = true ∧ F.bind? r = some b ∧ (⟨q.file, q.idx⟩ : Dep) ∈ b.rx

/-- the edges the linker computes -/
def depOf (s : State) (p q : PartId) : Prop :=
  ∃ F P, partAt s p = some (F, P) ∧ (⟨q.file, q.idx⟩ : Dep) ∈ deps s F p.idx P

theorem partAt_some {s : State} {p : PartId} {F : File} {P : Part} (h : partAt s p = some (F, P)) :
    s.file? p.file = some F ∧ F.parts[p.idx]? = some P := by
  unfold partAt at h
  cases hf : s.file? p.file with
  | none => rw [hf] at h; cases h
  | some G =>
    rw [hf] at h
    simp only [Option.bind_some] at h
    cases hp : G.parts[p.idx]? with
    | none => rw [hp] at h; cases h
    | some Q =>
      rw [hp] at h
      simp only [Option.map_some, Option.some.injEq, Prod.mk.injEq] at h
      obtain ⟨rfl, rfl⟩ := h
      exact ⟨rfl, hp⟩

-- ---------------------------------------------------------------- (1) every use is covered

theorem all_parts {F : File} {f : Nat → Part → Bool}
    (h : (List.range F.parts.length).all (fun q => match F.parts[q]? with | some p => f q p | none => true) = true)
    {q : Nat} {P : Part} (hP : F.parts[q]? = some P) : f q P = true := by
  have hk : q < F.parts.length := by
    rcases Nat.lt_or_ge q F.parts.length with h | h
    · exact h
    · rw [List.getElem?_eq_none h] at hP; cases hP
  have := List.all_eq_true.mp h q (List.mem_range.mpr hk)
  rw [hP] at this; exact this

theorem resolveExport_src {s : State} (hw : wf s = true) {F : File} (hF : F ∈ s.files) {e : Nat × Ref}
    (he : e ∈ F.exports) : (resolveExport s e).1 = (resolveExport s e).2.1.src := by
  unfold resolveExport
  cases hb : (s.file? e.1).bind (fun g => g.bind? e.2) with
  | none => exact ((shapeFacts (wf_file hw hF).shape).exportSrc e he).symm
  | some b =>
    cases hg : s.file? e.1 with
    | none => rw [hg] at hb; cases hb
    | some G =>
      rw [hg] at hb
      simp only [Option.bind_some] at hb
      exact ((shapeFacts (wf_file hw (file?_some hg).1).shape).bindSrc b (bind?_some hb).1).symm

/-- what the code does, without any canonicity assumption: the parts filed (`TopLevelSymbolToParts`) under the symbol
a use key resolves to are dependencies of the using part -/
theorem use_covered (s : State) (hw : wf s = true) (F : File) (hF : F ∈ s.files) (q : Nat) (P : Part)
    (hP : F.parts[q]? = some P) (r : Ref) (hr : r ∈ P.uses) (hc : constSkip s F r = false) (d : Dep)
    (hd : d ∈ tlsIn s (resolveUse F r).1 (resolveUse F r).2) : d ∈ deps s F q P := by
  have wfF := wf_file hw hF
  have sf := shapeFacts wfF.shape
  rw [mem_deps]
  have other : d ∈ tlsIn s r.src r → d ∈ baseDeps s F q ∨ d ∈ localDeps s F P ∨ d ∈ bindDeps s F q ∨ d ∈ genDeps s F q P := by
    intro hd
    by_cases hl : r.src = F.src
    · right; left
      rw [mem_localDeps]
      obtain ⟨G, hG, h1, h2⟩ := mem_tlsIn.mp hd
      rw [hl, wf_file? hw hF] at hG
      cases hG
      exact ⟨r, hr, hc, by rw [h1, hl], h2⟩
    · have hfu := all_parts wfF.foreignUses hP
      have := List.all_eq_true.mp hfu r hr
      simp only [Bool.or_eq_true, beq_iff_eq, List.contains_iff_mem] at this
      rcases this with h | h
      · exact absurd h hl
      · unfold linkerUses at h
        simp only [List.mem_append] at h
        rcases h with ((h | h) | h) | h
        · unfold keptCallUses at h
          obtain ⟨cu, hcu, rfl⟩ := List.mem_map.mp h
          exact absurd (sf.callLocal P (List.mem_of_getElem? hP) cu (List.mem_filter.mp hcu).1) hl
        · obtain ⟨g, hg, rfl⟩ := List.mem_map.mp h
          right; right; right
          rw [mem_genDeps]
          exact ⟨g, hg, by rw [gens_src hw hF hg]; exact hd⟩
        · left
          split at h
          · rename_i hq
            unfold nsUses at h
            obtain ⟨e, he, rfl⟩ := List.mem_map.mp h
            unfold baseDeps
            rw [if_pos hq]
            simp only [List.mem_append]
            left; left
            unfold nsDeps exportDeps
            simp only [List.mem_append, List.mem_flatMap]
            left
            exact ⟨e, he, Or.inr (by rw [resolveExport_src hw hF he]; exact hd)⟩
          · cases h
        · split at h
          · simp only [List.mem_singleton] at h
            exact absurd (by rw [h]; exact sf.wrapperSrc) hl
          · cases h
  unfold resolveUse at hd
  split at hd
  · rename_i hn
    split at hd
    · rename_i b hb
      right; right; left
      rw [mem_bindDeps]
      refine ⟨b, (bind?_some hb).1, ?_, Or.inl hd⟩
      rw [mem_lpu, (bind?_some hb).2]
      exact ⟨hn, P, hP, hr, hc⟩
    · exact other hd
  · exact other hd

/-- the statements recorded as the re-export chain of a used import are dependencies -/
theorem reexports_covered (s : State) (F : File) (q : Nat) (P : Part) (hP : F.parts[q]? = some P) (r : Ref)
    (hr : r ∈ P.uses) (hc : constSkip s F r = false) (hn : F.nimps.contains r = true) (b : Bind)
    (hb : F.bind? r = some b) (d : Dep) (hd : d ∈ b.rx) : d ∈ deps s F q P := by
  rw [mem_deps]
  right; right; left
  rw [mem_bindDeps]
  refine ⟨b, (bind?_some hb).1, ?_, Or.inr hd⟩
  rw [mem_lpu, (bind?_some hb).2]
  exact ⟨hn, P, hP, hr, hc⟩

/-- what `aliasOk` gives for one linked symbol -/
theorem alias_facts {F : File} (ha : File.aliasOk F = true) {r r' e : Ref} (hl : plink F r = some r')
    (he : pfollow F F.fuel r = some e) :
    e ≠ F.exportsRef ∧ ∀ q P, parserPart F q = false → F.parts[q]? = some P → declares F P e = false := by
  -- the symbol is listed: `plink` found its link there
  have hy : ∃ y ∈ F.syms, (⟨F.src, y.idx⟩ : Ref) = r := by
    unfold plink at hl
    split at hl
    · cases hl
    · rename_i hsrc
      split at hl
      · cases hl
      · cases hs : F.sym? r.idx with
        | none => rw [hs] at hl; cases hl
        | some y =>
          unfold File.sym? at hs
          refine ⟨y, List.mem_of_find?_eq_some hs, ?_⟩
          have hi := List.find?_some hs
          simp only [beq_iff_eq] at hi
          have hsrc' : r.src = F.src := by simpa using hsrc
          cases r; simp_all
  obtain ⟨y, hym, hyr⟩ := hy
  have h := List.all_eq_true.mp ha y hym
  rw [hyr, hl] at h
  simp only [he, Bool.and_eq_true, bne_iff_ne, ne_eq, List.all_eq_true, List.mem_range, Bool.or_eq_true] at h
  refine ⟨h.1, fun q P hq hP => ?_⟩
  have := h.2 q (part_lt hP)
  rw [hP, hq] at this
  simpa using this

/-- (1) `deps_cover_uses` — for every symbol use of every part (calls that will be inlined and inlined constants
excepted), every part that declares the binding the use denotes — the end of the link chain of the key, across files
through `ImportsToBind`, for merged symbols every declaring part, the namespace part for an exports object, the wrapper
part for a wrapper symbol — and every statement of the re-export chain is a dependency: the linker's edges are `Sound`
for the program its tables describe.  No canonicity of the use keys is needed any more (a use through a nested
redeclaration of a `var` is looked up under the alias that toAST now files; `exHoist` below).

Residual hypothesis `aliasOk`: no parser link chain ends at a symbol declared by a linker-made part (exports object,
`module`, wrapper).  Real builds CAN violate it (`var exports = {}; { var exports; … }` in a CommonJS-style file): see
`sound_needs_aliasOk` and the package report; the edges that are then missing point to part 0 / the wrapper part.
-- OPEN (FALSE of the code, no behavioural consequence found): `∀ s, wf s = true → Sound (programOf s) (depOf s)`. -/
theorem deps_cover_uses (s : State) (hw : wf s = true) (ha : aliasOk s = true) :
    Sound (programOf s) (depOf s) := by
  intro p q hn
  rcases hn with ⟨b, ⟨F, P, r, hp, hr, hc, hden⟩, ⟨hfile, G, Q, hq, hdecl⟩⟩ | ⟨F, P, r, b, hp, hr, hc, hn, hb, hd⟩
  · obtain ⟨hF, hP⟩ := partAt_some hp
    obtain ⟨hG, hQ⟩ := partAt_some hq
    have hFm := (file?_some hF).1
    refine ⟨F, P, hp, ?_⟩
    apply use_covered s hw F hFm p.idx P hP r hr hc
    unfold denotes at hden
    cases ht : s.file? (resolveUse F r).1 with
    | none => rw [ht] at hden; cases hden
    | some T =>
      rw [ht] at hden
      simp only [Option.bind_some] at hden
      cases hfol : pfollow T T.fuel (resolveUse F r).2 with
      | none => rw [hfol] at hden; cases hden
      | some e =>
        rw [hfol] at hden
        simp only [Option.map_some, Option.some.injEq] at hden
        subst hden
        simp only at hfile hdecl
        have hTG : T = G := by rw [hfile, ht] at hG; exact Option.some.inj hG
        subst hTG
        rw [mem_tlsIn]
        refine ⟨T, ht, hfile, ?_⟩
        cases hl : plink T (resolveUse F r).2 with
        | none =>
          rw [pfollow_of_plink_none hl] at hfol
          cases hfol
          rw [mem_tlsOf hl]
          rcases hdecl with h | ⟨h1, h2⟩
          · exact Or.inl ⟨Q, hQ, h⟩
          · exact Or.inr ⟨h1, h2⟩
        | some r' =>
          have hTm := (file?_some ht).1
          have af := alias_facts (List.all_eq_true.mp ha T hTm) hl hfol
          rw [mem_tlsOf_alias hl]
          rcases hdecl with h | ⟨h1, _⟩
          · refine ⟨e, Q, hfol, ?_, hQ, h⟩
            cases hpp : parserPart T q.idx with
            | true => rfl
            | false => rw [af.2 q.idx Q hpp hQ] at h; cases h
          · exact absurd h1 af.1
  · obtain ⟨hF, hP⟩ := partAt_some hp
    exact ⟨F, P, hp, reexports_covered s F p.idx P hP r hr hc hn b hb _ hd⟩

-- ---------------------------------------------------------------- (2) every edge is justified

/-- why an edge `d` of part `q` of file `F` is there -/
inductive Justified (s : State) (F : File) (q : Nat) (P : Part) (d : Dep) : Prop
  /-- `d` is a part filed under a symbol the part uses (of any file: own declarations, the exports object / wrapper /
  run-time helper the linker made it use) -/
  | use (r : Ref) (hr : r ∈ P.uses) (g : Nat) (hd : d ∈ tlsIn s g r)
  /-- `d` is a part filed under the symbol a used import is bound to -/
  | bound (b : Bind) (hb : b ∈ F.binds) (hr : b.key ∈ P.uses) (hd : d ∈ tlsIn s b.src b.ref)
  /-- `d` is a statement of the re-export chain of a used named import -/
  | forward (b : Bind) (hb : b ∈ F.binds) (hr : b.key ∈ P.uses) (hn : F.nimps.contains b.key = true) (hd : d ∈ b.rx)
  /-- the namespace-export part and the entry-point part depend on the declaration (and re-export chain) of every
  export of the file -/
  | exported (hq : q = 0 ∨ F.entryPart = some q) (hd : d ∈ exportDeps s F)
  /-- the entry-point part keeps the namespace-export part when the output format needs the exports object -/
  | entryNs (hq : F.entryPart = some q) (hf : F.forceInclude = true) (hd : d = ⟨F.src, 0⟩)
  /-- the entry-point part keeps the wrapper of a wrapped entry point -/
  | entryWrapper (hq : F.entryPart = some q) (hd : F.wrapperPart = some d.part ∧ d.src = F.src)

theorem linkerUse_mem {s : State} (hw : wf s = true) {F : File} (hF : F ∈ s.files) {q : Nat} {P : Part}
    (hP : F.parts[q]? = some P) {r : Ref} (hr : r ∈ linkerUses s F q P) : r ∈ P.uses := by
  have := all_parts (wf_file hw hF).linkerUses hP
  have := List.all_eq_true.mp this r hr
  simpa using this

theorem gen_used {s : State} (hw : wf s = true) {F : File} (hF : F ∈ s.files) {q : Nat} {P : Part}
    (hP : F.parts[q]? = some P) {g : Gen} (hg : g ∈ gens s F q P) : g.ref ∈ P.uses := by
  apply linkerUse_mem hw hF hP
  unfold linkerUses
  simp only [List.mem_append, List.mem_map]
  exact Or.inl (Or.inl (Or.inr ⟨g, hg, rfl⟩))

/-- (2) `deps_only_uses` — precision: every edge the linker computes is justified by a symbol use of the part (its own,
or one the linker generated for an import record, a wrapper, a run-time helper), by the re-export chain of a used
import, by an export of the file (namespace-export part and entry-point part only) or by the two extra edges of an
entry-point part.  (The export-star loop gives EVERY part of a file with a run-time `export *` a use of the file's
exports object and of `__reExport`; those edges are justified by that use here.  See the package report: they are
redundant, not harmful.) -/
theorem deps_only_uses (s : State) (hw : wf s = true) (F : File) (hF : F ∈ s.files) (q : Nat) (P : Part)
    (hP : F.parts[q]? = some P) (d : Dep) (hd : d ∈ deps s F q P) : Justified s F q P d := by
  rw [mem_deps] at hd
  rcases hd with hd | hd | hd | hd
  · unfold baseDeps at hd
    simp only [List.mem_append] at hd
    rcases hd with (hd | hd) | hd
    · split at hd
      · rename_i hq
        simp only [Bool.and_eq_true, beq_iff_eq] at hq
        unfold nsDeps at hd
        rcases List.mem_append.mp hd with hd | hd
        · exact .exported (Or.inl hq.1) hd
        · split at hd
          · rename_i hne
            refine .use s.rtExport ?_ s.rtSrc hd
            apply gen_used hw hF hP (g := ⟨s.rtExport, s.rtSrc⟩)
            unfold gens needsExportSym
            simp only [List.mem_append]
            refine Or.inl (Or.inl (Or.inr ?_))
            simp [hq.1, hne]
          · cases hd
      · cases hd
    · split at hd
      · rename_i hwp
        unfold wrapperDeps at hd
        split at hd
        · rename_i hcjs
          refine .use s.rtCommonJS ?_ s.rtSrc hd
          apply gen_used hw hF hP (g := ⟨s.rtCommonJS, s.rtSrc⟩)
          unfold gens
          simp only [List.mem_append]
          refine Or.inl (Or.inr ?_)
          simp [hwp, hcjs]
        · split at hd
          · rename_i hncjs hesm
            refine .use s.rtESM ?_ s.rtSrc hd
            apply gen_used hw hF hP (g := ⟨s.rtESM, s.rtSrc⟩)
            unfold gens
            simp only [List.mem_append]
            refine Or.inl (Or.inr ?_)
            simp [hwp, hncjs, hesm]
          · cases hd
      · cases hd
    · split at hd
      · rename_i hep
        have hep : F.entryPart = some q := eq_of_beq hep
        unfold entryDeps at hd
        simp only [List.mem_append] at hd
        rcases hd with (hd | hd) | hd
        · exact .exported (Or.inr hep) hd
        · split at hd
          · rename_i hfi
            simp only [List.mem_singleton] at hd
            exact .entryNs hep hfi hd
          · cases hd
        · split at hd
          · rename_i w hwp
            split at hd
            · simp only [List.mem_singleton] at hd
              subst hd
              exact .entryWrapper hep ⟨hwp, rfl⟩
            · cases hd
          · cases hd
      · cases hd
  · obtain ⟨r, hr, _, h1, h2⟩ := mem_localDeps.mp hd
    refine .use r hr F.src ?_
    rw [mem_tlsIn]
    exact ⟨F, wf_file? hw hF, h1, h2⟩
  · obtain ⟨b, hb, hq, h⟩ := mem_bindDeps.mp hd
    obtain ⟨hn, P', hP', hu, _⟩ := mem_lpu.mp hq
    rw [hP] at hP'; cases hP'
    rcases h with h | h
    · exact .bound b hb hu h
    · exact .forward b hb hu hn h
  · obtain ⟨g, hg, h⟩ := mem_genDeps.mp hd
    exact .use g.ref (gen_used hw hF hP hg) g.src h

-- ---------------------------------------------------------------- (3) composition with the liveness marking

theorem inRange_file {s : State} {d : Dep} (h : Dep.inRange s d = true) : ∃ G, s.file? d.src = some G := by
  unfold Dep.inRange at h
  cases hg : s.file? d.src with
  | none => rw [hg] at h; cases h
  | some G => exact ⟨G, rfl⟩

theorem exportDeps_file {s : State} (hw : wf s = true) {F : File} {d : Dep} (hd : d ∈ exportDeps s F) :
    ∃ G, s.file? d.src = some G := by
  unfold exportDeps at hd
  obtain ⟨e, _, h⟩ := List.mem_flatMap.mp hd
  rcases List.mem_append.mp h with h | h
  · unfold resolveExport at h
    cases hb : (s.file? e.1).bind (fun g => g.bind? e.2) with
    | none => rw [hb] at h; cases h
    | some b =>
      rw [hb] at h
      cases hg : s.file? e.1 with
      | none => rw [hg] at hb; cases hb
      | some G =>
        rw [hg] at hb
        simp only [Option.bind_some] at hb
        exact inRange_file ((shapeFacts (wf_file hw (file?_some hg).1).shape).rxRange b (bind?_some hb).1 d h)
  · obtain ⟨G, hG, h1, _⟩ := mem_tlsIn.mp h
    exact ⟨G, by rw [h1]; exact hG⟩

/-- every edge points into a file of the state -/
theorem deps_file {s : State} (hw : wf s = true) {F : File} (hF : F ∈ s.files) {q : Nat} {P : Part}
    (hP : F.parts[q]? = some P) {d : Dep} (hd : d ∈ deps s F q P) : ∃ G, s.file? d.src = some G := by
  have sf := shapeFacts (wf_file hw hF).shape
  cases deps_only_uses s hw F hF q P hP d hd with
  | use r hr g h => obtain ⟨G, hG, h1, _⟩ := mem_tlsIn.mp h; exact ⟨G, by rw [h1]; exact hG⟩
  | bound b hb hr h => obtain ⟨G, hG, h1, _⟩ := mem_tlsIn.mp h; exact ⟨G, by rw [h1]; exact hG⟩
  | forward b hb hr hn h => exact inRange_file (sf.rxRange b hb d h)
  | exported hq h => exact exportDeps_file hw h
  | entryNs hq hf h => exact ⟨F, by rw [h]; exact wf_file? hw hF⟩
  | entryWrapper hq h => exact ⟨F, by rw [h.2]; exact wf_file? hw hF⟩

/-- a tree-shaking state (Impl/Shake.lean) carries the linker's edges: parts are numbered file by file -/
def Carries (s : State) (sh : Shake.S) : Prop :=
  ∀ p q : PartId, depOf s p q →
    ∃ i j pp, gidx s p.file p.idx = some i ∧ gidx s q.file q.idx = some j ∧ sh.parts[i]? = some pp ∧ j ∈ pp.deps

/-- the part is kept by the liveness marking -/
def liveIn (s : State) (sh : Shake.S) (p : PartId) : Prop :=
  ∃ i, gidx s p.file p.idx = some i ∧ Shake.partLive sh i = true

theorem live_closed (s : State) (sh : Shake.S) (hsh : Shake.wf sh = true) (hc : Carries s sh) :
    Closed (depOf s) (liveIn s sh) := by
  intro p q ⟨i, hi, hl⟩ hd
  obtain ⟨i', j, pp, hi', hj, hpp, hjd⟩ := hc p q hd
  rw [hi] at hi'; cases hi'
  exact ⟨j, hj, Shake.deps_of_live_part_are_live sh hsh i pp hpp hl j hjd⟩

/-- (3) `no_dangling_reference` — the combined model (the linker's edges, then the liveness marking of
Impl/Shake.lean over them): a kept part never refers to a binding one of whose declaring parts was dropped, and the
statements forwarding its imports are kept.  (`aliasOk`: see `deps_cover_uses`.) -/
theorem no_dangling_reference (s : State) (hw : wf s = true) (ha : aliasOk s = true) (sh : Shake.S)
    (hsh : Shake.wf sh = true) (hc : Carries s sh) (p q : PartId) (hp : liveIn s sh p)
    (hn : Needs (programOf s) p q) : liveIn s sh q :=
  Spec.PartDeps.no_dangling (programOf s) (depOf s) (liveIn s sh) (deps_cover_uses s hw ha)
    (live_closed s sh hsh hc) p q hp hn

theorem toShake_part (s : State) (base : Shake.S) (tpl : Nat → Nat → Shake.Part) {g q i : Nat} {F : File} {P : Part}
    (hF : s.file? g = some F) (hP : F.parts[q]? = some P) (hi : gidx s g q = some i) :
    (toShake s base tpl).parts[i]? =
      some { tpl F.src q with deps := (deps s F q P).filterMap (fun d => gidx s d.src d.part) } := by
  unfold gidx at hi
  simp only [Option.map_eq_some_iff] at hi
  obtain ⟨o, ho, rfl⟩ := hi
  have hq : q < F.parts.length := by
    rcases Nat.lt_or_ge q F.parts.length with h | h
    · exact h
    · rw [List.getElem?_eq_none h] at hP; cases hP
  unfold toShake
  simp only
  rw [getElem?_flatMap_offset _ (fun F => by simp [length_numbered]) s.files g F o q hF ho hq]
  rw [List.getElem?_map, getElem?_numbered, hP]
  simp

/-- the construction is an instance: `toShake` carries the edges, for any flags / imports / file table -/
theorem toShake_carries (s : State) (hw : wf s = true) (base : Shake.S) (tpl : Nat → Nat → Shake.Part) :
    Carries s (toShake s base tpl) := by
  intro p q ⟨F, P, hp, hd⟩
  obtain ⟨hF, hP⟩ := partAt_some hp
  obtain ⟨o, ho⟩ := offsetOf_some_of_find s.files p.file F hF
  obtain ⟨G, hG⟩ := deps_file hw (file?_some hF).1 hP hd
  obtain ⟨o', ho'⟩ := offsetOf_some_of_find s.files q.file G hG
  have hi : gidx s p.file p.idx = some (o + p.idx) := by unfold gidx; rw [ho]; rfl
  have hj : gidx s q.file q.idx = some (o' + q.idx) := by unfold gidx; rw [ho']; rfl
  refine ⟨o + p.idx, o' + q.idx, _, hi, hj, toShake_part s base tpl hF hP hi, ?_⟩
  simp only [List.mem_filterMap]
  exact ⟨⟨q.file, q.idx⟩, hd, hj⟩

-- ---------------------------------------------------------------- (4) exempted call uses = calls the printer inlines

/-- `ast.FollowSymbols` on the final symbol table (parser links and the links of step 6) -/
def ffollow (s : State) : Nat → Ref → Option Ref
  | 0, r => if (symOf s r).link.isNone then some r else none
  | n + 1, r =>
    match (symOf s r).link with
    | none => some r
    | some r' => ffollow s n r'

/-- js_printer.go (`case *js_ast.ECall` under MinifySyntax, and `simplifyUnusedExpr`): the flags the printer looks at for a
call whose target is the symbol `r` — an identifier of a local symbol: `p.symbols.Get(target.Ref).Flags`; an import
identifier: `ast.FollowSymbols` first -/
def printerSym (s : State) (r : Ref) : Option Sym :=
  if (symOf s r).isImport then (ffollow s ((s.files.map (·.syms.length)).sum + 1) r).map (symOf s)
  else some (symOf s r)

/-- the printer replaces EVERY call counted in the call use: calls of a non-mutated empty function always; calls of a
non-mutated identity function when they have exactly one non-spread argument (`calls == single`: all of them do) -/
def printerInlinesAll (s : State) (cu : CallUse) : Option Bool :=
  (printerSym s cu.ref).map (fun y =>
    if y.isEmpty && !y.mutated then true
    else if y.isIdentity && !y.mutated then cu.calls == cu.single
    else false)

theorem ffollow_end {s : State} {r : Ref} (h : (symOf s r).link = none) (n : Nat) : ffollow s n r = some r := by
  cases n <;> simp [ffollow, h]

/-- (4) the linker exempts a call use from counting as a use (so that it creates no edge) exactly when the printer will
inline every one of those calls: the linker looks at `Symbols.Get(importData.Ref)` WITHOUT following links, the printer
follows them; they agree because a bound import is linked to its target and the target is the end of its chain
(`linksOk`, observed on every dump). -/
theorem exempt_iff_printer_inlines (s : State) (hw : wf s = true) (F : File) (hF : F ∈ s.files) (P : Part)
    (hP : P ∈ F.parts) (cu : CallUse) (hcu : cu ∈ P.callUses) :
    printerInlinesAll s cu = some (callExempt s F cu) := by
  have wfF := wf_file hw hF
  have hsrc := (shapeFacts wfF.shape).callLocal P hP cu hcu
  have hfile : s.file? cu.ref.src = some F := by rw [hsrc]; exact wf_file? hw hF
  have hsym : symOf s cu.ref = (F.sym? cu.ref.idx).getD noSym := by unfold symOf; rw [hfile]
  have hps : printerSym s cu.ref = some (calledSym s F cu.ref) := by
    unfold printerSym calledSym
    cases hi : (symOf s cu.ref).isImport with
    | false => simp [hi]
    | true =>
      simp only [↓reduceIte]
      have hy : ∃ y, F.sym? cu.ref.idx = some y ∧ symOf s cu.ref = y := by
        cases hs : F.sym? cu.ref.idx with
        | none => rw [hsym, hs] at hi; simp [noSym] at hi
        | some y => exact ⟨y, rfl, by rw [hsym, hs]; rfl⟩
      obtain ⟨y, hys, hy⟩ := hy
      have hym : y ∈ F.syms := by unfold File.sym? at hys; exact List.mem_of_find?_eq_some hys
      have hyi : y.idx = cu.ref.idx := by
        unfold File.sym? at hys
        have := List.find?_some hys
        simpa using this
      have hl := List.all_eq_true.mp wfF.links y hym
      rw [hy] at hi
      simp only [hi, Bool.not_true, Bool.false_or] at hl
      have href : (⟨F.src, y.idx⟩ : Ref) = cu.ref := by
        cases hr : cu.ref with
        | mk a b => rw [hr] at hsrc hyi; simp_all
      rw [href] at hl
      cases hb : F.bind? cu.ref with
      | none =>
        rw [hb] at hl
        have hnone : (symOf s cu.ref).link = none := by rw [hy]; simpa using hl
        rw [ffollow_end hnone]; simp [hy, hi]
      | some b =>
        rw [hb] at hl
        simp only [Bool.and_eq_true, beq_iff_eq, Option.isNone_iff_eq_none] at hl
        simp only [ffollow, hy, hl.1]
        rw [ffollow_end hl.2]; simp [hi]
  unfold printerInlinesAll callExempt
  rw [hps]
  simp

-- ---------------------------------------------------------------- corollaries a reader looks for

/-- a part that imports (import statement, `require`, `import()`) a file that is evaluated lazily depends on the part
that declares the file's wrapper (`require_x` / `init_x`) -/
theorem wrapper_dep (s : State) (hw : wf s = true) (F : File) (_hF : F ∈ s.files) (q : Nat) (P : Part)
    (_hP : F.parts[q]? = some P) (i : Nat) (hi : i ∈ P.recs) (r : Rec) (hr : F.recs[i]? = some r)
    (hext : r.external = false) (t : Nat) (ht : r.target = some t) (O : File) (hO : s.file? t = some O)
    (hwrap : O.wrap ≠ 0) (w : Nat) (hwp : O.wrapperPart = some w) : (⟨O.src, w⟩ : Dep) ∈ deps s F q P := by
  have hOm := (file?_some hO).1
  have wO := (wf_file hw hOm).wrapper
  have sO := shapeFacts (wf_file hw hOm).shape
  rw [mem_deps]
  right; right; right
  rw [mem_genDeps]
  refine ⟨⟨O.wrapperRef, O.src⟩, ?_, ?_⟩
  · unfold gens
    simp only [List.mem_append]
    refine Or.inl (Or.inl (Or.inl (Or.inl (Or.inl (Or.inl (Or.inl ?_))))))
    rw [List.mem_flatMap]
    refine ⟨r, ?_, ?_⟩
    · unfold partRecs; rw [List.mem_filterMap]; exact ⟨i, hi, hr⟩
    · unfold recGens
      simp [hext, ht, hO, hwrap]
  · rw [mem_tlsIn]
    refine ⟨O, wf_file? hw hOm, rfl, ?_⟩
    unfold File.wrapperOk at wO
    rw [hwp] at wO
    simp only [Bool.and_eq_true, Option.isNone_iff_eq_none] at wO
    obtain ⟨⟨h1, h2⟩, h3⟩ := wO
    have hpl : plink O O.wrapperRef = none := by
      unfold plink
      simp [sO.wrapperSrc, h2, h3]
    rw [mem_tlsOf hpl]
    left
    cases hpw : O.parts[w]? with
    | none => rw [hpw] at h1; cases h1
    | some PW =>
      rw [hpw] at h1
      refine ⟨PW, rfl, ?_⟩
      rw [declares_iff]
      obtain ⟨d, hd, hdt⟩ := List.any_eq_true.mp h1
      simp only [Bool.and_eq_true, beq_iff_eq] at hdt
      refine ⟨d, hd, hdt.1, ?_⟩
      rw [hdt.2]
      exact pfollow_of_plink_none hpl _

/-- a part that uses a namespace import (`import * as ns`) bound to the exports object of a file depends on that file's
namespace-export part (part 0) -/
theorem namespace_dep (s : State) (hw : wf s = true) (F : File) (q : Nat) (P : Part)
    (hP : F.parts[q]? = some P) (r : Ref) (hr : r ∈ P.uses) (hc : constSkip s F r = false)
    (hn : F.nimps.contains r = true) (b : Bind) (hb : F.bind? r = some b) (G : File) (hG : s.file? b.src = some G)
    (hns : b.ref = G.exportsRef) : (⟨b.src, 0⟩ : Dep) ∈ deps s F q P := by
  rw [mem_deps]
  right; right; left
  rw [mem_bindDeps]
  refine ⟨b, (bind?_some hb).1, ?_, Or.inl ?_⟩
  · rw [mem_lpu, (bind?_some hb).2]; exact ⟨hn, P, hP, hr, hc⟩
  rw [mem_tlsIn]
  have hcanon := (shapeFacts (wf_file hw (file?_some hG).1).shape).exportsCanon
  exact ⟨G, hG, rfl, by rw [hns, mem_tlsOf hcanon]; exact Or.inr ⟨rfl, rfl⟩⟩

/-- merged declarations (`var x = 1; var x = 2`, a top-level `var` re-declared in a nested scope and hoisted): EVERY
parser part with a top-level declaration whose link chain ends where the chain of the used symbol ends is a dependency —
whether the use key is the end of the chain or a linked (nested) symbol -/
theorem merged_declarations_dep (s : State) (hw : wf s = true) (F : File) (hF : F ∈ s.files) (q : Nat) (P : Part)
    (hP : F.parts[q]? = some P) (r : Ref) (hr : r ∈ P.uses) (hloc : r.src = F.src) (hn : F.nimps.contains r = false)
    (hc : constSkip s F r = false) (e : Ref) (he : pfollow F F.fuel r = some e) (k : Nat) (Q : Part)
    (hQ : F.parts[k]? = some Q) (hk : parserPart F k = true) (d : Decl) (hd : d ∈ Q.decls)
    (htop : d.top = true) (hfol : pfollow F F.fuel d.ref = some e) : (⟨F.src, k⟩ : Dep) ∈ deps s F q P := by
  apply use_covered s hw F hF q P hP r hr hc
  unfold resolveUse
  simp only [hn, Bool.false_eq_true, ↓reduceIte, hloc]
  rw [mem_tlsIn]
  refine ⟨F, wf_file? hw hF, rfl, ?_⟩
  cases hl : plink F r with
  | none =>
    rw [pfollow_of_plink_none hl] at he
    cases he
    exact (mem_tlsOf hl).mpr (Or.inl ⟨Q, hQ, declares_iff.mpr ⟨d, hd, htop, hfol⟩⟩)
  | some r' =>
    exact (mem_tlsOf_alias hl).mpr ⟨e, Q, he, hk, hQ, declares_iff.mpr ⟨d, hd, htop, hfol⟩⟩

-- ---------------------------------------------------------------- non-vacuity

def rf (a b : Nat) : Ref := ⟨a, b⟩
def noPart : Part := { uses := [], callUses := [], decls := [], recs := [] }

/-- run-time file (source 0): part 1 declares `__export` (0.10) -/
def exR : File :=
  { src := 0, isEntry := false, forceInclude := false, needsExportsVar := false, wrap := 0, kind := 2,
    wrapperPart := none, entryPart := none, exportsRef := rf 0 0, moduleRef := rf 0 1, wrapperRef := rf 0 2,
    exports := [], nimps := [], binds := [], recs := [], stars := [], syms := [],
    parts := [noPart, { noPart with decls := [⟨rf 0 10, true⟩] }] }

/-- `import { x } from "./b"; console.log(x)` (entry point, source 1): part 1 the import statement, part 2 the call,
part 3 the entry-point part; `x` (1.5) is bound to 2.7 of file 2 through the import statement itself -/
def exA : File :=
  { src := 1, isEntry := true, forceInclude := false, needsExportsVar := false, wrap := 0, kind := 2,
    wrapperPart := none, entryPart := some 3, exportsRef := rf 1 0, moduleRef := rf 1 1, wrapperRef := rf 1 2,
    exports := [], nimps := [rf 1 5], binds := [{ key := rf 1 5, src := 2, ref := rf 2 7, rx := [⟨1, 1⟩] }],
    recs := [{ kind := kStmt, target := some 2, star := false, dflt := false, esm := false, extDyn := false }],
    stars := [], syms := [{ idx := 5, link := some (rf 2 7), isImport := true, isEmpty := false, isIdentity := false, mutated := false }],
    parts := [noPart, { noPart with decls := [⟨rf 1 5, true⟩], recs := [0] }, { noPart with uses := [rf 1 5] }, noPart] }

/-- `export var x = 1; var x = 2;` (source 2): both parts declare the merged symbol 2.7 (2.8 is linked to it); part 0 is
the namespace-export part -/
def exB : File :=
  { src := 2, isEntry := false, forceInclude := false, needsExportsVar := true, wrap := 0, kind := 2,
    wrapperPart := none, entryPart := none, exportsRef := rf 2 0, moduleRef := rf 2 1, wrapperRef := rf 2 2,
    exports := [(2, rf 2 7)], nimps := [], binds := [{ key := rf 0 10, src := 0, ref := rf 0 10, rx := [] }],
    recs := [], stars := [],
    syms := [{ idx := 8, link := some (rf 2 7), isImport := false, isEmpty := false, isIdentity := false, mutated := false }],
    parts := [{ noPart with uses := [rf 2 7, rf 0 10], decls := [⟨rf 2 0, true⟩] },
              { noPart with decls := [⟨rf 2 7, true⟩] }, { noPart with decls := [⟨rf 2 8, true⟩] }] }

def exOpts : Opts := { keepESM := true, fmtCJS := false, rtReq := true, noDyn := false, constOn := false }

def exS : State :=
  { opts := exOpts, consts := [], rtSrc := 0, rtToESM := rf 0 11, rtToCJS := rf 0 12, rtRequire := rf 0 13,
    rtReExport := rf 0 14, rtExport := rf 0 10, rtCommonJS := rf 0 15, rtESM := rf 0 16, files := [exR, exA, exB] }

example : wf exS = true := by decide
example : aliasOk exS = true := by decide
/-- the using part depends on BOTH declarations of the merged `x` in the other file and on the import statement -/
example : deps exS exA 2 { noPart with uses := [rf 1 5] } = [⟨1, 1⟩, ⟨2, 1⟩, ⟨2, 2⟩, ⟨1, 1⟩] := by decide
/-- the namespace-export part of file 2 depends on both declarations and on `__export` -/
example : deps exS exB 0 { noPart with uses := [rf 2 7, rf 0 10], decls := [⟨rf 2 0, true⟩] } =
    [⟨2, 1⟩, ⟨2, 2⟩, ⟨0, 1⟩, ⟨2, 1⟩, ⟨2, 2⟩, ⟨0, 1⟩] := by decide
/-- `Needs` is inhabited on `exS`: the call refers to the binding (2, 2.7) that part 2 of file 2 declares through 2.8 -/
example : Needs (programOf exS) ⟨1, 2⟩ ⟨2, 2⟩ :=
  Or.inl ⟨(2, rf 2 7), ⟨exA, _, rf 1 5, rfl, by decide, by decide, by decide⟩, rfl, exB, _, rfl, Or.inl (by decide)⟩
example : Sound (programOf exS) (depOf exS) :=
  deps_cover_uses exS (by decide) (by decide)

/-- the combined model on `exS`: parts 0..1 run time, 2..5 file 1, 6..8 file 2; with every part of file 2 removable,
the marking keeps both declarations of `x` (7, 8) and drops the namespace part (6) -/
def exShake : Shake.S :=
  toShake exS { treeShaking := true, ignoreAnn := false, entries := [1],
                files := [⟨false, none, []⟩, ⟨true, none, []⟩, ⟨false, none, []⟩], parts := [] }
    (fun g q => { file := g, canRemove := (g != 1) || q < 2, force := false, deps := [], imps := [] })
example : Shake.wf exShake = true := by decide
example : (List.range 9).filter (Shake.partLive exShake) = [3, 4, 5, 7, 8] := by decide
example : liveIn exS exShake ⟨2, 2⟩ :=
  no_dangling_reference exS (by decide) (by decide) exShake (by decide)
    (toShake_carries exS (by decide) _ _) ⟨1, 2⟩ ⟨2, 2⟩ ⟨4, rfl, by decide⟩
    (Or.inl ⟨(2, rf 2 7), ⟨exA, _, rf 1 5, rfl, by decide, by decide, by decide⟩, rfl, exB, _, rfl, Or.inl (by decide)⟩)

/-- the former defect: `var x = 1; { var x; console.log(x) }` as esbuild's tables have it.  Part 1 declares 1.3; the
block (part 2) declares the nested 1.4 (not top level), which the parser LINKED to 1.3, and uses 1.4.  Before the fix
of toAST the lookup of 1.4 found nothing and `var x = 1` was dropped; now 1.4 is an alias of the parts of 1.3. -/
def exH : File :=
  { src := 1, isEntry := true, forceInclude := false, needsExportsVar := false, wrap := 0, kind := 0,
    wrapperPart := none, entryPart := some 3, exportsRef := rf 1 0, moduleRef := rf 1 1, wrapperRef := rf 1 2,
    exports := [], nimps := [], binds := [], recs := [], stars := [],
    syms := [{ idx := 4, link := some (rf 1 3), isImport := false, isEmpty := false, isIdentity := false, mutated := false }],
    parts := [noPart, { noPart with decls := [⟨rf 1 3, true⟩] },
              { noPart with uses := [rf 1 4, rf 1 9], decls := [⟨rf 1 4, false⟩] }, noPart] }
def exHoist : State := { exS with files := [exR, exH] }

example : wf exHoist = true := by decide
example : aliasOk exHoist = true := by decide
/-- the use key 1.4 is NOT the end of its chain; it denotes the binding 1.3, part 1 declares it, and part 1 IS a
dependency of the using part (through the alias) -/
example : plink exH (rf 1 4) = some (rf 1 3) ∧ denotes exHoist exH (rf 1 4) = some (1, rf 1 3) ∧
    declares exH { noPart with decls := [⟨rf 1 3, true⟩] } (rf 1 3) = true ∧ tlsOf exH (rf 1 4) = [1] ∧
    deps exHoist exH 2 { noPart with uses := [rf 1 4, rf 1 9], decls := [⟨rf 1 4, false⟩] } = [⟨1, 1⟩] := by
  decide
/-- the former counterexample is now an instance of soundness -/
theorem sound_on_nested_redeclaration : Sound (programOf exHoist) (depOf exHoist) :=
  deps_cover_uses exHoist (by decide) (by decide)
example : Needs (programOf exHoist) ⟨1, 2⟩ ⟨1, 1⟩ :=
  Or.inl ⟨(1, rf 1 3), ⟨exH, _, rf 1 4, rfl, by decide, by decide, by decide⟩, rfl, exH, _, rfl, Or.inl (by decide)⟩

/-- the residual hypothesis is needed: a CommonJS-style file (wrapped, wrapper part 3) whose module-level
`var exports = {a: 1}` IS the exports symbol 1.0 and is re-declared in a nested scope (1.4 linked to 1.0) that uses it.
The alias table was built before the wrapper part existed, so the block gets the edge to `var exports = …` (part 1)
but not the edges a direct use of `exports` gets (the wrapper part, which declares the closure's `exports`, and part 0) -/
def exC : File :=
  { src := 1, isEntry := false, forceInclude := false, needsExportsVar := false, wrap := wrapCJS, kind := kindCJS,
    wrapperPart := some 3, entryPart := none, exportsRef := rf 1 0, moduleRef := rf 1 1, wrapperRef := rf 1 2,
    exports := [], nimps := [], binds := [{ key := rf 0 15, src := 0, ref := rf 0 15, rx := [] }], recs := [], stars := [],
    syms := [{ idx := 4, link := some (rf 1 0), isImport := false, isEmpty := false, isIdentity := false, mutated := false }],
    parts := [noPart, { noPart with decls := [⟨rf 1 0, true⟩] },
              { noPart with uses := [rf 1 4], decls := [⟨rf 1 4, false⟩] },
              { noPart with uses := [rf 1 2, rf 0 15], decls := [⟨rf 1 0, true⟩, ⟨rf 1 1, true⟩, ⟨rf 1 2, true⟩] }] }
def exAlias : State := { exS with files := [exR, exC] }

theorem sound_needs_aliasOk : wf exAlias = true ∧ aliasOk exAlias = false ∧ ¬ Sound (programOf exAlias) (depOf exAlias) := by
  refine ⟨by decide, by decide, fun h => ?_⟩
  have hd := h ⟨1, 2⟩ ⟨1, 3⟩
    (Or.inl ⟨(1, rf 1 0), ⟨exC, _, rf 1 4, rfl, by decide, by decide, by decide⟩, rfl, exC, _, rfl, Or.inl (by decide)⟩)
  obtain ⟨F, P, hp, hd⟩ := hd
  have h2 : partAt exAlias ⟨1, 2⟩ = some (exC, { noPart with uses := [rf 1 4], decls := [⟨rf 1 4, false⟩] }) := rfl
  rw [h2] at hp
  cases hp
  revert hd
  decide

/-- calls: an empty function imported from another file is exempt, and the printer agrees -/
def exCall : State :=
  { exS with files := [exR,
      { exA with syms := [{ idx := 5, link := some (rf 2 7), isImport := true, isEmpty := false, isIdentity := false, mutated := false }],
                 parts := [noPart, { noPart with decls := [⟨rf 1 5, true⟩], recs := [0] },
                           { noPart with callUses := [⟨rf 1 5, 2, 1⟩] }, noPart] },
      { exB with syms := [{ idx := 7, link := none, isImport := false, isEmpty := true, isIdentity := false, mutated := false },
                          { idx := 8, link := some (rf 2 7), isImport := false, isEmpty := false, isIdentity := false, mutated := false }] }] }
example : wf exCall = true := by decide
example : printerInlinesAll exCall ⟨rf 1 5, 2, 1⟩ = some true := by decide

end EsbuildModel.PartDeps
