import EsbuildModel.Lemmas.OutPathsInj
import EsbuildModel.Lemmas.OutPathsDedupe
import EsbuildModel.Lemmas.OutPathsRelSpec
/-
Property C17, output PATHS: every output lies inside the output directory; different entry points get
different paths (or the collision is reported); the lowest common ancestor directory.
Models: Impl/OutPaths*.lean, Impl/OutTemplate.lean.  Independent specification: Spec/OutPath.lean
(POSIX pathname resolution `denote`, `Inside` = prefix of names, `lcaAll`).
The template theorems are in Props/C17Templates.lean.
-/
namespace EsbuildModel.C17OutPaths
open EsbuildModel.OutPaths EsbuildModel.Spec.OutPath

/-! ## (1) outputs stay inside the output directory -/

/-- **output_inside_outdir** (default entry names `[dir]/[name]`): for EVERY absolute input file path or custom
output path, every absolute outbase and outdir, and every output extension the API accepts that has no '/'
inside, the output path is an absolute path in normal form inside the output directory.
Hypotheses found by the proof (each is necessary, see the examples below): no backslash in the paths, no '/' in
the extension. -/
theorem output_inside_outdir {outdir outbase keyText custom ext : Str} (avoidIndex : Bool) (hash : Str)
    (ho : isAbs outdir = true) (hb : isAbs outbase = true) (hk : isAbs keyText = true)
    (h1 : '\\' ∉ outbase) (h2 : '\\' ∉ keyText) (h3 : '\\' ∉ custom) (he : ValidExt ext) :
    let dn := pathRelativeToOutbase keyText true outbase avoidIndex custom
    let out := outputPath outdir defaultEntryTemplate dn.1 dn.2 ext hash
    out = render (denote out) ∧ Inside (denote outdir) (denote out) := by
  intro dn out
  have heq := pathRelativeToOutbase_eq hb hk avoidIndex custom h1 h2 h3
  have hT := denote_valid (prelAbsPath keyText outbase avoidIndex custom)
  have hd : Safe dn.1 := by
    show Safe (pathRelativeToOutbase keyText true outbase avoidIndex custom).1
    rw [heq]; exact safe_render (dirNames_valid hT)
  have hn : '/' ∉ dn.2 := by
    show '/' ∉ (pathRelativeToOutbase keyText true outbase avoidIndex custom).2
    rw [heq]
    simp only
    split
    · intro hm; exact lastName_noslash hT (stripExt_subset _ _ hm)
    · exact lastName_noslash hT
  exact finalAbsPath_inside ho (noDotDot_default hd hn he hash)

/-- the same for a template given by the user (`--entry-names`, `--chunk-names`) that contains no dot and
does not end with '[', when the name is not "." or ".." and the hash has no dot -/
theorem output_inside_outdir_template {outdir outbase keyText custom ext template : Str} (avoidIndex : Bool)
    {hash : Str} (ho : isAbs outdir = true) (hb : isAbs outbase = true) (hk : isAbs keyText = true)
    (h1 : '\\' ∉ outbase) (h2 : '\\' ∉ keyText) (h3 : '\\' ∉ custom) (he : ValidExt ext)
    (ht1 : template ≠ []) (ht2 : ¬ EndsOpen template) (ht3 : '.' ∉ template) (hh : '.' ∉ hash)
    (hname : (pathRelativeToOutbase keyText true outbase avoidIndex custom).2 ≠ ['.'] ∧
             (pathRelativeToOutbase keyText true outbase avoidIndex custom).2 ≠ ['.', '.']) :
    let dn := pathRelativeToOutbase keyText true outbase avoidIndex custom
    let out := outputPath outdir (validatePathTemplate template) dn.1 dn.2 ext hash
    out = render (denote out) ∧ Inside (denote outdir) (denote out) := by
  intro dn out
  have heq := pathRelativeToOutbase_eq hb hk avoidIndex custom h1 h2 h3
  have hT := denote_valid (prelAbsPath keyText outbase avoidIndex custom)
  have hd : Safe dn.1 := by
    show Safe (pathRelativeToOutbase keyText true outbase avoidIndex custom).1
    rw [heq]; exact safe_render (dirNames_valid hT)
  have hn : '/' ∉ dn.2 := by
    show '/' ∉ (pathRelativeToOutbase keyText true outbase avoidIndex custom).2
    rw [heq]
    simp only
    split
    · intro hm; exact lastName_noslash hT (stripExt_subset _ _ hm)
    · exact lastName_noslash hT
  exact finalAbsPath_inside ho
    (noDotDot_parsed ht1 ht2 ht3 hd (safe_name hn hname.1 hname.2) (safe_dotless hh) he)

/-- non-vacuity: an entry point outside the outbase -/
example :
    let dn := pathRelativeToOutbase (lit "/p/lib/x/a.ts") true (lit "/p/src") false []
    dn = (lit "/_.._/lib/x", lit "a") ∧
    outputPath (lit "/p/out") defaultEntryTemplate dn.1 dn.2 (lit ".js") [] = lit "/p/out/_.._/lib/x/a.js" ∧
    outputPath (lit "/p/out") (validatePathTemplate (lit "js/[dir]/[name]-[hash]")) dn.1 dn.2 (lit ".js") (lit "ABCD1234")
      = lit "/p/out/js/_.._/lib/x/a-ABCD1234.js" := by decide +kernel

/-- hypothesis "no dot in the template" is needed: `--entry-names=../../[name]` leaves the output directory
(run on the real esbuild: `esbuild src/a.js --outdir=out --entry-names=../../[name]` writes `../a.js`) -/
example :
    outputPath (lit "/p/out") (validatePathTemplate (lit "../../[name]")) (lit "/") (lit "a") (lit ".js") [] = lit "/a.js" ∧
    ¬ Inside (denote (lit "/p/out")) (denote (lit "/a.js")) := by decide +kernel

/-- hypothesis "no '/' in the extension" is needed: `--out-extension:.js=.x/../../../esc.js` is accepted by
`isValidExtension` and leaves the output directory (run on the real esbuild) -/
example :
    outputPath (lit "/p/out") defaultEntryTemplate (lit "/") (lit "a") (lit ".x/../../../esc.js") [] = lit "/esc.js" ∧
    ¬ ValidExt (lit ".x/../../../esc.js") := by decide +kernel

/-- hypothesis "no backslash" is needed: a POSIX directory named `a\..\..\..\x` below the outbase: the
backslashes become slashes AFTER the leading "../" have been replaced (run on the real esbuild: the file is
written to `out/x/f.js` for `--outdir=out/deep/deeper`) -/
example :
    let dn := pathRelativeToOutbase (lit "/p/src/a\\..\\..\\..\\x/f.js") true (lit "/p/src") false []
    dn = (lit "/a/../../../x", lit "f") ∧
    outputPath (lit "/p/out/deep/deeper") defaultEntryTemplate dn.1 dn.2 (lit ".js") [] = lit "/p/out/x/f.js" := by
  decide +kernel

/-- hypothesis "name is not .." is needed for user templates: `{in: "a.js", out: ".."}` with
`--entry-names=[name]/x` (run on the real esbuild: written to the parent of the output directory) -/
example :
    let dn := pathRelativeToOutbase (lit "/p/src/a.js") true (lit "/p/src") false (lit "..")
    dn = (lit "/", lit "..") ∧
    outputPath (lit "/p/out/deep") (validatePathTemplate (lit "[name]/x")) dn.1 dn.2 (lit ".js") [] = lit "/p/out/x.js" := by
  decide +kernel

/-! ## (2) different entry points, different output paths -/

/-- **relative_path_injective**: two input files (absolute, no backslash) that are not the outbase directory or
one of its ancestors and have no directory literally called "_.._" get the same (`[dir]`, `[name]`) only if
they are the same file up to the extension of the file name. -/
theorem relative_path_injective {outbase p q : Str} (hb : isAbs outbase = true) (hp : isAbs p = true)
    (hq : isAbs q = true) (h1 : '\\' ∉ outbase) (h2 : '\\' ∉ p) (h3 : '\\' ∉ q)
    (hup : usus ∉ denote p) (huq : usus ∉ denote q)
    (hnp : ¬ Inside (denote p) (denote outbase)) (hnq : ¬ Inside (denote q) (denote outbase))
    (h : pathRelativeToOutbase p true outbase false [] = pathRelativeToOutbase q true outbase false []) :
    (denote p).dropLast = (denote q).dropLast ∧
    stripExt ((denote p).getLast?.getD []) = stripExt ((denote q).getLast?.getD []) := by
  rw [pathRelativeToOutbase_eq hb hp false [] h1 h2 (by simp),
    pathRelativeToOutbase_eq hb hq false [] h1 h3 (by simp)] at h
  have hpa : prelAbsPath p outbase false [] = p := by simp [prelAbsPath]
  have hqa : prelAbsPath q outbase false [] = q := by simp [prelAbsPath]
  rw [hpa, hqa] at h
  simp only [if_true, Prod.mk.injEq] at h
  have hdn := render_injective (dirNames_valid (denote_valid p)) (dirNames_valid (denote_valid q)) h.1
  obtain ⟨r1, r2, r3⟩ := dirNames_injective hup huq hnp hnq hdn
  refine ⟨r1, ?_⟩
  rw [← r2, ← r3]
  exact h.2

/-- non-vacuity, and the two ways to collide that the hypotheses exclude or the conclusion allows:
`a.js` / `a.ts` (same file up to the extension), `../x/a.js` / `_.._/x/a.js` -/
example :
    pathRelativeToOutbase (lit "/p/src/a.js") true (lit "/p/src") false [] =
      pathRelativeToOutbase (lit "/p/src/a.ts") true (lit "/p/src") false [] ∧
    pathRelativeToOutbase (lit "/p/x/a.js") true (lit "/p/src") false [] =
      pathRelativeToOutbase (lit "/p/src/_.._/x/a.js") true (lit "/p/src") false [] ∧
    pathRelativeToOutbase (lit "/p/src/a.js") true (lit "/p/src") false [] ≠
      pathRelativeToOutbase (lit "/p/src/b/a.js") true (lit "/p/src") false [] := by decide +kernel

/-- **default_output_path**: closed form of the output path for the default entry names: the output directory,
then the names of `[dir]`, then `[name]` with the extension. -/
theorem default_output_path {outdir : Str} (ho : isAbs outdir = true) {Y : AbsPath} (hY : ∀ y ∈ Y, ValidName y)
    {n e : Str} (hn : '/' ∉ n) (he : ValidExt e) (h : Str) :
    outputPath outdir defaultEntryTemplate (render Y) n e h = render (denote outdir ++ Y ++ [n ++ e]) :=
  outputPath_default ho hY hn he h

/-- hence different (`[dir]`, `[name]`) pairs give different output files -/
theorem default_output_path_injective {outdir : Str} (ho : isAbs outdir = true) {Y1 Y2 : AbsPath}
    (hY1 : ∀ y ∈ Y1, ValidName y) (hY2 : ∀ y ∈ Y2, ValidName y) {n1 n2 e : Str} (hn1 : '/' ∉ n1) (hn2 : '/' ∉ n2)
    (he : ValidExt e) (h1 h2 : Str)
    (heq : outputPath outdir defaultEntryTemplate (render Y1) n1 e h1 =
           outputPath outdir defaultEntryTemplate (render Y2) n2 e h2) : Y1 = Y2 ∧ n1 = n2 := by
  rw [outputPath_default ho hY1 hn1 he, outputPath_default ho hY2 hn2 he] at heq
  have hv : ∀ (Y : AbsPath) (n : Str), (∀ y ∈ Y, ValidName y) → '/' ∉ n →
      ∀ x ∈ denote outdir ++ Y ++ [n ++ e], ValidName x := by
    intro Y n hY hn x hx
    rcases List.mem_append.mp hx with hx | hx
    · rcases List.mem_append.mp hx with hx | hx
      · exact denote_valid _ x hx
      · exact hY x hx
    · simp only [List.mem_singleton] at hx; subst hx; exact validName_name_ext hn he
  have := render_injective (hv Y1 n1 hY1 hn1) (hv Y2 n2 hY2 hn2) heq
  rw [List.append_assoc, List.append_assoc] at this
  have h3 := List.append_cancel_left this
  have hlen : Y1.length = Y2.length := by
    have := congrArg List.length h3
    simpa using this
  have h4 := List.append_inj h3 hlen
  refine ⟨h4.1, ?_⟩
  have h5 : n1 ++ e = n2 ++ e := by simpa using h4.2
  exact List.append_cancel_right h5

/-- **custom_output_path**: an entry point `{in, out}` whose `out` is a relative path of real names is written
to exactly `outdir/out` + extension (default entry names). -/
theorem custom_output_path {outdir outbase keyText ext : Str} (avoidIndex : Bool) (hash : Str)
    (ho : isAbs outdir = true) (hb : isAbs outbase = true) (hk : isAbs keyText = true)
    {Z : List Str} (hZ : ∀ z ∈ Z, ValidName z) (hne : Z ≠ [])
    (h1 : '\\' ∉ outbase) (h2 : '\\' ∉ keyText) (h3 : ∀ z ∈ Z, '\\' ∉ z) (he : ValidExt ext) :
    let dn := pathRelativeToOutbase keyText true outbase avoidIndex (joinSlash Z)
    outputPath outdir defaultEntryTemplate dn.1 dn.2 ext hash =
      render (denote outdir ++ Z.dropLast ++ [Z.getLast hne ++ ext]) := by
  intro dn
  show outputPath outdir defaultEntryTemplate
    (pathRelativeToOutbase keyText true outbase avoidIndex (joinSlash Z)).1
    (pathRelativeToOutbase keyText true outbase avoidIndex (joinSlash Z)).2 ext hash = _
  rw [pathRelativeToOutbase_custom hb hk avoidIndex hZ hne h1 h2 h3]
  exact outputPath_default ho (fun y hy => hZ y (List.dropLast_subset _ hy))
    (hZ _ (List.getLast_mem hne)).2.1 he hash

/-- non-vacuity -/
example :
    let dn := pathRelativeToOutbase (lit "/p/src/a.ts") true (lit "/p/src") false (lit "pages/home")
    outputPath (lit "/p/out") defaultEntryTemplate dn.1 dn.2 (lit ".js") [] = lit "/p/out/pages/home.js" := by
  decide +kernel

/-! ## `fs.Rel` keeps its documented contract -/

/-- **rel_is_relative_path**: for absolute paths `Rel` always succeeds, joining its result onto the base names
the target (the contract stated in the comment of `rel`), and the result is "up once per name of the base below
the lowest common ancestor, then down the names of the target" of the specification. -/
theorem rel_is_relative_path {b t : Str} (hb : isAbs b = true) (ht : isAbs t = true) :
    ∃ r, fsRel b t = some r ∧ denote (b ++ '/' :: r) = denote t ∧
      (denote t ≠ denote b →
        r = joinSlash (List.replicate (relative (denote b) (denote t)).1 dd ++ (relative (denote b) (denote t)).2)) :=
  join_rel hb ht

/-- non-vacuity -/
example : fsRel (lit "/a/b/c") (lit "/a/x/../d/e.js") = some (lit "../../d/e.js") ∧
    relative (denote (lit "/a/b/c")) (denote (lit "/a/x/../d/e.js")) = (2, [lit "d", lit "e.js"]) := by decide +kernel

end EsbuildModel.C17OutPaths
