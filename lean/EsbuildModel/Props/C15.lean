import EsbuildModel.Impl.Rename
/-!
C15 — renaming never changes which declaration a name refers to.  Proved here, for every alphabet without
repeated characters (the default alphabets and every frequency shuffle of them), every reserved set and every
slot table:

* the short-name function is injective: two different name numbers never give the same name;
* the names `AssignNamesByFrequency` hands out within one namespace are pairwise different, none is reserved
  (keywords, free identifiers), and a slot used as a JSX element never gets a lowercase first letter.

That two symbols which must not share a name get different SLOTS (scope analysis, cross-chunk merging, pinned
names) is not modelled; it is decided by the search c15-scope in Node.
-/
namespace EsbuildModel.Rename

def decodeTail (T : Nat) : List Nat → Nat
  | [] => 0
  | d :: ds => d + T * decodeTail T ds + 1

theorem decodeTail_tailDigits (T : Nat) (hT : 0 < T) (i : Nat) : decodeTail T (tailDigits T i) = i := by
  induction i using Nat.strongRecOn with
  | _ i ih =>
    rw [tailDigits]
    split
    · next h => simp [decodeTail, h]
    · next h =>
      have hlt : (i - 1) / T < i := by
        have : (i - 1) / T ≤ i - 1 := Nat.div_le_self _ _
        omega
      simp only [decodeTail, ih _ hlt]
      have := Nat.mod_add_div (i - 1) T
      omega

theorem tailDigits_lt (T : Nat) (hT : 0 < T) (i : Nat) : ∀ d ∈ tailDigits T i, d < T := by
  induction i using Nat.strongRecOn with
  | _ i ih =>
    rw [tailDigits]
    split
    · intro d hd; simp at hd
    · next h =>
      have hlt : (i - 1) / T < i := by
        have : (i - 1) / T ≤ i - 1 := Nat.div_le_self _ _
        omega
      intro d hd
      rcases List.mem_cons.mp hd with rfl | hd
      · exact Nat.mod_lt _ hT
      · exact ih _ hlt d hd

theorem map_getD_inj {tail : List Char} (hn : tail.Nodup) :
    ∀ (l₁ l₂ : List Nat), (∀ d ∈ l₁, d < tail.length) → (∀ d ∈ l₂, d < tail.length) →
      l₁.map (tail.getD · '?') = l₂.map (tail.getD · '?') → l₁ = l₂ := by
  intro l₁
  induction l₁ with
  | nil => intro l₂ _ _ h; cases l₂ with | nil => rfl | cons _ _ => simp at h
  | cons a l₁ ih =>
    intro l₂ h1 h2 h
    cases l₂ with
    | nil => simp at h
    | cons b l₂ =>
      simp only [List.map_cons, List.cons.injEq] at h
      have hab : a = b := (List.getD_inj (h1 a (by simp)) (h2 b (by simp)) hn).mp h.1
      rw [hab, ih l₂ (fun d hd => h1 d (List.mem_cons_of_mem _ hd)) (fun d hd => h2 d (List.mem_cons_of_mem _ hd)) h.2]

/-- C15: different name numbers give different names (no two slots can be handed the same name). -/
theorem name_injective (a : Alphabet) (hh : a.head.Nodup) (ht : a.tail.Nodup) (hH : 0 < a.head.length)
    (hT : 0 < a.tail.length) (i j : Nat) (h : name a i = name a j) : i = j := by
  unfold name at h
  simp only [List.cons.injEq] at h
  have h1 : i % a.head.length = j % a.head.length :=
    (List.getD_inj (Nat.mod_lt _ hH) (Nat.mod_lt _ hH) hh).mp h.1
  have h2 := map_getD_inj ht _ _ (tailDigits_lt _ hT _) (tailDigits_lt _ hT _) h.2
  have h3 : i / a.head.length = j / a.head.length := by
    have := congrArg (decodeTail a.tail.length) h2
    rwa [decodeTail_tailDigits _ hT, decodeTail_tailDigits _ hT] at this
  have := Nat.mod_add_div i a.head.length
  have := Nat.mod_add_div j a.head.length
  rw [h1, h3] at *
  omega

/-- every name starts with a head character (an identifier start), so it is a valid identifier -/
theorem name_starts_with_head (a : Alphabet) (hH : 0 < a.head.length) (i : Nat) :
    ∃ c ∈ a.head, ∃ rest, name a i = c :: rest := by
  refine ⟨a.head.getD (i % a.head.length) '?', ?_, _, rfl⟩
  have hlt := Nat.mod_lt i hH
  rw [List.getD_eq_getElem?_getD, List.getElem?_eq_getElem hlt]
  exact List.getElem_mem hlt

theorem nextOk_spec {ok : List Char → Bool} {nm : Nat → List Char} :
    ∀ (fuel start k : Nat), nextOk ok nm fuel start = some k → start ≤ k ∧ ok (nm k) = true := by
  intro fuel
  induction fuel with
  | zero => intro s k h; simp [nextOk] at h
  | succ f ih =>
    intro s k h
    simp only [nextOk] at h
    split at h
    · next hok => simp at h; subst h; exact ⟨Nat.le_refl _, hok⟩
    · have := ih (s + 1) k h
      exact ⟨by omega, this.2⟩

/-- the name numbers chosen along the processing order strictly increase, start at `next`, and each passes
the check of its slot -/
theorem assignSeq_spec {ns : Nat} {reserved : List (List Char)} {nm : Nat → List Char} {fuel : Nat} :
    ∀ (slots : List Slot) (next : Nat) (ks : List Nat), assignSeq ns reserved nm fuel next slots = some ks →
      ks.length = slots.length ∧ ks.Pairwise (· < ·) ∧ (∀ k ∈ ks, next ≤ k) ∧
      ∀ (i : Nat) (s : Slot) (k : Nat), slots[i]? = some s → ks[i]? = some k → okFor ns reserved s (nm k) = true := by
  intro slots
  induction slots with
  | nil => intro next ks h; simp [assignSeq] at h; subst h; simp
  | cons s rest ih =>
    intro next ks h
    simp only [assignSeq] at h
    cases hk : nextOk (okFor ns reserved s) nm fuel next with
    | none => simp [hk] at h
    | some k =>
      simp only [hk, Option.map_eq_some_iff] at h
      obtain ⟨ks', hks', rfl⟩ := h
      have hsp := nextOk_spec fuel next k hk
      obtain ⟨hl, hp, hge, hok⟩ := ih (k + 1) ks' hks'
      refine ⟨by simp [hl], ?_, ?_, ?_⟩
      · rw [List.pairwise_cons]
        exact ⟨fun x hx => by have := hge x hx; omega, hp⟩
      · intro x hx
        rcases List.mem_cons.mp hx with rfl | hx
        · exact hsp.1
        · have := hge x hx; omega
      · intro i s' k' hs hk'
        cases i with
        | zero => simp at hs hk'; subst hs; subst hk'; exact hsp.2
        | succ i => simp at hs hk'; exact hok i s' k' hs hk'

/-- C15: within one namespace the assigned names are pairwise different. -/
theorem assigned_names_distinct (a : Alphabet) (hh : a.head.Nodup) (ht : a.tail.Nodup)
    (hH : 0 < a.head.length) (hT : 0 < a.tail.length) (ns : Nat) (reserved : List (List Char)) (fuel next : Nat)
    (slots : List Slot) (ks : List Nat) (h : assignSeq ns reserved (name a) fuel next slots = some ks) :
    (ks.map (name a)).Nodup := by
  have hp := (assignSeq_spec slots next ks h).2.1
  exact List.Pairwise.map (name a)
    (fun x y hlt heq => absurd (name_injective a hh ht hH hT x y heq) (Nat.ne_of_lt hlt)) hp

/-- C15: an ordinary symbol never gets a reserved name (keyword or free identifier), and a symbol used as a
JSX element name never gets a lowercase first letter. -/
theorem assigned_names_allowed (a : Alphabet) (reserved : List (List Char)) (fuel next : Nat)
    (slots : List Slot) (ks : List Nat) (h : assignSeq 0 reserved (name a) fuel next slots = some ks)
    (i : Nat) (s : Slot) (k : Nat) (hs : slots[i]? = some s) (hk : ks[i]? = some k) :
    name a k ∉ reserved ∧ (s.capital = true → isLowerFirst (name a k) = false) := by
  have := (assignSeq_spec slots next ks h).2.2.2 i s k hs hk
  simp only [okFor, Bool.and_eq_true, Bool.not_eq_true'] at this
  refine ⟨fun hm => ?_, fun hc => ?_⟩
  · have h1 := this.1
    rw [List.contains_iff_mem.mpr hm] at h1
    exact absurd h1 (by simp)
  · have h2 := this.2
    rw [hc] at h2
    simpa using h2

-- ---------------------------------------------------------------- non-vacuity

def jsAlphabet : Alphabet :=
  { head := ['a', 'b', 'c', 'd', 'e', 'f', 'g', 'h', 'i', 'j', 'k', 'l', 'm', 'n', 'o', 'p', 'q', 'r', 's', 't', 'u', 'v', 'w', 'x', 'y', 'z', 'A', 'B', 'C', 'D', 'E', 'F', 'G', 'H', 'I', 'J', 'K', 'L', 'M', 'N', 'O', 'P', 'Q', 'R', 'S', 'T', 'U', 'V', 'W', 'X', 'Y', 'Z', '_', '$'],
    tail := ['a', 'b', 'c', 'd', 'e', 'f', 'g', 'h', 'i', 'j', 'k', 'l', 'm', 'n', 'o', 'p', 'q', 'r', 's', 't', 'u', 'v', 'w', 'x', 'y', 'z', 'A', 'B', 'C', 'D', 'E', 'F', 'G', 'H', 'I', 'J', 'K', 'L', 'M', 'N', 'O', 'P', 'Q', 'R', 'S', 'T', 'U', 'V', 'W', 'X', 'Y', 'Z', '0', '1', '2', '3', '4', '5', '6', '7', '8', '9', '_', '$'] }
set_option maxRecDepth 100000 in
example : jsAlphabet.head.Nodup ∧ jsAlphabet.tail.Nodup := by decide +kernel
example : name jsAlphabet 54 = ['a', 'a'] := by
  simp [name, jsAlphabet, tailDigits]
example : assignSeq 0 [['a'], ['c']] (fun k => [Char.ofNat (if k < 3 then 97 + k else 62 + k)]) 10 0
    [⟨3, false⟩, ⟨1, true⟩] = some [1, 3] := by decide

end EsbuildModel.Rename
