import EsbuildModel.Lemmas.DataUrl
import EsbuildModel.Lemmas.Order
/-! # C02 — bundling preserves module-graph semantics: property theorems
So far: the value obtained by importing a file through the data-URL loader is exactly the file's bytes. -/
namespace EsbuildModel.C02
open EsbuildModel.DataUrl

/-- `DataLoaders.dataurl_roundtrip`: percent-decoding (WHATWG URL) the body that
`EncodeStringAsPercentEscapedDataURL` emits returns exactly the input bytes — for EVERY byte string. -/
theorem dataurl_roundtrip (t : List Nat) (hb : ∀ c ∈ t, c < 256) : dec (enc t) = t := dec_enc t hb

/-- … and the emitted body never contains a byte the URL parser would strip or cut at
(tab, LF, CR are removed by the URL parser, `#` starts the fragment). -/
theorem dataurl_no_stripped_bytes (t : List Nat) (hb : ∀ c ∈ t, c < 256) :
    ∀ b ∈ enc t, b ≠ 9 ∧ b ≠ 10 ∧ b ≠ 13 ∧ b ≠ 35 := enc_no_forbidden t hb

/-- non-vacuity on a tricky input: "%41#\t " -/
example : enc [37, 52, 49, 35, 9, 32] = [37,50,53, 52, 49, 37,50,51, 37,48,57, 37,50,48] ∧
          dec (enc [37, 52, 49, 35, 9, 32]) = [37, 52, 49, 35, 9, 32] := by decide

/-! ## The order in which the linker emits the files of a chunk (findImportedPartsInJSOrder)

`Order.succ files f` is the list of files whose import records the linker follows from `f`, in source order
(import statements always; `require()`/`import()` of parts that are in the chunk).  For an ES module this is
its [[RequestedModules]] list, and `Dfs.run succ n [e]` is literally ECMAScript's InnerModuleEvaluation order
(mark on entry, requested modules first and in order, then the module itself). -/
open EsbuildModel.Order EsbuildModel.Dfs in
/-- For every well-formed linker input the traversal terminates without an out-of-range access, emits every
file AT MOST ONCE, emits exactly the chunk's files that a root reaches, and emits an imported file BEFORE
the file that imports it unless the two are on an import cycle. -/
theorem chunk_file_order (files : List File) (roots : List (Nat × Nat × Nat)) (hwf : WFOrder files)
    (h0 : 0 < files.length) (hroots : ∀ r ∈ roots, r.1 < files.length) :
    ∃ js parts, run files roots = some (js, parts) ∧ js.Nodup ∧
      (∀ f, f ∈ js ↔ keep files f = true ∧ ∃ r, (r = 0 ∨ ∃ x ∈ roots, x.1 = r) ∧ Reach (succ files) r f) ∧
      (∀ a b, a ∈ js → keep files b = true → Edge (succ files) a b → ¬ Reach (succ files) b a → Before js b a) := by
  have hr' : ∀ r ∈ 0 :: (sortRoots roots).map (·.1), r < files.length := by
    intro r hr
    rcases List.mem_cons.1 hr with rfl | hr
    · exact h0
    · obtain ⟨x, hx, rfl⟩ := List.mem_map.1 hr
      exact hroots x ((mem_sortRoots roots x).1 hx)
  obtain ⟨o, ho, hnd, hcov, htopo⟩ := run_spec (wf_succ hwf) _ hr'
  have hjs := run_js files roots
  rw [ho] at hjs
  cases hrun : run files roots with
  | none => simp [hrun] at hjs
  | some res =>
    obtain ⟨js, parts⟩ := res
    simp only [hrun, Option.map_some, Option.some.injEq] at hjs
    subst hjs
    have hsound := run_sound _ o ho
    refine ⟨_, parts, rfl, hnd.filter _, ?_, ?_⟩
    · intro f
      rw [List.mem_filter]
      constructor
      · rintro ⟨hf, hk⟩
        obtain ⟨r, hr, hreach⟩ := hsound f hf
        refine ⟨hk, r, ?_, hreach⟩
        rcases List.mem_cons.1 hr with rfl | hr
        · exact Or.inl rfl
        · obtain ⟨x, hx, rfl⟩ := List.mem_map.1 hr
          exact Or.inr ⟨x, (mem_sortRoots roots x).1 hx, rfl⟩
      · rintro ⟨hk, r, hr, hreach⟩
        refine ⟨hcov r ?_ f hreach, hk⟩
        rcases hr with rfl | ⟨x, hx, rfl⟩
        · simp
        · exact List.mem_cons_of_mem _ (List.mem_map.2 ⟨x, (mem_sortRoots roots x).2 hx, rfl⟩)
    · intro a b ha hkb hedge hncyc
      rw [List.mem_filter] at ha
      rcases htopo a ha.1 b hedge with hb | hr
      · exact Before.filter _ hb hkb ha.2
      · exact absurd hr hncyc

open EsbuildModel.Order EsbuildModel.Dfs in
/-- When the first root in the linker's sort order (the entry point: distance 0) reaches every other file
of the chunk over followed imports, the emitted file order is exactly ECMAScript's evaluation order from
that entry point (after the runtime), restricted to the chunk's files: the extra roots and the
interleaving with part emission change nothing. -/
theorem chunk_file_order_is_esm_evaluation_order (files : List File) (roots : List (Nat × Nat × Nat))
    (hwf : WFOrder files) (h0 : 0 < files.length) (e : Nat) (rest : List Nat) (he : e < files.length)
    (hsorted : (sortRoots roots).map (·.1) = e :: rest)
    (hreach : ∀ r ∈ rest, Reach (succ files) e r) :
    (run files roots).map (·.1) = (Dfs.run (succ files) files.length [0, e]).map (·.filter (keep files)) := by
  rw [run_js, hsorted]
  have := run_extra_roots (wf_succ hwf) [0, e] rest
    (by intro r hr; simp at hr; rcases hr with rfl | rfl <;> assumption)
    (fun x hx => ⟨e, by simp, hreach x hx⟩)
  simp only [List.cons_append, List.nil_append] at this
  rw [this]

/-- non-vacuity: runtime 0; entry 1 imports 2 and 3 (one part each, import parts first), 2 imports 3,
3 imports 1 (cycle); file 4 is a wrapped CommonJS file required by 3.  All hypotheses hold; the order is
runtime, 4, 3, 2, 1 and the wrapped file's block comes first. -/
example :
    let imp (t : Nat) : Order.Part := ⟨true, false, [⟨t, true, false⟩]⟩
    let body : Order.Part := ⟨true, true, []⟩
    let ns : Order.Part := ⟨false, true, []⟩
    let files : List Order.File := [
      ⟨true, true, true, [ns, body]⟩,
      ⟨true, true, true, [ns, imp 2, imp 3, body]⟩,
      ⟨true, true, true, [ns, imp 3, body]⟩,
      ⟨true, true, true, [ns, imp 1, ⟨true, true, [⟨4, false, false⟩]⟩]⟩,
      ⟨true, true, false, [ns, body]⟩]
    Order.run files [(3, 1, 3), (1, 0, 1), (4, 2, 4), (2, 1, 2)] =
      some ([0, 4, 3, 2, 1], [⟨0, 1, 2⟩, ⟨4, 0, 2⟩, ⟨3, 2, 3⟩, ⟨2, 2, 3⟩, ⟨1, 3, 4⟩]) := by
  decide

end EsbuildModel.C02
