import EsbuildModel.Lemmas.DataUrl
/-! # C02 — bundling preserves module-graph semantics: property theorems
So far: the value obtained by importing a file through the data-URL loader is exactly the file's bytes. -/
namespace EsbuildModel.C02
open EsbuildModel.DataUrl

/-- `DataLoaders.dataurl_roundtrip`: percent-decoding (WHATWG URL) the body that
`EncodeStringAsPercentEscapedDataURL` emits returns exactly the input bytes — for EVERY byte string. -/
theorem dataurl_roundtrip (t : List Nat) (hb : ∀ c ∈ t, c < 256) : dec (enc t) = t := dec_enc t hb

/-- … and the emitted body never contains a byte the URL parser would strip or cut at
(tab, LF, CR are removed by the URL parser, `#` starts the fragment). -/
theorem dataurl_no_stripped_bytes (t : List Nat) (hb : ∀ c ∈ t, c < 256) :
    ∀ b ∈ enc t, b ≠ 9 ∧ b ≠ 10 ∧ b ≠ 13 ∧ b ≠ 35 := enc_no_forbidden t hb

/-- non-vacuity on a tricky input: "%41#\t " -/
example : enc [37, 52, 49, 35, 9, 32] = [37,50,53, 52, 49, 37,50,51, 37,48,57, 37,50,48] ∧
          dec (enc [37, 52, 49, 35, 9, 32]) = [37, 52, 49, 35, 9, 32] := by decide
end EsbuildModel.C02
