import EsbuildModel.Lemmas.MiniJSEq
/-!
C03 (and C04 for expressions) — `--minify-syntax` expression rewrites preserve behaviour.

Model: Impl/MiniJS.lean transcribes the pure AST→AST helpers of internal/js_ast/js_ast_helpers.go
(MaybeSimplifyNot/Not, SimplifyBooleanExpr, ToBooleanWithSideEffects, ToNullOrUndefinedWithSideEffects,
KnownPrimitiveType, ValuesLookTheSame, CheckEqualityIfNoSideEffects, JoinWithLeftAssociativeOp,
ExprCanBeRemovedIfUnused, MangleIfExpr, SimplifyUnusedExpr, MaybeSimplifyEqualityComparison, …) on the expression
language of Spec/MiniJS.lean; the kernel `minijs` compares them with the real functions on generated trees.
Spec: Spec/MiniJS.lean is a big-step semantics written from ECMA-262: values incl. BigInt, symbols and
objects; every call, property read and ToPrimitive of an object is an event answered by an arbitrary WORLD whose
answers may depend on the whole history; variables are read from the current world state and may be unbound.

All theorems hold for EVERY expression (no bound on size or nesting), every world and every start state.
`eval w e tr = (result, trace')`: result is a value or an exception, `trace'` the history after it.

Hypotheses that appear, and what happens on the real code where they fail (all three points were run):
* `e.wf` (theorems 1, 3, 7, 9): the AST flag `WasOriginallyTypeofIdentifier` is only set on `typeof <identifier>`.
  The parser establishes it, but `--define:x=foo.bar` substitutes the operand and keeps the flag: then
  ToBooleanWithSideEffects calls `typeof foo.bar` side-effect free and `if (y && typeof x) …` loses the
  ReferenceError of an undeclared `foo` (run on the real CLI + Node; reported as a potential defect).
* (history) ValuesLookTheSame used to compare `EUnary.Op` but not the flag, so `typeof x` and the residue of
  `typeof (0, x)` looked the same and "a ? typeof x : typeof (0, x)" became "typeof x": found by this package as
  the forced hypothesis `noBareTypeof`, fixed in /repo ("typeof x and typeof (0, x) do not look the same …"); the
  model transcribes the fixed condition, theorem 5 and `valuesLookTheSame_sound` hold without that hypothesis and
  the formerly failing trees are regression examples below.
* `BoundOK w ub` (theorems 5, 6, 7): every identifier that `isUnbound` does not report is bound in every state.
  This is esbuild's documented assumption (TDZ ignored); "no getters on the global object" is built into the
  semantics (`World.read` has no effect).  Both differ observably in Node (`x ? 1 : 1` in the TDZ of `x` is
  dropped; a global getter runs once instead of twice after `g ? g : 7` → `g || 7`); documented, not reported.
-/
namespace EsbuildModel.MiniJS

/-- 1. SimplifyBooleanExpr: in a boolean context (only ToBoolean of the result is observed) the rewritten
expression has the same truthiness or the same exception, and the same trace (= same calls, same order, same
world state afterwards). -/
theorem simplifyBooleanExpr_preserves_truthiness (w : World) (ub : Nat → Bool) (e : Expr) (hwf : e.wf = true)
    (tr : Trace) : evalBool w (simplifyBooleanExpr ub e) tr = evalBool w e tr :=
  ((sbe_sound w ub e hwf).1 tr).symm

/-- the rewrite keeps the AST invariant, so it can be iterated -/
theorem simplifyBooleanExpr_wf (w : World) (ub : Nat → Bool) (e : Expr) (hwf : e.wf = true) :
    (simplifyBooleanExpr ub e).wf = true :=
  (sbe_sound w ub e hwf).2

/-- 2. MaybeSimplifyNot: when it returns a result, that result evaluates exactly like `!e`:
same value, same exception, same trace. -/
theorem maybeSimplifyNot_equiv (w : World) (e r : Expr) (h : maybeSimplifyNot e = some r) (tr : Trace) :
    eval w r tr = eval w (.unary .not e) tr :=
  (maybeSimplifyNot_sound w e r h tr).symm

/-- 2b. Not(e) evaluates exactly like `!e`. -/
theorem not_equiv (w : World) (e : Expr) (tr : Trace) : eval w (notExpr e) tr = eval w (.unary .not e) tr :=
  notExpr_equiv w e tr

/-- 3. ToBooleanWithSideEffects: if it answers (b, sideEffects, ok = true) then every normally completing
evaluation of `e` yields a value whose ToBoolean is `b`; if moreover sideEffects = NoSideEffects then the
evaluation makes no call, throws nothing and leaves the state unchanged. -/
theorem toBooleanWithSideEffects_sound (w : World) (e : Expr) (hok : (toBooleanWithSideEffects e).ok = true) :
    (∀ tr v tr', eval w e tr = (.val v, tr') → toBoolean v = (toBooleanWithSideEffects e).value) ∧
    ((toBooleanWithSideEffects e).noSE = true → e.wf = true →
      ∀ tr, ∃ v, eval w e tr = (.val v, tr) ∧ toBoolean v = (toBooleanWithSideEffects e).value) := by
  have h := tbwse_sound w e hok
  refine ⟨h.1, fun hse hwf tr => ?_⟩
  obtain ⟨v, hv⟩ := h.2 hse hwf tr
  exact ⟨v, hv, h.1 tr v tr hv⟩

/-- 4. KnownPrimitiveType: every evaluation that returns normally returns a value of the announced type
(`mixed`: some primitive, `unknown`: no claim). -/
theorem knownPrimitiveType_sound (w : World) (e : Expr) (tr tr' : Trace) (v : Val)
    (h : eval w e tr = (.val v, tr')) : (knownPrimitiveType e).has v = true :=
  kpt_sound w e tr tr' v h

/-- 5. MangleIfExpr(a ? b : c) evaluates exactly like `a ? b : c`: same value, same exception, same trace.
Covered: every rule of the Go function except the optional-chain rule (see OPEN below). -/
theorem mangleIfExpr_equiv (w : World) (ub : Nat → Bool) (H : BoundOK w ub) (nullishOK : Bool) (c y n : Expr)
    (tr : Trace) : eval w (mangleIfExpr ub nullishOK c y n) tr = eval w (.cond c y n) tr :=
  (mangleIfExpr_sound w ub H nullishOK c y n tr).symm

-- OPEN mangleIfExpr_optional_chain: the rule "a != null ? a.b.c[d](e) : undefined" => "a?.b.c[d](e)"
-- (TryToInsertOptionalChain, enabled when the target supports optional chaining) is not modelled: the expression
-- language has no optional chains.  The kernel runs MangleIfExpr with OptionalChain reported as unsupported.

/-- 6. ExprCanBeRemovedIfUnused: a removable expression evaluates without any event (no call, no getter, no
valueOf/toString), does not throw and leaves the state unchanged — under esbuild's documented assumption
`BoundOK`. -/
theorem exprCanBeRemovedIfUnused_sound (w : World) (ub : Nat → Bool) (H : BoundOK w ub) (e : Expr)
    (h : exprCanBeRemovedIfUnused ub e = true) (tr : Trace) : ∃ v, eval w e tr = (.val v, tr) :=
  rm_sound w ub H e h tr

/-- 7. SimplifyUnusedExpr (result-unused contexts, C04 for expressions): when it returns nil the expression
evaluates without any event, without throwing and without changing the state; otherwise the returned
expression has the same trace and the same completion (normal, or the same exception) as the original when the
value is discarded.  Covered: every case of the Go function that the expression language can express (literals,
identifiers, `?:`, `void`/`!`/`typeof`, `===`/`!==`/`,`, `==`/`!=` on known primitives, `&&`/`||`/`??`, string
addition chains); the optional-chain shortening is switched off in the kernel. -/
theorem simplifyUnusedExpr_equiv (w : World) (ub : Nat → Bool) (H : BoundOK w ub) (e : Expr) (hwf : e.wf = true) :
    match simplifyUnusedExpr ub e with
    | none => ∀ tr, ∃ v, eval w e tr = (.val v, tr)
    | some r => ∀ tr, evalUnused w r tr = evalUnused w e tr := by
  have h := sue_sound w ub H e hwf
  cases hr : simplifyUnusedExpr ub e with
  | none => rw [hr] at h; exact pure_of_nop w e h
  | some r => rw [hr] at h; exact fun tr => (h tr).symm

/-- 8. MaybeSimplifyEqualityComparison ("!x === true" => "!x", "typeof x == 'undefined'" => "typeof x > 'u'", …):
when it returns a result for one of the four equality operators, that result evaluates exactly like the
comparison. -/
theorem maybeSimplifyEqualityComparison_equiv (w : World) (typeofOK : Bool) (op : BinOp)
    (hop : op.isEquality = true) (l r x : Expr)
    (h : maybeSimplifyEqualityComparison typeofOK op l r = some x) (tr : Trace) :
    eval w x tr = eval w (.binary op l r) tr :=
  (maybeSimplifyEqualityComparison_sound w typeofOK op hop l r x h tr).symm

/-- 9. ToNullOrUndefinedWithSideEffects: if it answers (b, sideEffects, ok = true) then every normally completing
evaluation yields a value that is null/undefined exactly when `b`; with NoSideEffects the evaluation is pure. -/
theorem toNullOrUndefinedWithSideEffects_sound (w : World) (e : Expr)
    (hok : (toNullOrUndefinedWithSideEffects e).ok = true) :
    (∀ tr v tr', eval w e tr = (.val v, tr') → v.nullish = (toNullOrUndefinedWithSideEffects e).value) ∧
    ((toNullOrUndefinedWithSideEffects e).noSE = true → e.wf = true → ∀ tr, ∃ v, eval w e tr = (.val v, tr)) :=
  tnu_sound w e hok

/-- 10. CheckEqualityIfNoSideEffects on literals: when `ok`, `equal` is the value of `a === b` (strict) or
`a == b` (loose), and the comparison is pure. -/
theorem checkEqualityIfNoSideEffects_sound (w : World) (a b : Expr) (strict : Bool)
    (hok : (checkEqualityIfNoSideEffects a b strict).2 = true) (tr : Trace) :
    eval w (.binary (if strict then .strictEq else .looseEq) a b) tr =
      (.val (.bool (checkEqualityIfNoSideEffects a b strict).1), tr) :=
  checkEquality_sound w a b strict hok tr

/-- 11. TypeofWithoutSideEffects: `typeof e` is the announced string, computed without effects. -/
theorem typeofWithoutSideEffects_equiv (w : World) (e : Expr) (s : JStr)
    (h : typeofWithoutSideEffects e = some s) (tr : Trace) :
    eval w (.unary (.typeof false) e) tr = (.val (.str s), tr) :=
  typeofWithoutSideEffects_sound w e s h tr

/-- ValuesLookTheSame: expressions that look the same evaluate the same (from the same state). -/
theorem valuesLookTheSame_sound (w : World) (a b : Expr) (h : valuesLookTheSame a b = true) (tr : Trace) :
    eval w a tr = eval w b tr :=
  vlts_sound w a b h tr

/-- JoinWithLeftAssociativeOp(op, a, b) evaluates exactly like `a op b` for `&&`, `||`, `??`. -/
theorem joinWithLeftAssociativeOp_equiv (w : World) (op : BinOp) (hop : op.isLogical = true) (a b : Expr)
    (tr : Trace) : eval w (joinWithLeftAssociativeOp op a b) tr = eval w (.binary op a b) tr :=
  join_equiv w op hop a b tr

-- ---------------------------------------------------------------- non-vacuity

/-- a world in which identifiers 0..2 are bound, 3.. are unbound, every call returns its first argument's
negation-ish and objects answer ToPrimitive with a number -/
def demoWorld : World where
  step := fun tr ev =>
    match ev with
    | .call _ _ => .ret (.obj tr.length)
    | .get _ _ => .throw (.str sObject)
    | .toPrim k _ => .ret (.num (.int k))
  read := fun tr x => if x < 3 then some (.num (.int (x + tr.length))) else none
  callable := fun _ => false
  strToNum := fun _ => .nan
  strToBigInt := fun _ => none
  numToStr := fun _ => sNumber
  bigToStr := fun _ => sBigint

def demoUb : Nat → Bool := fun x => decide (3 ≤ x)

/-- the hypothesis of theorems 5 and 6 is satisfiable with unbound identifiers present -/
theorem demo_boundOK : BoundOK demoWorld demoUb := by
  intro tr x hx
  simp only [demoUb, decide_eq_false_iff_not, Nat.not_le] at hx
  simp [demoWorld, hx]

/-- a well-formed expression with a flagged typeof -/
example : (Expr.cond (.binary .strictNe (.unary (.typeof true) (.ident 4)) (.str sUndefined)) (.ident 4)
    (.call (.ident 0) .nil)).wf = true := by decide

/-- theorem 6 is not vacuous: a removable expression that mentions an UNBOUND identifier behind a typeof guard,
a loose comparison of two strings and a relational comparison of two numbers -/
example : exprCanBeRemovedIfUnused demoUb
    (.binary .comma
      (.cond (.binary .strictNe (.unary (.typeof true) (.ident 4)) (.str sUndefined)) (.ident 4) (.ident 1))
      (.binary .and (.binary .looseEq (.unary (.typeof true) (.ident 5)) (.str sObject))
        (.binary .lt (.num (.int 1)) (.unary .pos (.str []))))) = false := by decide

example : exprCanBeRemovedIfUnused demoUb
    (.binary .comma
      (.cond (.binary .strictNe (.unary (.typeof true) (.ident 4)) (.str sUndefined)) (.ident 4) (.ident 1))
      (.binary .and (.binary .looseEq (.unary (.typeof true) (.ident 5)) (.str sObject))
        (.binary .lt (.num (.int 1)) (.num .nan)))) = true := by decide

/-- regression (former defect): `typeof x` and the residue of `typeof (0, x)` behave differently when `x` is
undeclared, and they no longer look the same -/
theorem typeof_flag_regression :
    valuesLookTheSame (.unary (.typeof true) (.ident 4)) (.unary (.typeof false) (.ident 4)) = false ∧
    valuesLookTheSame (.unary (.typeof true) (.ident 4)) (.unary (.typeof true) (.ident 4)) = true ∧
    eval demoWorld (.unary (.typeof true) (.ident 4)) [] = (.val (.str sUndefined), []) ∧
    eval demoWorld (.unary (.typeof false) (.ident 4)) [] = (.throw (.refErr 4), []) := by decide

/-- regression (former defect): "a ? typeof x : typeof (0, x)" is left alone; with `a` bound to 0 and `x`
undeclared both the input and the output throw the ReferenceError -/
theorem mangleIfExpr_typeof_flag_regression :
    mangleIfExpr demoUb true (.ident 0) (.unary (.typeof true) (.ident 4)) (.unary (.typeof false) (.ident 4)) =
      .cond (.ident 0) (.unary (.typeof true) (.ident 4)) (.unary (.typeof false) (.ident 4)) ∧
    eval demoWorld (.cond (.ident 0) (.unary (.typeof true) (.ident 4)) (.unary (.typeof false) (.ident 4))) [] =
      (.throw (.refErr 4), []) := by
  refine ⟨?_, by decide⟩
  rw [mangleIfExpr.eq_def]
  simp only
  rw [mangleIfCore.eq_def]
  have : mangleIfRulesA demoUb (.ident 0) (.unary (.typeof true) (.ident 4)) (.unary (.typeof false) (.ident 4)) =
      none := by rfl
  simp only [this]
  rfl

/-- the same unguarded reference is not removable, and evaluating it does throw -/
example : exprCanBeRemovedIfUnused demoUb (.ident 4) = false := by decide
example : eval demoWorld (.ident 4) [] = (.throw (.refErr 4), []) := by decide

/-- theorem 1 on an input that really is rewritten: `c() ? true : !!x` becomes `c() || x` -/
example : showE (simplifyBooleanExpr demoUb
    (.cond (.call (.ident 0) .nil) (.bool true) (.unary .not (.unary .not (.ident 1))))) = "b:or c:0 i:0 i:1" := by
  decide

/-- theorem 2 on inputs that are rewritten -/
example : (maybeSimplifyNot (.binary .comma (.call (.ident 0) .nil) (.binary .looseEq (.ident 1) (.num .negZero)))).map
    showE = some "b:comma c:0 i:0 b:lne i:1 n:-0" := by decide

/-- theorem 3: `typeof x` is truthy and side-effect free; `(f(), 0)` is falsy but has side effects -/
example : toBooleanWithSideEffects (.unary (.typeof true) (.ident 7)) = ⟨true, true, true⟩ := by decide
example : toBooleanWithSideEffects (.binary .comma (.call (.ident 0) .nil) (.num (.int 0))) = ⟨false, false, true⟩ := by
  decide

/-- theorem 4: a claim that needs the semantics of `+` and of unary minus -/
example : knownPrimitiveType (.binary .add (.unary .neg (.null)) (.cond (.ident 0) (.bool true) (.bool false))) = .number := by
  decide
example : knownPrimitiveType (.binary .add (.ident 0) (.str [])) = .string := by decide

/-- theorem 7 on an input that is rewritten: `f() ? 1 : (g(), 'x' + y)` unused becomes `f() || (g(), '' + y)` -/
example : (simplifyUnusedExpr demoUb (.cond (.call (.ident 0) .nil) (.num (.int 1))
    (.binary .comma (.call (.ident 1) .nil) (.binary .add (.str [120]) (.ident 4))))).map showE =
    some "b:or c:0 i:0 b:comma c:0 i:1 b:add s: i:4" := by
  simp [simplifyUnusedExpr, simplifyUnusedStringAdditionChain, strOf?, joinWithComma, joinWithLeftAssociativeOp,
    joinLoop, peelComma, demoUb, showE, showArgs, Args.len, showBinOp, showStr]
  decide

/-- theorem 8 on inputs that are rewritten -/
example : (maybeSimplifyEqualityComparison true .strictNe (.str sUndefined) (.unary (.typeof true) (.ident 4))).map showE =
    some "b:gt s:0075 u:typeof1 i:4" := by decide

/-- evaluation really runs events and can throw: `f().p` -/
example : eval demoWorld (.dot (.call (.ident 0) .nil) [112]) [] =
    (.throw (.host (.str sObject)), [.call (.num (.int 0)) [], .get (.obj 0) (.str [112])]) := by decide

end EsbuildModel.MiniJS
