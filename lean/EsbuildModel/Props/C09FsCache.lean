import EsbuildModel.Lemmas.FsCacheWatch
import EsbuildModel.Impl.AstCache
/-! # C09 — the file content cache, the modification key it trusts, the watch predicates of files, the parse caches

Hypotheses are in Lemmas/FsCache.lean (`Trusted` semantic, `Op.Honest` + `ResFits` operational), models in
Impl/FsCache.lean, Impl/FsCacheRun.lean, Impl/AstCache.lean, the specification of "current" in Spec/StatCache.lean. -/
namespace EsbuildModel.C09FsCache
open EsbuildModel.StatCache EsbuildModel.FsCache

/-! ## 1. `FSCache.ReadFile` answers with current contents -/

/-- SEMANTIC form, weakest hypothesis found: after ANY history in which every change of a path satisfies `StepOK`
(the path becomes empty, or the new file is too new to be trusted at that moment, or — unix — carries an inode number the
path never held, or contents / inode stay and the time stamp does not go backwards) and the clock never goes backwards,
every answer `FSCache.ReadFile` ever gave was the contents of the file at the moment it was looked at: for a miss the
moment `fs.ReadFile` ran, for a hit the moment `fs.ModKey` ran (nothing is read then). Any platform, any gap, any
resolution, any interleaving of other processes between the `stat` and the `read` of one call. -/
theorem readfile_is_current_of_trusted (cfg : Cfg) (clock0 : Int) (w0 : World) (ops : List Op)
    (h : Trusted cfg (State.init clock0 w0) ops) :
    ∀ l ∈ (run cfg (State.init clock0 w0) ops).log,
      l.answer = resOf l.atRead ∧ (l.hit = true → l.atRead = l.atStat) ∧ ReadCurrent l.answer [l.atStat, l.atRead] := by
  intro l hl
  have := (Inv_run h (Inv_init cfg clock0 w0)).log l hl
  exact ⟨this.1, this.2, l.atRead, by simp, this.1⟩

/-- `readfile_is_current`, OPERATIONAL form: if every write, creation, atomic replacement and `touch` stamps the file
with the clock rounded down to the file system's resolution, metadata changes keep the time stamp, nobody sets time
stamps or the clock by hand or renames an old file over the path, and the resolution is positive and at most the gap
(on the `other` platforms: at most the gap minus 1 s + 1 ns, because the key keeps whole seconds only), then every
answer of `FSCache.ReadFile` is current — for ALL histories of edits and reads. -/
theorem readfile_is_current (cfg : Cfg) (hfit : ResFits cfg) (clock0 : Int) (w0 : World) (ops : List Op)
    (hh : ∀ op ∈ ops, op.Honest = true) :
    ∀ l ∈ (run cfg (State.init clock0 w0) ops).log,
      l.answer = resOf l.atRead ∧ (l.hit = true → l.atRead = l.atStat) ∧ ReadCurrent l.answer [l.atStat, l.atRead] :=
  readfile_is_current_of_trusted cfg clock0 w0 ops (honest_trusted hfit _ ops hh)

/-- a zero time stamp is never cached as usable: a file system that zeroes all time stamps makes every read a miss
(so the zero-mtime rule trades the `Fresh` hypothesis for speed) -/
theorem zero_mtime_never_usable (plat : Platform) (gapSec now : Int) (f : File) (h : f.mtime = 0) :
    modKey plat gapSec now (some f) = .unusable := by
  cases plat <;> simp [modKey, modKeyUnix, modKeyOther, h, secOf, nsecOf, nsPerSec]

/-! ### non-vacuity and necessity (3 s gap as in the code, 1 s = 10⁹ ns) -/

def sec (n : Int) : Int := n * 1000000000
def fileA : File := ⟨7, sec 100, 420, 1000, [97]⟩
def w1 : World := fun p => if p = 0 then some fileA else none
def cfgUnix (gap res : Int) : Cfg := ⟨.unix, gap, res⟩
def cfgOther (gap res : Int) : Cfg := ⟨.other, gap, res⟩
def answers (s : State) : List (Bool × ReadRes) := s.log.map fun l => (l.hit, l.answer)

/-- an honest history that meets the hypotheses and exercises miss, hit, write, miss, hit -/
def honestOps : List Op :=
  [.read 0 [], .read 0 [], .act (.edit (.write 0 [98])), .read 0 [], .act (.tick 4000000000), .read 0 [], .read 0 []]
example : (∀ op ∈ honestOps, op.Honest = true) ∧ ResFits (cfgUnix 3 (sec 1)) := by
  refine ⟨by decide, ?_⟩
  simp only [ResFits, cfgUnix, slack, gapNs, sec, nsPerSec]; omega
example : answers (run (cfgUnix 3 (sec 1)) (State.init (sec 200) w1) honestOps) =
    [(false, .ok [97]), (true, .ok [97]), (false, .ok [98]), (false, .ok [98]), (true, .ok [98])] := by decide +kernel

/-- NEEDED: resolution ≤ gap. Gap 0 (the seeded bug: 3 ns behaves the same) with a 1 s resolution: a write in the
same second as the last read is never noticed. -/
def staleOps : List Op :=
  [.act (.edit (.write 0 [97])), .act (.tick 200000000), .read 0 [], .act (.tick 300000000),
   .act (.edit (.write 0 [98])), .read 0 []]
example : (∀ op ∈ staleOps, op.Honest = true) ∧
    answers (run (cfgUnix 0 (sec 1)) (State.init (sec 200) w1) staleOps) = [(false, .ok [97]), (true, .ok [97])] := by
  decide +kernel
/-- … and the bound is exact: resolution = gap + 1 ns fails, resolution = gap does not -/
def edgeOps : List Op :=
  [.act (.setClock 9000000003), .act (.edit (.write 0 [97])), .act (.tick 3000000000), .read 0 [],
   .act (.edit (.write 0 [98])), .read 0 []]
example : answers (run (cfgUnix 3 3000000001) (State.init 0 w1) edgeOps) = [(false, .ok [97]), (true, .ok [97])] := by
  decide +kernel
example : answers (run (cfgUnix 3 3000000000) (State.init 0 w1) edgeOps) = [(false, .ok [97]), (false, .ok [98])] := by
  decide +kernel

/-- NEEDED: nobody restores an old time stamp. With `chtimes` the theorem is false for EVERY gap. -/
def chtimesOps : List Op :=
  [.read 0 [], .act (.edit (.write 0 [98])), .act (.edit (.chtimes 0 (sec 100))), .act (.tick 9000000000), .read 0 []]
example : answers (run (cfgUnix 3 1) (State.init (sec 200) w1) chtimesOps) = [(false, .ok [97]), (true, .ok [97])] := by
  decide +kernel
example : answers (run (cfgUnix 3000 1) (State.init (sec 9000) w1) chtimesOps) = [(false, .ok [97]), (true, .ok [97])] := by
  decide +kernel

/-- NEEDED: the clock does not go backwards (the write after the jump gets an old stamp) -/
def clockOps : List Op :=
  [.act (.edit (.write 0 [97])), .act (.tick 5000000000), .read 0 [], .act (.setClock (sec 200)),
   .act (.edit (.write 0 [98])), .act (.tick 5000000000), .read 0 []]
example : answers (run (cfgUnix 3 1) (State.init (sec 200) w1) clockOps) = [(false, .ok [97]), (true, .ok [97])] := by
  decide +kernel

/-- NEEDED: no old file is renamed over the path. On unix the inode number saves the day unless it is one the path
held before; the `other` key has no inode, so `mv` of an equally old, equally long file is invisible. -/
def moveOps : List Op := [.read 0 [], .act (.edit (.moveIn 0 ⟨8, sec 100 + 5, 420, 1000, [98]⟩)), .read 0 []]
example : answers (run (cfgOther 3 1) (State.init (sec 200) w1) moveOps) = [(false, .ok [97]), (true, .ok [97])] := by
  decide +kernel
example : answers (run (cfgUnix 3 1) (State.init (sec 200) w1) moveOps) = [(false, .ok [97]), (false, .ok [98])] := by
  decide +kernel

/-- On `other` the hypothesis asks for resolution ≤ gap − 1 s + 1 ns (SUFFICIENT: FAT's 2 s fits the 3 s gap; not
shown necessary — stamps on a grid of ≥ 1 s differ in their whole seconds whenever they differ). Above the gap it
fails as on unix. -/
example : answers (run (cfgOther 3 (sec 2)) (State.init 0 w1) edgeOps) = [(false, .ok [97]), (false, .ok [98])] := by
  decide +kernel
example : answers (run (cfgOther 3 3000000001) (State.init 0 w1) edgeOps) = [(false, .ok [97]), (true, .ok [97])] := by
  decide +kernel

end EsbuildModel.C09FsCache
