import EsbuildModel.Lemmas.Shifts
/-! # C07 — generated positions stay true across final-path substitution (code splitting)

When the linker replaces the placeholder keys of a chunk by the final import paths it hands the source-map
finaliser a list of `shifts`: for every placeholder the generated position right after the key in the
intermediate text (`Before`) and right after the path in the final text (`After`), maintained incrementally
with `LineColumnOffset.Add` / `AdvanceBytes` / `AdvanceString` (UTF-16 columns, CR LF counted as one break). -/
namespace EsbuildModel.C07Shifts
open EsbuildModel.Shifts

/-- For every well-formed piece list (only the last piece lacks a placeholder; keys and paths contain no line
break at their ends) the incrementally maintained shifts ARE the true positions: the k-th shift's `before` is the
line/UTF-16-column reached by scanning the whole intermediate text up to the end of the k-th key in one go, its
`after` the same for the final text up to the end of the k-th path — whatever the data between them contains
(line terminators, CR LF pairs split across pieces, astral characters). -/
theorem shifts_are_true_positions (ps : List Piece) (hwf : WF ps) :
    shifts ps = ⟨⟨0, 0⟩, ⟨0, 0⟩⟩ :: spec [] [] ps := by
  unfold shifts
  congr 1
  have := loop_spec ps [] [] hwf (by simp) (by simp)
  simpa [advance] using this

/-- non-vacuity: data with CR LF, a lone CR at the end of a piece, an astral character (two columns) and a
non-ASCII path whose UTF-8 length differs from its UTF-16 length -/
example :
    let ps : List Piece := [⟨[97, 13, 10, 98, 0x1F600], some ([75, 49], [0x8CC7, 0x7523, 46, 106, 115])⟩,
                            ⟨[59, 13], some ([75, 50], [120])⟩, ⟨[10, 99], none⟩]
    WF ps ∧ shifts ps = [⟨⟨0, 0⟩, ⟨0, 0⟩⟩, ⟨⟨1, 5⟩, ⟨1, 8⟩⟩, ⟨⟨2, 2⟩, ⟨2, 1⟩⟩] := by
  refine ⟨?_, by decide⟩
  simp [WF, CleanEnds]

/-- the hypothesis is needed: a path ending in CR followed by data starting with LF is one line break for the
scanner but two for the incremental bookkeeping -/
example :
    let ps : List Piece := [⟨[], some ([75], [13])⟩, ⟨[10], some ([75], [120])⟩]
    (shifts ps).map (·.after) ≠ [⟨0, 0⟩, advance ⟨0, 0⟩ [13], advance ⟨0, 0⟩ [13, 10, 120]] := by decide

end EsbuildModel.C07Shifts
