/-
C10 (code splitting): cross-chunk imports and exports at symbol level.
Model: Impl/CrossChunk.lean (computeCrossChunkDependencies, ExportRenamer, the ESM tail of an entry chunk);
specification: Spec/CrossChunk.lean.  All statements are for arbitrary graphs (any number of chunks, files,
parts, symbols) on which the routine does not panic (`run g = some R`).
-/
import EsbuildModel.Lemmas.CrossChunk
import EsbuildModel.Lemmas.CrossChunkChecks
namespace EsbuildModel.CrossChunk

/-- If a live part of chunk `A` (or the export table of `A`'s entry point) needs symbol `s` and `s` is a top-level
symbol declared in another chunk `B`, then `A` imports `s` from `B` and `B` exports it, under one and the same
alias. -/
theorem used_symbol_is_imported_and_exported {g : G} {R : List ChunkOut} (h : run g = some R) (hu : DeclUnique g)
    {A B : Nat} {cA cB : Chunk} (hA : g.chunks[A]? = some cA) (hB : g.chunks[B]? = some cB)
    (hjA : cA.js = true) (hjB : cB.js = true) (hAB : A ≠ B) {s : Ref}
    (hneed : Needs g cA s) (hdecl : Declares g cB s) :
    ∃ a, Imports R A B s a ∧ Exports R B s a := by
  obtain ⟨d⟩ := run_data h
  obtain ⟨imps, dynA, tailA, hi, hci, _, _, hRA⟩ := d.out_of_chunk hA
  obtain ⟨impsB, dynB, tailB, _, _, _, _, hRB⟩ := d.out_of_chunk hB
  have hBlt : B < g.chunks.length := (List.getElem?_eq_some_iff.mp hB).1
  obtain ⟨exB, hexB, hexB'⟩ := d.ex_get hBlt
  obtain ⟨_, _, hmemB, _⟩ := exportItems_spec hB hexB'
  have hs : s ∈ imps := (mem_chunkImports hci).mpr hneed
  have hdc : declChunk g s = some B := declChunk_of_declares hu hB hdecl
  have hitem : s ∈ itemsFor g imps A B := mem_itemsFor.mpr ⟨fun e => hAB e.symm, hs, hdc⟩
  have hset : s ∈ exportSet g d.allImps B := mem_exportSet.mpr ⟨A, cA, imps, hA, hi, hjA, hitem⟩
  have hex : (s, aliasOf exB s) ∈ exB := aliasOf_mem ((hmemB hjB s).mpr hset)
  have hkey : B ∈ importKeys g cA imps A :=
    mem_importKeys.mpr ⟨hBlt, Or.inl (List.ne_nil_of_mem hitem)⟩
  obtain ⟨items, hitems⟩ := importsOf_of_key (allEx := d.allEx) hkey
  refine ⟨aliasOf exB s, ⟨_, items, hRA, ?_, ?_⟩, ⟨_, hRB, ?_⟩⟩
  · rw [(mkOut_js hjA).1]; exact hitems
  · rw [(mem_importsOf hitems).2, getD_of_get hexB]; exact ⟨hitem, rfl⟩
  · rw [(mkOut_js hjB).2.1, getD_of_get hexB]; exact hex

/-- Nothing else is imported: an import item of `A` from `B` is a symbol that `A` needs and that is declared in
`B`, and `B` is another chunk. -/
theorem imported_symbol_is_used_and_declared {g : G} {R : List ChunkOut} (h : run g = some R)
    {A B : Nat} {s : Ref} {a : Name} (himp : Imports R A B s a) :
    A ≠ B ∧ ∃ cA cB, g.chunks[A]? = some cA ∧ g.chunks[B]? = some cB ∧ cA.js = true ∧
      Needs g cA s ∧ Declares g cB s := by
  obtain ⟨d⟩ := run_data h
  obtain ⟨o, items, hRA, hmem, hsa⟩ := himp
  obtain ⟨cA, imps, dyn, tail, hA, _, hci, _, _, rfl⟩ := d.chunk_of_out hRA
  have hjA : cA.js = true := by
    cases hj : cA.js with
    | true => rfl
    | false => rw [(mkOut_nonjs hj).1] at hmem; simp at hmem
  rw [(mkOut_js hjA).1] at hmem
  obtain ⟨_, hitems⟩ := mem_importsOf hmem
  obtain ⟨hne, hs, hdc⟩ := mem_itemsFor.mp ((hitems s a).mp hsa).1
  obtain ⟨cB, hB, hdecl⟩ := declChunk_some hdc
  exact ⟨fun e => hne e.symm, cA, cB, hA, hB, hjA, (mem_chunkImports hci).mp hs, hdecl⟩

/-- Name agreement: the importing side uses exactly the alias under which the exporting chunk exports the symbol. -/
theorem import_uses_the_exporters_alias {g : G} {R : List ChunkOut} (h : run g = some R)
    {A B : Nat} {cB : Chunk} (hB : g.chunks[B]? = some cB) (hjB : cB.js = true) {s : Ref} {a : Name}
    (himp : Imports R A B s a) : Exports R B s a := by
  obtain ⟨d⟩ := run_data h
  obtain ⟨o, items, hRA, hmem, hsa⟩ := himp
  obtain ⟨cA, imps, dyn, tail, hA, hi, hci, _, _, rfl⟩ := d.chunk_of_out hRA
  have hjA : cA.js = true := by
    cases hj : cA.js with
    | true => rfl
    | false => rw [(mkOut_nonjs hj).1] at hmem; simp at hmem
  rw [(mkOut_js hjA).1] at hmem
  obtain ⟨_, hitems⟩ := mem_importsOf hmem
  obtain ⟨hitem, ha⟩ := (hitems s a).mp hsa
  have hBlt : B < g.chunks.length := (List.getElem?_eq_some_iff.mp hB).1
  obtain ⟨exB, hexB, hexB'⟩ := d.ex_get hBlt
  obtain ⟨_, _, hmemB, _⟩ := exportItems_spec hB hexB'
  obtain ⟨impsB, dynB, tailB, _, _, _, _, hRB⟩ := d.out_of_chunk hB
  have hset : s ∈ exportSet g d.allImps B := mem_exportSet.mpr ⟨A, cA, imps, hA, hi, hjA, hitem⟩
  refine ⟨_, hRB, ?_⟩
  rw [(mkOut_js hjB).2.1, getD_of_get hexB, ha, getD_of_get hexB]
  exact aliasOf_mem ((hmemB hjB s).mpr hset)

/-- No export nobody imports: every cross-chunk export of `B` is declared in `B` and imported, under that alias,
by some other JavaScript chunk that needs it. -/
theorem exported_symbol_is_imported {g : G} {R : List ChunkOut} (h : run g = some R)
    {B : Nat} {s : Ref} {a : Name} (hexp : Exports R B s a) :
    ∃ A cA cB, A ≠ B ∧ g.chunks[A]? = some cA ∧ g.chunks[B]? = some cB ∧ Imports R A B s a ∧
      Needs g cA s ∧ Declares g cB s := by
  obtain ⟨d⟩ := run_data h
  obtain ⟨o, hRB, hsa⟩ := hexp
  obtain ⟨cB, impsB, dynB, tailB, hB, _, _, _, _, rfl⟩ := d.chunk_of_out hRB
  have hjB : cB.js = true := by
    cases hj : cB.js with
    | true => rfl
    | false => rw [(mkOut_nonjs hj).2.1] at hsa; simp at hsa
  have hBlt : B < g.chunks.length := (List.getElem?_eq_some_iff.mp hB).1
  obtain ⟨exB, hexB, hexB'⟩ := d.ex_get hBlt
  obtain ⟨_, hnd, hmemB, _⟩ := exportItems_spec hB hexB'
  rw [(mkOut_js hjB).2.1, getD_of_get hexB] at hsa
  have hset : s ∈ exportSet g d.allImps B := (hmemB hjB s).mp (List.mem_map.mpr ⟨(s, a), hsa, rfl⟩)
  obtain ⟨A, cA, imps, hA, hi, hjA, hitem⟩ := mem_exportSet.mp hset
  obtain ⟨hne, hs, hdc⟩ := mem_itemsFor.mp hitem
  obtain ⟨impsA, dynA, tailA, hi', hci, _, _, hRA⟩ := d.out_of_chunk hA
  rw [hi] at hi'; cases hi'
  obtain ⟨cB', hB', hdecl⟩ := declChunk_some hdc
  rw [hB] at hB'; cases hB'
  have hkey : B ∈ importKeys g cA imps A := mem_importKeys.mpr ⟨hBlt, Or.inl (List.ne_nil_of_mem hitem)⟩
  obtain ⟨items, hitems⟩ := importsOf_of_key (allEx := d.allEx) hkey
  refine ⟨A, cA, cB, fun e => hne e.symm, hA, hB, ⟨_, items, hRA, ?_, ?_⟩, (mem_chunkImports hci).mp hs, hdecl⟩
  · rw [(mkOut_js hjA).1]; exact hitems
  · rw [(mem_importsOf hitems).2, getD_of_get hexB]; exact ⟨hitem, (aliasOf_spec hnd hsa).symm⟩

/-- The export aliases of a chunk are pairwise different (ECMA-262: duplicate exported names are a SyntaxError),
and no symbol is exported twice. -/
theorem export_aliases_distinct {g : G} {R : List ChunkOut} (h : run g = some R) {B : Nat} {o : ChunkOut}
    (hRB : R[B]? = some o) : (o.exports.map (·.2)).Nodup ∧ (o.exports.map (·.1)).Nodup := by
  obtain ⟨d⟩ := run_data h
  obtain ⟨cB, impsB, dynB, tailB, hB, _, _, _, _, rfl⟩ := d.chunk_of_out hRB
  cases hj : cB.js with
  | false => rw [(mkOut_nonjs hj).2.1]; simp
  | true =>
    have hBlt : B < g.chunks.length := (List.getElem?_eq_some_iff.mp hB).1
    obtain ⟨exB, hexB, hexB'⟩ := d.ex_get hBlt
    obtain ⟨h1, h2, _, _⟩ := exportItems_spec hB hexB'
    rw [(mkOut_js hj).2.1, getD_of_get hexB]
    exact ⟨h1, h2⟩


/-- Every symbol that the tail of entry chunk `A` mentions or exports (generateEntryPointTailJS) and that is a
top-level symbol of some chunk `B` is declared in `A` itself or imported by `A` from `B` (and exported by `B`
under the same alias); export items whose symbol is not bound outside the tail are declared by the tail. -/
theorem entry_exports_are_available {g : G} {R : List ChunkOut} (h : run g = some R) (hu : DeclUnique g)
    {A B : Nat} {cA cB : Chunk} {o : ChunkOut} (hA : g.chunks[A]? = some cA) (hB : g.chunks[B]? = some cB)
    (hjA : cA.js = true) (hjB : cB.js = true) (hRA : R[A]? = some o) :
    (∀ s, s ∈ tailNeeds o.tail → Declares g cB s → A = B ∨ ∃ a, Imports R A B s a ∧ Exports R B s a) ∧
    (∀ r a, TailTok.itemLocal r a ∈ o.tail → TailTok.decl r ∈ o.tail) := by
  obtain ⟨d⟩ := run_data h
  obtain ⟨imps, dyn, tail, _, _, _, hct, hRA'⟩ := d.out_of_chunk hA
  rw [hRA] at hRA'
  cases hRA'
  rw [(mkOut_js hjA).2.2.2]
  obtain ⟨h1, h2⟩ := chunkTail_needs hct
  refine ⟨fun s hs hdecl => ?_, h2⟩
  by_cases hAB : A = B
  · exact Or.inl hAB
  · exact Or.inr (used_symbol_is_imported_and_exported h hu hA hB hjA hjB hAB (Or.inr (h1 s hs)) hdecl)

/-- "Make sure we import all chunks belonging to this entry point": an entry chunk statically imports every
other JavaScript chunk whose entry bits contain the entry point's bit, items or not; and the static part of
`crossChunkImports` is exactly the list of chunks that have an import statement. -/
theorem entry_imports_all_its_chunks {g : G} {R : List ChunkOut} (h : run g = some R)
    {A : Nat} {cA : Chunk} {o : ChunkOut} (hA : g.chunks[A]? = some cA) (hjA : cA.js = true) (hRA : R[A]? = some o) :
    (∀ B cB, g.chunks[B]? = some cB → cA.isEntry = true → cB.js = true → A ≠ B → cA.entryBit ∈ cB.bits →
      ∃ items, (B, items) ∈ o.imports) ∧
    (∀ B, (false, B) ∈ o.cci ↔ ∃ items, (B, items) ∈ o.imports) := by
  obtain ⟨d⟩ := run_data h
  obtain ⟨imps, dyn, tail, _, _, _, _, hRA'⟩ := d.out_of_chunk hA
  rw [hRA] at hRA'
  cases hRA'
  rw [(mkOut_js hjA).1, (mkOut_js hjA).2.2.1]
  constructor
  · intro B cB hB he hjB hAB hbit
    apply importsOf_of_key
    rw [mem_importKeys]
    refine ⟨(List.getElem?_eq_some_iff.mp hB).1, Or.inr ?_⟩
    simp only [entryKey, he, hB, hjB, Bool.true_and, Bool.and_eq_true, bne_iff_ne, ne_eq,
      List.contains_iff_mem]
    exact ⟨fun e => hAB e.symm, hbit⟩
  · intro B
    simp only [List.mem_append, List.mem_map, Prod.mk.injEq, Bool.true_eq_false, false_and, and_false,
      exists_false, false_or]
    constructor
    · rintro ⟨o, ho, _, rfl⟩
      exact importsOf_of_key ho
    · rintro ⟨items, hi⟩
      exact ⟨B, (mem_importsOf hi).1, trivial, rfl⟩


/-- The chunks, read as ES modules at symbol level, link: every top-level symbol a chunk mentions is declared in
it or imported by it, every exported symbol is declared in the exporting chunk, exported names are pairwise
different, and every import item names a binding that the other chunk exports under that very name. -/
theorem chunks_are_valid_modules {g : G} {R : List ChunkOut} (h : run g = some R) (hu : DeclUnique g)
    (hn : NonJSDeclareNothing g) : EsmLink.Valid (modulesOf g R) := by
  have jsOfDecl : ∀ {B : Nat} {cB : Chunk} {s : Ref}, g.chunks[B]? = some cB → Declares g cB s → cB.js = true := by
    intro B cB s hB hd
    cases hj : cB.js with
    | true => rfl
    | false => exact absurd hd (hn cB (List.mem_of_getElem? hB) hj s)
  constructor
  · -- mentions_bound
    intro m hm s hs
    obtain ⟨A, cA, o, hA, hRA, rfl⟩ := mem_modulesOf hm
    unfold moduleOf at hs ⊢
    cases hjA : cA.js with
    | false => simp [hjA] at hs
    | true =>
      simp only [hjA, if_true, List.mem_filter, List.mem_append] at hs
      obtain ⟨hs, hdc⟩ := hs
      obtain ⟨B, hdc⟩ := Option.isSome_iff_exists.mp hdc
      obtain ⟨cB, hB, hdecl⟩ := declChunk_some hdc
      obtain ⟨d⟩ := run_data h
      obtain ⟨imps, dyn, tail, _, hci, _, hct, hRA'⟩ := d.out_of_chunk hA
      rw [hRA] at hRA'; cases hRA'
      have hneed : Needs g cA s := by
        rcases hs with hs | hs
        · rw [hci] at hs; exact (mem_chunkImports hci).mp hs
        · rw [(mkOut_js hjA).2.2.2] at hs; exact Or.inr ((chunkTail_needs hct).1 s hs)
      by_cases hAB : A = B
      · subst hAB
        rw [hA] at hB; cases hB
        exact Or.inl (by simp only [if_true]; exact List.mem_append_left _ (mem_chunkDeclared.mpr hdecl))
      · obtain ⟨a, ⟨o', items, hRA2, hmem, hsa⟩, _⟩ :=
          used_symbol_is_imported_and_exported h hu hA hB hjA (jsOfDecl hB hdecl) hAB hneed hdecl
        rw [hRA] at hRA2; cases hRA2
        refine Or.inr ⟨B, a, ?_⟩
        simp only [if_true, List.mem_flatMap, List.mem_map]
        exact ⟨(B, items), hmem, (s, a), hsa, rfl⟩
  · -- exports_bound
    intro m hm x hx
    obtain ⟨B, cB, o, hB, hRB, rfl⟩ := mem_modulesOf hm
    unfold moduleOf at hx ⊢
    cases hjB : cB.js with
    | false => simp [hjB] at hx
    | true =>
      simp only [hjB, if_true] at hx ⊢
      obtain ⟨A, cA, cB', _, _, hB', _, _, hdecl⟩ := exported_symbol_is_imported h ⟨o, hRB, hx⟩
      rw [hB] at hB'; cases hB'
      exact Or.inl (List.mem_append_left _ (mem_chunkDeclared.mpr hdecl))
  · -- export_names_distinct
    intro m hm
    obtain ⟨B, cB, o, hB, hRB, rfl⟩ := mem_modulesOf hm
    unfold moduleOf
    cases hjB : cB.js with
    | false => simp
    | true => simp only [if_true]; exact (export_aliases_distinct h hRB).1
  · -- imports_resolve
    intro m hm x hx
    obtain ⟨A, cA, o, hA, hRA, rfl⟩ := mem_modulesOf hm
    unfold moduleOf at hx
    cases hjA : cA.js with
    | false => simp [hjA] at hx
    | true =>
      simp only [hjA, if_true, List.mem_flatMap, List.mem_map] at hx
      obtain ⟨⟨B, items⟩, hmem, ⟨s, a⟩, hsa, rfl⟩ := hx
      have himp : Imports R A B s a := ⟨o, items, hRA, hmem, hsa⟩
      obtain ⟨_, cA', cB, _, hB, _, _, hdecl⟩ := imported_symbol_is_used_and_declared h himp
      have hjB := jsOfDecl hB hdecl
      obtain ⟨oB, hRB, hex⟩ := import_uses_the_exporters_alias h hB hjB himp
      refine ⟨moduleOf g cB oB, modulesOf_get hB hRB, ?_⟩
      simp only [moduleOf, hjB, if_true]
      exact hex

-- OPEN (link-following form of `used_symbol_is_imported_and_exported`): "if the symbol a use is PRINTED as, i.e.
-- `ast.FollowSymbols` of the resolved ref, is declared in another chunk B, then A imports from B a symbol with that
-- root".  computeCrossChunkDependencies calls FollowSymbols nowhere: it records `ChunkIndex` for the refs in
-- DeclaredSymbols and looks up the resolved refs as they are, so the statement needs the extra hypothesis that a
-- needed symbol which is itself declared nowhere is not linked to a symbol declared in another chunk (driver check
-- `links`, run on every observed build: never violated; resolved symbols WITH links do occur -- redeclared `var`s --
-- and are then themselves declared).  Not proved here; the theorems above are about refs as the routine sees them.

/-- The alias generation never fails: NextRenamedName's loop ends within `len(used)+1` rounds (its fuel in the
model), so aliases exist whenever the exported symbols are in the symbol table. -/
theorem export_aliases_always_exist (g : G) (l : List Ref) (hl : ∀ r ∈ l, (g.sym? r).isSome = true) :
    (assignAliases g l).isSome = true := by
  unfold assignAliases
  split
  · rfl
  · exact renameAll_isSome l [] hl

-- ---------------------------------------------------------------- non-vacuity

/-! Non-vacuity.  `barrel` is the graph esbuild builds (observed through the hook; the runtime file, which has no
live part here, is left out) for

    a.js     export * from './api.js';  export const name = 'a'          (entry point 0)
    api.js   export { counter, bump } from './state.js';  export const apiVersion = 'v1'
    b.js     import { bump, counter } from './state.js';  export const name = 'b';  export function step() {…}
    state.js export let counter = 0;  export function bump(by) {…}       (shared by both entry points)

Chunk 0 = {a.js, api.js}, chunk 1 = {b.js}, chunk 2 = {state.js}.  Entry `a` re-exports `bump` and `counter`
through a barrel that is private to it: its tail says `export { bump, counter, … }` although no part of chunk 0
uses them, so they must be imported from chunk 2 because of the entry's export table alone. -/

def nm (s : String) : Name := s.toList.map Char.toNat

def fState : File :=
  { src := 4, stable := 1, isJS := true, wrap := 0, wrapperRef := (4, 7), exportsRef := (4, 5), force := false,
    entryChunk := 0, binds := [], exports := [], copies := [],
    parts := [⟨false, [(4, 5)], [(4, 0), (4, 3)], []⟩, ⟨true, [(4, 0)], [], []⟩,
              ⟨true, [(4, 3)], [(4, 0), (4, 1)], []⟩] }

def fApi : File :=
  { src := 3, stable := 2, isJS := true, wrap := 0, wrapperRef := (3, 7), exportsRef := (3, 2), force := false,
    entryChunk := 0, binds := [((3, 5), (4, 0)), ((3, 6), (4, 3))], exports := [], copies := [],
    parts := [⟨false, [(3, 2)], [(3, 0), (4, 0), (4, 3)], []⟩, ⟨true, [(3, 4), (3, 5), (3, 6)], [], []⟩,
              ⟨true, [(3, 0)], [], []⟩] }

def fA : File :=
  { src := 1, stable := 3, isJS := true, wrap := 0, wrapperRef := (1, 5), exportsRef := (1, 2), force := false,
    entryChunk := 0, binds := [((3, 0), (3, 0)), ((3, 5), (3, 5)), ((3, 6), (3, 6))],
    exports := [(nm "apiVersion", 3, (3, 0)), (nm "bump", 3, (3, 6)), (nm "counter", 3, (3, 5)),
                (nm "name", 1, (1, 0))],
    copies := [(1, 6), (1, 7), (1, 8), (1, 9)],
    parts := [⟨false, [(1, 2)], [(1, 0), (3, 0), (4, 0), (4, 3)], []⟩, ⟨true, [(1, 4)], [], []⟩,
              ⟨true, [(1, 0)], [], []⟩, ⟨true, [], [], []⟩] }

def fB : File :=
  { src := 2, stable := 4, isJS := true, wrap := 0, wrapperRef := (2, 9), exportsRef := (2, 7), force := false,
    entryChunk := 1, binds := [((2, 1), (4, 3)), ((2, 2), (4, 0))],
    exports := [(nm "name", 2, (2, 3)), (nm "step", 2, (2, 5))], copies := [(2, 10), (2, 11)],
    parts := [⟨false, [(2, 7)], [(2, 3), (2, 5)], []⟩, ⟨true, [(2, 0), (2, 1), (2, 2)], [], []⟩,
              ⟨true, [(2, 3)], [], []⟩, ⟨true, [(2, 5)], [(2, 1), (2, 2)], []⟩, ⟨true, [], [], []⟩] }

def cA : Chunk := { js := true, files := [1, 3], isEntry := true, entrySrc := 1, entryBit := 0, bits := [0] }
def cB : Chunk := { js := true, files := [2], isEntry := true, entrySrc := 2, entryBit := 1, bits := [1] }
def cShared : Chunk := { js := true, files := [4], isEntry := false, entrySrc := 0, entryBit := 0, bits := [0, 1] }

def barrel : G :=
  { minify := false
    syms := [
      ⟨(1, 0), false, false, none, nm "name", none⟩, ⟨(1, 2), false, false, none, nm "a_exports", none⟩,
      ⟨(1, 4), false, false, none, nm "api_star", none⟩, ⟨(1, 5), false, false, none, nm "require_a", none⟩,
      ⟨(2, 0), false, false, none, nm "import_state", none⟩, ⟨(2, 1), false, false, none, nm "bump", some (4, 3)⟩,
      ⟨(2, 2), false, false, none, nm "counter", some (4, 0)⟩, ⟨(2, 3), false, false, none, nm "name", none⟩,
      ⟨(2, 5), false, false, none, nm "step", none⟩, ⟨(2, 7), false, false, none, nm "b_exports", none⟩,
      ⟨(2, 9), false, false, none, nm "require_b", none⟩, ⟨(3, 0), false, false, none, nm "apiVersion", none⟩,
      ⟨(3, 2), false, false, none, nm "api_exports", none⟩, ⟨(3, 4), false, false, none, nm "import_state", none⟩,
      ⟨(3, 5), false, false, none, nm "counter", some (4, 0)⟩, ⟨(3, 6), false, false, none, nm "bump", some (4, 3)⟩,
      ⟨(4, 0), false, false, none, nm "counter", none⟩, ⟨(4, 1), false, false, none, nm "by", none⟩,
      ⟨(4, 3), false, false, none, nm "bump", none⟩, ⟨(4, 5), false, false, none, nm "state_exports", none⟩]
    files := [fState, fApi, fA, fB]
    chunks := [cA, cB, cShared] }

def barrelOut : List ChunkOut := [
  { imports := [(2, [((4, 3), nm "bump"), ((4, 0), nm "counter")])], exports := [], cci := [(false, 2)],
    tail := [.item (3, 0) (nm "apiVersion"), .item (4, 3) (nm "bump"), .item (4, 0) (nm "counter"),
             .item (1, 0) (nm "name")] },
  { imports := [(2, [((4, 3), nm "bump"), ((4, 0), nm "counter")])], exports := [], cci := [(false, 2)],
    tail := [.item (2, 3) (nm "name"), .item (2, 5) (nm "step")] },
  { imports := [], exports := [((4, 0), nm "counter"), ((4, 3), nm "bump")], cci := [], tail := [] }]

example : run barrel = some barrelOut := by decide +kernel

/-- the hypotheses of the theorems hold for it (through the checks the driver runs on every observed build) -/
example : DeclUnique barrel := declUnique_of_check (by decide +kernel)
example : NonJSDeclareNothing barrel := nonJS_of_check (by decide +kernel)

/-- chunk 0 needs `bump` = (4,3) only because its entry point re-exports it through the private barrel … -/
example : Needs barrel cA (4, 3) :=
  Or.inr ⟨rfl, fA, by decide +kernel, rfl,
    Or.inl ⟨by decide, (nm "bump", 3, (3, 6)), by decide +kernel, by decide +kernel⟩⟩

/-- … and `bump` is declared in chunk 2 -/
example : Declares barrel cShared (4, 3) :=
  ⟨fState, ⟨true, [(4, 3)], [(4, 0), (4, 1)], []⟩,
    ⟨4, by decide, by decide +kernel, rfl, by decide +kernel, rfl⟩, by decide⟩

/-- so chunk 0 imports it from chunk 2 under the alias chunk 2 exports it with (the conclusion, checked directly) -/
example : Imports barrelOut 0 2 (4, 3) (nm "bump") ∧ Exports barrelOut 2 (4, 3) (nm "bump") :=
  ⟨⟨_, [((4, 3), nm "bump"), ((4, 0), nm "counter")], rfl, by decide +kernel, by decide +kernel⟩,
   ⟨_, rfl, by decide +kernel⟩⟩

/-- the premises of `entry_imports_all_its_chunks` for chunk 0 and the shared chunk -/
example : cA.isEntry = true ∧ cShared.js = true ∧ cA.entryBit ∈ cShared.bits ∧ barrel.chunks[2]? = some cShared := by
  decide +kernel

/-- and the tail of chunk 0 (`export { apiVersion, bump, counter, name }`) needs it -/
example : (4, 3) ∈ tailNeeds [TailTok.item (3, 0) (nm "apiVersion"), .item (4, 3) (nm "bump"),
    .item (4, 0) (nm "counter"), .item (1, 0) (nm "name")] := by decide +kernel

/-- With the entry point's own ImportsToBind instead of the barrel's (the seeded change C10-m3) the export `bump`
would resolve to api.js's import symbol (3,6), which lives in chunk 0: nothing would be imported, while the tail
still exports (4,3). -/
example : boundTarget fA (3, 6) = (3, 6) ∧ boundTarget fApi (3, 6) = (4, 3) ∧ declChunk barrel (3, 6) = some 0 ∧
    declChunk barrel (4, 3) = some 2 := by decide +kernel

def clashSyms : List Sym :=
  [⟨(3, 0), false, false, none, nm "x", none⟩, ⟨(4, 0), false, false, none, nm "x", none⟩,
   ⟨(4, 1), false, false, none, nm "x2", none⟩]

/-- Export aliases for colliding original names, as the real ExportRenamer produces them: `x`, `x`, `x2` become
`x`, `x2`, `x23` (observed on a real build: e1.js / e2.js importing `let x` of s1.js and `let x`, `let x2` of s2.js). -/
example : assignAliases { minify := false, chunks := [], files := [], syms := clashSyms } [(3, 0), (4, 0), (4, 1)]
    = some [((3, 0), nm "x"), ((4, 0), nm "x2"), ((4, 1), nm "x23")] := by decide +kernel

/-- minified aliases are `a`, `b`, … -/
example : assignAliases { minify := true, chunks := [], files := [], syms := [] } [(3, 0), (4, 0)]
    = some [((3, 0), nm "a"), ((4, 0), nm "b")] := by decide +kernel

end EsbuildModel.CrossChunk
