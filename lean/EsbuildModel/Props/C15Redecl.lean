import EsbuildModel.Lemmas.ScopesErrConv
/-!
C15 — the redeclaration errors of the parser against the early errors of ECMA-262 (theorem 3 of the work package).

Model: Impl/Scopes.lean (declareSymbol / canMergeSymbols, hoistSymbols) run on the scope operations the parser performs
for a program of the fragment of Spec/JsScopes.lean (Impl/ScopesSyntax.lean, checked against the real parser on source
text by the kernel `scope`, op `core`).  Spec: `Program.earlyError` (Spec/JsScopes.lean: 14.2.1, 14.15.1, 15.2.1,
16.1.1, 16.2.1.1, B.3.2.4, B.3.4), validated against Node 20 (`new vm.Script` / `vm.SourceTextModule`: 4523 of 4523
generated programs agree on "has a redeclaration early error").

Proved here, for EVERY program of the fragment (no bound on nesting or length):

* `redeclaration_error_implies_early_error` — esbuild never reports "The symbol … has already been declared" for a
  program that has no early error (no false rejection).

Proved for every FLAT program (`Program.flat`, Spec/JsScopes.lean: `var` and function declarations only at the top level
of a function / script / module, no class declaration, nothing declares the name `arguments`):

* `redeclaration_errors_iff_early_error_partial` — esbuild reports a redeclaration error if and only if the program has
  an early error, provided it is not a module that declares a name with a function declaration and with `var` (h1 below).

-- OPEN (the converse for programs that are not flat, `redeclaration_errors_iff_early_error`):
--   theorem redeclaration_errors_iff_early_error (p : Program) (r : Result) (h : runProgram p = some r)
--       (h1 : p.moduleFnVarClash = false) (h2 : argumentsClashL p.body = false) (h3 : catchFnClashL [] p.body = false) :
--       r.errs ≠ [] ↔ p.earlyError = true
-- The statement (without `h3`) was evaluated on more than 60 000 generated programs against the REAL parser (kernel
-- `scope`, op `core`: 0 disagreements); the three hypotheses are forced — each is a program with an early error that
-- esbuild accepts (reproduced on the real binary, see the report of the work package):
--   h1: `function b(){} var b; export {}`            (a module: function declarations are lexical there)
--   h2: `function f(){ var arguments; let arguments }`
--   h3: `{ let f; try {0} catch (f) { { function f(){} } { var f } } }`   (found while writing the invariant of
--       the proof: a sloppy block-level function that cannot be hoisted still turns the catch parameter it passes
--       into a hoisted variable, and a later `var f` is merged into that instead of being checked further up)
-- Missing for a proof: the invariant "every enclosing scope that holds a hoisted variable for a name has no colliding
-- scope above it, or an error has been reported" through hoistSymbols (Lemmas/ScopesHoistK.lean has the half that is
-- used below; Lemmas/ScopesErrConv.lean has the converse for trees on which nothing is hoisted), and the statement-level
-- converse of Lemmas/ScopesSpecErr.lean for `var` in nested blocks and block-level functions.
-/
namespace EsbuildModel.Scopes
open JsScopes

/-- **Theorem 3, direction "no false alarm".**  If the parser (model) reports a redeclaration error for a program of
the fragment, the program has an ECMA-262 early error. -/
theorem redeclaration_error_implies_early_error (p : Program) (r : Result) (h : runProgram p = some r)
    (herr : r.errs ≠ []) : p.earlyError = true := by
  cases he : p.earlyError with
  | true => rfl
  | false => exact absurd (run_errs_nil p r h he) herr

/-- the same, as used by the lookup theorem: a program without early error is parsed without redeclaration error -/
theorem no_early_error_no_redeclaration_error (p : Program) (r : Result) (h : runProgram p = some r)
    (hne : p.earlyError = false) : r.errs = [] :=
  run_errs_nil p r h hne

/-- **Theorem 3 on flat programs.**  For a flat program that is not a module declaring one name with a function
declaration and with `var`: the parser (model) reports a redeclaration error if and only if the program has an ECMA-262
early error. -/
theorem redeclaration_errors_iff_early_error_partial (p : Program) (r : Result) (h : runProgram p = some r)
    (hflat : p.flat = true) (h1 : p.moduleFnVarClash = false) : r.errs ≠ [] ↔ p.earlyError = true :=
  ⟨redeclaration_error_implies_early_error p r h, run_errs_of_early p r h hflat h1⟩

set_option linter.unusedSimpArgs false

-- non-vacuity -------------------------------------------------------------------------------------------------

/-- `function f(a) { var a; { let b; { var c } } try { } catch (e) { var e } } var f;` — no early error, the run succeeds -/
def exProg : Program :=
  ⟨false, false,
    [.fn 7 false [2] false [.var_ 2, .block [.lex .let_ 3, .block [.var_ 4]], .try_ [] (.ident 6) [.var_ 6]], .var_ 7]⟩

example : exProg.earlyError = false := by
  simp [exProg, Program.earlyError, fnError, listError, Stmt.earlyError, blockError, topLexNames, varNamesL, Stmt.varNames,
    topFnNames, hasDup, inter, lexNames, dupLex, plainFnNames, CatchParam.bound, CatchParam.isPattern]
example : (runProgram exProg).isSome = true := by decide +kernel
example : (runProgram exProg).map (fun r => r.errs) = some [] := by decide +kernel

/-- `{ let b; { var b } }` — an early error, and the parser reports it -/
def exBad : Program := ⟨false, false, [.block [.lex .let_ 3, .block [.var_ 3]]]⟩

example : exBad.earlyError = true := by
  simp [exBad, Program.earlyError, fnError, listError, Stmt.earlyError, blockError, topLexNames, varNamesL, Stmt.varNames,
    topFnNames, hasDup, inter, lexNames, dupLex, plainFnNames, CatchParam.bound, CatchParam.isPattern]
example : (runProgram exBad).map (fun r => r.errs) = some [3] := by decide +kernel

/-- the converse needs hypotheses: `function f(){ var arguments; let arguments }` has an early error, none is reported -/
def exGap : Program := ⟨false, false, [.fn 7 false [] false [.var_ 0, .lex .let_ 0]]⟩

example : exGap.earlyError = true := by
  simp [exGap, Program.earlyError, fnError, listError, Stmt.earlyError, blockError, topLexNames, varNamesL, Stmt.varNames,
    topFnNames, hasDup, inter, lexNames, dupLex, plainFnNames, CatchParam.bound, CatchParam.isPattern]
example : (runProgram exGap).map (fun r => r.errs) = some [] := by decide +kernel
example : argumentsClashL exGap.body = true := by
  simp [exGap, argumentsClashL, Stmt.argumentsClash, topVarNames, topLexNames, JsScopes.argumentsName]

/-- `function f(a) { let a }` — flat, an early error, and the parser reports it -/
def exFlatBad : Program := ⟨false, false, [.fn 7 false [2] false [.lex .let_ 2]]⟩

example : exFlatBad.flat = true := by decide
example : exFlatBad.moduleFnVarClash = false := by decide
example : exFlatBad.earlyError = true := by
  simp [exFlatBad, Program.earlyError, fnError, listError, Stmt.earlyError, blockError, topLexNames, varNamesL, Stmt.varNames,
    topFnNames, hasDup, inter, lexNames, dupLex, plainFnNames, CatchParam.bound, CatchParam.isPattern]
example : (runProgram exFlatBad).map (fun r => r.errs) = some [2] := by decide +kernel

/-- the hypothesis h1 is needed: the module `function b(){} var b` has an early error, none is reported -/
def exModule : Program := ⟨true, false, [.fn 3 false [] false [], .var_ 3]⟩

example : exModule.flat = true := by decide
example : exModule.moduleFnVarClash = true := by
  simp [exModule, Program.moduleFnVarClash, inter, topFnNames, varNamesL, Stmt.varNames]
example : exModule.earlyError = true := by
  simp [exModule, Program.earlyError, fnError, listError, Stmt.earlyError, blockError, topLexNames, varNamesL, Stmt.varNames,
    topFnNames, hasDup, inter, lexNames, dupLex, plainFnNames, CatchParam.bound, CatchParam.isPattern]
example : (runProgram exModule).map (fun r => r.errs) = some [] := by decide +kernel

end EsbuildModel.Scopes
