import EsbuildModel.Lemmas.AssetHash
import EsbuildModel.Lemmas.AssetHashRef
/-! # C18 — the names of the files emitted by the "file" and "copy" loaders: property theorems

Model: `Impl/AssetHash.lean` (`processScannedFiles`: the block that creates `AdditionalFiles`; the linker's
`substituteFinalPaths` / `pathBetweenChunks` / `joinWithPublicPath` for the importer's side).
`renderParts d b h e t` (Lemmas/AssetHash.lean) is the text of template `t` with the four values written where
the placeholders are; `expand` (Spec/OutPath.lean) is the documented meaning of a template STRING.
-/
namespace EsbuildModel.C18AssetHash
open EsbuildModel.AssetHash EsbuildModel.OutPaths EsbuildModel.Spec.OutPath

/-- the template that APPLIES to an asset: the entry template for a "copy" input that is an entry point
(`entryOut` is the output path of that entry point), the asset template otherwise -/
def applicable (o : Opts) (a : Asset) (entryOut : Option Str) : List Part :=
  if a.loader = .copy ∧ entryOut.isSome then o.entryT else o.assetT

theorem naming_template (o : Opts) (a : Asset) (entryOut : Option Str) :
    (naming o a entryOut).template = applicable o a entryOut := by
  unfold naming applicable
  cases a.loader <;> cases entryOut <;> simp

/-- the values of `[dir]`, `[name]` and the extension of an asset -/
abbrev dbe (o : Opts) (a : Asset) (entryOut : Option Str) : Str × Str × Str :=
  dirBaseExt o a (naming o a entryOut)

/-! ## 1. The content hash is in the name wherever the applicable template says `[hash]` -/

/-- **hash_iff_template**: for EVERY asset, every pair of templates and every entry-point status the block
does not panic, the content hash `H` exists, has exactly 8 characters of `A`–`Z2`–`7` (so it is not empty), and
the emitted relative path is the template THAT APPLIES to this file (entry template for a "copy" entry point,
asset template otherwise) with `[dir]`, `[name]`, `[ext]` and `H` written at every placeholder, followed by the
original extension — although the code computes the hash only when it thinks it is needed. -/
theorem hash_iff_template (o : Opts) (a : Asset) (entryOut : Option Str) :
    ∃ H, contentHash a.bytes = some H ∧ H.length = 8 ∧ (∀ c ∈ H, B32Char c) ∧
      relPath o a entryOut =
        some (renderParts (dbe o a entryOut).1 (dbe o a entryOut).2.1 H (trimDot (dbe o a entryOut).2.2)
                (applicable o a entryOut) ++ (dbe o a entryOut).2.2) := by
  obtain ⟨H, h1, h2, h3⟩ := contentHash_shape a.bytes
  refine ⟨H, h1, h2, h3, ?_⟩
  rw [← naming_template]
  by_cases hh : hasPlaceholder (naming o a entryOut).template .hash = true
  · exact relPath_eq o a entryOut H (by simp [hashFor, hh, h1])
  · have hno : hasPlaceholder (naming o a entryOut).template .hash = false := by simpa using hh
    rw [relPath_eq o a entryOut [] (by simp [hashFor, hno])]
    rw [renderParts_no_hash _ _ [] H _ _ hno]

/-- … in particular at EACH `[hash]` of the applicable template: whatever precedes and follows it -/
theorem hash_at_each_position (o : Opts) (a : Asset) (entryOut : Option Str) (pre post : List Part) (data : Str)
    (hsplit : applicable o a entryOut = pre ++ ⟨data, .hash⟩ :: post) :
    ∃ H u v, contentHash a.bytes = some H ∧ H.length = 8 ∧ relPath o a entryOut = some (u ++ data ++ H ++ v) := by
  obtain ⟨H, h1, h2, _, h4⟩ := hash_iff_template o a entryOut
  refine ⟨H, renderParts (dbe o a entryOut).1 (dbe o a entryOut).2.1 H (trimDot (dbe o a entryOut).2.2) pre,
    renderParts (dbe o a entryOut).1 (dbe o a entryOut).2.1 H (trimDot (dbe o a entryOut).2.2) post
      ++ (dbe o a entryOut).2.2, h1, h2, ?_⟩
  rw [h4, hsplit]
  simp [renderParts, valueOf, List.append_assoc]

/-- non-vacuity and the seeded bug: entry template `[name]-[hash]`, asset template `[name]`; a "copy" ENTRY POINT
gets the hash (position 7), the same file merely imported does not; asking the asset template would give `data-.bin`. -/
example :
    let o : Opts := ⟨lit "/out", lit "/p", [], [⟨lit "./", .name⟩, ⟨lit "-", .hash⟩], [⟨lit "./", .name⟩], []⟩
    let a : Asset := ⟨lit "/p/data.bin", [], .copy, [1, 2, 3]⟩
    applicable o a (some (lit "data")) = o.entryT ∧ applicable o a none = o.assetT ∧
    hashOffset (lit "/") (lit "data") (lit "bin") (applicable o a (some (lit "data"))) = some 7 ∧
    (dbe o a (some (lit "data"))) = (lit "/", lit "data", lit ".bin") ∧
    renderParts (lit "/") (lit "data") (lit "ABCDEFGH") (lit "bin") o.entryT ++ lit ".bin" = lit "./data-ABCDEFGH.bin" ∧
    renderParts (lit "/") (lit "data") (lit "ABCDEFGH") (lit "bin") o.assetT ++ lit ".bin" = lit "./data.bin" := by
  decide +kernel

/-! ## 2. Same hashed name, same bytes -/

/-- "the hash of the contents, truncated to the 40 bits of the name, is injective on the inputs considered" -/
def HashInj (S : List Nat → Prop) : Prop :=
  ∀ x y, S x → S y → contentHash x = contentHash y → x = y

/-- **same_name_same_bytes**: two assets (of one build or of two builds, with the same or different options)
whose emitted relative paths are equal, whose applicable templates have `[hash]`, and whose first `[hash]`
starts at the same offset `k` of the path, have the same bytes — if the hash is injective on the contents
considered.  (`hashOffset … = some k` says both: the template has `[hash]`, and where it starts.) -/
theorem same_name_same_bytes (S : List Nat → Prop) (hinj : HashInj S) (o1 o2 : Opts) (a1 a2 : Asset)
    (e1 e2 : Option Str) (k : Nat) (hs1 : S a1.bytes) (hs2 : S a2.bytes)
    (hk1 : hashOffset (dbe o1 a1 e1).1 (dbe o1 a1 e1).2.1 (trimDot (dbe o1 a1 e1).2.2) (applicable o1 a1 e1) = some k)
    (hk2 : hashOffset (dbe o2 a2 e2).1 (dbe o2 a2 e2).2.1 (trimDot (dbe o2 a2 e2).2.2) (applicable o2 a2 e2) = some k)
    (hp : relPath o1 a1 e1 = relPath o2 a2 e2) : a1.bytes = a2.bytes := by
  obtain ⟨H1, c1, l1, _, r1⟩ := hash_iff_template o1 a1 e1
  obtain ⟨H2, c2, l2, _, r2⟩ := hash_iff_template o2 a2 e2
  rw [r1, r2, Option.some.injEq] at hp
  have d1 := drop_hashOffset _ _ H1 _ _ k (dbe o1 a1 e1).2.2 hk1
  have d2 := drop_hashOffset _ _ H2 _ _ k (dbe o2 a2 e2).2.2 hk2
  rw [hp, l1, ← l2, d2] at d1
  exact hinj _ _ hs1 hs2 (by rw [c1, c2, d1])

/-- **changed_bytes_change_name** (the cache-busting use): the same input path under the same options and the same
entry-point status, in two builds; if the template that applies has `[hash]` and the emitted path is the same,
the bytes are the same. -/
theorem changed_bytes_change_name (S : List Nat → Prop) (hinj : HashInj S) (o : Opts) (a1 a2 : Asset)
    (e : Option Str) (hs1 : S a1.bytes) (hs2 : S a2.bytes)
    (hkey : a1.keyText = a2.keyText) (hl : a1.loader = a2.loader)
    (hh : hasPlaceholder (applicable o a1 e) .hash = true)
    (hp : relPath o a1 e = relPath o a2 e) : a1.bytes = a2.bytes := by
  have hn : naming o a1 e = naming o a2 e := by unfold naming; rw [hl]
  have hd : dbe o a1 e = dbe o a2 e := by
    unfold dbe dirBaseExt
    rw [hn, hkey]
  have ha : applicable o a1 e = applicable o a2 e := by rw [← naming_template, ← naming_template, hn]
  have hsome := hashOffset_isSome (dbe o a1 e).1 (dbe o a1 e).2.1 (trimDot (dbe o a1 e).2.2) (applicable o a1 e)
  rw [hh] at hsome
  obtain ⟨k, hk⟩ := Option.isSome_iff_exists.mp hsome
  exact same_name_same_bytes S hinj o o a1 a2 e e k hs1 hs2 hk (by rw [← hd, ← ha]; exact hk) hp

/-- **same_name_same_bytes_literal_prefix**: when everything in front of the first `[hash]` of the common
applicable template is literal text (`[hash]`, `assets/[hash]-[name]`, …), ANY two assets with the same emitted
path have the same bytes. -/
theorem same_name_same_bytes_literal_prefix (S : List Nat → Prop) (hinj : HashInj S) (o1 o2 : Opts) (a1 a2 : Asset)
    (e1 e2 : Option Str) (hs1 : S a1.bytes) (hs2 : S a2.bytes)
    (hT : applicable o1 a1 e1 = applicable o2 a2 e2) (hlit : LiteralBeforeHash (applicable o1 a1 e1))
    (hh : hasPlaceholder (applicable o1 a1 e1) .hash = true)
    (hp : relPath o1 a1 e1 = relPath o2 a2 e2) : a1.bytes = a2.bytes := by
  have hsome := hashOffset_isSome (dbe o1 a1 e1).1 (dbe o1 a1 e1).2.1 (trimDot (dbe o1 a1 e1).2.2) (applicable o1 a1 e1)
  rw [hh] at hsome
  obtain ⟨k, hk⟩ := Option.isSome_iff_exists.mp hsome
  refine same_name_same_bytes S hinj o1 o2 a1 a2 e1 e2 k hs1 hs2 hk ?_ hp
  rw [← hT, ← hk]
  exact hashOffset_literal _ _ _ _ _ _ _ hlit

/-- non-vacuity of the offset hypothesis, and why it cannot be dropped: under the default template
`./[name]-[hash]` two files with the same directory, name and extension have the same offset; but the name
`q-BBBBBBBB.r` without extension and hash `AAAAAAAA`, and the name `q` with extension `.r-AAAAAAAA` and hash
`BBBBBBBB`, give the SAME path although the hashes differ (run on the real esbuild: see the work package report). -/
example :
    let t : List Part := [⟨lit "./", .name⟩, ⟨lit "-", .hash⟩]
    hashOffset (lit "/") (lit "abc") (lit "png") t = some 6 ∧ LiteralBeforeHash [⟨lit "./assets/", .hash⟩, ⟨lit "-", .name⟩] ∧
    ¬ LiteralBeforeHash t ∧
    renderParts (lit "/") (lit "q-BBBBBBBB.r") (lit "AAAAAAAA") [] t ++ []
      = renderParts (lit "/") (lit "q") (lit "BBBBBBBB") (lit "r-AAAAAAAA") t ++ lit ".r-AAAAAAAA" ∧
    hashOffset (lit "/") (lit "q-BBBBBBBB.r") [] t ≠ hashOffset (lit "/") (lit "q") (lit "r-AAAAAAAA") t := by
  decide

/-! ## 3. The string an importer receives names the emitted file -/

/-- **importer_string_is_output_path** (public path configured): for every asset file `abs` below, beside or above
the absolute output directory there is the path `r` that `Rel` computes; `r` leads from the output directory to
the emitted file (resolving `outdir/r` gives the file), and — when `r` has no backslash — the string the
importer receives (JS string of the "file" loader, rewritten import path / `url()` of the "copy" loader) is
exactly public path + "/" (unless the public path ends with one) + `r` + the ignored `?query#fragment` of the
import. -/
theorem importer_string_is_output_path (pub outdir chunkRel abs sfx : Str) (hp : pub ≠ [])
    (ho : isAbs outdir = true) (ha : isAbs abs = true) :
    ∃ r, fsRel outdir abs = some r ∧ denote (outdir ++ '/' :: r) = denote abs ∧
      ('\\' ∉ r → importerString pub outdir chunkRel abs sfx =
        some (pub ++ (if pub.getLast? = some '/' then [] else ['/']) ++ r ++ sfx)) := by
  obtain ⟨r, h1, h2, h3⟩ := fsRel_abs_shape ho ha
  refine ⟨r, h1, h2, ?_⟩
  intro hb
  unfold importerString pathBetweenChunks relFromOutdir
  simp only [h1, replaceBackslash_id hb, ne_eq, hp, not_false_eq_true, if_true, Option.map_some]
  rw [joinWithPublicPath_plain pub r hp h3]

/-- the emitted file IS `outdir` joined with the relative path of section 1 (so `abs` above is an emitted file) -/
theorem emitted_path (o : Opts) (a : Asset) (entryOut : Option Str) (f : OutFile)
    (h : outFile o a entryOut = some f) :
    ∃ r, relPath o a entryOut = some r ∧ f.absPath = join [o.outdir, r] ∧ f.contents = a.bytes := by
  unfold outFile at h
  cases hr : relPath o a entryOut with
  | none => rw [hr] at h; simp at h
  | some r =>
    rw [hr] at h
    simp only [Option.map_some, Option.some.injEq] at h
    exact ⟨r, rfl, by rw [← h], by rw [← h]⟩

/-- non-vacuity: public path with and without a trailing slash, an asset in a subdirectory and one beside the
output directory -/
example :
    fsRel (lit "/w/out") (lit "/w/out/assets/a-ABCDEFGH.png") = some (lit "assets/a-ABCDEFGH.png") ∧
    importerString (lit "https://cdn/x/") (lit "/w/out") (lit "./js/main.js") (lit "/w/out/assets/a-ABCDEFGH.png") (lit "?v=2")
      = some (lit "https://cdn/x/assets/a-ABCDEFGH.png?v=2") ∧
    importerString (lit "/static") (lit "/w/out") (lit "./main.js") (lit "/w/shared/a.png") []
      = some (lit "/static/../shared/a.png") := by
  decide +kernel

/-
-- OPEN `importer_string_resolves_to_output` (no public path; full statement):
--   ∀ outdir chunkRel abs sfx s, isAbs outdir → isAbs abs →
--     importerString [] outdir chunkRel abs sfx = some s →
--     ∃ s0, s = s0 ++ sfx ∧ denote (outdir ++ '/' :: dir chunkRel ++ '/' :: s0) = denote abs
-- ("the rewritten import path, resolved from the directory of the importing chunk, is the emitted file").
-- Missing: a theory of `rel` on two RELATIVE paths (`Lemmas/OutPathsRel2.lean` `rel_abs` covers absolute paths
-- only).  The statement needs hypotheses anyway: no backslash in the relative path (a POSIX file name with a
-- backslash is emitted as it is but referenced with a slash — run on the real esbuild, see the report), and the
-- directory of the chunk must not climb above the output directory further than the asset does (otherwise
-- `Rel` fails: the build stops with "Cannot traverse from directory").  Evidence instead of proof: kernel
-- `assethashfn` ops `pbc` / `imp` and the references of kernel `assethash`.
-- What is proved is the shape of the result:
-/

/-- **importer_string_relative_partial** (no public path): the string an importer receives is what
`Rel(directory of the importing chunk, path of the asset relative to outdir)` gives, with backslashes as slashes,
"./" in front unless it already starts with "./" or "../" — so it is never read as a package name —, followed by
the ignored suffix; and there is NO string exactly when `Rel` fails (the build then reports "Cannot traverse"). -/
theorem importer_string_relative_partial (outdir chunkRel abs sfx : Str) :
    (∀ s, importerString [] outdir chunkRel abs sfx = some s →
      ∃ r s0, fsRel (dir chunkRel) (relFromOutdir outdir abs) = some r ∧ s = s0 ++ sfx ∧
        (s0 = replaceBackslash r ∨ s0 = lit "./" ++ replaceBackslash r) ∧
        ((lit "./").isPrefixOf s0 = true ∨ (lit "../").isPrefixOf s0 = true)) ∧
    (importerString [] outdir chunkRel abs sfx = none ↔ fsRel (dir chunkRel) (relFromOutdir outdir abs) = none) := by
  unfold importerString pathBetweenChunks
  cases hr : fsRel (dir chunkRel) (relFromOutdir outdir abs) with
  | none => simp
  | some r =>
    simp only [ne_eq, not_true_eq_false, if_false, Option.map_some, Option.some.injEq, reduceCtorEq, iff_self,
      and_true]
    intro s hs
    by_cases hpre : (lit "./").isPrefixOf (replaceBackslash r) = true ∨ (lit "../").isPrefixOf (replaceBackslash r) = true
    · refine ⟨r, replaceBackslash r, rfl, ?_, Or.inl rfl, hpre⟩
      rw [← hs, if_pos hpre]
    · refine ⟨r, lit "./" ++ replaceBackslash r, rfl, ?_, Or.inr rfl, Or.inl (by simp [lit, List.isPrefixOf])⟩
      rw [← hs, if_neg hpre]

/-- non-vacuity: a chunk in `js/`, an asset in `assets/` (up and down), a chunk beside its asset (down only), and a
chunk directory above the output directory (no path: the real build fails) -/
example :
    importerString [] (lit "/w/out") (lit "./js/main.js") (lit "/w/out/assets/a-ABCDEFGH.png") (lit "#f")
      = some (lit "../assets/a-ABCDEFGH.png#f") ∧
    importerString [] (lit "/w/out") (lit "./main.js") (lit "/w/out/a-ABCDEFGH.png") [] = some (lit "./a-ABCDEFGH.png") ∧
    importerString [] (lit "/w/out") (lit "./../main.js") (lit "/w/out/a.png") [] = none := by
  decide +kernel

/-! ## 4. Template substitution is exact -/

/-- **template_substitution_exact**: for every list of template parts and all four values,
`TemplateToString(SubstituteTemplate(t, {dir, name, hash, ext}))` is the data of every part followed by the value
of ITS placeholder (nothing else changes), and no placeholder survives in the substituted template. -/
theorem template_substitution_exact (t : List Part) (d b h e : Str) :
    templateToString (substituteTemplate t (values d b h e)) = renderParts d b h (trimDot e) t ∧
    ∀ ph, ph ≠ .none → hasPlaceholder (substituteTemplate t (values d b h e)) ph = false := by
  refine ⟨by rw [values_eq, templateToString_substituteTemplate, renderWith_allValues], ?_⟩
  intro ph hne
  cases hh : hasPlaceholder (substituteTemplate t (values d b h e)) ph with
  | false => rfl
  | true =>
    have := hasPlaceholder_substituteTemplate hne hh
    cases ph <;> simp [values, Placeholders.get] at this hne

/-- **asset_path_is_expansion**: with the asset-names (or entry-names) option given as the string `s` (not empty,
not ending in `[`), the emitted relative path of an asset that this template applies to is "./" + the textual
expansion of `s` (Spec/OutPath.lean `expand`: every `[dir]` `[name]` `[hash]` `[ext]` replaced, all other text
kept, backslashes as slashes) + the original extension, with the 8-character content hash for `[hash]`. -/
theorem asset_path_is_expansion (o : Opts) (a : Asset) (entryOut : Option Str) (s : Str) (hne : s ≠ [])
    (hopen : ¬ EndsOpen s) (hT : applicable o a entryOut = validatePathTemplate s) :
    ∃ H, contentHash a.bytes = some H ∧ H.length = 8 ∧
      relPath o a entryOut =
        some ('.' :: '/' :: expand (dbe o a entryOut).1 (dbe o a entryOut).2.1 H (trimDot (dbe o a entryOut).2.2)
                (replaceBackslash s) ++ (dbe o a entryOut).2.2) := by
  obtain ⟨H, h1, h2, _, h4⟩ := hash_iff_template o a entryOut
  refine ⟨H, h1, h2, ?_⟩
  rw [h4, hT, renderParts_parsed hne hopen]

/-- non-vacuity: a template string with every placeholder, a repeated `[hash]` and a backslash -/
example :
    ¬ EndsOpen (lit "[ext]\\[dir]/[name]-[hash].[hash]") ∧
    renderParts (lit "/img") (lit "a") (lit "ABCDEFGH") (lit "png") (validatePathTemplate (lit "[ext]\\[dir]/[name]-[hash].[hash]"))
      = lit "./png//img/a-ABCDEFGH.ABCDEFGH" := by
  decide

end EsbuildModel.C18AssetHash
