import EsbuildModel.Lemmas.Slots
import EsbuildModel.Lemmas.SlotsNumber
import EsbuildModel.Lemmas.SlotsCompose
import EsbuildModel.Lemmas.ScopeTree
/-!
C15 — renaming never changes which declaration a name refers to: the two scope-tree walks.

Part A (`renamer.AssignNestedScopeSlots`, used by the minifier).  For every scope tree of any depth and width:
two different symbols of one namespace that are visible together (one is declared in the scope of the other or
in a scope enclosing it) never share a slot, every renameable nested symbol gets a slot, and the returned
counts are exactly one more than the largest slot in use (no slot number below the count is unused).

Preconditions, all of which hold for the trees the parser builds, and without which the statement is false
(counterexamples at the end of the file):
* `hfresh`  — no symbol has a slot before the call (the parser calls the function once per file);
* `hwf`     — hoisted copies: a symbol declared in two different children of a scope is also declared in that
              scope or in a scope enclosing it (`WFList`, Spec/ScopeTree.lean); the module scope counts;
* `hkind`, `honce` — the label of a label scope is a label symbol and is declared exactly once.

Part B (`renamer.NumberRenamer`, used without --minify-identifiers).  For every scope tree, every list of
top-level symbols, whatever the original names and the reserved set: two different renamed symbols that are
visible together never end with the same name; no renamed symbol ends with a reserved name (with
`ComputeReservedNames`: a keyword, a free name, a name pinned by eval/with anywhere in the file); symbols of
other namespaces keep their name; a symbol is renamed only if its name is reserved or taken by a symbol visible
from it; the renaming loop ends.  Precondition: `hwf` as above (with the top-level symbols as the outermost
declarations).  The theorems are stated for runs that return `.ok`: `.panic` is a Go panic (an empty name with
the JSX flag or of a private symbol, a ref outside the symbol table), `.outOfFuel` cannot happen with enough
fuel (`rename_loop_terminates`).

`Vis`, `WFList`, `declA`, `declB`, `rootScope`: Spec/ScopeTree.lean; `visible_iff_paths` below restates `Vis`
with paths.
-/
namespace EsbuildModel.Slots

/-- The relation `Vis` used below says what it should: `s` and `t` are visible together in the tree `sc` exactly
when there are a scope T (at some path `p` from the root of `sc`) and a scope S inside T or equal to it (at
path `q` from T) such that S declares `s` and T declares `t`. -/
theorem visible_iff_paths {d : Scope → List Nat} {sc : Scope} {s t : Nat} :
    Vis d sc s t ↔ ∃ p q T S, sc.sub? p = some T ∧ T.sub? q = some S ∧ s ∈ d S ∧ t ∈ d T :=
  ⟨paths_of_vis, fun ⟨p, q, T, S, hT, hS, hs, ht⟩ => vis_of_paths p sc T S q hT hS hs ht⟩

/-- **A1.** Two different renameable symbols of the same namespace that are visible together in a nested scope
(neither is a top-level symbol) receive different slots. -/
theorem slots_separate_visible {module : Scope} {syms : List Sym} {st' : St} {r : Counts}
    (h : assignNestedScopeSlots module syms = some (st', r))
    (hfresh : ∀ sym, sym ∈ syms → sym.slot = none)
    (hwf : WFList declA (declB module) module.children)
    (hkind : ∀ l, l ∈ labelsList module.children → nsOf syms l = some 1)
    (honce : ∀ l, l ∈ labelsList module.children → (declB module ++ allList declA module.children).count l = 1)
    {x : Scope} {s t n : Nat} (hx : x ∈ module.children) (hvis : Vis declA x s t) (hst : s ≠ t)
    (hs : s ∉ declB module) (ht : t ∉ declB module)
    (hns : nsOf syms s = some n) (hnt : nsOf syms t = some n) (hn : n ≠ 4) :
    ∃ a b, st'[s]? = some (some a) ∧ st'[t]? = some (some b) ∧ a ≠ b := by
  obtain ⟨st1, st2, h2, f1, m1, f3, _⟩ := assignNestedScopeSlots_facts h hfresh hkind honce
  have hns' : (syms.map (·.ns))[s]? = some n := by simpa [nsOf, List.getElem?_map] using hns
  have hnt' : (syms.map (·.ns))[t]? = some n := by simpa [nsOf, List.getElem?_map] using hnt
  have us : st1[s]? = some none := by
    rw [f1 s hs]; simp only [nsOf] at hns
    cases hq : syms[s]? with
    | none => rw [hq] at hns; cases hns
    | some _ => rfl
  have ut : st1[t]? = some none := by
    rw [f1 t ht]; simp only [nsOf] at hnt
    cases hq : syms[t]? with
    | none => rw [hq] at hnt; cases hnt
    | some _ => rfl
  have hctx : CtxDone (syms.map (·.ns)) (declB module) st1 := by
    intro i hi _ _ _ hu
    rw [m1 i hi] at hu; cases hu
  obtain ⟨a, b, ha, hb, hab⟩ := helperList'_sep module.children h2 hwf hctx hx hvis hst hns' hnt' hn us ut
  exact ⟨a, b, by rw [f3 s hs]; exact ha, by rw [f3 t ht]; exact hb, hab⟩

/-- **A2 (every symbol gets a slot, below the count).** Every renameable symbol declared in a nested scope, other
than the hoisted copies of top-level symbols, ends with a slot, and the slot is smaller than the returned count
of its namespace — `AssignNamesByFrequency` allocates `count` names, so every slot has a name. -/
theorem nested_symbol_gets_slot {module : Scope} {syms : List Sym} {st' : St} {r : Counts}
    (h : assignNestedScopeSlots module syms = some (st', r))
    (hfresh : ∀ sym, sym ∈ syms → sym.slot = none)
    (hkind : ∀ l, l ∈ labelsList module.children → nsOf syms l = some 1)
    (honce : ∀ l, l ∈ labelsList module.children → (declB module ++ allList declA module.children).count l = 1)
    {s n : Nat} (hs : s ∈ allList declA module.children) (hs' : s ∉ declB module)
    (hns : nsOf syms s = some n) (hn : n ≠ 4) :
    ∃ a, st'[s]? = some (some a) ∧ a < r n := by
  obtain ⟨st1, st2, h2, f1, _, f3, _⟩ := assignNestedScopeSlots_facts h hfresh hkind honce
  have hns' : (syms.map (·.ns))[s]? = some n := by simpa [nsOf, List.getElem?_map] using hns
  have us : st1[s]? = some none := by
    rw [f1 s hs']; simp only [nsOf] at hns
    cases hq : syms[s]? with
    | none => rw [hq] at hns; cases hns
    | some _ => rfl
  obtain ⟨_, s2, _⟩ := helperList'_step module.children h2 (fun _ => Nat.le_refl _)
  obtain ⟨a, ha⟩ := s2.gets s hs n hns' hn us
  obtain ⟨n', hn', _, _, hlt⟩ := s2.range s a us ha
  rw [hns'] at hn'; cases hn'
  exact ⟨a, by rw [f3 s hs']; exact ha, hlt⟩

/-- **A2 (the counts are exact).** Every slot number below the returned count of a namespace is the slot of some
nested symbol of that namespace: the count is one more than the largest slot in use and no number is skipped. -/
theorem slot_counts_exact {module : Scope} {syms : List Sym} {st' : St} {r : Counts}
    (h : assignNestedScopeSlots module syms = some (st', r))
    (hfresh : ∀ sym, sym ∈ syms → sym.slot = none)
    (hkind : ∀ l, l ∈ labelsList module.children → nsOf syms l = some 1)
    (honce : ∀ l, l ∈ labelsList module.children → (declB module ++ allList declA module.children).count l = 1)
    {k v : Nat} (hv : v < r k) :
    ∃ s, s ∈ allList declA module.children ∧ s ∉ declB module ∧ nsOf syms s = some k ∧ st'[s]? = some (some v) := by
  obtain ⟨st1, st2, h2, _, m1, f3, _⟩ := assignNestedScopeSlots_facts h hfresh hkind honce
  obtain ⟨_, _, o2⟩ := helperList'_step module.children h2 (fun _ => Nat.le_refl _)
  obtain ⟨j, hj, hnj, hu, hjv⟩ := o2 k v (Nat.zero_le _) hv
  have hjt : j ∉ declB module := fun hm => by rw [m1 j hm] at hu; cases hu
  exact ⟨j, hj, hjt, by simpa [nsOf, List.getElem?_map] using hnj, by rw [f3 j hjt]; exact hjv⟩

/-- Top-level symbols (members and generated symbols of the module scope) end without a nested slot, also when a
hoisted copy of them sits in a nested scope. -/
theorem top_level_symbol_has_no_slot {module : Scope} {syms : List Sym} {st' : St} {r : Counts}
    (h : assignNestedScopeSlots module syms = some (st', r))
    {s : Nat} (hs : s ∈ declB module) : st'[s]? = some none := by
  unfold assignNestedScopeSlots assignNested at h
  split at h
  · cases h
  · split at h
    · cases h
    · split at h
      · cases h
      · next st3 h3 =>
        simp only [Option.some.injEq, Prod.mk.injEq] at h
        rw [← h.1]
        exact (setSlots_spec _ h3).2.2 s hs

/-- **A1 composed with Props/C15.lean (no capture under --minify-identifiers).** When the slot table of the
namespace is named by `AssignNamesByFrequency` (`Rename.assign`, any duplicate-free alphabet, any reserved set,
any use counts), two different renameable symbols of that namespace that are visible together in a nested
scope are printed with different names. -/
theorem minified_names_separate_visible {module : Scope} {syms : List Sym} {st' : St} {r : Counts}
    (h : assignNestedScopeSlots module syms = some (st', r))
    (hfresh : ∀ sym, sym ∈ syms → sym.slot = none)
    (hwf : WFList declA (declB module) module.children)
    (hkind : ∀ l, l ∈ labelsList module.children → nsOf syms l = some 1)
    (honce : ∀ l, l ∈ labelsList module.children → (declB module ++ allList declA module.children).count l = 1)
    {x : Scope} {s t n : Nat} (hx : x ∈ module.children) (hvis : Vis declA x s t) (hst : s ≠ t)
    (hs : s ∉ declB module) (ht : t ∉ declB module)
    (hns : nsOf syms s = some n) (hnt : nsOf syms t = some n) (hn : n ≠ 4)
    (alpha : Rename.Alphabet) (hh : alpha.head.Nodup) (htl : alpha.tail.Nodup) (hH : 0 < alpha.head.length)
    (hT : 0 < alpha.tail.length) (reserved : List (List Char)) (fuel : Nat) (table : List Rename.Slot)
    (pairs : List (Nat × List Char)) (hassign : Rename.assign alpha n reserved fuel table = some pairs)
    {a b : Nat} {na nb : List Char} (hsa : st'[s]? = some (some a)) (htb : st'[t]? = some (some b))
    (hna : (a, na) ∈ pairs) (hnb : (b, nb) ∈ pairs) : na ≠ nb := by
  obtain ⟨a', b', ha', hb', hab⟩ := slots_separate_visible h hfresh hwf hkind honce hx hvis hst hs ht hns hnt hn
  rw [hsa] at ha'; rw [htb] at hb'
  cases ha'; cases hb'
  exact Rename.assign_names_injective alpha hh htl hH hT n reserved fuel table pairs hassign hna hnb hab

-- ================================================================================================
-- Part B: the number renamer (no --minify-identifiers)

/-- **B1 (no capture).** For every scope tree, whatever the original names: two different renamed symbols that
are visible together — both top-level, or one top-level and the other anywhere below, or one declared in the
scope of the other or in a scope enclosing it — never end with the same name.  (`rootScope topLevel scopes` is
the tree with the top-level symbols as the members of the root.) -/
theorem number_names_separate_visible {fuel : Nat} {syms : List NSym} {reserved : List Name} {topLevel : List Nat}
    {scopes : List Scope} {names' : Names}
    (h : numberRenameWith fuel syms reserved topLevel scopes = .ok names')
    (hwf : WFList declB topLevel scopes)
    {s t : Nat} (hvis : Vis declB (rootScope topLevel scopes) s t) (hst : s ≠ t)
    (hrs : Ren syms s) (hrt : Ren syms t) :
    ∃ a b, nameForSymbol syms names' s = some a ∧ nameForSymbol syms names' t = some b ∧ a ≠ b := by
  obtain ⟨root, names1, s1, h2⟩ := numberRenameWith_facts h
  have s2 := assignRecList_step scopes h2
  have hd : ∀ j, j ∈ declB (rootScope topLevel scopes) ↔ j ∈ topLevel := by intro j; simp [declB]
  have hctx : CtxNamed syms topLevel names1 := by
    have h0 : CtxNamed syms [] (List.replicate syms.length ([] : Name)) := fun i hi => by simp at hi
    have := h0.step s1
    simpa using this
  obtain ⟨a, b, ha, hb, hane, hbne, hab⟩ :=
    node_sep_core s1 s2
      (fun x hc hv h1s h1t => assignRecList_sep scopes h2 hwf hctx hc hv hst hrs hrt h1s h1t)
      (by
        rcases hvis.inv with ⟨hs, ht⟩ | ⟨x, hc, ht, hs⟩ | ⟨x, hc, hv⟩
        · exact Or.inl ⟨(hd s).mp hs, (hd t).mp ht⟩
        · exact Or.inr (Or.inl ⟨x, hc, (hd t).mp ht, hs⟩)
        · exact Or.inr (Or.inr ⟨x, hc, hv⟩))
      hst hrs hrt (unnamed_at_start hrs) (unnamed_at_start hrt)
  exact ⟨a, b, nameFor_of_named hrs ha hane, nameFor_of_named hrt hb hbne, hab⟩

/-- **B1 (reserved names).** No renamed symbol, top-level or nested, ends with a name of the reserved set the
renamer was created with. -/
theorem number_names_not_reserved {fuel : Nat} {syms : List NSym} {reserved : List Name} {topLevel : List Nat}
    {scopes : List Scope} {names' : Names}
    (h : numberRenameWith fuel syms reserved topLevel scopes = .ok names')
    {s : Nat} (hs : s ∈ (rootScope topLevel scopes).all declB) (hrs : Ren syms s) :
    ∃ a, nameForSymbol syms names' s = some a ∧ a ∉ reserved := by
  obtain ⟨root, names1, s1, h2⟩ := numberRenameWith_facts h
  have s2 := assignRecList_step scopes h2
  have hu := unnamed_at_start hrs
  obtain ⟨x, hx⟩ := getElem?_some_of_len s1.len hu
  by_cases hx0 : x = []
  · subst hx0
    have hsl : s ∈ allList declB scopes := by
      simp only [Scope.all, declB, List.mem_append] at hs
      rcases hs with (hs | hs) | hs
      · obtain ⟨nm, hnm, hne⟩ := s1.gets s hs hrs hu
        rw [hx] at hnm; cases hnm; exact absurd rfl hne
      · simp at hs
      · exact hs
    obtain ⟨a, ha, hane⟩ := s2.gets s hsl hrs hx
    obtain ⟨_, hav⟩ := s2.avoid s a hx ha hane
    refine ⟨a, nameFor_of_named hrs ha hane, fun hr => hav ?_⟩
    apply (chainKeys_cons _ _ _).mpr
    exact Or.inl (s1.grow a (by rw [keys_reserved]; exact hr))
  · obtain ⟨_, hk, _⟩ := s1.fresh s x hu hx hx0
    rw [keys_reserved] at hk
    exact ⟨x, nameFor_of_named hrs (s2.stable s x hx hx0) hx0, hk⟩

/-- **B1 (keywords and free names), whole pipeline.** With the reserved set that `ComputeReservedNames` builds
from the module scope, no renamed symbol ends with the name of a keyword / strict-mode reserved word, nor with
the name of a symbol of the file that must keep its name (an unbound, i.e. free, name; a name pinned by `eval`
or `with`), wherever in the tree that symbol is declared. -/
theorem number_names_avoid_keywords_and_pinned {fuel : Nat} {syms : List NSym} {module : Scope} {topLevel : List Nat}
    {scopes : List Scope} {names' : Names}
    (h : numberRename fuel syms module topLevel scopes = .ok names')
    {s : Nat} (hs : s ∈ (rootScope topLevel scopes).all declB) (hrs : Ren syms s) :
    ∃ a, nameForSymbol syms names' s = some a ∧ a ∉ keywords ∧
      ∀ (u : Nat) (sym : NSym), u ∈ module.all declB → syms[u]? = some sym → sym.ns = 4 → a ≠ sym.name := by
  unfold numberRename at h
  split at h
  · cases h
  · next reserved hres =>
    obtain ⟨a, ha, hnr⟩ := number_names_not_reserved h hs hrs
    unfold computeReservedNames at hres
    split at hres
    · cases hres
    · next extra hextra =>
      simp only [Option.some.injEq] at hres
      subst hres
      simp only [List.mem_append, not_or] at hnr
      refine ⟨a, ha, hnr.1, fun u sym hu hsu h4 hab => hnr.2 ?_⟩
      rw [hab]
      exact reservedScopes_mem [module] hextra u sym (by simpa [allList] using hu) hsu h4

/-- Symbols the number renamer does not rename (labels, mangled properties, unbound and pinned symbols) keep
their original name. -/
theorem number_other_symbols_keep_name {fuel : Nat} {syms : List NSym} {reserved : List Name} {topLevel : List Nat}
    {scopes : List Scope} {names' : Names}
    (h : numberRenameWith fuel syms reserved topLevel scopes = .ok names')
    {s : Nat} {sym : NSym} (hs : syms[s]? = some sym) (hns : sym.ns ≠ 0 ∧ sym.ns ≠ 2) :
    nameForSymbol syms names' s = some sym.name := by
  obtain ⟨root, names1, s1, h2⟩ := numberRenameWith_facts h
  have s2 := assignRecList_step scopes h2
  have hl : s < syms.length := by
    rcases Nat.lt_or_ge s syms.length with h | h
    · exact h
    · rw [List.getElem?_eq_none h] at hs; cases hs
  have hu : (List.replicate syms.length ([] : Name))[s]? = some [] := by simp [hl]
  have notren : ¬ Ren syms s := fun ⟨sym', hs', hr⟩ => by
    rw [hs] at hs'; cases hs'
    rcases hr with hr | hr
    · exact hns.1 hr
    · exact hns.2 hr
  obtain ⟨x, hx⟩ := getElem?_some_of_len s1.len hu
  have hx0 : x = [] := Classical.byContradiction fun hx0 => notren (s1.fresh s x hu hx hx0).1
  subst hx0
  obtain ⟨y, hy⟩ := getElem?_some_of_len s2.len hx
  have hy0 : y = [] := Classical.byContradiction fun hy0 => notren (s2.avoid s y hx hy hy0).1
  subst hy0
  simp [nameForSymbol, hs, hy]

/-- **B1 (a free name is kept).** A renamed symbol ends with its own name (after the JSX capital rule and after
being made a valid identifier, `baseName`) unless that name is reserved or is the final name of another symbol
that is visible from it; in particular a symbol whose name is free keeps it. -/
theorem number_renamed_only_on_collision {fuel : Nat} {syms : List NSym} {reserved : List Name} {topLevel : List Nat}
    {scopes : List Scope} {names' : Names}
    (h : numberRenameWith fuel syms reserved topLevel scopes = .ok names')
    {s : Nat} (hs : s ∈ (rootScope topLevel scopes).all declB) (hrs : Ren syms s) :
    ∃ a base, nameForSymbol syms names' s = some a ∧ baseName syms s = some base ∧
      (a = base ∨ base ∈ reserved ∨
        ∃ u, u ≠ s ∧ Vis declB (rootScope topLevel scopes) s u ∧ nameForSymbol syms names' u = some base) := by
  obtain ⟨root, names1, s1, h2⟩ := numberRenameWith_facts h
  have s2 := assignRecList_step scopes h2
  have hu := unnamed_at_start hrs
  have hlen : names'.length = syms.length := by rw [s2.len, s1.len]; simp
  have final : ∀ (u : Nat) (k : Name), names'[u]? = some k → k ≠ [] → nameForSymbol syms names' u = some k := by
    intro u k hk hne
    have hl : u < syms.length := by
      rw [← hlen]
      rcases Nat.lt_or_ge u names'.length with h | h
      · exact h
      · rw [List.getElem?_eq_none h] at hk; cases hk
    simp [nameForSymbol, List.getElem?_eq_getElem hl, hk, hne]
  have hd : ∀ j, j ∈ topLevel → j ∈ declB (rootScope topLevel scopes) := by intro j hj; simp [declB, hj]
  have hroot : ∀ k : Name, k ∈ keys root → k ∈ reserved ∨ ∃ u : Nat, u ∈ topLevel ∧ names1[u]? = some k ∧ k ≠ [] := by
    intro k hk
    rcases s1.newkeys k hk with hk | hk | ⟨u, hu', _, hun, hne⟩
    · rw [keys_reserved] at hk; exact Or.inl hk
    · simp [chainKeys] at hk
    · exact Or.inr ⟨u, hu', hun, hne⟩
  obtain ⟨x, hx⟩ := getElem?_some_of_len s1.len hu
  by_cases hx0 : x = []
  · subst hx0
    have hsl : s ∈ allList declB scopes := by
      simp only [Scope.all, declB, List.mem_append] at hs
      rcases hs with (hs | hs) | hs
      · obtain ⟨nm, hnm, hne⟩ := s1.gets s hs hrs hu
        rw [hx] at hnm; cases hnm; exact absurd rfl hne
      · simp at hs
      · exact hs
    obtain ⟨a, ha, hane⟩ := s2.gets s hsl hrs hx
    have hchain : ChainOK reserved topLevel [root] names1 := by
      intro k hk
      rcases (chainKeys_cons _ _ _).mp hk with hk | hk
      · exact hroot k hk
      · simp [chainKeys] at hk
    obtain ⟨base, hb, hcase, y, hy, hsy⟩ := assignRecList_origin scopes h2 hchain hx ha hane
    refine ⟨a, base, nameFor_of_named hrs ha hane, hb, ?_⟩
    by_cases hab : a = base
    · exact Or.inl hab
    · rcases hcase with h1 | h1 | ⟨u, hun, hbne, hu'⟩
      · exact Or.inl h1
      · exact Or.inr (Or.inl h1)
      · refine Or.inr (Or.inr ⟨u, fun hus => ?_, ?_, final u base hun hbne⟩)
        · subst hus; rw [ha] at hun; cases hun; exact hab rfl
        · rcases hu' with hu' | ⟨z, hz, hv⟩
          · exact Vis.inner (sc := rootScope topLevel scopes) hy (hd u hu') hsy
          · exact Vis.deeper (sc := rootScope topLevel scopes) hz hv
  · have hsn := s2.stable s x hx hx0
    have hsD : s ∈ topLevel := Classical.byContradiction fun hj => by
      have := s1.frame s hj
      rw [hx, hu] at this; cases this; exact hx0 rfl
    obtain ⟨_, _, _, _, base, hb, hcase⟩ := s1.fresh s x hu hx hx0
    refine ⟨x, base, nameFor_of_named hrs hsn hx0, hb, ?_⟩
    by_cases hab : x = base
    · exact Or.inl hab
    · rcases hcase with h1 | h1 | h1
      · exact Or.inl h1
      · rcases hroot base h1 with hr | ⟨u, hu', hun, hbne⟩
        · exact Or.inr (Or.inl hr)
        · have hun' := s2.stable u base hun hbne
          refine Or.inr (Or.inr ⟨u, fun hus => ?_, Vis.here (hd s hsD) (hd u hu'), final u base hun' hbne⟩)
          subst hus; rw [hsn] at hun'; cases hun'; exact hab rfl
      · simp [chainKeys] at h1

/-- The `for` loop of findUnusedName ends: with more fuel than there are names in use on the scope chain the model
never reports `outOfFuel` — the loop tries at most (names in use + 1) candidates, because `prefix + Itoa(n)`
is a different string for every n. -/
theorem rename_loop_terminates (fuel : Nat) (cur : NameMap) (parents : List NameMap) (name : Name) (ns : Nat)
    (h : (keys cur ++ chainKeys parents).length < fuel) :
    (∃ r, findUnusedName fuel cur parents name ns = .ok r) ∨ findUnusedName fuel cur parents name ns = .panic := by
  unfold findUnusedName
  split
  · exact Or.inr rfl
  · next base _ =>
    split
    · exact Or.inl ⟨_, rfl⟩
    · next u count _ _ =>
      obtain ⟨r, hr⟩ := tryNames_total cur parents base fuel count h
      rw [hr]
      exact Or.inl ⟨_, rfl⟩

-- ================================================================================================
-- non-vacuity: concrete trees that meet the hypotheses, and trees that break them with the failure they cause

/-- module `var a, v` · block `{ let b; var v /* hoisted copy */ L: { let c; #p } }` · function `(d, e) { { var e; eval } }` -/
def exModule : Scope :=
  ⟨[0, 1], [], none,
   [⟨[2, 1], [], none, [⟨[], [], some 3, [⟨[4], [5], none, []⟩]⟩]⟩,
    ⟨[7, 6], [], none, [⟨[8, 7], [], none, []⟩]⟩]⟩
def exSyms : List Sym := [⟨0, none⟩, ⟨0, none⟩, ⟨0, none⟩, ⟨1, none⟩, ⟨0, none⟩, ⟨2, none⟩, ⟨0, none⟩, ⟨0, none⟩, ⟨4, none⟩]

-- the run: top-level symbols none; b ↦ 0, L ↦ label 0, c ↦ 1, #p ↦ private 0; d ↦ 0, e ↦ 1 (siblings reuse), pinned none
example : (assignNestedScopeSlots exModule exSyms).map (fun p => (p.1, [p.2 0, p.2 1, p.2 2, p.2 3])) =
    some ([none, none, some 0, some 0, some 1, some 0, some 0, some 1, none], [2, 1, 1, 0]) := by decide
-- the hypotheses of A1/A2 hold for it
example : ∀ sym, sym ∈ exSyms → sym.slot = none := by decide
example : WFList declA (declB exModule) exModule.children := by
  simp [exModule, WFList, Scope.WF, Scope.all, allList, declA, declB]
example : ∀ l, l ∈ labelsList exModule.children →
    nsOf exSyms l = some 1 ∧ (declB exModule ++ allList declA exModule.children).count l = 1 := by
  simp [exModule, exSyms, labelsList, Scope.labels, Scope.all, allList, declA, declB, nsOf]
-- `c` (4, two scopes down) and `b` (2, in the enclosing block) are visible together, renameable, same namespace
example : Vis declA ⟨[2, 1], [], none, [⟨[], [], some 3, [⟨[4], [5], none, []⟩]⟩]⟩ 4 2 := by
  refine .inner (c := ⟨[], [], some 3, [⟨[4], [5], none, []⟩]⟩) ?_ ?_ ?_ <;> simp [declA, Scope.all, allList]
example : nsOf exSyms 4 = some 0 ∧ nsOf exSyms 2 = some 0 ∧ 4 ∉ declB exModule ∧ 2 ∉ declB exModule := by decide

/-- COUNTEREXAMPLE to A1 without `hwf`: symbol 1 is a member of two sibling scopes and of none that encloses both.
The first sibling gives it slot 0; in the second sibling symbol 0 takes slot 0 and symbol 1 keeps its 0: two
symbols of one scope share a slot. -/
def badSiblings : Scope := ⟨[], [], none, [⟨[], [], none, [⟨[1], [], none, []⟩, ⟨[0, 1], [], none, []⟩]⟩]⟩
example : (assignNestedScopeSlots badSiblings [⟨0, none⟩, ⟨0, none⟩]).map (·.1) = some [some 0, some 0] := by decide
example : ¬ WFList declA (declB badSiblings) badSiblings.children := by
  simp [badSiblings, WFList, Scope.WF, Scope.all, allList, declA, declB]

/-- COUNTEREXAMPLE to A1 without `honce`: label 0 labels a scope and, again, a scope nested in it next to the
label scope of label 1.  Label 0 is overwritten with slot 1, the slot label 1 has: `a: { b: {} a: {} }`
(rejected by the parser, which never builds this tree). -/
def badLabels : Scope := ⟨[], [], none, [⟨[], [], some 0, [⟨[], [], some 1, []⟩, ⟨[], [], some 0, []⟩]⟩]⟩
example : (assignNestedScopeSlots badLabels [⟨1, none⟩, ⟨1, none⟩]).map (·.1) = some [some 1, some 1] := by decide

/-- COUNTEREXAMPLE to A1 without `hfresh`: symbol 1 enters with slot 0 and keeps it, symbol 0 is given slot 0. -/
example : (assignNestedScopeSlots ⟨[], [], none, [⟨[0, 1], [], none, []⟩]⟩ [⟨0, none⟩, ⟨0, some 0⟩]).map (·.1) =
    some [some 0, some 0] := by decide

/-- part B: top level `x, y` and the free name `x3`; function with `x` (member) and `x` (generated), block inside
with `x2` and `y`; a label scope `x:` around a class with the private name `#a-` used as a JSX name -/
def exNModule : Scope :=
  ⟨[0, 1, 6], [], none, [⟨[2], [3], none, [⟨[5, 4], [], none, []⟩]⟩, ⟨[], [], some 7, [⟨[8], [], none, []⟩]⟩]⟩
def exNSyms : List NSym :=
  [⟨0, ['x'], false⟩, ⟨0, ['y'], false⟩, ⟨0, ['x'], false⟩, ⟨0, ['x'], false⟩, ⟨0, ['x', '2'], false⟩, ⟨0, ['y'], false⟩,
   ⟨4, ['x', '3'], false⟩, ⟨1, ['x'], false⟩, ⟨2, ['#', 'a', '-'], true⟩]
def resNames : Res (List Name) → Option (List Name)
  | .ok l => some l
  | _ => none
-- x y stay; nested x ↦ x2, the other x ↦ x4 (x2 taken, x3 is a free name), x2 ↦ x22, y ↦ y2, #a- ↦ #a_
example : resNames (numberRename 20 exNSyms exNModule [0, 1, 6] exNModule.children) =
    some [['x'], ['y'], ['x', '2'], ['x', '4'], ['x', '2', '2'], ['y', '2'], [], [], ['#', 'a', '_']] := by decide
example : WFList declB [0, 1, 6] exNModule.children := by
  simp [exNModule, WFList, Scope.WF, Scope.all, allList, declB]
example : Vis declB (rootScope [0, 1, 6] exNModule.children) 4 0 := by
  refine .inner (c := ⟨[2], [3], none, [⟨[5, 4], [], none, []⟩]⟩) ?_ ?_ ?_ <;> simp [exNModule, declB, Scope.all, allList]
example : Ren exNSyms 4 ∧ Ren exNSyms 0 := ⟨⟨_, rfl, Or.inl rfl⟩, ⟨_, rfl, Or.inl rfl⟩⟩

/-- COUNTEREXAMPLE to B1 without `hwf`: symbol 1 (`x`) is a member of two sibling scopes; it is named in the first,
and in the second symbol 0 (also `x`) finds `x` unused on its chain: two symbols of one scope are both `x`. -/
example : resNames (numberRenameWith 20 [⟨0, ['x'], false⟩, ⟨0, ['x'], false⟩] [] []
    [⟨[], [], none, [⟨[1], [], none, []⟩, ⟨[0, 1], [], none, []⟩]⟩]) = some [['x'], ['x']] := by decide

end EsbuildModel.Slots
