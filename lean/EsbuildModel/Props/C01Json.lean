import EsbuildModel.Props.C13Json
import EsbuildModel.Lemmas.JsonValue
/-!
# C01 — the value of an accepted JSON text is the value JSON.parse gives it (property theorems)

`Impl/JsonDenote.lean`: the JavaScript value of the expression `ParseJSON` returns (object initializer semantics:
properties in source order, a later duplicate replaces the value, a property written `["__proto__"]: v` is an own
property, a property written `"__proto__": v` sets the prototype).  `Spec/Json.lean`: the value `JSON.parse` gives a
derivation (numbers = correctly rounded decimal value, negated for `-`; strings = UTF-16 code units, `\uXXXX` a unit;
duplicate keys: last value wins at the first position; `__proto__` an ordinary key).
-/
namespace EsbuildModel.C01Json
open EsbuildModel.Json EsbuildModel.Spec.Json

/-- **json_value.** If a text is accepted (either flavour) and `__proto__` keys are marked computed (the default: the
target supports computed keys), then for EVERY derivation of the text in the flavour's dialect the JavaScript value of
the returned expression is the value of that derivation.  Numbers, strings with surrogate escapes, nesting,
duplicate keys, `__proto__` — any size. -/
theorem json_value {P : Params} {Rd : Rat → F64} (hP : ParamsOK P Rd) (o : Opts) (hoe : o.objExt = true) (t : Doc)
    (ht : t.ok (dialectOf o.flavor) = true) (ast : Ast) (h : (parseJSON o P (utf8Text t.render)).accepted = some ast) :
    denote ast = some (t.v.value Rd) := by
  obtain ⟨ast', h1, h2⟩ := doc_complete hP o t ht
  rw [h] at h1
  cases h1
  exact val_denote Rd o.objExt t.v ast h2 (Or.inl hoe)

/-- **json_value_rfc.** Every RFC 8259 text with value `v` is accepted by the strict flavour, and the returned
expression evaluates to `v`. -/
theorem json_value_rfc {P : Params} {Rd : Rat → F64} (hP : ParamsOK P Rd) (o : Opts) (hfl : o.flavor = .json)
    (hoe : o.objExt = true) (text : List Char) (v : JsVal) (h : Parses rfc8259 Rd text v) :
    ∃ ast, (parseJSON o P (utf8Text text)).accepted = some ast ∧ denote ast = some v := by
  obtain ⟨t, h1, rfl, rfl⟩ := h
  have ht : t.ok (dialectOf o.flavor) = true := by rw [hfl]; exact Doc.ok_mono rfc_le_strict t h1
  obtain ⟨ast, h2, _⟩ := doc_complete hP o t ht
  exact ⟨ast, h2, json_value hP o hoe t ht ast h2⟩

/-- **json_value_unique.** Two derivations of one text in the dialect of a flavour have the same value: the
grammars with their extensions are unambiguous as far as values go. -/
theorem json_value_unique {P : Params} {Rd : Rat → F64} (hP : ParamsOK P Rd) (fl : Flavor) (t t' : Doc)
    (h1 : t.ok (dialectOf fl) = true) (h2 : t'.ok (dialectOf fl) = true) (hr : t.render = t'.render) :
    t.v.value Rd = t'.v.value Rd := by
  obtain ⟨ast, a1, _⟩ := doc_complete hP ⟨fl, true, false⟩ t h1
  have e1 := json_value hP ⟨fl, true, false⟩ rfl t h1 ast a1
  rw [hr] at a1
  have e2 := json_value hP ⟨fl, true, false⟩ rfl t' h2 ast a1
  rw [e1] at e2
  exact Option.some.inj e2

/-- **tsconfig_same_value_as_strict.** A text that the strict flavour accepts is read by the tsconfig flavour with the
same value (comments, trailing commas and the JavaScript lexical forms are pure extensions). -/
theorem tsconfig_same_value_as_strict {P : Params} {Rd : Rat → F64} (hP : ParamsOK P Rd) (o o' : Opts)
    (hfl : o.flavor = .json) (hfl' : o'.flavor = .tsconfig) (hoe : o.objExt = true) (hoe' : o'.objExt = true)
    (text : List Char) (ast ast' : Ast) (h : (parseJSON o P (utf8Text text)).accepted = some ast)
    (h' : (parseJSON o' P (utf8Text text)).accepted = some ast') : denote ast = denote ast' := by
  obtain ⟨t, t1, rfl, t3⟩ := doc_sound hP o hfl _ ast h
  have e1 := val_denote Rd o.objExt t.v ast t3 (Or.inl hoe)
  have t1' : t.ok (dialectOf o'.flavor) = true := by rw [hfl']; exact Doc.ok_mono strict_le_tsconfig t t1
  rw [e1, json_value hP o' hoe' t t1' ast' h']

/-- **json_value_noproto_partial.** When the target does not support computed keys (`objExt = false`, ES5) the same
holds for texts without a `__proto__` key. -/
theorem json_value_noproto_partial {P : Params} {Rd : Rat → F64} (hP : ParamsOK P Rd) (o : Opts) (t : Doc)
    (ht : t.ok (dialectOf o.flavor) = true) (hnp : valProtoFree t.v = true) (ast : Ast)
    (h : (parseJSON o P (utf8Text t.render)).accepted = some ast) : denote ast = some (t.v.value Rd) := by
  obtain ⟨ast', h1, h2⟩ := doc_complete hP o t ht
  rw [h] at h1
  cases h1
  exact val_denote Rd o.objExt t.v ast h2 (Or.inr hnp)

-- OPEN (FALSE of the code): `json_value` without `hoe`.  With `--target=es5` the key `__proto__` is printed as a plain
-- property name, which sets the prototype instead of creating a property; run: `{"__proto__":{"z":1}}` →
-- `var x_default = { __proto__: __proto__ }` (no own property; JSON.parse gives an own property), and
-- `{"a":{"__proto__":1,"__proto__":2}}` → a JavaScript SyntaxError (duplicate `__proto__`).  No warning is printed.

/-! ## non-vacuity -/

/-- the derivation of `C13Json.sampleDoc` meets the hypotheses; its value has the `__proto__` own property -/
example : C13Json.sampleDoc.ok (dialectOf .json) = true := by decide

example : denote (.obj [(protoKey, true, .null)] true) = some (.obj [(protoKey, .null)] false) := by
  simp [denote, denoteProps, setProp, protoKey]

/-- without the computed flag the expression's value differs from JSON.parse's: the hypothesis `hoe` is needed -/
example : denote (.obj [(protoKey, false, .null)] true) = some (.obj [] true) := by
  simp [denote, denoteProps, isObjectOrNull]

/-- duplicate keys: the last value wins, at the position of the first -/
example : denote (.obj [([97], false, .bool true), ([98], false, .null), ([97], false, .bool false)] true) =
    some (.obj [([97], .bool false), ([98], .null)] false) := by
  simp [denote, denoteProps, setProp, protoKey]

end EsbuildModel.C01Json
