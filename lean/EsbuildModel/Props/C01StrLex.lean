import EsbuildModel.Lemmas.StrLexBridge
/-!
# C01 — the lexer reads every string and template literal with exactly its value (property theorems)

Model: `Impl/StrLex.lean` — the `'`/`"`/backtick arm of `(*Lexer).Next` (the `stringLiteral:` loop, `needsSlowPath`,
`suffixLen`, token kinds, "Unterminated string literal"), `RescanCloseBraceAsTemplateToken`, `StringLiteral()`,
`CookedAndRawTemplateContents()` and `tryToDecodeEscapeSequences` of internal/js_lexer/js_lexer.go (NotJSON mode).
Specification: `Spec/JsStringLiteral.lean` — ECMA-262 §12.9.4 (StringLiteral, SV, with the Annex-B legacy octal and `\8 \9`
escapes) and §12.9.6 (NoSubstitutionTemplate / TemplateHead / TemplateMiddle / TemplateTail, TV, TRV) as derivations.

`lexValue rs src` = `NewLexer` (+ `RescanCloseBraceAsTemplateToken` when `rs`) followed by `StringLiteral()` — what the parser does
for string literals and UNTAGGED templates; `lexRaw rs src` = the same followed by `CookedAndRawTemplateContents()` — TAGGED
templates. Source text = list of code points; lengths and positions in characters (the driver converts to bytes).
-/
namespace EsbuildModel.C01Str
open EsbuildModel.StrLex EsbuildModel.Spec.StrLit
open EsbuildModel.Spec.JsString (utf16)

/-- **lex_string_value.** Whenever the lexer returns a TStringLiteral of `n` characters with decoded value `v`: the first
`n` characters of the source are a StringLiteral of the grammar, `v` is its SV (as UTF-16 code units), and
`LegacyOctalLoc` was set exactly if the literal contains a legacy octal or `\8` `\9` escape (strict-mode error). For ALL
source texts of code points, any length. -/
theorem lex_string_value (src : List Nat) (hsrc : ∀ c ∈ src, isSourceChar c = true) (n : Nat) (v raw : List Nat)
    (leg : Option Nat) (h : lexValue false src = .tok .str n (some v) raw leg) :
    IsStringLiteral (src.take n) v leg.isSome := by
  obtain ⟨l, h1, h2, h3, h4⟩ := lexValue_string_sound src (fun c hc => by simpa [isSourceChar] using hsrc c hc) n v raw leg h
  exact ⟨l, h1, h2, h3, h4⟩

example : lexValue false [34, 97, 92, 49, 50, 56, 92, 117, 123, 49, 70, 54, 48, 48, 125, 92, 13, 10, 8232, 34, 59]
    = .tok .str 20 (some [97, 10, 56, 55357, 56832, 8232]) [] (some 2) := by decide

/-- **lex_string_complete.** Every valid StringLiteral (either quote; every escape kind incl. legacy octal, `\8 \9`, `\u{…}`,
line continuations, <LS>/<PS>), followed by anything, is read as ONE TStringLiteral covering exactly the literal, with its
SV, and the legacy position is recorded iff the literal has a legacy escape. -/
theorem lex_string_complete (l : StringLit) (rest : List Nat) (hv : l.valid = true) :
    ∃ leg, lexValue false (l.render ++ rest) = .tok .str l.render.length (some l.sv) [] leg ∧ leg.isSome = l.hasLegacy :=
  lexValue_string_complete l rest hv

example : (StringLit.mk 39 [.plain 97, .octal (.two03 49 50), .plain 56, .esc (.uBrace [49, 70, 54, 48, 48]), .cont .crlf,
    .esc (.single 39), .nonOctal 57, .esc .nul]).valid = true := by decide

/-- **lex_template_raw_value** (tagged templates). Whenever the lexer returns a template token of kind `k` and `n` characters and
`CookedAndRawTemplateContents` gives `cooked` / `raw`: the first `n` characters are a NoSubstitutionTemplate / TemplateHead /
TemplateMiddle / TemplateTail of that kind, `raw` (UTF-16 encoded) is its TRV (CR and CRLF normalised to LF), `cooked` is its TV
(`none` = undefined, i.e. some NotEscapeSequence occurs), and `LegacyOctalLoc` is left alone (the parser never looks at it on
this path: tagged templates may contain any escape). -/
theorem lex_template_raw_value (rs : Bool) (src : List Nat) (hsrc : ∀ c ∈ src, isSourceChar c = true) (k : Kind) (n : Nat)
    (cooked : Option (List Nat)) (raw : List Nat) (leg : Option Nat) (h : lexRaw rs src = .tok k n cooked raw leg) :
    ∃ d : TplTok, d.valid = true ∧ kindOf d.kind = k ∧ rescanOf d.kind = rs ∧ d.render = src.take n ∧
      raw.flatMap utf16 = d.trv ∧ cooked = d.tv ∧ leg = none := by
  have h' := h
  unfold lexRaw at h'
  split at h'
  · rename_i t htok
    split at h'
    · cases h'
    · rename_i hk
      obtain ⟨d, tl, hv, hrs, hkd, hsrc'⟩ := tpl_of_token rs src t htok hk (fun c hc => by simpa [isSourceChar] using hsrc c hc)
      have hres := lexRaw_tpl d tl hv
      rw [hrs, ← hsrc', h] at hres
      simp only [Res.tok.injEq] at hres
      obtain ⟨rfl, rfl, rfl, rfl, rfl⟩ := hres
      exact ⟨d, hv, rfl, hrs, by rw [hsrc']; simp, norm_tpl_trv d.chars, rfl, rfl⟩
  · cases h'
  · cases h'

/-- **lex_template_raw_complete.** Every valid template token, followed by anything, is read as one token of its kind and
length; raw = TRV; cooked = TV — undefined exactly when the token contains a NotEscapeSequence (`\1`, `\08`, `\xg`, `\u{110000}`,
`\u12`, …); LegacyOctalLoc untouched. -/
theorem lex_template_raw_complete (d : TplTok) (rest : List Nat) (hv : d.valid = true) :
    ∃ raw, lexRaw (rescanOf d.kind) (d.render ++ rest) = .tok (kindOf d.kind) d.render.length d.tv raw none ∧
      raw.flatMap utf16 = d.trv :=
  ⟨_, lexRaw_tpl d rest hv, norm_tpl_trv d.chars⟩

-- History: before /repo b13b8f8 these two theorems needed a hypothesis `cookedOK` (no `\1`…`\9`, `\0d`, complete `\u{…}` above
-- 0x10FFFF): `tryToDecodeEscapeSequences(…, reportErrors = false)` returned a value for them instead of nil; the proof obligation
-- found it, the defect was fixed (three early returns), model and proofs follow the fix.

/-- the former counterexamples now agree with the specification: a tagged `\1` and a tagged `\u{110000}` cook to undefined -/
example : lexRaw false [96, 92, 49, 96] = .tok .noSubst 4 none [92, 49] none ∧
    IsTemplateToken [96, 92, 49, 96] .noSubst none [92, 49] ∧
    lexRaw false [96, 92, 117, 123, 49, 49, 48, 48, 48, 48, 125, 96] = .tok .noSubst 12 none
      [92, 117, 123, 49, 49, 48, 48, 48, 48, 125] none ∧
    IsTemplateToken [96, 92, 117, 123, 49, 49, 48, 48, 48, 48, 125, 96] .noSubst none [92, 117, 123, 49, 49, 48, 48, 48, 48, 125] := by
  refine ⟨by decide, ⟨⟨.noSubst, [.notEsc (.digit 49)]⟩, by decide, rfl, by decide, by decide, by decide⟩, by decide,
    ⟨⟨.noSubst, [.notEsc (.uBraceNot [49, 49, 48, 48, 48, 48]), .plain 125]⟩, by decide, rfl, by decide, by decide, by decide⟩⟩

/-- non-vacuity: a valid TemplateHead with NotEscapeSequences of every family (TV undefined) and CR / CRLF to normalise -/
example : (TplTok.mk .head [.notEsc (.xShort []), .plain 103, .lineTerm .crlf, .notEsc (.uBraceOpen [49, 50]), .dollar,
      .notEsc (.uShort [49, 50]), .notEsc (.zeroDigit 56), .notEsc (.digit 55), .cont .cr]).valid = true ∧
    (TplTok.mk .head [.notEsc (.xShort []), .plain 103, .lineTerm .crlf, .notEsc (.uBraceOpen [49, 50]), .dollar,
      .notEsc (.uShort [49, 50]), .notEsc (.zeroDigit 56), .notEsc (.digit 55), .cont .cr]).tv = none := by decide

/-- **lex_template_value** (untagged templates: the parser calls `StringLiteral()`). Whenever a template token with a decoded
value `v` comes back: the consumed text is a valid template token of that kind, and if `LegacyOctalLoc` was not set (otherwise
the parser reports "Legacy octal escape sequences cannot be used in template literals") `v` is its TV. -/
theorem lex_template_value (rs : Bool) (src : List Nat) (hsrc : ∀ c ∈ src, isSourceChar c = true) (k : Kind) (hk : k ≠ .str)
    (n : Nat) (v raw : List Nat) (leg : Option Nat) (h : lexValue rs src = .tok k n (some v) raw leg) :
    ∃ d : TplTok, d.valid = true ∧ kindOf d.kind = k ∧ rescanOf d.kind = rs ∧ d.render = src.take n ∧
      (leg = none → d.tv = some v) := by
  have h' := h
  unfold lexValue at h'
  split at h'
  · rename_i t htok
    have hkt : t.kind ≠ .str := by
      intro hks
      unfold Tok.stringLiteral at h'
      split at h'
      · split at h' <;> simp only [Res.tok.injEq, reduceCtorEq] at h'
        exact hk (h'.1 ▸ hks)
      · simp only [Res.tok.injEq] at h'; exact hk (h'.1 ▸ hks)
    obtain ⟨d, tl, hv, hrs, hkd, hsrc'⟩ := tpl_of_token rs src t htok hkt (fun c hc => by simpa [isSourceChar] using hsrc c hc)
    obtain ⟨hsome, hnone⟩ := lexValue_tpl d tl hv
    rw [hrs, ← hsrc'] at hsome hnone
    cases htv : d.tv with
    | some v' =>
      have := hsome v' htv
      rw [h] at this
      simp only [Res.tok.injEq, Option.some.injEq] at this
      obtain ⟨rfl, rfl, rfl, _, _⟩ := this
      exact ⟨d, hv, rfl, hrs, by rw [hsrc']; simp, fun _ => htv⟩
    | none =>
      -- the length comes from the token, whatever the decoder says
      have hlen : n = d.render.length := by
        have htok' := lexToken_tpl d tl hv
        rw [hrs, ← hsrc', htok] at htok'
        simp only [Lexed.tok.injEq] at htok'
        subst htok'
        unfold Tok.stringLiteral at h'
        split at h'
        · split at h' <;> simp only [Res.tok.injEq, reduceCtorEq] at h'
          rw [← h'.2.1]; exact tplTok_len d
        · simp only [Res.tok.injEq] at h'
          rw [← h'.2.1]; exact tplTok_len d
      have hkd' : kindOf d.kind = k := by
        have htok' := lexToken_tpl d tl hv
        rw [hrs, ← hsrc', htok] at htok'
        simp only [Lexed.tok.injEq] at htok'
        subst htok'
        unfold Tok.stringLiteral at h'
        split at h'
        · split at h' <;> simp only [Res.tok.injEq, reduceCtorEq] at h'
          exact h'.1
        · simp only [Res.tok.injEq] at h'; exact h'.1
      refine ⟨d, hv, hkd', hrs, by rw [hsrc', hlen]; simp, ?_⟩
      intro hleg
      subst hleg
      exact absurd h (hnone htv k n (some v) raw)
  · cases h'
  · cases h'

/-- **lex_template_complete** (untagged templates). A valid template token whose escapes are all valid is read with exactly its
TV and without legacy flag; one that contains a NotEscapeSequence is NEVER returned as a clean value: the result is a syntax
error, an out-of-range error, or a token with `LegacyOctalLoc` set. -/
theorem lex_template_complete (d : TplTok) (rest : List Nat) (hv : d.valid = true) :
    (∀ v, d.tv = some v →
      lexValue (rescanOf d.kind) (d.render ++ rest) = .tok (kindOf d.kind) d.render.length (some v) [] none) ∧
    (d.tv = none → ∀ k n c r, lexValue (rescanOf d.kind) (d.render ++ rest) ≠ .tok k n c r none) :=
  lexValue_tpl d rest hv

example : (TplTok.mk .tail [.plain 97, .dollar, .plain 125, .esc (.u4 100 56 51 100), .lineTerm .cr, .cont .ls,
    .esc (.nonEsc 96)]).valid = true := by decide

/-- **print_then_lex** (strings). For every option set of the printer, either quote, any current line length and EVERY sequence of
UTF-16 code units (lone surrogates included): lexing what `printUnquotedUTF16` prints, wrapped in the chosen quotes and
followed by anything, gives ONE string token covering exactly the printed literal whose value is the original sequence, with
no legacy-octal flag. (Composition of the `Quote` model with the `StrLex` model; through `Spec.JsString` and
`Spec.JsStringLiteral`, which are thereby shown to agree on printed bodies.) -/
theorem print_then_lex (o : Quote.Opts) (q : Nat) (hq : q = 34 ∨ q = 39) (cur : Nat) (text : List Nat)
    (hu : ∀ u ∈ text, u < 65536) (rest : List Nat) :
    lexValue false (q :: (Quote.printUnquoted o q cur text ++ q :: rest))
      = .tok .str ((Quote.printUnquoted o q cur text).length + 2) (some text) [] none :=
  print_lex_string o q hq cur text hu rest

/-- **print_then_lex_template.** The same for a template body printed between backticks: `StringLiteral()` returns the
sequence, and so does the cooked value of `CookedAndRawTemplateContents()`. -/
theorem print_then_lex_template (o : Quote.Opts) (cur : Nat) (text : List Nat) (hu : ∀ u ∈ text, u < 65536) (rest : List Nat) :
    lexValue false (96 :: (Quote.printUnquoted o 96 cur text ++ 96 :: rest))
      = .tok .noSubst ((Quote.printUnquoted o 96 cur text).length + 2) (some text) [] none ∧
    ∃ raw, lexRaw false (96 :: (Quote.printUnquoted o 96 cur text ++ 96 :: rest))
      = .tok .noSubst ((Quote.printUnquoted o 96 cur text).length + 2) (some text) raw none :=
  print_lex_template o cur text hu rest

/-- sanity on a nasty input: NUL before a digit, `</script`, `${`, a lone surrogate, a valid pair, U+2028, LF, a backtick;
ASCII-only output with a line limit of 5, printed as a template and read back -/
example : ∃ n, lexValue false (96 :: (Quote.printUnquoted
      { asciiOnly := true, noUnicodeEscapes := false, noInlineScript := false, lineLimit := 5, noWrap := false } 96 3
      [0, 49, 60, 47, 83, 99, 114, 105, 112, 116, 36, 123, 55296, 55357, 56832, 8232, 10, 96] ++ [96, 59]))
    = .tok .noSubst n (some [0, 49, 60, 47, 83, 99, 114, 105, 112, 116, 36, 123, 55296, 55357, 56832, 8232, 10, 96]) [] none :=
  ⟨_, (print_then_lex_template _ 3 _ (by decide) [59]).1⟩

end EsbuildModel.C01Str
