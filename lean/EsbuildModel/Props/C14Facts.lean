import EsbuildModel.Lemmas.OverrideFix
import EsbuildModel.Lemmas.RuntimeGuards
import EsbuildModel.Impl.FeatureGates
import EsbuildModel.Impl.C14FactsReview
/-! # C14 — facts regenerated from the source on every run (override implications, feature gates, runtime guards)

`Gen/OverrideCalls.lean`, `Gen/FeatureGates.lean`, `Gen/RuntimeGuards.lean` are rewritten by `harness/cmd/extract`
from /repo's working tree before this file is built; every statement below is about what the source says NOW. -/
namespace EsbuildModel.C14Facts
open EsbuildModel.OverrideFix EsbuildModel.FeatureGates EsbuildModel.C14FactsReview
open EsbuildModel.Gen.OverrideCalls (calls)

/-! ## 1. override implications (`bundler.applyOptionDefaults`) -/

/-- the extracted body of `fixInvalidUnsupportedJSFeatureOverrides` is the one the lemmas are about:
`if options.UnsupportedJSFeatureOverrides.Has(implies) { Features |= implied; Overrides |= implied; Mask |= implied }`
(seeded change C14-m2, `|= implies` in the first statement, breaks exactly this). -/
theorem fix_body_as_modelled : genBody = reviewedBody := by decide +kernel

/-- running the extracted calls with the extracted body never leaves the interpreter (no unknown field / parameter)
and computes `runR calls` -/
theorem applyAll_total (s : St) : applyAll genBody calls s = some (runR calls s) := by
  rw [fix_body_as_modelled]; exact applyAll_reviewed calls s

/-- the call list (in source order) satisfies the order condition of the closure lemma, and is even transitively closed -/
theorem calls_order_ok : orderOK calls = true := by decide +kernel
theorem calls_transitively_closed : transClosed calls = true := by decide +kernel

/-- `overrides_closed`: for EVERY initial (features, overrides, mask) — all 2^61 × 2^61 × 2^61 of them — the state after
`applyOptionDefaults`' calls is closed under every extracted pair: if the user's overrides (as completed) mark
`implies` unsupported, then every `implied` feature is unsupported in `UnsupportedJSFeatures` (what parser, printer
and linker consult), in the overrides and in the mask. -/
theorem overrides_closed (s s' : St) (h : applyAll genBody calls s = some s') :
    ∀ p ∈ calls, p.1 ∈ s'.overrides → ∀ f ∈ p.2, f ∈ s'.features ∧ f ∈ s'.overrides ∧ f ∈ s'.mask := by
  obtain rfl : runR calls s = s' := Option.some.inj ((applyAll_total s).symm.trans h)
  exact runR_closed calls calls_order_ok s

/-- non-vacuity: `class=false` alone forces (among others) private fields off, through the one `Class` call -/
example : (applyAll genBody calls ⟨[], ["Class"], ["Class"]⟩).map (fun s => s.features.contains "ClassPrivateField") = some true := by
  decide +kernel
/-- … and the order condition is not automatic: with a dependency-violating, not transitively closed list the result is
NOT closed (`b` is switched on after the `b ⇒ c` call has run). -/
example : orderOK [("b", ["c"]), ("a", ["b"])] = false ∧
    (runR [("b", ["c"]), ("a", ["b"])] ⟨[], ["a"], []⟩).overrides = ["a", "b"] := by decide +kernel

/-- the same for the calls in ANY order: esbuild's list is transitively closed, so a permutation of the calls is
closed as well (swapping two calls cannot break closure — it is caught by `override_calls_as_reviewed` only). -/
theorem overrides_closed_in_any_order (perm : List (String × FSet)) (hp : calls.Perm perm) (s : St) :
    ∀ p ∈ perm, p.1 ∈ (runR perm s).overrides → (runR perm s).hasAll p.2 :=
  runR_closed perm (transClosed_orderOK perm (transClosed_perm hp calls_transitively_closed)) s

/-- `overrides_sound`: nothing is invented. Every feature in the final override set is forced by a chain of extracted
pairs from a feature the user had overridden; every feature added to `UnsupportedJSFeatures` or to the mask is listed
by a pair whose trigger is forced. -/
theorem overrides_sound (s s' : St) (h : applyAll genBody calls s = some s') :
    (∀ f ∈ s'.overrides, Forced calls s.overrides f) ∧
    (∀ f ∈ s'.features, f ∈ s.features ∨ ∃ a S, (a, S) ∈ calls ∧ Forced calls s.overrides a ∧ f ∈ S) ∧
    (∀ f ∈ s'.mask, f ∈ s.mask ∨ ∃ a S, (a, S) ∈ calls ∧ Forced calls s.overrides a ∧ f ∈ S) := by
  obtain rfl : runR calls s = s' := Option.some.inj ((applyAll_total s).symm.trans h)
  have := runR_sound calls s
  exact ⟨this.ov, this.ft, this.msk⟩

/-- closure + soundness: the final override set is EXACTLY the set forced by the initial one (least closed superset) -/
theorem overrides_exact (s s' : St) (h : applyAll genBody calls s = some s') (f : String) :
    f ∈ s'.overrides ↔ Forced calls s.overrides f := by
  constructor
  · exact (overrides_sound s s' h).1 f
  · intro hf
    obtain rfl : runR calls s = s' := Option.some.inj ((applyAll_total s).symm.trans h)
    exact forced_mem calls calls_order_ok s f hf

/-- the user's own settings survive: the three sets only grow -/
theorem overrides_only_grow (s s' : St) (h : applyAll genBody calls s = some s') :
    (∀ f ∈ s.features, f ∈ s'.features) ∧ (∀ f ∈ s.overrides, f ∈ s'.overrides) ∧ (∀ f ∈ s.mask, f ∈ s'.mask) := by
  obtain rfl : runR calls s = s' := Option.some.inj ((applyAll_total s).symm.trans h)
  exact runR_le calls s

/-- the extracted pairs agree with the reviewed dependency relation (Impl/C14FactsReview.lean `requires`), both ways:
every (dependent, prerequisite) of the review is implemented by a call, and no call implies anything the review does
not list. Removing one implied feature from a call breaks the first half. -/
theorem calls_cover_reviewed_dependencies :
    ∀ r ∈ C14FactsReview.requires, ∀ pre ∈ r.2, ∃ c ∈ calls, c.1 = pre ∧ r.1 ∈ c.2 := by decide +kernel
theorem calls_imply_only_reviewed_dependencies :
    ∀ c ∈ calls, ∀ d ∈ c.2, ∃ r ∈ C14FactsReview.requires, r.1 = d ∧ c.1 ∈ r.2 := by decide +kernel

/-- consequence a user relies on: switching a prerequisite off (`--supported:X=false`) switches every dependent syntax
of the reviewed relation off in the feature set the compiler consults, for every initial configuration. -/
theorem dependents_follow (s s' : St) (h : applyAll genBody calls s = some s') :
    ∀ r ∈ C14FactsReview.requires, ∀ pre ∈ r.2, pre ∈ s'.overrides → r.1 ∈ s'.features := by
  intro r hr pre hpre hin
  obtain ⟨c, hc, h1, h2⟩ := calls_cover_reviewed_dependencies r hr pre hpre
  exact (overrides_closed s s' h c hc (h1 ▸ hin) r.1 h2).1

/-- non-vacuity for `dependents_follow`: async-await=false on an otherwise empty configuration -/
example : (applyAll genBody calls ⟨[], ["AsyncAwait"], ["AsyncAwait"]⟩).map (fun s => s.features) =
    some ["AsyncGenerator", "ForAwait", "TopLevelAwait"] := by decide +kernel

/-- change detector: the calls are the reviewed ones in the reviewed ORDER -/
theorem override_calls_as_reviewed : calls = expectedCalls := by decide +kernel

/-- every feature named by a call is a constant of the compat table -/
theorem override_calls_name_features :
    ∀ c ∈ calls, c.1 ∈ Gen.compatFeatures ∧ ∀ f ∈ c.2, f ∈ Gen.compatFeatures := by decide +kernel

/-- the only other writes of `applyOptionDefaults` to the three fields are `|=` (the extractor refuses anything else)
and none of them touches the override set or a feature that takes part in an implication — so they keep the closure -/
theorem later_writes_keep_closure :
    ∀ w ∈ Gen.OverrideCalls.otherWrites, w.1 ≠ "UnsupportedJSFeatureOverrides" ∧
      ∀ c ∈ calls, w.2 ≠ c.1 ∧ w.2 ∉ c.2 := by decide +kernel

/-! ## 2. feature gates -/

open Gen.FeatureGates in
/-- every reference to a `compat.JSFeature` constant outside the table has one of the reviewed syntactic roles, and
the numeric columns the summaries are computed from agree with the readable ones -/
theorem no_unclassified_reference :
    kindNames = knownKinds ∧ ∀ s ∈ sites, s.ki < knownKinds.length ∧ siteConsistent s = true := by decide +kernel

open Gen.FeatureGates in
/-- `markSyntaxFeature` never stays silent about an unsupported feature it is handed: every `case` and the `default`
end in an error or a warning, and the early exit is exactly "the feature is not unsupported" -/
theorem every_mark_reports :
    (∀ r ∈ markSwitch, r.2 ∈ reportingHandlings) ∧ markDefault ∈ reportingHandlings ∧ markGuard = expectedMarkGuard := by
  decide +kernel

/-- per feature: number of test sites, number of markSyntaxFeature sites and handling kind are the reviewed ones.
A gate that disappears (e.g. one deleted `markSyntaxFeature` call), appears, or changes kind breaks this. -/
theorem gates_as_reviewed : genSummary = expectedGates.map gateKey := by decide +kernel
/-- … and the one-pass count has seen every site (they are grouped by feature, in table order) -/
theorem gates_all_counted : genLeftover = [] := by decide +kernel

/- OPEN (FALSE of the code): `every_feature_has_a_gate : ∀ r ∈ genSummary, r.2.1 + r.2.2.1 > 0`.
   `Hashbang` is in the table (ES2023, Chrome 74, …) and has a `supported` name ("hashbang"), but nothing tests it:
   the `#!` line is emitted for every target and under `--supported:hashbang=false` (run on the real binary, see report). -/

/-- every feature of the table, except the reviewed exceptions, is tested or marked somewhere in the compiler
(rows of `genSummary` are (feature, test sites, mark sites, kind), one per constant of the table) -/
theorem every_feature_has_a_gate_partial :
    genSummary.map (·.1) = Gen.compatFeatures ∧ ∀ r ∈ genSummary, r.1 ∉ ungated → r.2.1 + r.2.2.1 > 0 := by
  rw [gates_as_reviewed]; decide +kernel

/-- the exception list is tight: those features really have no gate (when one appears this fails and the list shrinks) -/
theorem ungated_features_have_no_gate :
    ∀ f ∈ ungated, ∃ r ∈ genSummary, r.1 = f ∧ r.2.1 + r.2.2.1 = 0 := by
  rw [gates_as_reviewed]; decide +kernel

open Gen.FeatureGates in
/-- the six private-name features are gated through `compat.SymbolFeature`; each of them is in the table -/
theorem symbol_features_listed : ∀ f ∈ symbolFeatures, f ∈ Gen.compatFeatures := by decide +kernel

/-! ## 3. runtime helper text (`runtime.Source`) -/

open Gen.RuntimeGuards in
/-- in every variant of the helper source text, every syntax feature the token scanner finds in a text segment is
either inside a then-branch of `if !unsupportedJSFeatures.Has(F) …` for that very F, or is a feature the compiler only
ever branches on (it lowers it when the runtime file itself is parsed: arrows, `||=`, `?.`, `??`) and never reports
as "not supported yet". In particular the else-branches and the unconditional text contain no `for … of`, `let`,
`const`, getter/setter, computed key, method shorthand, class, generator, spread or rest. -/
theorem runtime_syntax_guarded : ∀ seg ∈ segments, segmentOK genSummary seg = true := by
  rw [gates_as_reviewed]; decide +kernel

open Gen.RuntimeGuards in
/-- non-vacuity: there are guarded segments that do use the guarded syntax, and unguarded text that uses lowerable syntax -/
example : (segments.any fun s => (guardsOf s).contains "ForOf" && s.features.contains "ForOf") = true ∧
    (segments.any fun s => (guardsOf s).isEmpty && s.features.contains "Arrow") = true ∧
    (segments.any fun s => (guardsOf s).contains "ObjectAccessors" && s.features.contains "ObjectAccessors") = true := by
  decide +kernel

open Gen.RuntimeGuards in
/-- hence, for EVERY set of unsupported features (every target, every combination of `supported` overrides): the text
`runtime.Source(unsupported)` selects contains no scanned syntax feature that is unsupported and that the parser reports
instead of lowering — `parseRuntime` does not hit "Internal error: failed to parse runtime" because of them. -/
theorem runtime_text_parses_for_every_target (unsupported : List String) :
    predictedErrors genSummary unsupported segments = [] :=
  predictedErrors_nil genSummary segments runtime_syntax_guarded unsupported

open Gen.RuntimeGuards in
/-- non-vacuity: the selection does depend on the target (ES5-like set: the `for … of` / `let` / accessor variants are
dropped), and a text with an unguarded `for … of` WOULD be reported -/
example : ((segments.filter (selected ["ForOf", "ConstAndLet", "ObjectAccessors", "Arrow"])).length,
           (segments.filter (selected [])).length) = (13, 13) ∧
    predictedErrors genSummary ["ForOf"] [⟨[], ["ForOf"], []⟩] = ["ForOf"] := by decide +kernel

open Gen.RuntimeGuards in
/-- guards only name features of the table -/
theorem runtime_guards_name_features :
    ∀ seg ∈ segments, (∀ c ∈ seg.conds, ∀ f ∈ c.2, f ∈ Gen.compatFeatures) ∧ (∀ f ∈ seg.features, f ∈ Gen.compatFeatures) := by
  decide +kernel

end EsbuildModel.C14Facts
