import EsbuildModel.Lemmas.IdentLexPrint
import EsbuildModel.Lemmas.IdentLexTables
/-!
C13 / C01 — printing identifiers (`canPrintIdentifier(UTF16)`, `printIdentifier` = `QuoteIdentifier` under ASCIIOnly,
`printIdentifierUTF16`) and reading them back with the lexer model.
-/
namespace EsbuildModel.Props.C13IdentPrint
open EsbuildModel.IdentLex
open EsbuildModel.Spec.JsIdentifier

/-- what passes the ES5-AND-ESNext tests (used by the printer) passes the ES5-OR-ESNext tests (used by the lexer);
met by the regenerated tables: `gen_both_subset` -/
def BothSubset (T : Tables) : Prop :=
  ∀ c, (isIdStartBoth T c = true → isIdStart T c = true) ∧ (isIdContBoth T c = true → isIdCont T c = true)

theorem chars_cp (l : List Nat) (h : ∀ c ∈ l, c ≠ 92) : (l.map Elem.char).map Elem.cp = l.map some := by
  induction l with
  | nil => rfl
  | cons c r ih =>
    simp only [List.map_cons, Elem.cp, h c (by simp), if_false, List.cons.injEq, true_and]
    exact ih (fun d hd => h d (by simp [hd]))

theorem keyword_printed_raw {name : List Nat} (h : isKeyword name = true) : (name.map quoteElem).all isCharElem = true := by
  have hm : name ∈ keywordList := by simpa [isKeyword] using h
  rw [List.all_eq_true]
  intro e he
  obtain ⟨c, hc, rfl⟩ := List.mem_map.1 he
  have := keyword_ascii name hm c hc
  have hr : 0x20 ≤ c ∧ c ≤ 0x7E := by
    simp only [asciiCont, asciiStart, Bool.or_eq_true, Bool.and_eq_true, beq_iff_eq, decide_eq_true_eq] at this; omega
  simp [quoteElem, hr, isCharElem]

/-- (3) ROUND TRIP: for every name `canPrintIdentifier` accepts — ASCII-only output on or off, `\u{…}` supported or not —
`printIdentifier` does not panic, and the lexer reads the printed text (followed by anything that cannot continue an
identifier) as ONE token of exactly that length with exactly that name and without an error: the keyword token if the name
is a keyword (`x.var`), TIdentifier otherwise, never TEscapedKeyword. -/
theorem print_identifier_roundtrip {T : Tables} {U : UnicodeProps} (A : Agree T U) (B : BothSubset T)
    (asciiOnly noUE atFileStart : Bool) (name rest : List Nat) (hname : ∀ c ∈ name, c ≤ 0x10FFFF)
    (hcan : canPrintIdentifier T asciiOnly noUE name = true)
    (hrest : ∀ c, rest.head? = some c → c ≠ 92 ∧ partChar U c = false) :
    ∃ out raw, printIdentifier asciiOnly noUE name = some out ∧
      next T atFileStart (out ++ rest) = .tok (if isKeyword name then .keyword else .ident) out.length name raw false := by
  simp only [canPrintIdentifier, Bool.and_eq_true] at hcan
  obtain ⟨hid, hopt⟩ := hcan
  obtain ⟨c0, tail, rfl, hs, ht⟩ := (isIdentifierWith_iff _ _ _).1 hid
  have hstart : startChar U c0 = true := by rw [← isIdStart_eq A]; exact (B c0).1 hs
  have hpart : ∀ d ∈ tail, partChar U d = true := fun d hd => by rw [← isIdCont_eq A]; exact (B d).2 (ht d hd)
  have h92 : ∀ c ∈ c0 :: tail, c ≠ 92 := by
    intro c hc h
    rcases List.mem_cons.1 hc with rfl | hc
    · have := (B c).1 hs; rw [h] at this; simp [isIdStart, asciiStart] at this
    · have := (B c).2 (ht c hc); rw [h, isIdCont_backslash] at this; cases this
  cases asciiOnly with
  | false =>
    refine ⟨c0 :: tail, true, rfl, ?_⟩
    have := next_elems A atFileStart ((c0 :: tail).map Elem.char) c0 tail rest (chars_cp _ h92) hname hstart hpart hrest
    rw [textOf_chars] at this
    have hall : ((c0 :: tail).map Elem.char).all isCharElem = true := by
      rw [List.all_eq_true]; intro e he; obtain ⟨c, _, rfl⟩ := List.mem_map.1 he; rfl
    rw [this, hall]
    simp only [if_true]
  | true =>
    have hq : noUE = false ∨ containsNonBMP (c0 :: tail) = false := by
      cases noUE with
      | false => exact Or.inl rfl
      | true => right; simpa using hopt
    have hcp : ((c0 :: tail).map quoteElem).map Elem.cp = (c0 :: tail).map some := by
      rw [List.map_map]
      apply List.map_congr_left
      intro c hc
      exact quoteElem_cp (h92 c hc) (hname c hc)
    refine ⟨textOf ((c0 :: tail).map quoteElem), ((c0 :: tail).map quoteElem).all isCharElem, ?_, ?_⟩
    · simp only [printIdentifier, if_true]; exact quoteIdentifier_eq noUE _ hq
    · rw [next_elems A atFileStart _ c0 tail rest hcp hname hstart hpart hrest]
      cases hk : isKeyword (c0 :: tail) with
      | true => rw [keyword_printed_raw hk]; simp
      | false => cases ((c0 :: tail).map quoteElem).all isCharElem <;> simp

/-- non-vacuity: `aé中` under ASCII-only output prints as `a\u00E9\u4E2D` and lexes back; an astral letter is in no ES5
table, so `a𝒜` is rejected (the caller quotes it) whatever the options, and so is `a-b` -/
example : canPrintIdentifier genTables true true [97, 0xE9, 0x4E2D] = true ∧
    printIdentifier true true [97, 0xE9, 0x4E2D] = some [97, 92, 117, 48, 48, 69, 57, 92, 117, 52, 69, 50, 68] ∧
    next genTables false ([97, 92, 117, 48, 48, 69, 57, 92, 117, 52, 69, 50, 68] ++ [58]) =
      .tok .ident 13 [97, 0xE9, 0x4E2D] false false := by decide +kernel
example : canPrintIdentifier genTables false false [97, 0x1D49C] = false ∧ canPrintIdentifier genTables false false [97, 45, 98] = false := by
  decide +kernel
example : BothSubset genTables := gen_both_subset

/-! ### the UTF-16 variant (property keys, string-keyed member access) -/

theorem emit_eq_quote (asciiOnly noUE : Bool) (name : List Nat) (h : ∀ c ∈ name, 0x20 ≤ c ∧ isSurrogate c = false) :
    name.foldr (fun c acc => match emitUTF16 asciiOnly noUE c, acc with
      | some a, some b => some (a ++ b)
      | _, _ => none) (some []) = printIdentifier asciiOnly noUE name := by
  induction name with
  | nil => cases asciiOnly <;> rfl
  | cons c r ih =>
    obtain ⟨h20, hs⟩ := h c (by simp)
    rw [List.foldr_cons, ih (fun d hd => h d (by simp [hd]))]
    cases asciiOnly with
    | false => simp [emitUTF16, printIdentifier, hs]
    | true =>
      simp only [printIdentifier, if_true, quoteIdentifier, emitUTF16, Bool.true_and]
      by_cases h7 : c > 0x7E
      · have : ¬ (0x20 ≤ c ∧ c ≤ 0x7E) := by omega
        simp only [h7, this, decide_true, if_true, if_false]
        cases escapeChar noUE c <;> cases quoteIdentifier noUE r <;> rfl
      · have : 0x20 ≤ c ∧ c ≤ 0x7E := by omega
        simp only [h7, this, decide_false, if_true, if_false, hs, Bool.false_eq_true]
        cases quoteIdentifier noUE r <;> rfl

/-- (3), UTF-16: for every key `canPrintIdentifierUTF16` accepts, `printIdentifierUTF16` does not panic and the printed text
lexes back as one token whose name is the key's code points (`helpers.UTF16ToString(key)`). -/
theorem print_identifier_utf16_roundtrip {T : Tables} {U : UnicodeProps} (A : Agree T U) (B : BothSubset T)
    (asciiOnly noUE atFileStart : Bool) (units rest : List Nat) (h16 : ∀ u ∈ units, u < 65536)
    (hcan : canPrintIdentifierUTF16 T asciiOnly noUE units = true)
    (hrest : ∀ c, rest.head? = some c → c ≠ 92 ∧ partChar U c = false) :
    ∃ out raw, printIdentifierUTF16 asciiOnly noUE units = some out ∧
      next T atFileStart (out ++ rest) =
        .tok (if isKeyword (joinUnits units) then .keyword else .ident) out.length (joinUnits units) raw false := by
  have hnb := containsNonBMPUTF16_eq units h16
  have hunits : ∀ c ∈ joinUnits units, c ≤ 0x10FFFF := joinUnits_le units h16
  have hcan' : canPrintIdentifier T asciiOnly noUE (joinUnits units) = true := by
    simpa [canPrintIdentifierUTF16, canPrintIdentifier, isIdentifierBothUTF16, hnb] using hcan
  obtain ⟨out, raw, hp, hn⟩ := print_identifier_roundtrip A B asciiOnly noUE atFileStart (joinUnits units) rest hunits hcan' hrest
  refine ⟨out, raw, ?_, hn⟩
  rw [← hp]
  unfold printIdentifierUTF16
  apply emit_eq_quote
  simp only [canPrintIdentifier, Bool.and_eq_true] at hcan'
  obtain ⟨c0, tail, heq, hs, ht⟩ := (isIdentifierWith_iff _ _ _).1 hcan'.1
  intro c hc
  rw [heq] at hc
  have hpc : partChar U c = true ∨ startChar U c = true := by
    rcases List.mem_cons.1 hc with rfl | hc
    · right; rw [← isIdStart_eq A]; exact (B c).1 hs
    · left; rw [← isIdCont_eq A]; exact (B c).2 (ht c hc)
  constructor
  · rcases hpc with h | h
    · rw [← isIdCont_eq A] at h
      by_cases h20 : c < 0x20
      · simp [isIdCont, asciiCont, asciiStart] at h; omega
      · omega
    · rw [← isIdStart_eq A] at h
      by_cases h20 : c < 0x20
      · simp [isIdStart, asciiStart] at h; omega
      · omega
  · cases hsur : isSurrogate c with
    | false => rfl
    | true =>
      obtain ⟨s1, s2⟩ := not_partChar_surrogate A.noSurrogates hsur
      rcases hpc with h | h
      · rw [s2] at h; cases h
      · rw [s1] at h; cases h

end EsbuildModel.Props.C13IdentPrint
