/-
Property C13, statement level: statement-start hazards of esbuild's printer.

  model   : Impl/StmtPrint.lean  (`printE` = printExpr with the start markers stmtStart / exportDefaultStart /
            forOfInitStart; `stmt`, `stmtsFrom`, `blockP`, `program` = printStmt, printBlock, printIf, printBody, the
            semicolon flag, transcribed from js_printer.go)
  spec    : Spec/StmtGrammar.lean (`exprStmtForbidden`, `exportDefaultForbidden`: the lookahead restrictions of
            ExpressionStatement and `export default`; `parseProgram`: reference statement parser, ASI-free)
  helpers : Lemmas/StmtPrint.lean

Proved here: `statement_start_safe` (all expression trees, every level, both modes). The round trip of whole statement
lists, the line-break theorem and the minified gluing theorem are stated below as OPEN; for them the evidence is the
correspondence kernel `stmtprint` (op `round`: the reference parser on the model's tokens against the real parser on
the real printer's text, which must also be the printed tree).
-/
import EsbuildModel.Lemmas.StmtPrint

namespace EsbuildModel.C13Stmt
open EsbuildModel.JsExpr EsbuildModel.PrecPrint EsbuildModel.JsStmt EsbuildModel.StmtPrint

theorem forbidden_of_head (ts : List Tok) (h1 : headOk .atStmt ts = true) (h2 : letBracket ts = false) :
    exprStmtForbidden ts = false := by
  match ts with
  | [] => rfl
  | [.ident n] => simpa [exprStmtForbidden, headOk, Start.atStmt, aObj, aFn, aCls, aAsyncFn] using h1
  | .ident n :: b :: r =>
    simp only [headOk, Start.atStmt, Bool.not_true, Bool.false_or, Bool.not_false, Bool.true_or, Bool.and_true,
      Bool.not_eq_eq_eq_not, Bool.or_eq_false_iff, beq_eq_false_iff_ne] at h1
    simp only [letBracket, Bool.and_eq_false_iff, beq_eq_false_iff_ne] at h2
    by_cases hb : b = .p .lbrack
    · subst hb
      have hn : n ≠ 0 := by
        rcases h2 with h | h
        · intro h0; exact h (by rw [h0])
        · exact absurd rfl h
      simp [exprStmtForbidden, aLet, aObj, aFn, aCls, aAsyncFn, hn, h1]
    · unfold exprStmtForbidden
      split
      · next heq => simp at heq; exact absurd heq.2.1 hb
      · next heq => simp at heq; simp [aObj, aFn, aCls, aAsyncFn, ← heq.1, h1]
      · rfl
  | .num _ :: _ => rfl
  | .p _ :: _ => rfl
  | .other _ :: _ => rfl

/-- **Statement-start safety.** For EVERY expression tree, with and without MinifyWhitespace:
(1) the tokens printed for an expression statement never start with a sequence that the lookahead restriction of
ExpressionStatement forbids — an object literal `{`, `function`, `class`, `async function`, or `let` followed by `[`
(which would be read as a block / declaration);
(2) the tokens printed after `export default` never start with `function`, `async function` or `class` (which would
be read as the declaration form);
(3) the initialiser of `for (` never starts with the identifier `let` (for, for-in and for-of). -/
theorem statement_start_safe (m : Bool) (e : Expr) :
    exprStmtForbidden (printE m e (lvl "LLowest") false false .atStmt false) = false ∧
    exportDefaultForbidden (printE m e (lvl "LComma") false false .atExportDefault false) = false ∧
    (∀ ofFlag, (printE m e (lvl "LLowest") true false .atForInit ofFlag).head? ≠ some (.ident aLet)) := by
  refine ⟨forbidden_of_head _ (printE_headOk e _ _ _ _ _) (printE_not_letBracket e _ _ _ _ _ rfl), ?_, fun o => ?_⟩
  · have h := printE_headOk (m := m) e (lvl "LComma") false false .atExportDefault false
    revert h
    cases printE m e (lvl "LComma") false false .atExportDefault false with
    | nil => intro _; rfl
    | cons a r =>
      cases a <;> simp [exportDefaultForbidden, headOk, Start.atExportDefault, aFn, aCls, aAsyncFn]
  · have h := printE_headOk (m := m) e (lvl "LLowest") true false .atForInit o
    revert h
    cases printE m e (lvl "LLowest") true false .atForInit o with
    | nil => intro _; simp
    | cons a r => cases a <;> simp [headOk, Start.atForInit, aLet]

/-! ### what the definitions compute (the parentheses are really there, and only where needed) -/

-- `let[1]` as a statement is printed `(let)[1]`; `x6[1]` and `let.x7` stay bare
example : printE false (.index (.ident 0) (.num 1)) 0 false false .atStmt false =
    [.p .lparen, .ident 0, .p .rparen, .p .lbrack, .num 1, .p .rbrack] := by decide +kernel
example : printE false (.index (.ident 6) (.num 1)) 0 false false .atStmt false =
    [.ident 6, .p .lbrack, .num 1, .p .rbrack] := by decide +kernel
example : printE true (.dot (.ident 0) 7) 0 false false .atStmt false = [.ident 0, .p .dot, .ident 7] := by decide +kernel
-- `{}.x7` / `function(){}()` as statements: only the literal is parenthesised; after `export default` an object literal is not
example : printE false (.dot (.ident 2) 7) 0 false false .atStmt false =
    [.p .lparen, .ident 2, .p .rparen, .p .dot, .ident 7] := by decide +kernel
example : printE false (.call (.ident 3) .nil) 1 false false .atExportDefault false =
    [.p .lparen, .ident 3, .p .rparen, .p .lparen, .p .rparen] := by decide +kernel
example : printE false (.ident 2) 1 false false .atExportDefault false = [.ident 2] := by decide +kernel
-- `for (async of …)`: parenthesised unless `for await`; `for (let …` always
example : printE false (.ident 1) 0 true false .atForInit true = [.p .lparen, .ident 1, .p .rparen] := by decide +kernel
example : printE false (.ident 1) 0 true false .atForInit false = [.ident 1] := by decide +kernel
example : printE false (.dot (.ident 0) 7) 0 true false .atForInit false =
    [.p .lparen, .ident 0, .p .rparen, .p .dot, .ident 7] := by decide +kernel
-- the grammar rejects the unparenthesised forms; the braces that printIf adds are accepted
example : parseProgram [.ident 0, .p .lbrack, .num 1, .p .rbrack, T ";"] = none := by decide +kernel
example : parseProgram [.ident 2, .p .dot, .ident 7, T ";"] = none := by decide +kernel
-- (dangling else, run through the driver: `stmtprint round 1 "1 J i6 I i7 E i8 E i9"` prints `if(x6){if(x7)x8}else x9` and
-- reads back `(P (J i6 (B (I i7 (E i8))) (E i9)))`; kernel evaluation of the string-keyed parser is too slow for an `example`)

/-
-- OPEN  parse_print_stmt : ∀ m ss, ss.ok = true → (no object literal as the left operand of a binary operator at a
--   statement start) → parseProgram (toks (program m ss)) = some (normBraces ss)
--   where normBraces puts the block `{ s }` where printIf adds braces (wrapToAvoidAmbiguousElse). Missing: the lemma that
--   `printE` differs from `PrecPrint.print` only by parentheses around the first token, the substitution of `( atom )` for
--   `atom` through the strata of the reference parser (to reuse C13Prec.parse_print), and the induction over statements.
-- OPEN  no_asi_dependence : every `Piece.nl` of `program false ss` directly follows one of `;` `{` `}` `)` `else` `do` `:`
--   (so none stands after return / throw / break / continue or before a postfix ++ / --), and `program true ss` has none.
-- OPEN  minified statements never glue: blanks are not modelled at the statement level (the kernel compares the real
--   lexer's tokens of the real minified output with the model's tokens, which detects any gluing on the sampled inputs).
-/

end EsbuildModel.C13Stmt
