import EsbuildModel.Lemmas.GlobSideEffects
/-!
# C04 — the `sideEffects` globs of package.json: property theorems

Model: `Impl/Glob.lean` (globstarToEscapedRegexp, the array loop of parsePackageJSON, the lookup, Go's UTF-8 layer in
front of `regexp`).  Specifications: `Spec/Glob.lean` (the glob dialect), `Spec/MiniRegex.lean` (the regexp fragment,
denotationally, with its parser and an executable matcher).  Helper lemmas: `Lemmas/MiniRegex.lean`, `Lemmas/Glob*.lean`.

Code points and bytes are naturals; every theorem is for ALL patterns and ALL paths (no length bound).
-/
namespace EsbuildModel.C04Glob
open EsbuildModel.Glob EsbuildModel.Spec.MiniRegex
open EsbuildModel.Spec.Unicode (IsScalar)
open EsbuildModel.Spec.Glob (globMatch tokens Tok)

/-! ## the regexp machine of the specification -/

/-- the executable matcher of Spec/MiniRegex decides the denotational meaning (`regexp.MatchString` semantics:
some factor of the subject is in the meaning, `^`/`$` seeing the real context) — for every regexp and subject -/
theorem miniregex_matcher_correct (re : Re) (s : List Nat) : matchString re s = true ↔ Matches re s :=
  matchString_iff re s

example : matchString (.seq .bol (.seq (.star .notSlash) .eol)) [97, 98] = true := by decide
example : ¬ Matches (.seq .bol (.seq (.star .notSlash) .eol)) [97, 47] := by
  rw [← miniregex_matcher_correct]; decide

/-! ## (3) totality -/

/-- `glob_total`: globstarToEscapedRegexp never indexes out of range and terminates, for every byte string; its
second result is "the pattern contains `*` or `?`" -/
theorem glob_total (glob : List Nat) : ∃ re, globstarToEscapedRegexp glob = .ok (re, hasWild glob) :=
  ⟨_, globstar_eq glob⟩

/-! ## (2) escaping -/

/-- `escape_complete`: whatever the pattern contains, the text that is written is inside the regexp fragment and
parses to the regexp `reOf (codeToks glob)`: `^`, one item per token, `$`, where a literal code point `c` of the
pattern is the leaf `chr c` and nothing else. The shape of the regexp depends only on where the `*` and `?` are:
no code point of the pattern (`\ ] - ^ $ | ( ) [ { + .`, non-ASCII, …) can introduce regexp syntax. -/
theorem escape_complete (glob re : List Nat) (w : Bool) (h : globstarToEscapedRegexp glob = .ok (re, w)) :
    parse re = some (reOf (codeToks glob)) := by
  rw [globstar_eq] at h
  injection h with h
  injection h with h1 _
  rw [← h1]
  exact parse_tokens _

/-- consequence: a pattern without `*` and `?` — full of metacharacters or not — matches itself and nothing else -/
theorem literal_pattern_matches_only_itself (glob path : List Nat) (h : hasWild glob = false) :
    Matches (reOf (codeToks glob)) path ↔ path = glob := by
  rw [matches_tokens, codeToks_no_wild glob h, codeMatch_lits]

example : hasWild [40, 97, 124, 98, 41, 43, 46, 92, 93] = false := by decide   -- `(a|b)+.\]`

/-! ## (1) what the regexp matches -/

/-- exact statement: the regexp written for `glob` matches exactly the paths of the IMPLEMENTED dialect
(`codeMatch`, Impl/Glob.lean: like the specified one, but `?` = any code point except U+000A, and a globstar also
swallows the rest of the path when the rest of the pattern can match the empty string) -/
theorem glob_regex_exact (glob re : List Nat) (w : Bool) (h : globstarToEscapedRegexp glob = .ok (re, w)) :
    ∃ R, parse re = some R ∧ ∀ path, matchString R path = codeMatch (codeToks glob) path := by
  refine ⟨_, escape_complete glob re w h, fun path => ?_⟩
  rw [Bool.eq_iff_iff, matchString_iff, matches_tokens]

-- OPEN `glob_regex_is_glob`: for ALL patterns, `matchString R path = globMatch glob path`. FALSE of the code, in both
-- directions; the three differences, each run on the real resolver (see the report):
--   * `a?b` matches `a/b`     (`?` is `.`, which matches `/`)                      — over-matching, keeps more files
--   * `a?b` does NOT match `a⏎b` (`.` does not match U+000A)                       — UNDER-matching: file dropped
--   * `a/**/` matches `a/x`   (`(?:/|$)` lets the globstar swallow the last segment) — over-matching
-- What holds is `glob_regex_is_glob_partial` (equality under the two hypotheses that exclude these cases) and
-- `glob_regex_sound` (the direction tree shaking needs, for all patterns, excluding only U+000A in the path).

/-- `glob_regex_is_glob_partial`: for a pattern without `?` that does not end with a `**/` globstar, a path matches
the generated regexp iff it matches the glob per Spec/Glob -/
theorem glob_regex_is_glob_partial (glob re : List Nat) (w : Bool) (h : globstarToEscapedRegexp glob = .ok (re, w))
    (h1 : 63 ∉ glob) (h2 : (tokens glob).getLast? ≠ some .dirs) :
    ∃ R, parse re = some R ∧ ∀ path, matchString R path = globMatch glob path := by
  obtain ⟨R, hR, hm⟩ := glob_regex_exact glob re w h
  refine ⟨R, hR, fun path => ?_⟩
  rw [hm]
  exact codeMatch_eq_spec (tokens glob) (one_not_mem_lex glob h1 true 0) ((lastNotDirs_iff _).mpr h2)
    (deepLast_lex glob true 0) path

/-- non-vacuity: `/pkg/**/*.js` meets the hypotheses -/
example : 63 ∉ [47, 112, 107, 103, 47, 42, 42, 47, 42, 46, 106, 115] ∧
    (tokens [47, 112, 107, 103, 47, 42, 42, 47, 42, 46, 106, 115]).getLast? ≠ some .dirs := by decide

/-- the hypotheses are needed (model level; the same inputs were run on the real code) -/
example : codeMatch (codeToks [97, 63, 98]) [97, 47, 98] = true ∧ globMatch [97, 63, 98] [97, 47, 98] = false := by decide
example : codeMatch (codeToks [97, 63, 98]) [97, 10, 98] = false ∧ globMatch [97, 63, 98] [97, 10, 98] = true := by decide
example : codeMatch (codeToks [97, 47, 42, 42, 47]) [97, 47, 120] = true ∧
    globMatch [97, 47, 42, 42, 47] [97, 47, 120] = false := by decide

/-- `glob_regex_sound` (the direction "tree shaking removes only unobservable code" needs): for EVERY pattern, a path
that the glob names per Spec/Glob and that contains no U+000A matches the generated regexp -/
theorem glob_regex_sound (glob re : List Nat) (w : Bool) (h : globstarToEscapedRegexp glob = .ok (re, w)) :
    ∃ R, parse re = some R ∧ ∀ path, globMatch glob path = true → 10 ∉ path → matchString R path = true := by
  obtain ⟨R, hR, hm⟩ := glob_regex_exact glob re w h
  refine ⟨R, hR, fun path hg hn => ?_⟩
  rw [hm]
  exact codeMatch_of_spec (tokens glob) (deepLast_lex glob true 0) path hn hg

example : globMatch [42, 42, 47, 42, 46, 99, 115, 115] [97, 47, 98, 47, 120, 46, 99, 115, 115] = true := by decide

/-! ## the byte level: what Go's `regexp.Compile` / `MatchString` do with the text -/

/-- `glob_regex_bytes`, for EVERY byte string as pattern (valid UTF-8 or not) and EVERY byte string as path: the
translator succeeds, and `regexp.Compile` of its text
  * either reports invalid UTF-8 (the text is not valid UTF-8; both call sites handle that, see below),
  * or succeeds, and then `MatchString` answers what the implemented dialect says about the pattern and the path as Go
    reads strings: code points, every ill-formed byte being U+FFFD.
It never answers anything else (the text is always inside the regexp fragment). -/
theorem glob_regex_bytes (glob : List Nat) :
    ∃ re, globstarToEscapedRegexp glob = .ok (re, hasWild glob) ∧
      ((validUTF8 re = false ∧ compile re = .invalidUTF8) ∨
       (validUTF8 re = true ∧ compile re = .ok (reOf (codeToks (runesOf glob))) ∧
          ∀ path, goMatch (reOf (codeToks (runesOf glob))) path = codeMatch (codeToks (runesOf glob)) (runesOf path))) := by
  obtain ⟨re, h1, h2⟩ := compile_globstar_any glob
  refine ⟨re, h1, ?_⟩
  cases hv : validUTF8 re with
  | false => left; rw [hv] at h2; exact ⟨rfl, h2⟩
  | true =>
    right
    rw [hv] at h2
    refine ⟨rfl, h2, fun path => ?_⟩
    unfold goMatch
    rw [Bool.eq_iff_iff, matchString_iff, matches_tokens]

/-- the valid case: for a pattern that is the UTF-8 of scalar values `rs`, compilation succeeds and the code points
are `rs` themselves -/
theorem glob_regex_bytes_valid (rs : List Nat) (hrs : ∀ cp ∈ rs, IsScalar cp) :
    ∃ re R, globstarToEscapedRegexp (utf8s rs) = .ok (re, hasWild rs) ∧ compile re = .ok R ∧
      ∀ path, goMatch R path = codeMatch (codeToks rs) (runesOf path) := by
  refine ⟨_, _, globstar_utf8 rs, compile_utf8 rs hrs, fun path => ?_⟩
  unfold goMatch
  rw [Bool.eq_iff_iff, matchString_iff, matches_tokens]

example : ∀ cp ∈ [47, 233, 42, 46, 106, 115], IsScalar cp := by decide     -- `/é*.js`

/-- the invalid case occurs: a lone surrogate in a JSON string (`"\ud800*"`), which `helpers.UTF16ToString` turns
into the bytes ED A0 80, gives a text that `regexp.Compile` refuses (before the fix ad9d60a: a panic) -/
example : Wtf8.utf16ToString [0xD800, 42] = some [0xED, 0xA0, 0x80, 42] ∧
    (∃ re, globstarToEscapedRegexp [0xED, 0xA0, 0x80, 42] = .ok (re, true) ∧ compile re = .invalidUTF8) := by
  refine ⟨by decide, _, globstar_eq _, by decide⟩

/-! ## the "sideEffects" array -/

/-- `sideeffects_no_panic`: the loop over the array never panics (and terminates), whatever the directory name and
the array items are — lone surrogates, bytes that are not UTF-8, metacharacters -/
theorem sideeffects_no_panic (dir : List Nat) (items : List (List Nat)) (hu : ∀ item ∈ items, ∀ u ∈ item, u < 65536) :
    ∃ se, parseSideEffects dir items { exact := [], regexps := [] } = .ok se :=
  parseSideEffects_total dir items hu _

example : ∀ item ∈ [[0xD800, 42], [42, 46, 99, 115, 115]], ∀ u ∈ item, u < 65536 := by decide

/-- an entry of the array keeps the files it names, for ALL patterns: if `item` is one of the entries and `ap` its
absolute pattern (any bytes), then
  * with a wildcard: every path that the glob names per Spec/Glob — pattern and path read as Go reads strings (code
    points, ill-formed bytes = U+FFFD), no U+000A in the path — is reported as having side effects
    (when the pattern text is not valid UTF-8, EVERY path is: `sideeffects_invalid_utf8_keeps_all`);
  * without wildcard: the path equal to the pattern is.
(`hasSideEffects = true` means the file is NOT marked as removable-when-unused.) -/
theorem sideeffects_entry_keeps_file (dir : List Nat) (items : List (List Nat)) (se : SideEffects)
    (h : parseSideEffects dir items { exact := [], regexps := [] } = .ok se)
    (item : List Nat) (hitem : item ∈ items) (pat : List Nat) (hu : Wtf8.utf16ToString item = some pat)
    (path : List Nat) :
    (hasWild (absPattern dir pat) = true →
        globMatch (runesOf (absPattern dir pat)) (runesOf (backslashToSlash path)) = true →
        10 ∉ runesOf (backslashToSlash path) → hasSideEffects se path = true) ∧
    (hasWild (absPattern dir pat) = false → backslashToSlash path = absPattern dir pat → hasSideEffects se path = true) := by
  obtain ⟨_, _, hc⟩ := parseSideEffects_spec dir items _ se h
  obtain ⟨pat', re, w, hu', hg, hw1, hw0⟩ := hc item hitem
  rw [hu] at hu'
  injection hu' with hu'
  subst hu'
  obtain ⟨re', hg', hcomp⟩ := compile_globstar_any (absPattern dir pat)
  rw [hg'] at hg
  injection hg with hg
  injection hg with hre hw
  subst hre hw
  constructor
  · intro hwild hm hn
    unfold hasSideEffects
    simp only [Bool.or_eq_true, List.any_eq_true]
    right
    rcases hw1 hwild with ⟨R, hR, hmem⟩ | ⟨_, hmem⟩
    · refine ⟨R, hmem, ?_⟩
      rw [hcomp] at hR
      split at hR
      · injection hR with hR
        subst hR
        unfold goMatch
        rw [matchString_iff, matches_tokens]
        exact codeMatch_of_spec (tokens _) (deepLast_lex _ true 0) _ hn hm
      · cases hR
    · exact ⟨emptyRegexp, hmem, goMatch_emptyRegexp _⟩
  · intro hwild hp
    have := hw0 hwild
    unfold hasSideEffects
    simp only [Bool.or_eq_true]
    left
    rw [hp]
    exact List.elem_eq_true_of_mem this

/-- a wildcard entry whose regexp text is not valid UTF-8 keeps EVERY file of the package -/
theorem sideeffects_invalid_utf8_keeps_all (dir : List Nat) (items : List (List Nat)) (se : SideEffects)
    (h : parseSideEffects dir items { exact := [], regexps := [] } = .ok se)
    (item : List Nat) (hitem : item ∈ items) (pat : List Nat) (hu : Wtf8.utf16ToString item = some pat)
    (re : List Nat) (hre : globstarToEscapedRegexp (absPattern dir pat) = .ok (re, true)) (hinv : validUTF8 re = false)
    (path : List Nat) : hasSideEffects se path = true := by
  obtain ⟨_, _, hc⟩ := parseSideEffects_spec dir items _ se h
  obtain ⟨pat', re', w, hu', hg, hw1, _⟩ := hc item hitem
  rw [hu] at hu'
  injection hu' with hu'
  subst hu'
  rw [hre] at hg
  injection hg with hg
  injection hg with h1 h2
  subst h1 h2
  unfold hasSideEffects
  simp only [Bool.or_eq_true, List.any_eq_true]
  right
  rcases hw1 rfl with ⟨R, hR, _⟩ | ⟨_, hmem⟩
  · unfold compile at hR
    rw [hinv] at hR
    cases hR
  · exact ⟨emptyRegexp, hmem, goMatch_emptyRegexp _⟩

/-- non-vacuity: `"sideEffects": ["*.css"]` in `/p`: the loop succeeds, the absolute pattern is `/p/**/*.css`,
`/p/a/x.css` is kept and `/p/a/x.js` is not -/
example : ∃ se, parseSideEffects [47, 112] [[42, 46, 99, 115, 115]] { exact := [], regexps := [] } = .ok se ∧
    absPattern [47, 112] [42, 46, 99, 115, 115] = [47, 112, 47, 42, 42, 47, 42, 46, 99, 115, 115] ∧
    hasSideEffects se [47, 112, 47, 97, 47, 120, 46, 99, 115, 115] = true ∧
    hasSideEffects se [47, 112, 47, 97, 47, 120, 46, 106, 115] = false := by
  refine ⟨{ exact := [], regexps := [reOf (codeToks [47, 112, 47, 42, 42, 47, 42, 46, 99, 115, 115])] },
    by decide, by decide, by decide, by decide⟩

/-- non-vacuity of the invalid case: `"sideEffects": ["\ud800*"]` in `/p` keeps `/p/x.js` (and everything else) -/
example : ∃ se, parseSideEffects [47, 112] [[0xD800, 42]] { exact := [], regexps := [] } = .ok se ∧
    hasSideEffects se [47, 112, 47, 120, 46, 106, 115] = true := by
  refine ⟨{ exact := [], regexps := [emptyRegexp] }, by decide, by decide⟩

end EsbuildModel.C04Glob
