import EsbuildModel.Lemmas.Fold
/-! # C03 / C06 — compile-time evaluation gives exactly the value the language assigns: property theorems

Model: `Impl/Fold.lean` (FoldBinaryOperator, CheckEqualityIfNoSideEffects, the unary folds of the parser,
ToNumber/ToString/typeof/ToBoolean helpers, StringToEquivalentNumberValue, stringCompareUCS2).
Specification: `Spec/JsArith.lean` (ECMA-262). `eval`, `Wf`, `ValueSame`, `specOp`: `Lemmas/Fold.lean`;
`PowLaws`: `Lemmas/FoldPow.lean`; `Mant53`: `Lemmas/FoldNum.lean`.

Every theorem quantifies over ALL operands: every float64 (as exact dyadic, every NaN/±0/±∞/subnormal), every
UTF-16 string, every value `G` of Go's unspecified out-of-range float→int32 conversion, every environment for
the opaque operands, every instance `P` of the IEEE operations shared by Go and JavaScript. -/
namespace EsbuildModel.C03Fold
open EsbuildModel F64 EsbuildModel.Fold EsbuildModel.Spec.JsArith

/-- `fold_binary_correct`: whenever FoldBinaryOperator folds `l op r` to an expression `res`, ECMA-262 assigns a
value to `l op r` and `res` evaluates to exactly that value (same float64, same string, same boolean; for
`&& || ??` the operand the language selects). Covers `+ - * /` (IEEE parameter), `%` (exact remainder and its
NaN / ±∞ / ±0 cases), `**` (all special cases of Number::exponentiate), `<< >> >>>` and `& | ^` for every
float64 through ToInt32/ToUint32, `< > <= >=` on numbers (NaN) and on strings (code-unit order), `== != === !==`
on numbers and strings, `&& || ??`. -/
theorem fold_binary_correct (P : Params) (hP : PowLaws P) (G : F64 → Int) (env : Nat → Value)
    (op : Op) (l r res : Expr) (hl : Wf l) (hr : Wf r)
    (h : foldBinaryOperator P.toArith G op l r = .folded res) :
    ∃ v, binary P (specOp op) (eval env l) (eval env r) = some v ∧ ValueSame (eval env res) v :=
  foldBinary_correct P hP G env op l r res hl hr h

/-- the index arithmetic of stringCompareUCS2 never leaves the slices: no operand makes the fold panic -/
theorem fold_binary_never_panics (A : Arith) (G : F64 → Int) (op : Op) (l r : Expr) :
    foldBinaryOperator A G op l r ≠ .panic := foldBinary_no_panic A G op l r

/-- `fold_unary_correct`: whenever the parser folds `op v` (`! void + - ~ typeof` on a literal operand) to `res`,
the language assigns a value to `op v` and `res` evaluates to it; with or without MinifySyntax. -/
theorem fold_unary_correct (G : F64 → Int) (env : Nat → Value) (minify fold : Bool) (op : UOp) (v res : Expr)
    (hw : Wf v) (h : foldUnary G minify fold op v = some res) :
    ∃ val, unary (specUOp op) (eval env v) = some val ∧ ValueSame (eval env res) val :=
  foldUnary_correct G env minify fold op v res hw h

/-- `check_equality_correct`: when CheckEqualityIfNoSideEffects knows the answer, it is IsStrictlyEqual /
IsLooselyEqual of the two operand values (null == undefined, boolean vs number through ToNumber, BigInt
literals by value, +0 == −0, NaN ≠ NaN; for every full StringToNumber / StringToBigInt in `P`). -/
theorem check_equality_correct (P : Params) (env : Nat → Value) (strict : Bool) (l r : Expr) (b : Bool)
    (hl : Wf l) (hr : Wf r) (h : checkEqualityIfNoSideEffects strict l r = some b) :
    (if strict then strictlyEqual (eval env l) (eval env r) else looselyEqual P (eval env l) (eval env r))
      = some b := checkEquality_correct P env strict l r b hl hr h

/-- `pow_special_cases`: esbuild's own checks in front of Go's `math.Pow`, together with the special cases of
`math.Pow`, are Number::exponentiate for EVERY base and every float64 exponent: `x ** NaN`, `(±1) ** ±∞`,
`x ** ±0`, `NaN ** y`, `(±∞) ** y`, `(±0) ** y` with odd / even / fractional y, `x ** ±∞` by |x| <,=,> 1,
negative base with fractional exponent. -/
theorem pow_special_cases (P : Params) (hP : PowLaws P) (a b : F64) (hb : Mant53 b) :
    same (foldPow P.toArith a b) (exponentiate P a b) := pow_correct P hP a b hb

/-- `rem_special_cases`: Go's `math.Mod` is Number::remainder for every pair of dyadic values: NaN for a NaN
operand, an infinite dividend or a zero divisor; the dividend for an infinite divisor; the exact truncating
remainder with the sign of the dividend otherwise (so `-5 % 5` is −0). -/
theorem rem_special_cases (x y : F64) : same (goMod x y) (remainder x y) := rem_correct x y

/-- the shift and bit operators on Go int32 / uint32 equal the ECMA-262 operators for EVERY float64 operand
(any shift count: negative, ≥ 32, fractional, NaN, ±∞) -/
theorem shifts_and_bitops_correct (G : F64 → Int) (a b : F64) :
    ofInt32 (toInt32 G a <<< shiftAmount G b) = leftShift a b ∧
    ofInt32 ((toInt32 G a).sshiftRight (shiftAmount G b)) = signedRightShift a b ∧
    ofUint32 (toUint32 G a >>> shiftAmount G b) = unsignedRightShift a b ∧
    ofInt32 (toInt32 G a &&& toInt32 G b) = numberBitwise (· &&& ·) a b ∧
    ofInt32 (toInt32 G a ||| toInt32 G b) = numberBitwise (· ||| ·) a b ∧
    ofInt32 (toInt32 G a ^^^ toInt32 G b) = numberBitwise (· ^^^ ·) a b ∧
    ofInt32 (~~~ (toInt32 G a)) = bitwiseNOT a :=
  ⟨shl_correct G a b, shr_correct G a b, ushr_correct G a b, band_correct G a b, bor_correct G a b,
   bxor_correct G a b, cpl_correct G a⟩

/-- Go's `< <= > >= == !=` on float64 are the relational and equality operators of ECMA-262 on Numbers, for
every pair (NaN makes all but `!=` false; +0 equals −0) -/
theorem number_comparisons_correct (a b : F64) :
    ieeeLt a b = (lessThan a b).getD false ∧ ieeeGt a b = (lessThan b a).getD false ∧
    ieeeLe a b = falseResult (lessThan b a) ∧ ieeeGe a b = falseResult (lessThan a b) ∧
    ieeeEq a b = numberEqual a b :=
  ⟨lt_correct a b, by simp [ieeeGt, lt_correct], le_correct a b, ge_correct a b, eq_correct a b⟩

/-- `string_compare_correct`: for every pair of UTF-16 strings (lone surrogates included) stringCompareUCS2
returns an integer whose sign is the ECMA-262 code-unit order: negative iff a < b, positive iff b < a, zero
iff equal -/
theorem string_compare_correct (a b : List Nat) :
    ∃ d, stringCompareUCS2 a b = some d ∧ (d < 0 ↔ stringLessThan a b = true) ∧
      (d > 0 ↔ stringLessThan b a = true) ∧ (d = 0 ↔ a = b) :=
  ⟨cmpList a b, stringCompareUCS2_eq a b, cmpList_neg a b, cmpList_pos a b, cmpList_zero a b⟩

/-- `toNumber_sound`: for the literal kinds ToNumberWithoutSideEffects accepts, the result is ToNumber -/
theorem toNumber_sound (env : Nat → Value) (e : Expr) (n : F64) (hw : Wf e)
    (h : toNumberWithoutSideEffects e = some n) : toNumber (eval env e) = some n :=
  toNumber_correct env e n hw h

/-- `toString_sound`: for the literal kinds ToStringWithoutSideEffects accepts, the result is ToString (int32
range numbers, NaN, ±Infinity, −0 ↦ "0", canonical BigInt literals, null, undefined, booleans, RegExp) -/
theorem toString_sound (G : F64 → Int) (hG : ∀ f, -2147483648 ≤ G f ∧ G f < 2147483648)
    (env : Nat → Value) (e : Expr) (s : List Nat) (hw : Wf e)
    (h : toStringWithoutSideEffects G e = some s) : Spec.JsArith.toString (eval env e) = some s :=
  toString_correct G hG env e s hw h

/-- `stringToEquivalentNumberValue_sound`: for EVERY string, if StringToEquivalentNumberValue returns n then
ToString(n) is that string and StringToNumber(string) is n (the int32 overflow of the digit loop is harmless) -/
theorem stringToEquivalentNumberValue_sound (s : List Nat) (n : F64)
    (h : stringToEquivalentNumberValue s = some n) :
    numberToString n = some s ∧ stringToNumber s = some n := by
  obtain ⟨iv, h1, h2, rfl, rfl⟩ := stringToEquivalentNumberValue_spec s n h
  exact ⟨numberToString_ofInt iv (by omega), stringToNumber_formatInt iv (by omega)⟩

/-- typeof, ToBoolean and "is null or undefined" of a literal, when known, are the language's -/
theorem typeof_sound (env : Nat → Value) (e : Expr) (s : List Nat)
    (h : typeofWithoutSideEffects e = some s) : typeof (eval env e) = s := typeof_correct env e s h

theorem toBoolean_sound (env : Nat → Value) (e : Expr) (b se : Bool) (hw : Wf e)
    (h : toBooleanWithSideEffects e = some (b, se)) : toBoolean (eval env e) = b :=
  toBoolean_correct env e b se hw h

theorem toNullOrUndefined_sound (env : Nat → Value) (e : Expr) (b se : Bool)
    (h : toNullOrUndefinedWithSideEffects e = some (b, se)) :
    (eval env e = .undef ∨ eval env e = .null) ↔ b = true := toNullOrUndefined_correct env e b se h

-- ---------------------------------------------------------------- non-vacuity

/-- an instance of the parameters that satisfies `PowLaws` (so the hypotheses are not contradictory) -/
def exampleParams : Params :=
  { add := fun a _ => a, sub := fun a _ => a, mul := fun a _ => a, div := fun a _ => a
    pow := fun x y => if ieeeEq x one then one else if ieeeEq y one then x else .nan
    stringToNumber := fun _ => .nan
    stringToBigInt := fun _ => none }

theorem exampleParams_laws : PowLaws exampleParams := by
  constructor
  · intro x y h; simp [exampleParams, h]
  · intro x y h
    simp only [exampleParams, h, if_true]
    split
    · rename_i hx
      cases x with
      | nan => simp [ieeeEq] at hx
      | inf n => simp [ieeeEq] at hx
      | fin n m e =>
        have hn := (eq_one_facts n m e hx).1
        subst hn
        simp only [ieeeEq, finEq_iff, scaled_eq, Bool.false_eq_true, if_false] at hx
        simp only [same, true_and]
        exact Int.ofNat.inj hx
    · exact same_refl _

def exG : F64 → Int := fun _ => -2147483648
def exEnv : Nat → Value := fun _ => .undef

/-- operands that meet `Wf`: the doubles 1, 31, −5, 5, NaN, 2^53+2; the BigInt literals 0x10 and 16 -/
example : Wf (.num (ofBits 0x3ff0000000000000)) ∧ Wf (.num (ofBits 0x403f000000000000)) ∧
    Wf (.inlinedEnum (.num (ofBits 0xc014000000000000))) ∧ Wf (.bigint [48, 120, 49, 48]) ∧ Wf (.bigint [49, 54]) ∧
    Wf (.annot (.ident 0) true) ∧ Wf (.regexp [47, 97, 47]) :=
  ⟨mant53_ofBits _, mant53_ofBits _, by simp only [Wf]; exact mant53_ofBits _,
   by show (bigintLiteralValue _).isSome = true; decide, by show (bigintLiteralValue _).isSome = true; decide,
   ⟨trivial, rfl⟩, rfl⟩

/-- `1 << 31` folds to −2147483648, `-5 % 5` to −0, `(-1) ** Infinity` to NaN, `"a" < "ab"` to true,
`null ?? 1` to 1: the hypothesis `= .folded res` of `fold_binary_correct` is met by non-trivial inputs -/
example : foldBinaryOperator exampleParams.toArith exG .shl (.num (ofBits 0x3ff0000000000000)) (.num (ofBits 0x403f000000000000))
    = .folded (.num (ofInt (-2147483648))) := by decide
example : foldBinaryOperator exampleParams.toArith exG .rem (.num (ofBits 0xc014000000000000)) (.num (ofBits 0x4014000000000000))
    = .folded (.num (.fin true 0 (-50))) := by decide
example : foldBinaryOperator exampleParams.toArith exG .pow (.num (ofBits 0xbff0000000000000)) (.num (ofBits 0x7ff0000000000000))
    = .folded (.num .nan) := by decide
example : foldBinaryOperator exampleParams.toArith exG .lt (.str [97]) (.inlinedEnum (.str [97, 98]))
    = .folded (.bool true) := by decide
example : foldBinaryOperator exampleParams.toArith exG .nullish .null (.num (ofBits 0x3ff0000000000000))
    = .folded (.num (ofBits 0x3ff0000000000000)) := by decide

/-- `~"5"` folds to −6, `-"12"` to −12, `typeof 1n` to "bigint", `!0n` to true -/
example : foldUnary exG true true .cpl (.str [53]) = some (.num (ofInt (-6))) := by decide
example : foldUnary exG false false .neg (.str [49, 50]) = some (.num (.fin true 12 0)) := by decide
example : foldUnary exG false false .typeof (.bigint [49]) = some (.str [98, 105, 103, 105, 110, 116]) := by decide
example : foldUnary exG true true .not (.bigint [48]) = some (.bool true) := by decide

/-- equality answers that are known: `0x10n == 16n` is not (radix), `16n === 17n` is false, `null == undefined`,
`true == 1` -/
example : checkEqualityIfNoSideEffects true (.bigint [49, 54]) (.bigint [49, 55]) = some false := by decide
example : checkEqualityIfNoSideEffects false (.bigint [48, 120, 49, 48]) (.bigint [49, 54]) = none := by decide
example : checkEqualityIfNoSideEffects false .null (.inlinedEnum .undef) = some true := by decide
example : checkEqualityIfNoSideEffects false (.bool true) (.num (ofBits 0x3ff0000000000000)) = some true := by decide

/-- `"-2147483648"` is accepted, `"2147483648"` (int32 overflow), `"-0"` and `"007"` are rejected -/
example : stringToEquivalentNumberValue [45, 50, 49, 52, 55, 52, 56, 51, 54, 52, 56] = some (ofInt (-2147483648)) := by
  decide +kernel
example : stringToEquivalentNumberValue [50, 49, 52, 55, 52, 56, 51, 54, 52, 56] = none := by decide +kernel
example : stringToEquivalentNumberValue [45, 48] = none := by decide
example : stringToEquivalentNumberValue [48, 48, 55] = none := by decide

/-- ToString of −0 is "0", of 2^31 is not attempted -/
example : toStringWithoutSideEffects exG (.num (.fin true 0 0)) = some [48] := by decide
example : toStringWithoutSideEffects exG (.num (ofBits 0x41e0000000000000)) = none := by decide

/-- the specification itself: 2 ** ±∞, (−0) ** −3, 5.5 % −2 = 1.5, −1 >>> 0 = 4294967295, 1 << 33 = 2 -/
example : exponentiate exampleParams (ofBits 0x4000000000000000) (.inf true) = zero := by decide
example : exponentiate exampleParams (.fin true 0 0) (.fin true 3 0) = .inf true := by decide
example : remainder (.fin false 11 (-1)) (.fin true 2 0) = .fin false 3 (-1) := by decide
example : unsignedRightShift (.fin true 1 0) zero = ofInt 4294967295 := by decide
example : leftShift one (.fin false 33 0) = ofInt 2 := by decide

end EsbuildModel.C03Fold
