import EsbuildModel.Impl.Ctx
/-!
C20 — build contexts are safe under concurrency: theorems about the context state machine (Impl/Ctx.lean) for
every number of threads and every interleaving (an interleaving is a list of atomic actions; the theorems are
by induction over it, with no bound on its length).

Tied to the code by history correspondence: real goroutines hammer a real context; every observed history
(call/return stamps, build start/end stamps, which build's result each Rebuild returned) is replayed against
this state machine by the driver (kernel `ctx`).  Data races, the watch/serve paths and the stdio service are
not modelled (search c20-race: race detector, plugin callback ordering, service ids).
-/
namespace EsbuildModel.Ctx

structure Inv (s : State) : Prop where
  active_ok : ∀ b, s.active = some b → b < s.nbuilds ∧ (s.builds b).done = false ∧ s.pcs (s.builds b).owner = .running b
  running_ok : ∀ t b, s.pcs t = .running b → s.active = some b ∧ (s.builds b).owner = t
  waiting_ok : ∀ t b, waitingOn (s.pcs t) = some b → b < s.nbuilds
  undone_ok : ∀ b, b < s.nbuilds → (s.builds b).done = false → s.active = some b

theorem inv_init : Inv init := by
  constructor <;> intros <;> simp_all [init, waitingOn]

theorem pcs_setPc (s : State) (t u : Nat) (p : Pc) : (setPc s t p).pcs u = if u = t then p else s.pcs u := rfl

theorem inv_step (s s' : State) (a : Action) (h : Inv s) (hs : step s a = some s') : Inv s' := by
  obtain ⟨hA, hB, hC, hD⟩ := h
  cases a with
  | edit =>
    simp only [step, Option.some.injEq] at hs; subst hs
    exact ⟨hA, hB, hC, hD⟩
  | callRebuild t =>
    simp only [step] at hs
    split at hs
    · simp at hs
    · next hidle =>
      have hidle' : s.pcs t = .idle := by simpa using hidle
      split at hs
      · simp only [Option.some.injEq] at hs; subst hs
        refine ⟨?_, ?_, ?_, ?_⟩
        · intro b hb
          have := hA b hb
          refine ⟨this.1, this.2.1, ?_⟩
          simp only [setPc]
          split
          · next heq => rw [heq, hidle'] at this; simp at this
          · exact this.2.2
        · intro u b hu
          simp only [setPc] at hu
          split at hu
          · simp at hu
          · exact hB u b hu
        · intro u b hu
          simp only [setPc] at hu
          split at hu
          · simp [waitingOn] at hu
          · exact hC u b hu
        · exact hD
      · cases hact : s.active with
        | some b =>
          simp only [hact, Option.some.injEq] at hs; subst hs
          refine ⟨?_, ?_, ?_, ?_⟩
          · intro c hc
            have := hA c hc
            refine ⟨this.1, this.2.1, ?_⟩
            simp only [setPc]
            split
            · next heq => rw [heq, hidle'] at this; simp at this
            · exact this.2.2
          · intro u c hu
            simp only [setPc] at hu
            split at hu
            · simp at hu
            · exact hB u c hu
          · intro u c hu
            simp only [setPc] at hu
            split at hu
            · simp only [waitingOn, Option.some.injEq] at hu; subst hu; exact (hA b hact).1
            · exact hC u c hu
          · exact hD
        | none =>
          simp only [hact, Option.some.injEq] at hs; subst hs
          refine ⟨?_, ?_, ?_, ?_⟩
          · intro c hc
            simp only [setPc, setBuild, Option.some.injEq] at hc ⊢
            subst hc
            simp
          · intro u c hu
            simp only [setPc, setBuild] at hu ⊢
            split at hu
            · next heq => simp only [Pc.running.injEq] at hu; subst hu; subst heq; simp
            · have := hB u c hu; rw [hact] at this; simp at this
          · intro u c hu
            simp only [setPc, setBuild] at hu ⊢
            split at hu
            · simp [waitingOn] at hu
            · have := hC u c hu; omega
          · intro c hc hdone
            simp only [setPc, setBuild] at hc hdone ⊢
            split at hdone
            · next heq => rw [heq]
            · next hne =>
              have hc' : c < s.nbuilds := by omega
              have := hD c hc' hdone; rw [hact] at this; simp at this
  | callCancel t =>
    simp only [step] at hs
    split at hs
    · simp at hs
    · next hidle =>
      have hidle' : s.pcs t = .idle := by simpa using hidle
      have keep : ∀ (p : Pc), (∀ b, waitingOn p = some b → b < s.nbuilds) → (∀ b, p ≠ .running b) → Inv (setPc s t p) := by
        intro p hp hnr
        refine ⟨?_, ?_, ?_, hD⟩
        · intro b hb
          have := hA b hb
          refine ⟨this.1, this.2.1, ?_⟩
          simp only [setPc]
          split
          · next heq => rw [heq, hidle'] at this; simp at this
          · exact this.2.2
        · intro u b hu
          simp only [setPc] at hu
          split at hu
          · exact absurd hu (hnr b)
          · exact hB u b hu
        · intro u b hu
          simp only [setPc] at hu
          split at hu
          · exact hp b hu
          · exact hC u b hu
      split at hs
      · simp only [Option.some.injEq] at hs; subst hs
        exact keep _ (by intro b hb; simp [waitingOn] at hb) (by intro b; simp)
      · cases hact : s.active with
        | none =>
          simp only [hact, Option.some.injEq] at hs; subst hs
          exact keep _ (by intro b hb; simp [waitingOn] at hb) (by intro b; simp)
        | some b =>
          simp only [hact, Option.some.injEq] at hs; subst hs
          have hAb := hA b hact
          refine ⟨?_, ?_, ?_, ?_⟩
          · intro c hc
            simp only [setPc, setBuild] at hc ⊢
            have hcb : c = b := by rw [hact] at hc; exact (Option.some.inj hc).symm
            subst hcb
            refine ⟨hAb.1, by simpa using hAb.2.1, ?_⟩
            simp only [if_true]
            split
            · next heq => rw [heq, hidle'] at hAb; simp at hAb
            · exact hAb.2.2
          · intro u c hu
            simp only [setPc, setBuild] at hu ⊢
            split at hu
            · simp at hu
            · have := hB u c hu
              refine ⟨this.1, ?_⟩
              split
              · next heq => subst heq; exact this.2
              · exact this.2
          · intro u c hu
            simp only [setPc, setBuild] at hu ⊢
            split at hu
            · simp only [waitingOn, Option.some.injEq] at hu; subst hu; exact hAb.1
            · exact hC u c hu
          · intro c hc hdone
            simp only [setPc, setBuild] at hc hdone ⊢
            split at hdone
            · next heq => subst heq; exact hact
            · exact hD c hc hdone
  | callDispose t =>
    simp only [step] at hs
    split at hs
    · simp at hs
    · next hidle =>
      have hidle' : s.pcs t = .idle := by simpa using hidle
      have keep : ∀ (d : Bool) (p : Pc), (∀ b, waitingOn p = some b → b < s.nbuilds) → (∀ b, p ≠ .running b) →
          Inv (setPc { s with disposed := d } t p) := by
        intro d p hp hnr
        refine ⟨?_, ?_, ?_, hD⟩
        · intro b hb
          have := hA b hb
          refine ⟨this.1, this.2.1, ?_⟩
          simp only [setPc]
          split
          · next heq => rw [heq, hidle'] at this; simp at this
          · exact this.2.2
        · intro u b hu
          simp only [setPc] at hu
          split at hu
          · exact absurd hu (hnr b)
          · exact hB u b hu
        · intro u b hu
          simp only [setPc] at hu
          split at hu
          · exact hp b hu
          · exact hC u b hu
      split at hs
      · simp only [Option.some.injEq] at hs; subst hs
        have := keep s.disposed (.returned none) (by intro b hb; simp [waitingOn] at hb) (by intro b; simp)
        simpa using this
      · cases hact : s.active with
        | none =>
          simp only [hact, Option.some.injEq] at hs; subst hs
          have := keep true (.returned none) (by intro b hb; simp [waitingOn] at hb) (by intro b; simp)
          rw [hact] at this; exact this
        | some b =>
          simp only [hact, Option.some.injEq] at hs; subst hs
          have := keep true (.disposeWait b) (by intro c hc; simp only [waitingOn, Option.some.injEq] at hc; subst hc; exact (hA b hact).1) (by intro c; simp)
          rw [hact] at this; exact this
  | finish t =>
    simp only [step] at hs
    cases hpc : s.pcs t with
    | running b =>
      simp only [hpc, Option.some.injEq] at hs; subst hs
      have hBt := hB t b hpc
      refine ⟨?_, ?_, ?_, ?_⟩
      · intro c hc; simp [setPc, setBuild] at hc
      · intro u c hu
        simp only [setPc, setBuild] at hu
        split at hu
        · simp at hu
        · have := hB u c hu
          have hcb : c = b := by rw [hBt.1] at this; exact (Option.some.inj this.1).symm
          subst hcb
          have : u = t := by rw [← this.2, hBt.2]
          contradiction
      · intro u c hu
        simp only [setPc, setBuild] at hu ⊢
        split at hu
        · simp [waitingOn] at hu
        · exact hC u c hu
      · intro c hc hdone
        simp only [setPc, setBuild] at hc hdone ⊢
        split at hdone
        · simp at hdone
        · next hne =>
          have := hD c hc hdone
          rw [hBt.1] at this
          exact absurd (Option.some.inj this).symm hne
    | idle => simp [hpc] at hs
    | joined b => simp [hpc] at hs
    | cancelWait b => simp [hpc] at hs
    | disposeWait b => simp [hpc] at hs
    | returned r => simp [hpc] at hs
  | resume t =>
    simp only [step] at hs
    have keep : ∀ (p : Pc), (∀ b, s.pcs t ≠ .running b) → (∀ b, waitingOn p ≠ some b) → (∀ b, p ≠ .running b) → Inv (setPc s t p) := by
      intro p hnotrun hp hnr
      refine ⟨?_, ?_, ?_, hD⟩
      · intro b hb
        have := hA b hb
        refine ⟨this.1, this.2.1, ?_⟩
        simp only [setPc]
        split
        · next heq => rw [heq] at this; exact absurd this.2.2 (hnotrun b)
        · exact this.2.2
      · intro u b hu
        simp only [setPc] at hu
        split at hu
        · exact absurd hu (hnr b)
        · exact hB u b hu
      · intro u b hu
        simp only [setPc] at hu
        split at hu
        · exact absurd hu (hp b)
        · exact hC u b hu
    cases hpc : s.pcs t with
    | joined b =>
      simp only [hpc] at hs
      split at hs
      · simp only [Option.some.injEq] at hs; subst hs
        exact keep _ (by intro c; rw [hpc]; simp) (by intro c; simp [waitingOn]) (by intro c; simp)
      · simp at hs
    | cancelWait b =>
      simp only [hpc] at hs
      split at hs
      · simp only [Option.some.injEq] at hs; subst hs
        exact keep _ (by intro c; rw [hpc]; simp) (by intro c; simp [waitingOn]) (by intro c; simp)
      · simp at hs
    | disposeWait b =>
      simp only [hpc] at hs
      split at hs
      · simp only [Option.some.injEq] at hs; subst hs
        exact keep _ (by intro c; rw [hpc]; simp) (by intro c; simp [waitingOn]) (by intro c; simp)
      · simp at hs
    | idle => simp [hpc] at hs
    | running b => simp [hpc] at hs
    | returned r => simp [hpc] at hs

/-- the invariant holds after every interleaving -/
theorem inv_run : ∀ (as : List Action) (s s' : State), Inv s → run s as = some s' → Inv s' := by
  intro as
  induction as with
  | nil => intro s s' h hr; simp only [run, Option.some.injEq] at hr; subst hr; exact h
  | cons a as ih =>
    intro s s' h hr
    simp only [run] at hr
    cases hst : step s a with
    | none => simp [hst] at hr
    | some s1 => rw [hst] at hr; exact ih s1 s' (inv_step s s1 a h hst) hr

/-- C20: at any moment at most one build is running (two threads never both run a build). -/
theorem one_build_at_a_time (as : List Action) (s : State) (h : run init as = some s) (t u b c : Nat)
    (ht : s.pcs t = .running b) (hu : s.pcs u = .running c) : t = u ∧ b = c := by
  have hi := inv_run as init s inv_init h
  have h1 := hi.running_ok t b ht
  have h2 := hi.running_ok u c hu
  have hbc : b = c := by rw [h1.1] at h2; exact Option.some.inj h2.1
  subst hbc
  exact ⟨by rw [← h1.2, h2.2], rfl⟩

/-- C20: Cancel and Dispose return only after the build they saw has ended; a joined Rebuild returns only
once the build is done, with that build's result. -/
theorem wait_returns_after_build_end (s s' : State) (t b : Nat) (hw : waitingOn (s.pcs t) = some b)
    (hs : step s (.resume t) = some s') : (s.builds b).done = true := by
  simp only [step] at hs
  cases hpc : s.pcs t <;> simp only [hpc, waitingOn, Option.some.injEq, reduceCtorEq] at hw hs <;>
    (subst hw; split at hs <;> simp_all)

/-- C20: no deadlock — whenever some thread is blocked waiting for a build, some action is enabled: either the
build is done and the waiter can return, or its owner can finish it. -/
theorem no_deadlock (as : List Action) (s : State) (h : run init as = some s) (t b : Nat)
    (hw : waitingOn (s.pcs t) = some b) :
    (∃ s', step s (.resume t) = some s') ∨ (∃ s', step s (.finish (s.builds b).owner) = some s') := by
  have hi := inv_run as init s inv_init h
  have hb := hi.waiting_ok t b hw
  cases hd : (s.builds b).done with
  | true =>
    left
    simp only [step]
    cases hpc : s.pcs t <;> simp only [hpc, waitingOn, Option.some.injEq, reduceCtorEq] at hw ⊢ <;>
      (subst hw; simp [hd])
  | false =>
    right
    have hact := hi.undone_ok b hb hd
    have := (hi.active_ok b hact).2.2
    simp only [step, this]
    exact ⟨_, rfl⟩

/-- C20: a Rebuild that finds no build in progress starts one that sees every earlier edit. -/
theorem fresh_build_sees_all_edits (s s' : State) (t : Nat) (hidle : s.pcs t = .idle) (hnd : s.disposed = false)
    (hna : s.active = none) (hs : step s (.callRebuild t) = some s') :
    s'.pcs t = .running s.nbuilds ∧ (s'.builds s.nbuilds).startVersion = s.version := by
  simp only [step, hidle, hnd, hna] at hs
  simp only [ne_eq, not_true_eq_false, if_false, Bool.false_eq_true, Option.some.injEq] at hs
  subst hs
  simp [setPc, setBuild]

/-- C20: a Rebuild that finds a build in progress returns that build's result (it joins it) -/
theorem rebuild_joins_active_build (s s' : State) (t b : Nat) (hidle : s.pcs t = .idle) (hnd : s.disposed = false)
    (ha : s.active = some b) (hs : step s (.callRebuild t) = some s') : s'.pcs t = .joined b ∧ s'.nbuilds = s.nbuilds := by
  simp only [step, hidle, hnd, ha] at hs
  simp only [ne_eq, not_true_eq_false, if_false, Bool.false_eq_true, Option.some.injEq] at hs
  subst hs
  simp [setPc]

/-- C20: a disposed context does no further work: no action ever creates a build again. -/
theorem disposed_context_starts_no_build (s s' : State) (a : Action) (hd : s.disposed = true)
    (hs : step s a = some s') : s'.nbuilds = s.nbuilds ∧ s'.disposed = true := by
  cases a <;> simp only [step] at hs
  case callRebuild t =>
    split at hs
    · simp at hs
    · simp only [hd, if_true, Option.some.injEq] at hs; subst hs; simp [setPc, hd]
  case callCancel t =>
    split at hs
    · simp at hs
    · simp only [hd, if_true, Option.some.injEq] at hs; subst hs; simp [setPc, hd]
  case callDispose t =>
    split at hs
    · simp at hs
    · simp only [hd, if_true, Option.some.injEq] at hs; subst hs; simp [setPc, hd]
  case finish t =>
    split at hs
    · simp only [Option.some.injEq] at hs; subst hs; simp [setPc, setBuild, hd]
    · simp at hs
  case resume t =>
    split at hs <;> first | (split at hs <;> first | (simp only [Option.some.injEq] at hs; subst hs; simp [setPc, hd]) | simp at hs) | simp at hs
  case edit =>
    simp only [Option.some.injEq] at hs; subst hs; simp [hd]

-- ---------------------------------------------------------------- non-vacuity: two rebuilds, a cancel, a dispose
example : (run init [.callRebuild 0, .edit, .callRebuild 1, .callCancel 2, .finish 0, .resume 1, .resume 2,
    .callDispose 3, .callRebuild 4]).isSome = true := by decide

end EsbuildModel.Ctx
