import EsbuildModel.Lemmas.OutPathsLca3
import EsbuildModel.Lemmas.OutPathsDedupe
/-
Property C17: the automatic outbase (`lowestCommonAncestorDirectory`) and the two output files / one path
check of `Compile`.
-/
namespace EsbuildModel.C17Lca
open EsbuildModel.OutPaths EsbuildModel.Spec.OutPath

/-- **lca_is_common_prefix**: for automatically generated output paths that are absolute paths in normal form
whose names contain no backslash and no upper-case ASCII letter, `lowestCommonAncestorDirectory` is the text of
the lowest common ancestor of their directories – name-wise (`/a/bc` and `/a/bd` give `/a`), not
character-wise; and that directory is an ancestor of every entry point's directory and below every other
common ancestor. -/
theorem lca_is_common_prefix (Ps : List AbsPath) (hne : Ps ≠ []) (h : ∀ P ∈ Ps, PlainPath P) :
    lca (Ps.map fun P => (render P, true)) = render (lcaAll (Ps.map List.dropLast)) ∧
    (∀ P ∈ Ps, Inside (lcaAll (Ps.map List.dropLast)) P.dropLast) ∧
    (∀ C, (∀ P ∈ Ps, Inside C P.dropLast) → Inside C (lcaAll (Ps.map List.dropLast))) := by
  have h1 := lca_render Ps h
  simp only [hne, if_false] at h1
  have h2 := lcaAll_is_lowest_common_ancestor (Ps.map List.dropLast)
  refine ⟨h1, ?_, ?_⟩
  · intro P hP
    exact h2.1 _ (List.mem_map.mpr ⟨P, hP, rfl⟩)
  · intro C hC
    apply h2.2 C
    · intro d hd
      obtain ⟨P, hP, rfl⟩ := List.mem_map.mp hd
      exact hC P hP
    · simpa using hne

/-- entry points with an explicit output path do not count -/
theorem lca_ignores_explicit_paths (eps : List (Str × Bool)) : lca eps = lca (eps.filter (·.2)) :=
  lca_ignores_explicit eps

/-- non-vacuity: name-wise, not character-wise; the root; one entry point; explicit paths ignored -/
example :
    lca [(lit "/a/bc/x.js", true), (lit "/a/bd/y.js", true)] = lit "/a" ∧
    lca [(lit "/a/b/x.js", true), (lit "/a/b/c/y.js", true), (lit "/zzz", false)] = lit "/a/b" ∧
    lca [(lit "/a/x.js", true), (lit "/b/y.js", true)] = lit "/" ∧
    lca [(lit "/a/b/x.js", true)] = lit "/a/b" ∧
    PlainPath [lit "a", lit "bc", lit "x.js"] := by decide +kernel

/-- the hypothesis "no upper-case letter" is needed – the loop compares case-insensitively on every platform:
for `src/B/x.js` and `src/b/y.js` the result is `src/b`, which is NOT an ancestor of the first entry point
(run on the real esbuild on Linux: the outputs are `out/_.._/B/x.js` and `out/y.js`) -/
example :
    lca [(lit "/p/src/B/x.js", true), (lit "/p/src/b/y.js", true)] = lit "/p/src/b" ∧
    ¬ Inside (denote (lit "/p/src/b")) (denote (lit "/p/src/B")) := by decide +kernel

/-- the hypothesis "no backslash" is needed: a backslash inside a name is a boundary for the loop -/
example :
    lca [(lit "/p/a\\b/x.js", true), (lit "/p/a\\c/y.js", true)] = lit "/p/a" ∧
    ¬ Inside (denote (lit "/p/a")) (denote (lit "/p/a\\b")) := by decide +kernel

/-- **no_two_outputs_share_a_path**: after the check of `Compile` the output files have pairwise different
(canonical) paths – always. -/
theorem no_two_outputs_share_a_path (key : Str → Str) (files : List OutFile) :
    ((dedupe key files).1.map (fun f => key f.absPath)).Nodup :=
  dedupe_nodup key files

/-- **collision_is_reported**: if the build reports no "Two output files share the same path but have
different contents" then any two output files with one (canonical) path were both mergeable (assets, not
code) and have identical contents. -/
theorem collision_is_reported (key : Str → Str) (files : List OutFile) (h : (dedupe key files).2 = []) :
    files.Pairwise (fun f f' => key f.absPath = key f'.absPath → Mergeable f f') :=
  dedupe_collision_reported key files h

/-- non-vacuity: two equal assets are merged silently, two code files are not, different assets are not -/
example :
    dedupe canonicalKey [⟨lit "/o/a.png", [1], true⟩, ⟨lit "/o/b.js", [], false⟩, ⟨lit "/o/a.png", [1], true⟩]
      = ([⟨lit "/o/a.png", [1], true⟩, ⟨lit "/o/b.js", [], false⟩], []) ∧
    (dedupe canonicalKey [⟨lit "/o/a.js", [], false⟩, ⟨lit "/o/a.js", [], false⟩]).2 = [lit "/o/a.js"] ∧
    (dedupe canonicalKey [⟨lit "/o/a.png", [1], true⟩, ⟨lit "/o/A.png", [2], true⟩]).2 = [lit "/o/A.png"] := by
  decide

end EsbuildModel.C17Lca
