import EsbuildModel.Lemmas.IdentLexNext
import EsbuildModel.Lemmas.IdentLexTables
/-!
C01 / C13 — reading identifiers (`js_lexer.Next`, `scanIdentifierWithEscapes`; model `Impl/IdentLex.lean`) against
ECMA-262 12.7 (`Spec/JsIdentifier.lean`).  `T` = esbuild's generated tables, `U` = the Unicode properties of the spec,
`Agree T U` = they describe the same characters (met by the regenerated tables: `gen_agree`).
-/
namespace EsbuildModel.Props.C01IdentLex
open EsbuildModel.IdentLex
open EsbuildModel.Spec.JsIdentifier

/-- (2) COMPLETENESS, elementwise: every spelling `es` (any mix of characters and `\uXXXX` / `\u{…}` escapes) of a valid
IdentifierName with code points `cps`, followed by the end of the text or by a character that is neither `\` nor an
IdentifierPartChar, is ONE token covering exactly that spelling, whose name is `cps`, without an error; it is the keyword token
only if no escape was used, and an escaped keyword is TEscapedKeyword. -/
theorem lex_identifier_complete {T : Tables} {U : UnicodeProps} (A : Agree T U) (atFileStart : Bool)
    (es : List Elem) (c0 : Nat) (tail rest : List Nat)
    (hcp : es.map Elem.cp = (c0 :: tail).map some)
    (hsrc : ∀ c ∈ es.flatMap Elem.text, c ≤ 0x10FFFF)
    (hstart : startChar U c0 = true) (hpart : ∀ d ∈ tail, partChar U d = true)
    (hrest : ∀ c, rest.head? = some c → c ≠ 92 ∧ partChar U c = false) :
    next T atFileStart (es.flatMap Elem.text ++ rest) =
      .tok (if es.all isCharElem then (if isKeyword (c0 :: tail) then .keyword else .ident)
            else (if isKeyword (c0 :: tail) then .escapedKeyword else .ident))
        (es.flatMap Elem.text).length (c0 :: tail) (es.all isCharElem) false :=
  next_elems A atFileStart es c0 tail rest hcp (cps_le_of_valid (forall₂_of_map_eq hcp) hsrc) hstart hpart hrest

/-- (2) in the words of the specification: an IdentifierName `src` with IdentifierCodePoints `cps` is one token of length
`src.length` with name `cps` (its StringValue is `stringValue cps`), never a private name, never an error. -/
theorem lex_identifier_complete_spec {T : Tables} {U : UnicodeProps} (A : Agree T U) (atFileStart : Bool)
    (src cps rest : List Nat) (h : IsIdentifierName U src cps) (hsrc : ∀ c ∈ src, c ≤ 0x10FFFF)
    (hrest : ∀ c, rest.head? = some c → c ≠ 92 ∧ partChar U c = false) :
    ∃ k raw, next T atFileStart (src ++ rest) = .tok k src.length cps raw false ∧ k ≠ .priv ∧
      (k = .keyword → raw = true ∧ isKeyword cps = true) ∧ (raw = false → k ≠ .keyword) := by
  obtain ⟨es, hs, hcp, c0, tail, hc, hstart, hpart⟩ := h
  subst hs; subst hc
  refine ⟨_, _, lex_identifier_complete A atFileStart es c0 tail rest hcp hsrc hstart hpart hrest, ?_, ?_, ?_⟩
  · cases es.all isCharElem <;> cases isKeyword (c0 :: tail) <;> simp
  · cases es.all isCharElem <;> cases isKeyword (c0 :: tail) <;> simp
  · cases es.all isCharElem <;> cases isKeyword (c0 :: tail) <;> simp

/-- non-vacuity: `var` spells the keyword `var` with an escape and is TEscapedKeyword; `\u{1D49C}x` is an identifier -/
example : next genTables false ([118, 92, 117, 48, 48, 54, 49, 114] ++ [59]) = .tok .escapedKeyword 8 [118, 97, 114] false false := by
  decide +kernel
example : IsIdentifierName genU [118, 92, 117, 48, 48, 54, 49, 114] [118, 97, 114] :=
  ⟨[.char 118, .esc4 48 48 54 49, .char 114], by decide, by decide, 118, [97, 114], rfl, by decide, by decide⟩
example : next genTables true ([92, 117, 123, 49, 68, 52, 57, 67, 125, 120] ++ []) = .tok .ident 10 [0x1D49C, 120] false false := by
  decide +kernel

/-! ### (4) the keyword tables -/

def cpsOf (ws : List String) : List (List Nat) := ws.map (fun s => s.toList.map Char.toNat)

/-- (4) `Keywords` ∪ `StrictModeReservedWords` (regenerated from js_lexer.go) is exactly ReservedWord ∪ the strict-mode-only
reserved words of 12.7.2, except `await` (which esbuild handles by context). -/
theorem keyword_tables_consistent (w : List Nat) :
    (w ∈ cpsOf Gen.IdentTables.keywords ∨ w ∈ cpsOf Gen.IdentTables.strictReserved) ↔
      ((w ∈ cpsOf reservedWords ∨ w ∈ cpsOf strictOnlyReservedWords) ∧ w ≠ "await".toList.map Char.toNat) := by
  have h1 : ∀ x ∈ cpsOf Gen.IdentTables.keywords ++ cpsOf Gen.IdentTables.strictReserved,
      (x ∈ cpsOf reservedWords ∨ x ∈ cpsOf strictOnlyReservedWords) ∧ x ≠ "await".toList.map Char.toNat := by decide +kernel
  have h2 : ∀ x ∈ cpsOf reservedWords ++ cpsOf strictOnlyReservedWords, x ≠ "await".toList.map Char.toNat →
      (x ∈ cpsOf Gen.IdentTables.keywords ∨ x ∈ cpsOf Gen.IdentTables.strictReserved) := by decide +kernel
  constructor
  · intro h; exact h1 w (by simpa using h)
  · rintro ⟨h, hne⟩; exact h2 w (by simpa using h) hne

/-- (4) the words that lex as keyword TOKENS are the ReservedWords minus the two contextual ones (`await`, `yield`) -/
theorem keyword_tokens (w : List Nat) :
    isKeyword w = true ↔ (w ∈ cpsOf reservedWords ∧ w ∉ cpsOf contextualReservedWords) := by
  have h1 : ∀ x ∈ keywordList, x ∈ cpsOf reservedWords ∧ x ∉ cpsOf contextualReservedWords := by decide +kernel
  have h2 : ∀ x ∈ cpsOf reservedWords, x ∉ cpsOf contextualReservedWords → x ∈ keywordList := by decide +kernel
  constructor
  · intro h; exact h1 w (by simpa [isKeyword] using h)
  · rintro ⟨h, hn⟩; simpa [isKeyword] using h2 w h hn

/-! ### (5) ForceValidIdentifier -/

/-- (5) for EVERY text (empty, digits first, arbitrary characters) `ForceValidIdentifier("", text)` passes IsIdentifier … -/
theorem force_valid_identifier (T : Tables) (text : List Nat) : isIdentifierRunes T (forceValid T [] text) = true := by
  simp only [forceValid, List.nil_append, isIdentifierRunes, isIdentifierWith, Bool.and_eq_true, List.all_eq_true]
  constructor
  · split
    · assumption
    · simp [isIdStart, asciiStart]
  · intro d hd
    obtain ⟨x, _, rfl⟩ := List.mem_map.1 hd
    split
    · assumption
    · simp [isIdCont, asciiCont, asciiStart]

/-- … so, written without escapes, it is an IdentifierName of the specification that is its own name -/
theorem force_valid_identifier_spec {T : Tables} {U : UnicodeProps} (A : Agree T U) (text : List Nat) :
    IsIdentifierName U (forceValid T [] text) (forceValid T [] text) := by
  have h := force_valid_identifier T text
  obtain ⟨c, r, heq, hs, hr⟩ := (isIdentifierWith_iff _ _ _).1 h
  have h92 : ∀ d ∈ forceValid T [] text, d ≠ 92 := by
    intro d hd hd92
    rw [heq] at hd
    rcases List.mem_cons.1 hd with rfl | hd
    · rw [hd92] at hs; simp [isIdStart, asciiStart] at hs
    · have := hr d hd; rw [hd92, isIdCont_backslash] at this; cases this
  refine ⟨(forceValid T [] text).map Elem.char, ?_, ?_, c, r, heq, ?_, ?_⟩
  · generalize forceValid T [] text = l
    induction l with
    | nil => rfl
    | cons x l ih => simp only [List.map_cons, List.flatMap_cons, Elem.text, ← ih]; rfl
  · generalize forceValid T [] text = l at h92
    induction l with
    | nil => rfl
    | cons x l ih =>
      simp only [List.map_cons, Elem.cp, h92 x (by simp), if_false, List.cons.injEq, true_and]
      exact ih (fun d hd => h92 d (by simp [hd]))
  · rw [← isIdStart_eq A]; exact hs
  · intro d hd; rw [← isIdCont_eq A]; exact hr d hd

/-- with a prefix (`#` for private names) the prefix is kept and the rest is an identifier -/
theorem force_valid_identifier_prefix (T : Tables) (pfx text : List Nat) :
    forceValid T pfx text = pfx ++ forceValid T [] text := by simp [forceValid]

example : forceValid genTables [] [49, 45, 0xE9] = [95, 95, 0xE9] := by decide +kernel
example : forceValid genTables [35] [] = [35, 95] := by decide +kernel

end EsbuildModel.Props.C01IdentLex
