import EsbuildModel.Lemmas.SmChunkGen
import EsbuildModel.Lemmas.SmChunkRemap
import EsbuildModel.Lemmas.SmChunkData
import EsbuildModel.Lemmas.SmChunkCompose
/-!
# C07 — assembling the source map of one chunk (property theorems only)

Model: `Impl/SmChunk.lean` (`ChunkBuilder.appendMapping` with an input source map, `computeDataForSourceMapsInParallel`,
`generateSourceMapForChunk`). Specifications: `Spec/SourceMapCompose.lean` (a map as a partial function, composition),
`Spec/OutPath.lean` (what an absolute path names). The joining of the chunks' `mappings` is `Props/C07Join.lean`.
-/
namespace EsbuildModel.C07Chunk
open SmChunk SmJoin
open Spec.SourceMapCompose

/-! ## 1. a builder with an input source map composes the two maps -/

/-- `SourceMap.Find` on a map ordered by generated position IS the specification's lookup (greatest entry at or
before the position, last among equals, on the same line); it never indexes out of range. -/
theorem find_is_lookup (ms : Array SmParse.Mapping) (hs : SortedArr ms) (line col : Int) :
    ∃ r, SmParse.find ms line col = some r ∧
      (match r with
       | none => lookup (ms.toList.map entryOf) line col = none
       | some k => ∃ h : k < ms.size, lookup (ms.toList.map entryOf) line col = some (entryOf ms[k])) :=
  find_eq_lookup ms hs line col

/-- **builder_with_input_map_is_composition_partial**: every single `appendMapping` is one step of composition
(statement: see `SmChunk.remap_is_lookup`): never a panic; unmapped in the input map ⇒ nothing recorded; otherwise
source index / original line / column of the entry found, name = the entry's name if any, else the printer's (none
if that is the empty string), found in the names table at the recorded index; the table only grows. -/
theorem builder_with_input_map_is_composition_partial (im : InputMap) (hs : SortedArr im.mappings)
    (hn : NamesInRange im) (names : List Bytes) (line col : Int) (name : Bytes) :
    ∃ res names', remap (some im) names line col name = some (res, names') ∧ (∃ ext, names' = names ++ ext) ∧
      match lookup (denote im) line col with
      | none => res = none ∧ names' = names
      | some e =>
        let nm : Bytes := match e.name with | some n => n | none => name
        ∃ r, res = some r ∧ r.src = e.source ∧ r.line = e.oline ∧ r.col = e.ocol ∧
          (if nm = [] then r.name = none ∧ names' = names
           else ∃ i : Nat, r.name = some (i : Int) ∧ names'[i]? = some nm) :=
  remap_is_lookup im hs hn names line col name

/-- **builder_with_input_map_is_composition**: for an input map ordered by generated position, with name indices in
range and no empty string among its names, and for EVERY sequence of printer events (line breaks, columns,
`AddSourceMapping` calls): the builder never panics, the Source Map v3 decoder reads the chunk's bytes, every decoded
segment carries a source, and the decoded segments — name indices looked up in the chunk's own names table — are
exactly the composition (`Spec.SourceMapCompose.compose`) of the printer's mappings (`stepsOf`: final position →
position in the file the printer read, with the name seen there) with the input map (`denote`): calls whose position
the input map does not map leave no segment (the position is unmapped), nothing is added (no cover-lines copies).
Forced hypothesis `NoEmptyNames`: a mapping of the input map that refers to an EMPTY name makes esbuild drop the name
altogether instead of keeping the printer's (`if originalName != ""` after the replacement). -/
theorem builder_with_input_map_is_composition (im : InputMap) (hs : SortedArr im.mappings) (hn : NamesInRange im)
    (he : NoEmptyNames im) (evs : List PEv) :
    ∃ chunk names segs, buildChunkP (some im) evs = some (chunk, names) ∧
      Spec.SourceMapV3.decode chunk.buffer.data = some segs ∧
      (∀ s ∈ segs, s.orig.isSome = true) ∧
      segs.filterMap (segEntry names) = compose (stepsOf 0 0 evs) (denote im) := by
  obtain ⟨bevs, names', htr, _, hP⟩ := translate_compose im hs hn he evs [] 0 {}
  refine ⟨buildChunk false bevs, names', Spec.SourceMapV3.segsOf 0 (lower false bevs), ?_, ?_,
    lower_all_orig false bevs, ?_⟩
  · simp [buildChunkP, htr]
  · rw [buildChunk_eq]; exact decode_encEvs _ _
  · exact hP names' ⟨[], by simp⟩

/-- non-vacuity: a two-line input map with two sources and a name; (0,5) maps through the entry at (0,4); line 1 is
unmapped before column 2; an entry without name keeps the printer's name -/
def exampleMap : InputMap :=
  { sources := [[97], [98]]
    mappings := #[⟨0, 0, 0, 10, 0, none⟩, ⟨0, 4, 1, 20, 3, some 0⟩, ⟨1, 2, 0, 11, 1, none⟩]
    names := [[110, 48]] }

theorem exampleMap_sorted : SortedArr exampleMap.mappings := by
  intro i j hi hj hij
  have hi' : i < 3 := hi
  have hj' : j < 3 := hj
  have : i = 0 ∨ i = 1 ∨ i = 2 := by omega
  have : j = 0 ∨ j = 1 ∨ j = 2 := by omega
  rcases ‹i = 0 ∨ i = 1 ∨ i = 2› with rfl | rfl | rfl <;> rcases ‹j = 0 ∨ j = 1 ∨ j = 2› with rfl | rfl | rfl <;>
    first | omega | simp [exampleMap]

theorem exampleMap_names : NamesInRange exampleMap := by
  intro k hk i h
  have hk' : k < 3 := hk
  have : k = 0 ∨ k = 1 ∨ k = 2 := by omega
  rcases this with rfl | rfl | rfl <;> simp [exampleMap] at h ⊢ <;> omega

example := builder_with_input_map_is_composition_partial exampleMap exampleMap_sorted exampleMap_names [] 0 5 [120]
example : remap (some exampleMap) [] 0 5 [120] = some (some ⟨1, 20, 3, some 0⟩, [[110, 48]]) := by decide
example : remap (some exampleMap) [[110, 48]] 0 1 [120] = some (some ⟨0, 10, 0, some 1⟩, [[110, 48], [120]]) := by decide
example : remap (some exampleMap) [] 1 1 [120] = some (none, []) := by decide

theorem exampleMap_noEmpty : NoEmptyNames exampleMap := by
  intro n hn
  simp only [exampleMap, List.mem_cons, List.not_mem_nil, or_false] at hn
  subst hn; decide

/-- five calls: mapped with the input map's name, unmapped (line 1 before column 2), mapped keeping the printer's
name, mapped without any name, and one on a line the input map does not have -/
def exampleEvs : List PEv :=
  [.call 0 5 [120], .cols 3, .newline, .call 1 1 [121], .cols 2, .call 0 1 [121], .cols 1, .call 1 9 [], .newline,
   .call 7 0 [122]]

example := builder_with_input_map_is_composition exampleMap exampleMap_sorted exampleMap_names exampleMap_noEmpty
  exampleEvs
example : compose (stepsOf 0 0 exampleEvs) (denote exampleMap) =
    [⟨0, 0, 1, 20, 3, some [110, 48]⟩, ⟨1, 2, 0, 10, 0, some [121]⟩, ⟨1, 3, 0, 11, 1, none⟩] := by decide
example : (buildChunkP (some exampleMap) exampleEvs).map (·.2) = some [[110, 48], [121]] := by decide

/-! ## 2. `sources`, `sourcesContent`, `names` and the indices used by the mappings -/

/-- **chunk_map_sources_consistent**: whenever `generateSourceMapForChunk` returns (any files, with or without input
source maps, any number of sources each, any results in any order, repeated files, null entries):
the `mappings` are the join (`SmJoin.linkJoin`, see `C07Join.join_decodes`) of the results' chunks, each shifted by
the index `si` that the table holds for its file; `sources[si + a]` is exactly the `a`-th source of that file (its
own path, or the `a`-th `sources` entry of its input map), rewritten relative to the chunk's directory; and
`sourcesContent[si + a]` is the `a`-th quoted content computed for that file. -/
theorem chunk_map_sources_consistent {files exclude root dir results g}
    (h : generate files exclude root dir results = some g) :
    ∃ (st : ItemsSt) (ins : List LinkIn),
      toLinkIns st.tbl results = some ins ∧ linkJoin ins = some g.mappings ∧
      ∀ r ∈ results, r.isNullEntry = false →
        ∃ si f, tblGet st.tbl r.sourceIndex = some si ∧ files[r.sourceIndex]? = some f ∧
          (⟨false, r.offset, si, r.chunk, r.quotedNames.length⟩ : LinkIn) ∈ ins ∧
          ∀ a s, (fileSources f)[a]? = some s →
            g.sources[si + a]? = some (writeSource dir s) ∧
            (exclude = false → ∃ c, g.sourcesContent = some c ∧ c[si + a]? = f.quoted[a]?) := by
  obtain ⟨st, ins, hst, hins, hm, hsrc, _, hcont, _⟩ := generate_eq_some h
  obtain ⟨hinv, _, hseen⟩ := itemsLoop_spec results {} st (itemsInv_init files exclude) hst
  refine ⟨st, ins, hins, hm, ?_⟩
  intro r hr hnull
  have hsome := hseen r hr hnull
  cases hsi : tblGet st.tbl r.sourceIndex with
  | none => rw [hsi] at hsome; cases hsome
  | some si =>
    obtain ⟨f, hf, hw⟩ := hinv.win _ _ hsi
    obtain ⟨x, hx, hx2⟩ := toLinkIns_mem results ins hins r hr
    refine ⟨si, f, rfl, hf, ?_, ?_⟩
    · simp only [toLinkIn, hsi, hnull] at hx2
      cases hx2
      exact hx
    · intro a s hs
      obtain ⟨it, h1, h2, h3⟩ := hw a s hs
      refine ⟨by rw [hsrc, List.getElem?_map, h1, ← h2]; rfl, ?_⟩
      intro he
      refine ⟨_, by rw [hcont, he]; rfl, ?_⟩
      rw [List.getElem?_map, h1, h3 he]; rfl

/-- non-vacuity of section 2: file 0 has an input map with two sources, file 1 none; three results (file 1, file 0,
file 1 again), so file 0's window starts at index 1 and has length 2, and `generate` succeeds -/
def exFiles : List FileIn :=
  [ ⟨fileNs, [47, 112, 47, 97], [], some [[120], [121]], [[110], [111]]⟩,
    ⟨fileNs, [47, 112, 47, 98], [], none, [[112]]⟩ ]

def exResults : List ResultIn :=
  [ ⟨1, false, {}, buildChunk true [.map (some ⟨0, 0, 0, none⟩), .cols 3, .newline], []⟩,
    ⟨0, false, {}, buildChunk false [.map (some ⟨1, 5, 2, some 0⟩), .cols 2, .newline], [[122]]⟩,
    ⟨1, false, {}, buildChunk true [.map (some ⟨0, 1, 0, none⟩), .cols 1], []⟩ ]

example : (generate exFiles false [] [47, 112] exResults).map (fun g => (g.sources, g.sourcesContent, g.names)) =
    some ([[98], [120], [121]], some [[112], [110], [111]], [[122]]) := by decide +kernel

/-- in range: every source index the mappings of a result can use (`si` + an index into the file's own sources) is a
valid index into `sources` -/
theorem source_index_in_range {files exclude root dir results g}
    (h : generate files exclude root dir results = some g) :
    ∃ st : ItemsSt, ∀ r ∈ results, r.isNullEntry = false →
      ∃ si f, tblGet st.tbl r.sourceIndex = some si ∧ files[r.sourceIndex]? = some f ∧
        ∀ a, a < (fileSources f).length → si + a < g.sources.length := by
  obtain ⟨st, ins, _, _, hall⟩ := chunk_map_sources_consistent h
  refine ⟨st, fun r hr hn => ?_⟩
  obtain ⟨si, f, h1, h2, _, h4⟩ := hall r hr hn
  refine ⟨si, f, h1, h2, fun a ha => ?_⟩
  have := (h4 a _ (List.getElem?_eq_getElem ha)).1
  rcases Nat.lt_or_ge (si + a) g.sources.length with h' | h'
  · exact h'
  · rw [List.getElem?_eq_none h'] at this; cases this

/-- `sourcesContent` is absent exactly when excluded, and otherwise has the length of `sources` (same order by
`chunk_map_sources_consistent`) -/
theorem sourcesContent_aligned {files exclude root dir results g}
    (h : generate files exclude root dir results = some g) :
    (exclude = true → g.sourcesContent = none) ∧
    (exclude = false → ∃ c, g.sourcesContent = some c ∧ c.length = g.sources.length) := by
  obtain ⟨st, ins, _, _, _, hsrc, _, hcont, _⟩ := generate_eq_some h
  refine ⟨fun he => by rw [hcont, he]; rfl, fun he => ⟨_, by rw [hcont, he]; rfl, by rw [hsrc]; simp⟩⟩

/-- `names` is the concatenation of the results' name tables: the `n`-th name of a result sits at the total number
of names of the results before it, plus `n` — the offset `totalQuotedNameLen` that the mappings loop adds -/
theorem names_follow_results {files exclude root dir g} (pre : List ResultIn) (r : ResultIn) (post : List ResultIn)
    (h : generate files exclude root dir (pre ++ r :: post) = some g) (n : Nat) (s : Bytes)
    (hn : r.quotedNames[n]? = some s) :
    g.names[(pre.map (·.quotedNames.length)).sum + n]? = some s := by
  obtain ⟨_, _, _, _, _, _, _, _, hnames⟩ := generate_eq_some h
  rw [hnames]
  exact names_offset pre r post n s hn

/-! ## 3. relative source paths -/

/-- **relative_source_names_file**: a source that is the `file://` URL of an absolute path `p` is always replaced by
a relative path `rel` (never left absolute), and `Join(chunkAbsDir, rel)` names the same file as `p`. `sourceRoot`
plays no part in it: it is written out verbatim (`generate_eq_some`). -/
theorem relative_source_names_file (dir p : Bytes) (hd : dir.head? = some 47) (hp : p.head? = some 47) :
    ∃ rel, writeSource dir (fileUrlPrefix ++ p) = ofStr rel ∧
      Spec.OutPath.denote (toStr dir ++ '/' :: rel) = Spec.OutPath.denote (toStr p) := by
  obtain ⟨r, hr, hden, _⟩ := OutPaths.join_rel (isAbs_toStr dir hd) (isAbs_toStr p hp)
  exact ⟨r, writeSource_file dir p hp r hr, hden⟩

/-- non-vacuity: `/p/src/sub/a.js` seen from `/p/out/js` -/
example : writeSource [47, 112, 47, 111, 117, 116, 47, 106, 115]
    (fileUrlPrefix ++ [47, 112, 47, 115, 114, 99, 47, 115, 117, 98, 47, 97, 46, 106, 115]) =
    ofStr "../../src/sub/a.js".toList := by decide +kernel

/-- anything that is not a `file:` URL is left alone -/
theorem other_sources_untouched (dir s : Bytes) (h : fileUrlPrefix.isPrefixOf s = false) : writeSource dir s = s := by
  simp [writeSource, h]

/-! ## 4. `sourcesContent` and the charset (`computeDataForSourceMapsInParallel`) -/

/-- **quoted_contents_ascii_only**: with the ASCII charset every entry of `QuotedContents` of every file consists of
bytes below 0x80 — ASSUMING that of the opaque quote function (`helpers.QuoteForJSON(…, asciiOnly = true)` yields
ASCII: `hself` for the file's own contents, `hre` for re-quoted values of an input map). What the theorem adds is the
routine's own decision: a quoted entry of an input map is copied only if it is printable ASCII already, otherwise it
is re-quoted or becomes `null`. -/
theorem quoted_contents_ascii_only (exclude : Bool) (selfQuoted : Bytes) (im : Option (InputMap × List SourceContent))
    (hself : AsciiBytes selfQuoted)
    (hre : ∀ m sc, im = some (m, sc) → ∀ v ∈ sc, v.hasValue = true → AsciiBytes v.requoted) :
    ∀ q ∈ quotedContents true exclude selfQuoted im, AsciiBytes q := by
  intro q hq
  unfold quotedContents at hq
  split at hq
  · cases hq
  · split at hq
    · simp only [List.mem_cons, List.not_mem_nil, or_false] at hq
      subst hq; exact hself
    · next m sc =>
      simp only [List.mem_map] at hq
      obtain ⟨i, _, rfl⟩ := hq
      exact quotedContentAt_ascii sc (hre m sc rfl) i

/-- **quoted_contents_verbatim**: without the ASCII charset a (non-empty) quoted `sourcesContent` entry of the input
map is passed through byte for byte; with it, the same holds if the entry is printable ASCII. -/
theorem quoted_contents_verbatim (asciiOnly : Bool) (selfQuoted : Bytes) (m : InputMap) (sc : List SourceContent)
    (i : Nat) (v : SourceContent) (hi : i < m.sources.length) (hv : sc[i]? = some v) (hq : v.quoted ≠ [])
    (ha : asciiOnly = true → isASCIIOnly v.quoted = true) :
    (quotedContents asciiOnly false selfQuoted (some (m, sc)))[i]? = some v.quoted := by
  simp only [quotedContents, Bool.false_eq_true, if_false, List.getElem?_map, List.getElem?_range hi, Option.map_some]
  cases asciiOnly with
  | false => rw [quotedContentAt_verbatim sc i v hv hq]
  | true => rw [quotedContentAt_verbatim_ascii sc i v hv hq (ha rfl)]

/-- non-vacuity: `"é"` raw (c3 a9) in the input map; re-quoted form `"\u00E9"`; one entry is printable ASCII; one
source has no content at all -/
def exContents : List SourceContent :=
  [ ⟨[34, 195, 169, 34], true, [34, 92, 117, 48, 48, 69, 57, 34]⟩, ⟨[34, 97, 34], true, [34, 97, 34]⟩ ]

example : quotedContents true false [34, 34] (some (⟨[[120], [121], [122]], #[], []⟩, exContents)) =
    [[34, 92, 117, 48, 48, 69, 57, 34], [34, 97, 34], nullBytes] := by decide
example : quotedContents false false [34, 34] (some (⟨[[120], [121], [122]], #[], []⟩, exContents)) =
    [[34, 195, 169, 34], [34, 97, 34], nullBytes] := by decide
example := quoted_contents_ascii_only false [34, 34] (some (⟨[[120], [121], [122]], #[], []⟩, exContents))
  (by decide) (by
    intro m sc h v hv _
    cases h
    simp only [exContents, List.mem_cons, List.not_mem_nil, or_false] at hv
    rcases hv with rfl | rfl <;> decide)
example := quoted_contents_verbatim false [34, 34] ⟨[[120], [121], [122]], #[], []⟩ exContents 0 _ (by decide) rfl
  (by decide) (by intro h; cases h)

end EsbuildModel.C07Chunk
