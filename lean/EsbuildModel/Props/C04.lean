import EsbuildModel.Lemmas.Shake
/-!
C04 — tree shaking removes only code whose removal is unobservable: theorems about the liveness marking
(Impl/Shake.lean), compared with the real linker's IsLive marks on the part graphs of real builds (kernel
`shake`, through the verif observation hook).

The marking takes the parser's per-part flag "can be removed if unused" as an input; that classification
(js_ast_helpers.go ExprCanBeRemovedIfUnused and friends) is decided by the search c04-shake against Node, not
by these theorems.  What is proved, for every well-formed part graph of any size:
-/
namespace EsbuildModel.Shake
open EsbuildModel.Split (Reach)

theorem mem_edges_part {s : S} {e : Nat × Nat} (h : e ∈ partEdges s) : e ∈ edges s := by
  simp only [edges, List.mem_append]; exact Or.inr h

theorem live_step {s : S} (h : wf s = true) {a b : Nat} (he : (a, b) ∈ edges s) (ha : a ∈ liveSet s) :
    b ∈ liveSet s := live_closed h (a, b) he ha

/-- every entry point is kept -/
theorem entry_live (s : S) (h : wf s = true) (e : Nat) (he : e ∈ s.entries) : fileLive s e = true := by
  unfold fileLive; rw [List.contains_iff_mem]
  apply live_step h _ (root_live s)
  simp only [edges, List.mem_append, List.mem_map]
  exact Or.inl (Or.inl ⟨e, he, rfl⟩)

/-- C04: the output never references a binding whose declaration was removed — every part a live part
depends on is live. -/
theorem deps_of_live_part_are_live (s : S) (h : wf s = true) (q : Nat) (p : Part) (hq : s.parts[q]? = some p)
    (hl : partLive s q = true) (d : Nat) (hd : d ∈ p.deps) : partLive s d = true := by
  unfold partLive at *; rw [List.contains_iff_mem] at *
  exact live_step h (mem_edges_part (mem_partEdges.mpr ⟨q, p, hq, Or.inr (Or.inr (Or.inr ⟨d, hd, rfl⟩))⟩)) hl

/-- a live part pulls in its file (and with it the file's side effects, below) -/
theorem file_of_live_part_is_live (s : S) (h : wf s = true) (q : Nat) (p : Part) (hq : s.parts[q]? = some p)
    (hl : partLive s q = true) : fileLive s p.file = true := by
  unfold partLive fileLive at *; rw [List.contains_iff_mem] at *
  exact live_step h (mem_edges_part (mem_partEdges.mpr ⟨q, p, hq, Or.inr (Or.inr (Or.inl rfl))⟩)) hl

/-- C04: in a file that is included, a statement is kept unless it is flagged removable, carries no import
that is kept for its side effects, and tree shaking applies to it. -/
theorem part_with_side_effects_is_kept (s : S) (h : wf s = true) (q : Nat) (p : Part)
    (hq : s.parts[q]? = some p) (hf : fileLive s p.file = true) (hk : mustKeep s p = true) :
    partLive s q = true := by
  unfold partLive fileLive at *; rw [List.contains_iff_mem] at *
  exact live_step h (mem_edges_part (mem_partEdges.mpr ⟨q, p, hq, Or.inr (Or.inl ⟨hk, rfl⟩)⟩)) hf

/-- the same statement read the other way: what is dropped from an included file was flagged removable, has
no kept import, and tree shaking was on for it -/
theorem dropped_part_was_removable (s : S) (h : wf s = true) (q : Nat) (p : Part) (hq : s.parts[q]? = some p)
    (hf : fileLive s p.file = true) (hd : partLive s q = false) :
    p.canRemove = true ∧ (∀ im ∈ p.imps, kept s im = false) ∧
    (p.force = true ∨ s.treeShaking = true ∨ ((s.files[p.file]?).map (·.isEntry)).getD false = false) := by
  have hk : mustKeep s p = false := by
    cases hmk : mustKeep s p with
    | false => rfl
    | true => rw [part_with_side_effects_is_kept s h q p hq hf hmk] at hd; exact absurd hd (by simp)
  unfold mustKeep at hk
  simp only [Bool.or_eq_false_iff, Bool.not_eq_false', Bool.and_eq_true, Bool.not_eq_true',
    Bool.and_eq_false_iff] at hk
  refine ⟨hk.1.1, ?_, ?_⟩
  · intro im him
    have := hk.1.2
    rw [List.any_eq_false] at this
    cases hki : kept s im with
    | false => rfl
    | true => exact absurd hki (this im him)
  · rcases hk.2 with (h1 | h2) | h3
    · left; simpa using h1
    · right; left; simpa using h2
    · right; right; exact h3

/-- ... and nothing that stays refers to it -/
theorem dropped_part_is_unreferenced (s : S) (h : wf s = true) (d : Nat) (hd : partLive s d = false)
    (q : Nat) (p : Part) (hq : s.parts[q]? = some p) (hdep : d ∈ p.deps) : partLive s q = false := by
  cases hl : partLive s q with
  | false => rfl
  | true => rw [deps_of_live_part_are_live s h q p hq hl d hdep] at hd; exact absurd hd (by simp)

/-- C04: a module imported by an included file is included for its side effects unless it is annotated
side-effect free (and annotations are honoured) -/
theorem imported_file_with_side_effects_is_kept (s : S) (h : wf s = true) (q : Nat) (p : Part)
    (hq : s.parts[q]? = some p) (hf : fileLive s p.file = true) (im : Imp) (him : im ∈ p.imps)
    (hk : kept s im = true) (g : Nat) (hg : im.target = some g) : fileLive s g = true := by
  unfold fileLive at *; rw [List.contains_iff_mem] at *
  exact live_step h (mem_edges_part (mem_partEdges.mpr ⟨q, p, hq, Or.inl ⟨im, him, hk, hg, rfl⟩⟩)) hf

/-- without annotations every import is kept: `kept` can only be false for an annotated target -/
theorem kept_unless_annotated (s : S) (im : Imp) (hk : kept s im = false) :
    (∃ g, im.target = some g ∧ im.se = false ∧ s.ignoreAnn = false) ∨ (im.target = none ∧ im.extPure = true) := by
  unfold kept at hk
  cases ht : im.target with
  | none => right; simp [ht] at hk; exact ⟨rfl, hk⟩
  | some g => left; simp [ht] at hk; exact ⟨g, rfl, hk.1, hk.2⟩

/-- nothing is kept without a reason: the live set is exactly what the marking rules reach from the entry
points (least fixed point) -/
theorem live_is_least (s : S) (h : wf s = true) (x : Nat) : x ∈ liveSet s ↔ Reach (edges s) s.root x :=
  live_iff_reach h x

/-- with tree shaking off, every part of an entry-point file that does not force tree shaking is kept -/
theorem no_tree_shaking_keeps_entry_parts (s : S) (h : wf s = true) (hts : s.treeShaking = false) (q : Nat)
    (p : Part) (hq : s.parts[q]? = some p) (fi : FileInfo) (hfi : s.files[p.file]? = some fi)
    (he : fi.isEntry = true) (hforce : p.force = false) (hf : fileLive s p.file = true) : partLive s q = true := by
  apply part_with_side_effects_is_kept s h q p hq hf
  unfold mustKeep
  simp [hts, hforce, hfi, he]

-- ---------------------------------------------------------------- non-vacuity

/-- entry file 0 with three parts: a removable unused declaration, a side effect, and a removable
declaration the side effect depends on; file 1 imported without side effects (annotated) -/
def exS : S :=
  { treeShaking := true, ignoreAnn := false, entries := [0],
    files := [{ isEntry := true, css := none, cssImports := [] }, { isEntry := false, css := none, cssImports := [] }],
    parts := [{ file := 0, canRemove := true, force := false, deps := [], imps := [{ target := some 1, se := false, extPure := false }] },
              { file := 0, canRemove := false, force := false, deps := [2], imps := [] },
              { file := 0, canRemove := true, force := false, deps := [], imps := [] },
              { file := 1, canRemove := false, force := false, deps := [], imps := [] }] }
example : wf exS = true := by decide
example : (List.range 4).map (partLive exS) = [false, true, true, false] := by decide
example : fileLive exS 1 = false := by decide

end EsbuildModel.Shake
