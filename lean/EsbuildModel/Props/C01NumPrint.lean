import EsbuildModel.Lemmas.NumPrint
/-!
# C01 / C03 — numeric literals: the JS number printer (property theorems; helper lemmas live in `Lemmas/`)

Model: `Impl/NumPrint.lean` (`printNonNegativeFloat`, `smallIntToBytes`, `parseSmallInt` of
internal/js_printer/js_printer.go).  Specification: `Spec/JsNumber.lean` (ECMA-262 §12.9.3: which texts are a
NumericLiteral and their mathematical value `MV`, as an exact rational; the output grammar `ffShape` of
`strconv.FormatFloat(x,'g',-1,64)`).  `strconv.FormatFloat` itself is TRUSTED: its text is an input of the model,
and the theorems say that whatever number that text denotes, the printed text denotes the same number
(or, on the hex path, exactly the integer value of the float).
-/
namespace EsbuildModel.C01Num
open EsbuildModel.NumPrint EsbuildModel.NumText EsbuildModel.Spec.Num

/-- **A1 (text rewriting).** For EVERY text of the FormatFloat shape (any number of digits) and both settings of
`MinifyWhitespace`: the rewriting does not panic, its result is a valid NumericLiteral, and the result has exactly
the mathematical value of the input text. -/
theorem rewrite_preserves_value (minify : Bool) (t : List Char) (h : ffShape t = true) :
    ∃ out, rewrite minify t = some out ∧ isNumericLiteral out = true ∧ MV out = MV t := by
  unfold ffShape at h
  cases hp : parseDec t with
  | none => rw [hp] at h; cases h
  | some p =>
    rw [hp] at h
    obtain ⟨out, h1, h2⟩ := rewrite_spec minify hp h
    refine ⟨out, h1, ?_, ?_⟩
    · unfold isNumericLiteral; rw [h2.MV]; rfl
    · rw [h2.MV, MV_of_ffOk hp h]

/-- **A3.** … and the result is never longer than the FormatFloat text. -/
theorem rewrite_not_longer (minify : Bool) (t : List Char) (h : ffShape t = true) :
    ∀ out, rewrite minify t = some out → out.length ≤ t.length := by
  unfold ffShape at h
  cases hp : parseDec t with
  | none => rw [hp] at h; cases h
  | some p =>
    rw [hp] at h
    obtain ⟨out, h1, q, _, _, _, _, hl⟩ := rewrite_spec minify hp h
    intro out' h'
    rw [h1] at h'
    cases h'
    exact hl

/-- **A1 (hex form).** `"0x" ++ strconv.FormatUint(n,16)` is a valid NumericLiteral with value exactly n, for every n. -/
theorem hex_value (n : Nat) : MV ('0' :: 'x' :: hexToBytes n []) = some (n : Rat) := MV_hex n

/-- **A2.** `smallIntToBytes n` is the canonical decimal text of n for EVERY n ≥ 0 (not only below 1000): only
digits, value n, no leading zero (so it is a valid NumericLiteral with value n) … -/
theorem smallIntToBytes_decimal (n : Nat) :
    AllDigits (smallIntToBytes (n : Int)) ∧ digitsMV (smallIntToBytes (n : Int)) = n ∧
    jsIntOk (smallIntToBytes (n : Int)) = true ∧ MV (smallIntToBytes (n : Int)) = some (n : Rat) := by
  rw [smallIntToBytes_nat]
  obtain ⟨h1, h2, h3, h4⟩ := natDigits_spec n
  have hok : jsIntOk (natDigits n) = true := by
    by_cases hn : n = 0
    · subst hn; rw [natDigits_lt10 (by decide)]; decide
    · exact jsIntOk_of_head h1 h3 (h4 (by omega))
  refine ⟨h1, h2, hok, ?_⟩
  have hw : (⟨natDigits n, none, none⟩ : DecParts).WF := ⟨h1, by simp, by simp⟩
  have hv : (⟨natDigits n, none, none⟩ : DecParts).jsValid = true := by
    cases hd : natDigits n with
    | nil => exact absurd hd h3
    | cons c l => rw [hd] at hok; simpa [DecParts.jsValid] using hok
  have := MV_render hw hv
  simp only [DecParts.render, fracText, expText, List.append_nil] at this
  rw [this, mv_eq_dec]
  simp [expVal, h2, dec_zero_exp]

/-- … for negative n it is `-` followed by the decimal text of |n|, and `parseSmallInt` inverts it on every integer. -/
theorem smallIntToBytes_negative (n : Nat) (h : 0 < n) :
    smallIntToBytes (-(n : Int)) = '-' :: smallIntToBytes (n : Int) := by
  rw [smallIntToBytes_neg h, smallIntToBytes_nat]

theorem parseSmallInt_smallIntToBytes (n : Int) : parseSmallInt (smallIntToBytes n) = some n := by
  rcases smallIntToBytes_cases n with ⟨hn, hs⟩ | ⟨hn, hs⟩
  · obtain ⟨h1, h2, h3, _⟩ := natDigits_spec n.toNat
    rw [hs, parseSmallInt_digits h1 h3, h2]
    simp only [Option.some.injEq]; omega
  · obtain ⟨h1, h2, _, _⟩ := natDigits_spec (-n).toNat
    rw [hs, parseSmallInt_minus h1, h2]
    simp only [Option.some.injEq]; omega

/-- **A1 (whole routine).** `printNonNegativeFloat` on a float whose FormatFloat text is `t` and whose exact integer
value (if it is an integer) is `intVal`: never panics, prints a valid NumericLiteral, and that literal denotes either
exactly the number the FormatFloat text denotes, or (fast path below 1000, hex path) exactly the integer value of the
float itself. -/
theorem print_preserves_value (minify : Bool) (intVal : Option Nat) (t : List Char) (h : ffShape t = true) :
    ∃ out sp, printNonNegativeFloat minify intVal t = some (out, sp) ∧ isNumericLiteral out = true ∧
      (MV out = MV t ∨ ∃ n, intVal = some n ∧ MV out = some (n : Rat)) := by
  obtain ⟨r, hr, hlit, hmv⟩ := rewrite_preserves_value minify t h
  have hhex : ∀ n, isNumericLiteral ('0' :: 'x' :: hexToBytes n []) = true := by
    intro n; unfold isNumericLiteral; rw [hex_value]; rfl
  unfold printNonNegativeFloat
  cases intVal with
  | none =>
    simp only [hr, Option.map_some]
    exact ⟨_, _, rfl, hlit, Or.inl hmv⟩
  | some n =>
    simp only
    split
    · refine ⟨_, _, rfl, ?_, Or.inr ⟨n, rfl, (smallIntToBytes_decimal n).2.2.2⟩⟩
      unfold isNumericLiteral; rw [(smallIntToBytes_decimal n).2.2.2]; rfl
    · simp only [hr, Option.map_some]
      refine ⟨_, _, rfl, ?_⟩
      unfold hexStep
      simp only
      split
      · split
        · exact ⟨hhex n, Or.inr ⟨n, rfl, hex_value n⟩⟩
        · exact ⟨hlit, Or.inl hmv⟩
      · exact ⟨hlit, Or.inl hmv⟩

/-- **A3 (whole routine).** Outside the fast path the printed text is never longer than the FormatFloat text. -/
theorem print_not_longer (minify : Bool) (intVal : Option Nat) (t : List Char) (h : ffShape t = true)
    (hslow : ∀ n, intVal = some n → 1000 ≤ n) :
    ∀ out sp, printNonNegativeFloat minify intVal t = some (out, sp) → out.length ≤ t.length := by
  obtain ⟨r, hr, _, _⟩ := rewrite_preserves_value minify t h
  have hl := rewrite_not_longer minify t h r hr
  intro out sp
  unfold printNonNegativeFloat
  cases intVal with
  | none =>
    simp only [hr, Option.map_some, Option.some.injEq, Prod.mk.injEq]
    rintro ⟨rfl, _⟩; exact hl
  | some n =>
    have := hslow n rfl
    simp only [show ¬ n < 1000 by omega, if_false, hr, Option.map_some, Option.some.injEq, Prod.mk.injEq]
    rintro ⟨rfl, _⟩
    unfold hexStep
    simp only
    split
    · split
      · rename_i hlt; simp only [List.length_cons] at hlt ⊢; omega
      · exact hl
    · exact hl

/-! ## non-vacuity: real outputs of `strconv.FormatFloat(x,'g',-1,64)` satisfy `ffShape` -/

example : ffShape "1.5e+21".toList = true := by decide
example : ffShape "1e+06".toList = true := by decide
example : ffShape "1.234567e+06".toList = true := by decide
example : ffShape "1e-07".toList = true := by decide
example : ffShape "5e-324".toList = true := by decide
example : ffShape "1.7976931348623157e+308".toList = true := by decide
example : ffShape "0.001".toList = true := by decide
example : ffShape "0.5".toList = true := by decide
example : ffShape "123456.789".toList = true := by decide
example : ffShape "100000".toList = true := by decide
example : ffShape "1000.5".toList = true := by decide
/-- … and texts FormatFloat never produces do not: "0.000" (x = 0 is printed by the fast path), a four-digit
exponent, a missing exponent sign, a leading zero before an exponent. -/
example : ffShape "0.000".toList = false := by decide
example : ffShape "1e+1000".toList = false := by decide
example : ffShape "1e21".toList = false := by decide
example : ffShape "0.5e-07".toList = false := by decide
example := rewrite_preserves_value true "1.5e+21".toList (by decide)
example := print_preserves_value true (some 1500000000000000000000) "1.5e+21".toList (by decide)
example := print_not_longer true (some 1099511627776) "1.099511627776e+12".toList (by decide) (by simp)

end EsbuildModel.C01Num
