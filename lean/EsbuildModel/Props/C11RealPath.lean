import EsbuildModel.Lemmas.RealPathFinalize
/-
C11 (module resolution agrees with Node) — symbolic links: without preserve-symlinks the path the resolver returns
is the REAL path (POSIX realpath, Spec/RealPath.lean), so a file reached through two links is one module and its own
bare imports are looked up from its real location.

Model: Impl/RealPath.lean (dirInfoCached / dirInfoUncached / finalizeResolve of internal/resolver/resolver.go,
kind / kindOfPath / EvalSymlinks of internal/fs).  Hypotheses that appear below, each with a concrete witness:
  `t.WF`            the table of entries describes a tree (every entry lies in a directory; no entry is named "." / "..")
  `CleanPath p`     the queried path has no "." / ".." component (the resolver only passes `fs.Join`ed paths)
  `NoCaseClash t`   no two entries of one directory differ only by case.  FORCED: `DirEntries` is a map keyed by
                    strings.ToLower(name); with `Lib/` and `lib -> elsewhere` in one directory the resolver takes the
                    wrong entry (counterexample below; reproduced on the real binary, see the package report)
  `Reachable c`     the dirCache was filled by earlier dirInfoCached / finalizeResolve calls, in any order
  link budgets      only in the two "exists" statements: at most `osLinkLimit` (40, Linux) link expansions
-/
namespace EsbuildModel.C11RealPath
open EsbuildModel.PosixFS EsbuildModel.RealPath

/-! ## the specification is a function, and its values are fixed points -/

/-- realpath is single valued -/
theorem realpath_deterministic {t : Tree} {p : List Name} {r r' : Path} (h : RealPath t p r) (h' : RealPath t p r') :
    r = r' := by
  obtain ⟨n, h⟩ := h; obtain ⟨n', h'⟩ := h'; exact (h.det h').1

/-- the real path of a path is its own real path, reached without expanding any link -/
theorem realpath_idempotent {t : Tree} {p : List Name} {r : Path} (h : RealPath t p r) : Resolves t [] r r 0 := by
  obtain ⟨n, h⟩ := h
  have := RealPos.resolves r [] (by simpa using h.realPos (RealPos.nil t))
  simpa using this

/-- esbuild's fork of `filepath.EvalSymlinks` computes POSIX realpath: what it returns is the real path, and it
returns it whenever at most 255 links have to be expanded -/
theorem evalSymlinks_correct {t : Tree} (hwf : t.WF) (p : List Name) (r : Path) :
    (goEval t p = some r → RealPath t p r) ∧
    (∀ n, Resolves t [] p r n → n ≤ goLinkLimit → goEval t p = some r) :=
  ⟨fun h => let ⟨n, _, hr⟩ := goEval_sound hwf h; ⟨n, hr⟩, fun _ h hn => goEval_of_resolves h hn⟩

/-! ## (1) dir_real_path_correct -/

/-- for every directory the resolver has information about — reached through any chain of links —
`absRealPath` (or `absPath` when it is empty) is the POSIX real path of the directory, and a directory is there -/
theorem dir_real_path_correct {t : Tree} (hwf : t.WF) (hcc : NoCaseClash t) {c : Cache} (hc : Reachable t false c)
    {p : Path} (hp : CleanPath p) {i : DirInfo} (h : (dirInfoCached t false c p).2 = some i) :
    RealPath t p i.eff ∧ t.raw i.eff = some .dir ∧ i.absPath = p := by
  rw [(dirInfoCached_spec hc.coherent p).1] at h
  have hg := pure_good hwf hcc p.reverse i (by simpa using hp) h
  simp only [List.reverse_reverse] at hg
  obtain ⟨n, _, hr⟩ := hg.res
  exact ⟨⟨n, hr⟩, hg.dir, hg.abs⟩

/-- … and the information exists for every path that resolves to a directory within the OS's link budget -/
theorem dir_info_exists {t : Tree} (hwf : t.WF) (preserve : Bool) {c : Cache} (hc : Reachable t preserve c)
    {p r : Path} (hp : CleanPath p) {n : Nat} (hres : Resolves t [] p r n) (hn : n ≤ osLinkLimit)
    (hd : t.raw r = some .dir) : ∃ i, (dirInfoCached t preserve c p).2 = some i := by
  rw [(dirInfoCached_spec hc.coherent p).1]
  exact pure_isSome hwf preserve p.reverse _ (by simpa using hp) (by simpa using osReaddir_of_resolves hres hn hd)

/-! ## (2) resolved_file_is_real -/

/-- when the resolver has found a file (`loadAsFile`: the directory is readable, the entry with exactly this name
exists and its `Kind` is FileEntry), the path `finalizeResolve` returns is the POSIX real path of the file: a file
link, a file in a linked directory, a linked directory inside a linked directory, a link to a link -/
theorem resolved_file_is_real {t : Tree} (hwf : t.WF) (hcc : NoCaseClash t) {c : Cache} (hc : Reachable t false c)
    {p : Path} (hp : CleanPath p) (hfound : loadAsFileExact t p = some p) (hex : osLstat t p ≠ none) :
    RealPath t p (finalize t false c p).2 ∧ t.raw (finalize t false c p).2 = some .file := by
  rw [(finalize_spec hc.coherent p).1]
  exact finalizePure_real hwf hcc hp hfound hex

/-- the same in the direction "agrees with Node": every clean path whose real path is a regular file (within the
OS's link budget) IS found by `loadAsFile` and IS rewritten to exactly that real path -/
theorem existing_file_found_and_real {t : Tree} (hwf : t.WF) (hcc : NoCaseClash t) {c : Cache}
    (hc : Reachable t false c) {p r : Path} (hp : CleanPath p) {n : Nat} (hres : Resolves t [] p r n)
    (hn : n ≤ osLinkLimit) (hfile : t.raw r = some .file) :
    loadAsFileExact t p = some p ∧ (finalize t false c p).2 = r := by
  cases hs : splitLast p with
  | none =>
    have := splitLast_eq_none hs; subst this
    cases hres; rw [raw_nil] at hfile; cases hfile
  | some db =>
    obtain ⟨d, b⟩ := db
    have := splitLast_eq_some hs; subst this
    have hb := hp b (by simp)
    obtain ⟨m, n1, n2, h1, h2, hsum⟩ := hres.split d [b] rfl
    have hn1 : n1 ≤ osLinkLimit := by omega
    obtain ⟨hmd, hcase⟩ := resolves_single hb.1 hb.2 h2
    have hrd := osReaddir_of_resolves h1 hn1 hmd
    have hkind : entryKind t d b = .file ∧ ∃ nd, t.raw (m ++ [b]) = some nd := by
      rcases hcase with ⟨nd, hraw, hl, hr, _⟩ | ⟨abs, tgt, hraw⟩
      · subst hr
        rw [hraw] at hfile; cases hfile
        exact ⟨by simp [entryKind, kindOfPath_nonlink h1 hn1 hmd hraw hl, kindOf], _, hraw⟩
      · obtain ⟨nd, hnd, _, hk⟩ := kindOfPath_link h1 hn1 hmd hraw hres (Nat.le_trans hn (by decide))
        rw [hfile] at hnd; cases hnd
        exact ⟨by simp [entryKind, hk, kindOf], _, hraw⟩
    obtain ⟨hk, nd, hnd⟩ := hkind
    have hget : get (t.children m) b = some b := get_of_mem (hcc.children _) (raw_snoc_mem_children hnd)
    have hfound : loadAsFileExact t (d ++ [b]) = some (d ++ [b]) := by
      simp [loadAsFileExact, splitLast_append, hrd, hget, hk]
    have hex : osLstat t (d ++ [b]) ≠ none := by rw [osLstat_snoc h1 hn1 hmd, hnd]; simp
    exact ⟨hfound, realpath_deterministic (resolved_file_is_real hwf hcc hc hp hfound hex).1 ⟨n, hres⟩⟩

/-- a file reached through two different paths is ONE module: both are rewritten to the same path -/
theorem two_paths_one_module {t : Tree} (hwf : t.WF) (hcc : NoCaseClash t) {c c' : Cache}
    (hc : Reachable t false c) (hc' : Reachable t false c') {p q r : Path} (hp : CleanPath p) (hq : CleanPath q)
    {n n' : Nat} (h : Resolves t [] p r n) (h' : Resolves t [] q r n') (hn : n ≤ osLinkLimit) (hn' : n' ≤ osLinkLimit)
    (hfile : t.raw r = some .file) : (finalize t false c p).2 = (finalize t false c' q).2 := by
  rw [(existing_file_found_and_real hwf hcc hc hp h hn hfile).2,
    (existing_file_found_and_real hwf hcc hc' hq h' hn' hfile).2]

/-! ## (3) cache_order_irrelevant -/

/-- the answers of `dirInfoCached` and `finalizeResolve` do not depend on which directories were asked for before:
on every reachable dirCache they are the answers on the empty one -/
theorem cache_order_irrelevant {t : Tree} {preserve : Bool} {c : Cache} (hc : Reachable t preserve c) (p : Path) :
    (dirInfoCached t preserve c p).2 = (dirInfoCached t preserve [] p).2 ∧
    (finalize t preserve c p).2 = (finalize t preserve [] p).2 := by
  have h0 := coherent_nil t preserve
  exact ⟨by rw [(dirInfoCached_spec hc.coherent p).1, (dirInfoCached_spec h0 p).1],
    by rw [(finalize_spec hc.coherent p).1, (finalize_spec h0 p).1]⟩

/-! ## (4) preserve_symlinks_identity -/

/-- with preserveSymlinks no path is rewritten and no directory gets a real path -/
theorem preserve_symlinks_identity {t : Tree} {c : Cache} (hc : Reachable t true c) (p : Path) :
    (finalize t true c p).2 = p ∧
    (∀ i, (dirInfoCached t true c p).2 = some i → i.absRealPath = none ∧ i.eff = p) := by
  constructor
  · rw [(finalize_spec hc.coherent p).1]
    unfold finalizePure
    cases splitLast p with
    | none => rfl
    | some db =>
      obtain ⟨d, b⟩ := db
      simp only
      cases dirInfoPure t true d.reverse with
      | none => rfl
      | some di => simp
  · intro i h
    rw [(dirInfoCached_spec hc.coherent p).1] at h
    obtain ⟨h1, h2⟩ := pure_preserve p.reverse i h
    exact ⟨h1, by rw [eff_none h1, h2, List.reverse_reverse]⟩

/-! ## non-vacuity: a store layout with a link to a link, a linked directory inside a linked directory, an absolute
file link and a cycle -/

private def nm (s : String) : Name := s.toList

/-- /proj/src/main.js, /proj/src/cfg.js -> /store/x/index.js, /proj/node_modules/x -> ../../store/x,
/proj/node_modules/alias -> x, /store/x/index.js, /store/x/lib -> ../shared/lib, /store/shared/lib/f.js,
/store/loop -> loop -/
def exTree : Tree := ⟨[
  ⟨[], nm "proj", .dir⟩, ⟨[], nm "store", .dir⟩,
  ⟨[nm "proj"], nm "src", .dir⟩, ⟨[nm "proj"], nm "node_modules", .dir⟩,
  ⟨[nm "proj", nm "src"], nm "main.js", .file⟩,
  ⟨[nm "proj", nm "src"], nm "cfg.js", .link true [nm "store", nm "x", nm "index.js"]⟩,
  ⟨[nm "proj", nm "node_modules"], nm "x", .link false [dotdotN, dotdotN, nm "store", nm "x"]⟩,
  ⟨[nm "proj", nm "node_modules"], nm "alias", .link false [nm "x"]⟩,
  ⟨[nm "store"], nm "x", .dir⟩, ⟨[nm "store"], nm "shared", .dir⟩, ⟨[nm "store"], nm "loop", .link false [nm "loop"]⟩,
  ⟨[nm "store", nm "x"], nm "index.js", .file⟩,
  ⟨[nm "store", nm "x"], nm "lib", .link false [dotdotN, nm "shared", nm "lib"]⟩,
  ⟨[nm "store", nm "shared"], nm "lib", .dir⟩,
  ⟨[nm "store", nm "shared", nm "lib"], nm "f.js", .file⟩]⟩

def viaAlias : Path := [nm "proj", nm "node_modules", nm "alias", nm "lib"]
def viaX : Path := [nm "proj", nm "node_modules", nm "x", nm "lib"]
def realLib : Path := [nm "store", nm "shared", nm "lib"]

example : exTree.WF := by decide
example : NoCaseClash exTree := by decide
example : CleanPath (viaAlias ++ [nm "f.js"]) := by decide

/-- (1): link to a link, then a linked directory inside the linked directory -/
example : (dirInfoCached exTree false [] viaAlias).2 =
    some { absPath := viaAlias, absRealPath := some realLib, entries := [nm "f.js"] } := by decide
/-- a directory that is already real has no absRealPath -/
example : (dirInfoCached exTree false [] realLib).2 =
    some { absPath := realLib, absRealPath := none, entries := [nm "f.js"] } := by decide
/-- a link cycle and a path below a file have no directory information (as the code does: nil) -/
example : (dirInfoCached exTree false [] [nm "store", nm "loop"]).2 = none := by decide
example : (dirInfoCached exTree false [] [nm "proj", nm "src", nm "main.js", nm "below"]).2 = none := by decide

/-- (2): the hypotheses hold and the file is rewritten to its real path — through both chains, to the same path -/
example : loadAsFileExact exTree (viaAlias ++ [nm "f.js"]) = some (viaAlias ++ [nm "f.js"]) ∧
    osLstat exTree (viaAlias ++ [nm "f.js"]) ≠ none := by decide
example : (finalize exTree false [] (viaAlias ++ [nm "f.js"])).2 = realLib ++ [nm "f.js"] ∧
    (finalize exTree false [] (viaX ++ [nm "f.js"])).2 = realLib ++ [nm "f.js"] := by decide
/-- an absolute file link -/
example : (finalize exTree false [] [nm "proj", nm "src", nm "cfg.js"]).2 = [nm "store", nm "x", nm "index.js"] := by
  decide
/-- the link budgets of `dir_info_exists` / `existing_file_found_and_real` are met: 3 expansions -/
example : walk exTree 3 [] (viaAlias ++ [nm "f.js"]) = some (realLib ++ [nm "f.js"]) ∧
    walk exTree 2 [] (viaAlias ++ [nm "f.js"]) = none := by decide

/-- (3): a cache filled in another order (the deep directory first, an unrelated failing query in between) -/
example : Reachable exTree false
    (dirInfoCached exTree false (finalize exTree false (dirInfoCached exTree false [] viaX).1 [nm "store", nm "loop", nm "q"]).1
      [nm "proj"]).1 := .dirInfo _ (.finalize _ (.dirInfo _ .empty))

/-- (4): preserveSymlinks -/
example : (finalize exTree true [] (viaAlias ++ [nm "f.js"])).2 = viaAlias ++ [nm "f.js"] ∧
    (dirInfoCached exTree true [] viaAlias).2 =
      some { absPath := viaAlias, absRealPath := none, entries := [nm "f.js"] } := by decide

/-- The ORDER in dirInfoUncached matters (seeded change C11-m4 swapped it): taking the parent's real path first gives,
for /proj/node_modules/x/lib, the path /store/x/lib — which is itself a link, not a real path. -/
example : (dirInfoCached exTree false [] [nm "proj", nm "node_modules", nm "x"]).2.bind (·.absRealPath)
      = some [nm "store", nm "x"] ∧
    exTree.raw ([nm "store", nm "x"] ++ [nm "lib"]) = some (.link false [dotdotN, nm "shared", nm "lib"]) := by decide

/-! ## `NoCaseClash` is forced: the listing src, Lib, lib with `Lib/` a directory and `lib -> ../other/real` -/

def clashTree : Tree := ⟨[
  ⟨[], nm "proj", .dir⟩, ⟨[], nm "other", .dir⟩, ⟨[nm "other"], nm "real", .dir⟩,
  ⟨[nm "other", nm "real"], nm "f.js", .file⟩,
  ⟨[nm "proj"], nm "src", .dir⟩, ⟨[nm "proj"], nm "Lib", .dir⟩,
  ⟨[nm "proj"], nm "lib", .link false [dotdotN, nm "other", nm "real"]⟩,
  ⟨[nm "proj", nm "Lib"], nm "f.js", .file⟩]⟩

example : clashTree.WF ∧ ¬ NoCaseClash clashTree := by decide

/-- the directory /proj/Lib is real, but the resolver gives it the real path of its sibling `lib`, and the file
/proj/Lib/f.js is rewritten to /other/real/f.js (a different file): (1) and (2) fail without the hypothesis -/
example : (dirInfoCached clashTree false [] [nm "proj", nm "Lib"]).2.map (·.eff) = some [nm "other", nm "real"] ∧
    goEval clashTree [nm "proj", nm "Lib"] = some [nm "proj", nm "Lib"] ∧
    (finalize clashTree false [] [nm "proj", nm "Lib", nm "f.js"]).2 = [nm "other", nm "real", nm "f.js"] ∧
    goEval clashTree [nm "proj", nm "Lib", nm "f.js"] = some [nm "proj", nm "Lib", nm "f.js"] := by decide

example : ¬ RealPath clashTree [nm "proj", nm "Lib", nm "f.js"] (finalize clashTree false [] [nm "proj", nm "Lib", nm "f.js"]).2 := by
  intro h
  have h2 := ((evalSymlinks_correct (by decide : clashTree.WF) [nm "proj", nm "Lib", nm "f.js"] _).1
    (by decide : goEval clashTree [nm "proj", nm "Lib", nm "f.js"] = some [nm "proj", nm "Lib", nm "f.js"]))
  have := realpath_deterministic h h2
  revert this
  decide

end EsbuildModel.C11RealPath
