import EsbuildModel.Lemmas.CssBoxLen
/-! # C12 — box-shorthand collapsing (`margin`, `padding`, `inset`) and duplicate removal in one declaration list
preserve the cascade: property theorems.

Model: `Impl/CssBox` (`minifyDecls` = `processDeclarations` restricted to the three box trackers, followed by the
duplicate removal of `mangleRules`).  Specification: `Spec/BoxCascade` (`winner`).  `view F` shows a model declaration
to the cascade of family `F`; `CssFacts B F` are the CSS facts assumed of the user agent `B` (see
`Lemmas/CssBoxTok`): numeric tokens and `auto` are self-contained components, zero lengths need no unit, the four
longhands share one grammar and the shorthand is `<longhand>{1,4}`, esbuild's "safe" components are accepted, and
whether a length in another unit is accepted depends on the unit only. -/
namespace EsbuildModel.C12Box
open EsbuildModel.CssBox EsbuildModel.Spec.BoxCascade

/-- `lastOf` of the specification on the cascade's view of a model declaration list -/
theorem lastOf_view {V : Type} (B : Browser Tok V) (F : Family) (l : List CssBox.Decl) (s : Side) (imp : Bool) :
    lastOf B (l.map (view F)) s imp = lastSome (cD B F s imp) l := by
  unfold lastOf
  exact lastSome_map (contribution B s imp) (view F) l

/-- **Box.collapse_equiv (partial).**  For every declaration list `ds`, every box family `F` (all three trackers run,
declarations of the other families and unrelated declarations may be interleaved), both values of
`minifyWhitespace`, every user agent satisfying `CssFacts` — and ANY units, `!important` mixes, repeats, `auto`,
untracked values (`var()`, `inherit`, garbage) — the cascaded value of each of the four sides of `F` computed from
the minified list equals the one computed from the input, PROVIDED no flow-relative property of `F`
(`margin-inline`, `inset-block-start`, …) occurs in the list (`NoFlow`; known finding, counterexample below) and the
`inset` lowering is off.

OPEN (full statement): the same without `hNoFlow` — FALSE of the code, see `logical_property_counterexample`. -/
theorem box_collapse_preserves_sides_partial {V : Type} (B : Browser Tok V) (F : Family) (o : Opts)
    (ds out : List CssBox.Decl) (hB : CssFacts B F) (hInset : o.insetUnsupported = false)
    (hNoFlow : NoFlow F ds) (hrun : minifyDecls o ds = some out) :
    ∀ s, winner B (out.map (view F)) s = winner B (ds.map (view F)) s := by
  intro s
  unfold winner
  simp only [lastOf_view]
  rw [processDeclarations_lastSome hB o hInset hNoFlow out hrun s true,
    processDeclarations_lastSome hB o hInset hNoFlow out hrun s false]

/-- Go never indexes `rewrittenRules` out of range in the modelled code: the model always returns a list
(every declaration list, both flags, including the `inset` lowering path). -/
theorem minifyDecls_never_panics (o : Opts) (ds : List CssBox.Decl) : ∃ out, minifyDecls o ds = some out :=
  minifyDecls_isSome o ds

/-- the output never has more declarations than the input (without the `inset` lowering, which splits one
declaration into four: `lowering_can_lengthen` below) -/
theorem output_not_longer (o : Opts) (ds out : List CssBox.Decl) (hInset : o.insetUnsupported = false)
    (hrun : minifyDecls o ds = some out) : out.length ≤ ds.length :=
  minifyDecls_length_le o hInset ds out hrun

/-- `expand (compress s) = s`: the merged value, read with the CSS 1–4 value rule, gives back the four sides … -/
theorem merged_value_expands_to_sides (a c d e : Token) (mw : Bool) :
    quad ((compactTokenQuad a c d e mw).map Token.core) = some (a.core, c.core, d.core, e.core) :=
  quad_compactTokenQuad a c d e mw

/-- … and it is a shortest such value: no list of component values that expands to the same four sides is shorter -/
theorem merged_value_is_shortest (a c d e : Token) (mw : Bool) (ts : List Tok)
    (h : quad ts = some (a.core, c.core, d.core, e.core)) : (compactTokenQuad a c d e mw).length ≤ ts.length :=
  compactTokenQuad_shortest a c d e mw ts h


/-! ## Non-vacuity: a user agent that satisfies `CssFacts`, and concrete runs of the model -/

/-- a lower-cased dimension text `0<safe unit>` -/
def isZeroLen (t : Tok) : Bool := t.1 == .dimension && safeUnits.any (fun u => toLower t.2 == 48 :: u)

/-- a user agent that accepts everything, reads `0<unit>` as `0`, horizontal-tb/ltr -/
def toy : Browser Tok Tok :=
  { ok := fun _ _ => true, plain := fun _ => true,
    den := fun t => if isZeroLen t then (.number, b "0") else t, wm := horizontalLtr }

theorem toLower_zero_cons (r : List Nat) : toLower (48 :: r) = 48 :: toLower r := by
  simp [toLower]

theorem toy_facts (F : Family) : CssFacts toy F := by
  refine ⟨fun _ _ => rfl, ?_, fun _ _ _ => rfl, fun ts _ _ _ => ?_, fun _ _ => rfl, fun _ _ _ _ _ _ _ => rfl⟩
  · intro t hk hv hs
    have htext : t.text = 48 :: t.dimUnit := by
      have := List.take_append_drop t.unitOffset t.text
      unfold Token.dimValue at hv
      unfold Token.dimUnit
      rw [hv] at this
      exact this.symm
    have hz : isZeroLen t.core = true := by
      unfold isZeroLen Token.core
      simp only [hk, beq_self_eq_true, Bool.true_and, htext, toLower_zero_cons]
      unfold Token.unitIsSafeLength at hs
      rw [List.any_eq_true]
      exact ⟨toLower t.dimUnit, List.contains_iff_mem.mp hs, by simp⟩
    show (if isZeroLen t.core = true then (Kind.number, b "0") else t.core) = _
    rw [if_pos hz]
    rfl
  · show true = ts.all (okT toy)
    symm
    rw [List.all_eq_true]
    intro _ _; rfl

def dim (v u : String) : Token := { kind := .dimension, text := b v ++ b u, unitOffset := (b v).length, ws := 1 }
def num0 : Token := { kind := .number, text := b "0", ws := 1 }
def decl (k : String) (v : List Token) (imp : Bool := false) : CssBox.Decl := { keyText := b k, value := v, important := imp }

def tok (k : Kind) (text : String) (uo ws : Nat) : Token := { kind := k, text := b text, unitOffset := uo, ws := ws }

/-- decidable form of `NoFlow` -/
def noFlowB (F : Family) (ds : List CssBox.Decl) : Bool :=
  ds.all fun d => match d.key with
    | .box f (.flow _) => f != F
    | .box f .block => f != F
    | .box f .inline => f != F
    | _ => true

theorem noFlow_of_check (F : Family) (ds : List CssBox.Decl) (h : noFlowB F ds = true) : NoFlow F ds := by
  intro d hd p hp
  have := List.all_eq_true.mp h d hd
  rw [hp] at this
  cases p with
  | shorthand => exact Or.inl rfl
  | side s => exact Or.inr ⟨s, rfl⟩
  | flow l => simp at this
  | block => simp at this
  | inline => simp at this

def ex1 : List CssBox.Decl :=
  [decl "margin-left" [dim "4" "px"], decl "color" [], decl "margin-top" [dim "1" "px"],
   decl "margin-right" [dim "4" "px"], decl "margin-bottom" [dim "0" "px"]]

/-- four longhands in any order (one a zero length) are merged into the shortest shorthand, placed last -/
example : minifyDecls {} ex1 =
    some [decl "color" [], decl "margin" [tok .dimension "1px" 1 3, tok .dimension "4px" 1 3, tok .number "0" 1 1]] := by
  decide +kernel

/-- the hypotheses of `box_collapse_preserves_sides_partial` hold for that input … -/
example : NoFlow .margin ex1 ∧ CssFacts toy .margin := ⟨noFlow_of_check _ _ (by decide +kernel), toy_facts _⟩

/-- … and its conclusion is not trivial: left is `4px`, bottom is the unit-less zero -/
example : winner toy (ex1.map (view .margin)) .left = some (.known (.dimension, b "4px")) ∧
    winner toy (ex1.map (view .margin)) .bottom = some (.known (.number, b "0")) := by decide +kernel

/-- units outside esbuild's safe list (`rem`): an overridden declaration stays BEFORE the merged shorthand -/
example : minifyDecls {} [decl "padding-left" [dim "1" "rem"], decl "padding-top" [dim "2" "rem"],
      decl "padding-top" [dim "3" "rem"], decl "padding-right" [dim "1" "rem"], decl "padding-bottom" [dim "1" "rem"]] =
    some [decl "padding-top" [dim "2" "rem"],
      decl "padding" [tok .dimension "3rem" 1 3, tok .dimension "1rem" 1 3, tok .dimension "1rem" 1 1]] := by
  decide +kernel

/-- KNOWN FINDING (c12-box-collapse-ignores-logical-properties), why `hNoFlow` is needed: the tracker ignores
`margin-inline`, the merged shorthand lands after it, and `left` changes from `5px` to `4px`. -/
def exLogical : List CssBox.Decl :=
  [decl "margin-left" [dim "4" "px"], decl "margin-inline" [dim "5" "px"], decl "margin-top" [dim "1" "px"],
   decl "margin-right" [dim "2" "px"], decl "margin-bottom" [dim "3" "px"]]

theorem logical_property_counterexample :
    ¬ NoFlow .margin exLogical ∧
    minifyDecls {} exLogical = some [decl "margin-inline" [dim "5" "px"],
      decl "margin" [tok .dimension "1px" 1 3, tok .dimension "2px" 1 3, tok .dimension "3px" 1 3, tok .dimension "4px" 1 1]] ∧
    winner toy (exLogical.map (view .margin)) .left = some (.known (.dimension, b "5px")) ∧
    winner toy ([decl "margin-inline" [dim "5" "px"],
      decl "margin" [tok .dimension "1px" 1 3, tok .dimension "2px" 1 3, tok .dimension "3px" 1 3, tok .dimension "4px" 1 1]].map
        (view .margin)) .left = some (.known (.dimension, b "4px")) := by
  refine ⟨fun h => ?_, by decide +kernel, by decide +kernel, by decide +kernel⟩
  have := h (decl "margin-inline" [dim "5" "px"]) (by simp [exLogical]) .inline (by decide +kernel)
  rcases this with h' | ⟨s, h'⟩ <;> cases h'

/-- why `ok_safe` is a hypothesis: a user agent that rejects negative paddings (as browsers do) keeps `5px` from the
input but gets nothing from the output, because esbuild removes the overridden declaration -/
def strict : Browser Tok Tok := { toy with ok := fun _ v => v.all fun t => t.2.head? != some 45 }

example : minifyDecls {} [decl "padding-top" [dim "5" "px"], decl "padding-top" [dim "-1" "px"]] =
      some [decl "padding-top" [dim "-1" "px"]] ∧
    winner strict ([decl "padding-top" [dim "5" "px"], decl "padding-top" [dim "-1" "px"]].map (view .padding)) .top =
      some (.known (.dimension, b "5px")) ∧
    winner strict ([decl "padding-top" [dim "-1" "px"]].map (view .padding)) .top = none := by
  refine ⟨by decide +kernel, by decide +kernel, by decide +kernel⟩

/-- why `output_not_longer` excludes the `inset` lowering -/
theorem lowering_can_lengthen :
    minifyDecls { insetUnsupported := true } [decl "inset" [dim "1" "px", dim "2" "px"]] =
      some [decl "top" [tok .dimension "1px" 1 1], decl "right" [tok .dimension "2px" 1 1],
            decl "bottom" [tok .dimension "1px" 1 1], decl "left" [tok .dimension "2px" 1 1]] := by decide +kernel

end EsbuildModel.C12Box
