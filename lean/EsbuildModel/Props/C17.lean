import EsbuildModel.Impl.Writes
/-!
C17 — builds never clobber inputs; failed builds write nothing.  Theorems about the model of a build context's
file-system effects (Impl/Writes.lean), compared with real contexts on real directories (kernel `writes`).

What the model cannot see: whether two path STRINGS name the same file (symlinks, case-insensitive file
systems) — see the known finding c17-symlinked-outdir-clobbers-input — and plugin on-end callbacks, which run
after the files were written.
-/
namespace EsbuildModel.Writes

/-- C17: a build that reports errors, a cancelled build and a build with writing disabled write nothing. -/
theorem failed_build_writes_nothing (old : Table) (r : Req) (h : hasError r = true ∨ r.write = false) :
    (effects old r).written = [] := by
  unfold effects
  rcases h with h | h
  · by_cases hw : r.write <;> simp [hw, h]
  · simp [h]

/-- with writing disabled nothing is deleted either -/
theorem no_write_no_effects (old : Table) (r : Req) (h : r.write = false) :
    (effects old r).deleted = [] ∧ (effects old r).written = [] := by
  unfold effects; simp [h]

/-- C17: unless overwriting was explicitly allowed, no written file is one of the build's inputs. -/
theorem inputs_never_overwritten (old : Table) (r : Req) (hno : r.allowOverwrite = false) :
    ∀ o ∈ (effects old r).written, o.path ∉ r.inputs := by
  intro o ho hin
  unfold effects at ho
  by_cases hw : r.write
  · simp only [hw, Bool.not_true, Bool.false_eq_true, if_false] at ho
    by_cases he : hasError r = true
    · simp [he] at ho
    · simp only [he, if_false] at ho
      have homem : o ∈ r.outs := (List.mem_filter.mp ho).1
      apply he
      unfold hasError clobbersInput
      simp only [hno, hw, Bool.not_false, Bool.true_and, Bool.or_eq_true, List.any_eq_true]
      left; right
      exact ⟨o, homem, List.contains_iff_mem.mpr hin⟩
  · simp [hw] at ho

/-- C17: two outputs are never written to one path with different contents. -/
theorem no_conflicting_writes (old : Table) (r : Req) :
    ∀ a ∈ (effects old r).written, ∀ b ∈ (effects old r).written, a.path = b.path → a.content = b.content := by
  intro a ha b hb hp
  unfold effects at ha hb
  by_cases hw : r.write
  · simp only [hw, Bool.not_true, Bool.false_eq_true, if_false] at ha hb
    by_cases he : hasError r = true
    · simp [he] at ha
    · simp only [he, if_false] at ha hb
      have hao := (List.mem_filter.mp ha).1
      have hbo := (List.mem_filter.mp hb).1
      by_cases hc : a.content = b.content
      · exact hc
      · exfalso; apply he
        unfold hasError conflictingOutputs
        simp only [Bool.or_eq_true, List.any_eq_true, Bool.and_eq_true, beq_iff_eq, bne_iff_ne, ne_eq]
        right
        exact ⟨a, hao, b, hbo, hp, hc⟩
  · simp [hw] at ha

/-- C17: what is written is exactly (part of) what the build reports as its outputs -/
theorem writes_are_reported_outputs (old : Table) (r : Req) : ∀ o ∈ (effects old r).written, o ∈ r.outs := by
  intro o ho
  unfold effects at ho
  by_cases hw : r.write
  · simp only [hw, Bool.not_true, Bool.false_eq_true, if_false] at ho
    by_cases he : hasError r = true
    · simp [he] at ho
    · simp only [he, if_false] at ho
      exact (List.mem_filter.mp ho).1
  · simp [hw] at ho

/-- C17: a rebuild only deletes files of the context's previous table that are not outputs of this build -/
theorem deletes_only_stale_own_outputs (old : Table) (r : Req) :
    ∀ p ∈ (effects old r).deleted, p ∈ old.map (·.path) ∧ p ∉ (newTable r).map (·.path) := by
  intro p hp
  unfold effects at hp
  by_cases hw : r.write
  · simp only [hw, Bool.not_true, Bool.false_eq_true, if_false] at hp
    have := List.mem_filter.mp hp
    refine ⟨this.1, ?_⟩
    intro hin
    have h2 := this.2
    rw [List.contains_iff_mem.mpr hin] at h2
    exact absurd h2 (by simp)
  · simp [hw] at hp

/-- the table of a context only ever holds outputs of its latest successful build -/
theorem table_is_latest_outputs (old : Table) (r : Req) : ∀ o ∈ (step old r).2, o ∈ r.outs ∧ hasError r = false := by
  intro o ho
  simp only [step, newTable] at ho
  by_cases he : hasError r = true
  · simp [he] at ho
  · simp only [he, if_false] at ho
    exact ⟨ho, by simpa using he⟩

/-- C17 over histories: invariant "the table ⊆ everything this context has written or found unchanged on disk
with its own content".  Stated on paths: every path a history ever deletes was an output of an earlier
successful build of the same context. -/
def outputsSoFar : List Req → List Nat
  | [] => []
  | r :: rs => (if hasError r then [] else r.outs.map (·.path)) ++ outputsSoFar rs

theorem run_deletes_own_outputs : ∀ (rs : List Req) (t : Table) (ever : List Nat) (seen : List Nat),
    (∀ p ∈ t.map (·.path), p ∈ seen) →
    ∀ e ∈ run t ever rs, ∀ p ∈ e.deleted, p ∈ seen ++ outputsSoFar rs := by
  intro rs
  induction rs with
  | nil => intro t ever seen _ e he; simp [run] at he
  | cons r rs ih =>
    intro t ever seen hseen e he p hp
    simp only [run, step, List.mem_cons] at he
    rcases he with rfl | he
    · have := (deletes_only_stale_own_outputs t r p hp).1
      exact List.mem_append_left _ (hseen p this)
    · have hnew : ∀ q ∈ (newTable r).map (·.path), q ∈ seen ++ (if hasError r then [] else r.outs.map (·.path)) := by
        intro q hq
        unfold newTable at hq
        by_cases herr : hasError r = true
        · simp [herr] at hq
        · simp only [herr, if_false] at hq ⊢
          exact List.mem_append_right _ hq
      have := ih (newTable r) _ (seen ++ (if hasError r then [] else r.outs.map (·.path))) hnew e he p hp
      simp only [outputsSoFar]
      simpa [List.append_assoc] using this

-- ---------------------------------------------------------------- non-vacuity

def exReq : Req := { inputs := [1, 2], outs := [⟨10, 7⟩, ⟨2, 8⟩], failed := false, cancelled := false,
                     allowOverwrite := false, write := true, onDiskSame := [] }
example : hasError exReq = true := by decide            -- output path 2 is an input
example : (effects [⟨10, 7⟩, ⟨11, 3⟩] exReq).deleted = [10, 11] ∧ (effects [⟨10, 7⟩] exReq).written = [] := by decide
example : (effects [⟨11, 3⟩] { exReq with allowOverwrite := true }).written = [⟨10, 7⟩, ⟨2, 8⟩] := by decide

end EsbuildModel.Writes
