import EsbuildModel.Lemmas.Pieces
/-! # C18 — hashed names identify content: property theorems -/
namespace EsbuildModel.C18
open EsbuildModel.Pieces

/-- `Hash.lenprefix_injective`: the byte string fed to the hash by a sequence of
`hashWriteLengthPrefixed` calls determines the sequence of components ("a"+"bc" never collides with
"ab"+"c"), for all component lists whose lengths fit the uint32 length prefix. -/
theorem lenprefix_injective (a b : List (List Nat))
    (ha : ∀ x ∈ a, x.length < 4294967296) (hb : ∀ x ∈ b, x.length < 4294967296)
    (h : preimage a = preimage b) : a = b := preimage_injective a b ha hb h

/-- the hypothesis is satisfiable and the statement is not vacuous: two different splits of "abc" -/
example : preimage [[97], [98, 99]] ≠ preimage [[97, 98], [99]] := by decide

/-- the pieces the hash is computed over partition the chunk's intermediate output exactly -/
theorem pieces_partition_output (pre : List Nat) (nFiles nChunks fuel : Nat) (out : List Nat) :
    rejoin (breakOutput pre nFiles nChunks fuel out) = out := rejoin_break pre nFiles nChunks fuel out

end EsbuildModel.C18
