import EsbuildModel.Lemmas.Pieces
import EsbuildModel.Lemmas.ChunkHash
/-! # C18 — hashed names identify content: property theorems -/
namespace EsbuildModel.C18
open EsbuildModel.Pieces

/-- `Hash.lenprefix_injective`: the byte string fed to the hash by a sequence of
`hashWriteLengthPrefixed` calls determines the sequence of components ("a"+"bc" never collides with
"ab"+"c"), for all component lists whose lengths fit the uint32 length prefix. -/
theorem lenprefix_injective (a b : List (List Nat))
    (ha : ∀ x ∈ a, x.length < 4294967296) (hb : ∀ x ∈ b, x.length < 4294967296)
    (h : preimage a = preimage b) : a = b := preimage_injective a b ha hb h

/-- the hypothesis is satisfiable and the statement is not vacuous: two different splits of "abc" -/
example : preimage [[97], [98, 99]] ≠ preimage [[97, 98], [99]] := by decide

/-- the pieces the hash is computed over partition the chunk's intermediate output exactly -/
theorem pieces_partition_output (pre : List Nat) (nFiles nChunks fuel : Nat) (out : List Nat) :
    rejoin (breakOutput pre nFiles nChunks fuel out) = out := rejoin_break pre nFiles nChunks fuel out


/-! ## The final hash of a chunk covers everything it references (appendIsolatedHashesForImportedChunks) -/
open EsbuildModel.ChunkHash in
/-- For every chunk graph whose import indices are in range the traversal that feeds the final hash of
chunk `i` terminates without an out-of-range access, feeds every chunk at most once, and feeds the block
(asset paths + isolated hash) of EVERY chunk that `i` imports directly or transitively — cycles
included. -/
theorem final_hash_covers_dependencies (cs : List Chunk) (hwf : WF cs) (i : Nat) (hi : i < cs.length) :
    ∃ o, order cs i = some o ∧ o.Nodup ∧ ∀ d, Reach cs i d → d ∈ o := by
  obtain ⟨st', e, p, hiv⟩ := visit_post hwf (cs.length + 1) i ⟨[], []⟩
    ⟨List.nodup_nil, by simp⟩ hi (by simp)
  obtain ⟨new, eo, nd, m⟩ := p.ord
  refine ⟨st'.order, by simp [order, e], ?_, ?_⟩
  · simp only [List.nil_append] at eo
    rw [eo]; exact nd
  · intro d hd
    have hv : d ∈ st'.visited := by
      induction hd with
      | refl => exact hiv
      | step _ hj ih => exact p.closed _ ih (by simp) _ hj
    simp only [List.nil_append] at eo
    rw [eo]
    exact (m d).2 ⟨hv, by simp⟩

open EsbuildModel.ChunkHash in
/-- If two builds have the same chunk graph and the same asset paths, and the isolated hash (of fixed
width) of ANY chunk that `i` imports directly or transitively differs, then the bytes fed to `i`'s final
hash differ: a change anywhere below a chunk reaches the pre-image of its name. -/
theorem dependency_change_changes_preimage (cs cs' : List Chunk)
    (himp : cs.map (·.imports) = cs'.map (·.imports))
    (hassets : cs.map (·.assets) = cs'.map (·.assets))
    (hwidth : cs.map (·.iso.length) = cs'.map (·.iso.length))
    (hwf : WF cs) (i d : Nat) (hi : i < cs.length) (hreach : Reach cs i d)
    (hdiff : (cs[d]?).map (·.iso) ≠ (cs'[d]?).map (·.iso)) :
    finalPreimage cs i ≠ finalPreimage cs' i := by
  obtain ⟨o, eo, _, hcov⟩ := final_hash_covers_dependencies cs hwf i hi
  have eo' : order cs' i = some o := by
    have hl : cs.length = cs'.length := by simpa using congrArg List.length himp
    simp only [order] at eo ⊢
    rw [← hl, ← visit_congr himp]; exact eo
  simp only [finalPreimage, eo, eo', Option.map_some, ne_eq, Option.some.injEq, blocks]
  intro h
  have hget : ∀ (x : Nat) {β : Type} (f : Chunk → β), cs.map f = cs'.map f → (cs[x]?).map f = (cs'[x]?).map f := by
    intro x β f hf
    have := congrArg (fun l => l[x]?) hf
    simpa using this
  have hblk := flatMap_eq_of_length _ _ o (by
    intro x _
    have ha := hget x _ hassets
    have hw := hget x _ hwidth
    cases h1 : cs[x]? <;> cases h2 : cs'[x]? <;> simp [h1, h2] at ha hw ⊢
    simp [block, ha, hw]) h d (hcov d hreach)
  have ha := hget d _ hassets
  cases h1 : cs[d]? <;> cases h2 : cs'[d]? <;> simp [h1, h2] at ha hdiff hblk
  simp only [block, ha] at hblk
  exact hdiff (List.append_cancel_left hblk)

/-- non-vacuity: a cycle 0 → 1 → 2 → 0 plus a shared chunk 3 with an asset; every hypothesis holds, the
order is the post-order, and changing chunk 2's isolated hash changes chunk 0's pre-image. -/
example :
    let cs : List ChunkHash.Chunk := [⟨[1, 3], [], [10]⟩, ⟨[2], [], [11]⟩, ⟨[0, 3], [[7, 7]], [12]⟩, ⟨[], [], [13]⟩]
    ChunkHash.order cs 0 = some [3, 2, 1, 0] ∧
    ChunkHash.finalPreimage cs 0 = some [13, 2, 0, 0, 0, 7, 7, 12, 11, 10] := by
  decide

end EsbuildModel.C18
