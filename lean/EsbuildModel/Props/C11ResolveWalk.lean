import EsbuildModel.Lemmas.ResolveWalk
import EsbuildModel.Props.C11TsPaths
/-! # C11 — where the remapping tables are consulted (resolveWithoutSymlinks / loadNodeModules): precedence

Model: Impl/ResolveWalk.lean.  These statements fix the ORDER OF PRECEDENCE the walk implements; they hold for
every world (file set, package.json / tsconfig.json contents) and every amount of fuel ≥ 1. -/
namespace EsbuildModel.C11ResolveWalk
open EsbuildModel.NodeExports (Str)
open EsbuildModel.PkgExports (hasPrefix)
open EsbuildModel.TsPaths (fsJoin Config Outcome matchTable)
open EsbuildModel.BrowserMap (Kind isPackagePath)
open EsbuildModel.ResolveWalk

/-- tsconfig.json is ignored for every importing directory inside a node_modules tree -/
theorem tsconfig_ignored_inside_node_modules (w : World) (dir : Str) (h : insideNodeModules dir = true) :
    tsConfigForDir w dir = none := by
  simp [tsConfigForDir, h]

/-- **tsconfig `paths` before node_modules**: if the enclosing tsconfig's `paths` yield a loadable location for a
package-style import, that is the answer of loadNodeModules — whatever any node_modules directory, `baseUrl`
or browser map of a package would give. -/
theorem paths_before_node_modules (w : World) (fuel : Nat) (imp dir : Str) (c : Config) (t : TsPaths.Table) (r : Res)
    (hc : tsConfigForDir w dir = some c) (ht : c.paths = some t)
    (hm : matchTable (loadAsFileOrDirectory w) c.absBaseURL t imp = .found r) :
    loadNodeModules w (fuel + 1) imp dir = .some r := by
  rw [loadNodeModules, hc, C11TsPaths.paths_hit_wins _ c t imp r _ ht hm]

/-- … then `baseUrl`/import, still before node_modules -/
theorem baseUrl_before_node_modules (w : World) (fuel : Nat) (imp dir b : Str) (c : Config) (r : Res)
    (hc : tsConfigForDir w dir = some c) (hb : c.baseUrl = some b)
    (hl : loadAsFileOrDirectory w (fsJoin b imp) = some r)
    (hm : ∀ t, c.paths = some t → matchTable (loadAsFileOrDirectory w) c.absBaseURL t imp = .notFound) :
    loadNodeModules w (fuel + 1) imp dir = .some r := by
  rw [loadNodeModules, hc, C11TsPaths.baseUrl_before_rest _ c imp b r _ hb hl hm]

/-- **the whole resolution step never panics**: for every world, every amount of fuel, every source directory and
import path, `resolveWithoutSymlinks` (with everything it calls: tsconfig `paths`, browser maps, main fields, the
node_modules walk) does not answer PANIC.  (Before the fix f92402c a `paths` pattern overlapping on the import
path made it panic; `R.overflow`, the unbounded browser-map recursion, is NOT excluded — see the known finding.) -/
theorem resolution_never_panics (w : World) (fuel : Nat) (src imp : Str) :
    resolveWithoutSymlinks w fuel src imp ≠ .panic := by
  obtain ⟨k1, k2, _, _⟩ := walk_never_panics w fuel
  unfold resolveWithoutSymlinks
  split
  · -- absolute import path
    simp only
    split
    · rename_i h
      exfalso
      revert h
      split
      · split
        · exact TsPaths.matchTable_no_panic _ _ _ _
        · simp
      · simp
    · simp
    · exact ofOption_no_panic _
  · split
    · simp only
      split
      · rename_i r heq
        repeat' (split at heq)
        all_goals first
          | (rename_i h; exact absurd h (k1 _ _))
          | (cases heq; done)
          | (cases heq; simp; done)
      · split <;> exact ofOption_no_panic _
    · split
      · split
        · simp
        · simp
        · rename_i h; exact absurd h (k2 _ _)
        · simp
      · split
        · simp
        · exact k1 _ _
      · exact k1 _ _

/-- **browser map before the file system, relative imports**: if the browser map of the scope disables the file
a relative import designates, the answer is that path with the "disabled" flag — whether or not the file exists. -/
theorem browser_false_disables_file (w : World) (fuel : Nat) (src imp : Str)
    (h1 : hasPrefix imp ['/'] = false) (h2 : isPackagePath imp = false)
    (hd : dirExists w (goDir (fsJoin src imp)) = true)
    (hb : cbm w (goDir (fsJoin src imp)) (fsJoin src imp) .absolute = some none) :
    resolveWithoutSymlinks w fuel src imp = .some (fsJoin src imp, true) := by
  simp [resolveWithoutSymlinks, h1, h2, hd, hb]

/-- **browser map before node_modules, package imports**: if the browser map remaps a package-style import,
the resolution continues FROM THE SCOPE DIRECTORY with the replacement (the original name is never looked up) -/
theorem browser_remaps_module_first (w : World) (fuel : Nat) (src imp remapped scopeAbs : Str) (m : BrowserMap.BMap)
    (h1 : hasPrefix imp ['/'] = false) (h2 : isPackagePath imp = true)
    (hb : cbm w src imp .package = some (some remapped)) (hs : browserScope w src = some (scopeAbs, m)) :
    resolveWithoutSymlinks w fuel src imp = resolveWithoutRemapping w fuel scopeAbs remapped := by
  simp [resolveWithoutSymlinks, h1, h2, hb, hs]

/-! ## non-vacuity: a concrete world
/p/src/index.js, /p/lib/sub/{index.js,browser.js}, /p/node_modules/@sub/index.js (only if `nm`),
/p/package.json {"browser": {"./lib/sub/index.js": "./lib/sub/browser.js"}} (read only for platform browser),
/p/tsconfig.json {"compilerOptions": {"baseUrl": ".", "paths": {"@sub": ["./lib/sub"], "@lib/*": ["./lib/*"]}}} -/

def exWorld (browser nm : Bool) : World :=
  { browser := browser
    exts := [".js".toList]
    files := ["/p/src/index.js".toList, "/p/lib/sub/index.js".toList, "/p/lib/sub/browser.js".toList,
              "/p/package.json".toList, "/p/tsconfig.json".toList] ++
             (if nm then ["/p/node_modules/@sub/index.js".toList] else [])
    pkgs := [("/p".toList, { main := none, browser := if browser then some [("./lib/sub/index.js".toList, some "./lib/sub/browser.js".toList)] else none })]
    tsconfigs := [("/p".toList, { baseUrl := some "/p".toList, baseUrlForPaths := "/p".toList,
                                   paths := some [("@sub".toList, ["./lib/sub".toList]), ("@lib/*".toList, ["./lib/*".toList])] })] }

/-- `paths` wins over an installed package of the same name (hypotheses of `paths_before_node_modules` hold here) -/
example : resolve (exWorld false true) "/p/src".toList "@sub".toList = .some ("/p/lib/sub/index.js".toList, false) := by
  decide +kernel

/-- the browser map replaces the directory index of a RELATIVE import -/
example : resolve (exWorld true false) "/p/src".toList "../lib/sub".toList = .some ("/p/lib/sub/browser.js".toList, false) := by
  decide +kernel

/-- SUSPECTED DEFECT (run on the real esbuild, see the package report): the same directory reached through tsconfig
`paths` is NOT resolved at all for platform browser — loadAsIndexWithBrowserRemapping joins the replacement
("./lib/sub/browser.js", relative to the package.json directory /p) to the directory being loaded (/p/lib/sub), probes
/p/lib/sub/lib/sub/browser.js and gives up; without the browser map (or for platform node) "@sub" resolves to index.js. -/
theorem index_remap_joined_to_wrong_directory :
    resolve (exWorld true false) "/p/src".toList "@sub".toList = .none ∧
    resolve (exWorld false false) "/p/src".toList "@sub".toList = .some ("/p/lib/sub/index.js".toList, false) := by
  constructor <;> decide +kernel

end EsbuildModel.C11ResolveWalk
