import EsbuildModel.Lemmas.CtxLockStatic
/-!
C20 at LOCK level — build context: Rebuild / Cancel / Dispose / Watch / Serve as threads that execute the
synchronisation operations of the Go source one by one (Impl/CtxLock.lean: language + compiler, Impl/CtxLockProg.lean:
the Go functions as programs, Impl/CtxLockSem.lean: small-step semantics for any number of threads).

PROVED here (all by evaluation over the finite program text, no bound on threads or schedules is involved because the
statements are about program points):
* `facts_match_model` — the token skeleton of every modelled Go function, regenerated from the source by
  harness/cmd/extract/ctxlock.go into Gen/CtxLockFacts.lean, equals the skeleton of the model's program. Moving
  `ctx.watcher.stop()` in front of `ctx.mutex.Unlock()` (the seeded deadlock) changes the regenerated list and breaks it.
* `held_table_closed`, `locks_never_nested`, `mutex_not_held_while_waiting`, `only_wait_under_mutex`,
  `goroutines_start_without_mutex`, `threads_end_without_mutex`, `held_mutex_name_stable`: the lock discipline of the
  compiled programs (the certificate `heldTab` is closed under the control flow; at most one mutex is ever held; no
  `WaitGroup.Wait` happens under a mutex except `hack.waitGroup.Wait()` in Serve under ctx.mutex).

OPEN (stated, NOT proved — the package ran out of time; the model, its semantics and the static table they need exist):
-- OPEN no_deadlock: ∀ s reachable by `run codeGen init`, s.panic = false ∧ (every thread has finished ∨ some thread that
--   is inside a call can step), with the ranking lock handler/watcher/hack, wait hack, wait serve (1) < lock ctx (2) <
--   wait build (3) < wait stop (4): the thread a blocked thread waits for is blocked, if at all, at a lower rank.
-- OPEN held_iff (the dynamic form of the table): s.mu m = some t ↔ thread t is live and `heldAt (pc t)` names m.
-- OPEN termination_under_fairness, dispose_waits_for_build, cancel_waits_for_build, joiners_get_result.
The dynamic behaviour is tied to the real code by the conformance kernel `ctxlock` only.
-/
namespace EsbuildModel.C20Lock
open EsbuildModel.CtxLock
open EsbuildModel.Gen.CtxLock (Tok)

/-- **The regenerated synchronisation skeleton of the Go source is the skeleton of the model's programs**, function by
function (source lines are dropped: they move when the file is edited). -/
theorem facts_match_model :
    skelL rebuildBody = Gen.CtxLock.rebuild.map Prod.fst ∧
    skelL abrBody = Gen.CtxLock.abr.map Prod.fst ∧
    skelL RebuildBody = Gen.CtxLock.Rebuild.map Prod.fst ∧
    skelL WatchBody = Gen.CtxLock.Watch.map Prod.fst ∧
    skelL watcherRebuildBody = Gen.CtxLock.watcherRebuild.map Prod.fst ∧
    skelL CancelBody = Gen.CtxLock.Cancel.map Prod.fst ∧
    skelL DisposeBody = Gen.CtxLock.Dispose.map Prod.fst ∧
    skelL setWatchDataBody = Gen.CtxLock.setWatchData.map Prod.fst ∧
    skelL watcherStartBody = Gen.CtxLock.watcherStart.map Prod.fst ∧
    skelL watcherStopBody = Gen.CtxLock.watcherStop.map Prod.fst ∧
    skelL tryToFindDirtyPathBody = Gen.CtxLock.tryToFindDirtyPath.map Prod.fst ∧
    skelL ServeBody = Gen.CtxLock.Serve.map Prod.fst ∧
    skelL handlerRebuildBody = Gen.CtxLock.handlerRebuild.map Prod.fst ∧
    skelL handlerStopBody = Gen.CtxLock.handlerStop.map Prod.fst ∧
    skelL hackAcceptBody = Gen.CtxLock.hackAccept.map Prod.fst ∧
    skelL broadcastBody = Gen.CtxLock.broadcast.map Prod.fst := by
  decide +kernel

/-- Dispose with the seeded change (`ctx.watcher.stop()` moved in front of `ctx.mutex.Unlock()`) -/
def DisposeBodySeeded : List Stmt :=
  [.lock .ctx,
   .ite (.gen .didDispose) [.unlock .ctx, .ret] none,
   .act .setDisposed, .act .clearRecent, .act .readActive,
   .ite (.gen .ctxWatcherNonNil) [.call .watcherStop rcTop (.act .loadCtxWatcher :: watcherStopBody)] none,
   .unlock .ctx,
   .ite (.gen .ctxHandlerNonNil) [.call .handlerStop rcTop (.act .loadCtxHandler :: handlerStopBody)] none,
   .ite (.gen .buildNonNil) [.wait .build] none,
   .loop .bounded [.act .tick, .goCall .external]]

/-- the tie is sensitive to the order: the seeded Dispose has another skeleton than the source, and its compiled code
waits for the watcher goroutine (`stopWaitGroup.Wait()`, instruction 11) between `Lock` (0) and the `Unlock` (13); the
instructions 5–12 (the path of a context that is not yet disposed) contain no unlock -/
example : skelL DisposeBodySeeded ≠ Gen.CtxLock.Dispose.map Prod.fst ∧
    (compileF 0 DisposeBodySeeded)[0]? = some (.lock .ctx) ∧
    (compileF 0 DisposeBodySeeded)[11]? = some (.wait (.stop .sw)) ∧
    (compileF 0 DisposeBodySeeded)[13]? = some (.unlock .ctx) ∧
    (((compileF 0 DisposeBodySeeded).drop 5).take 8).all (fun i => i != .unlock .ctx) = true := by
  decide +kernel

theorem pointsOK_get : ∀ (is : List Instr) (base : Nat), pointsOK base is = true →
    ∀ k i, is[k]? = some i → pointOK (base + k) i = true := by
  intro is
  induction is with
  | nil => intro _ _ k i h; simp at h
  | cons x xs ih =>
    intro base h k i hk
    simp only [pointsOK, Bool.and_eq_true] at h
    cases k with
    | zero => simp only [List.getElem?_cons_zero, Option.some.injEq] at hk; subst hk; simpa using h.1
    | succ k =>
      simp only [List.getElem?_cons_succ] at hk
      have := ih (base + 1) h.2 k i hk
      have e : base + 1 + k = base + (k + 1) := by omega
      rwa [e] at this

theorem point_ok {pc : Nat} {i : Instr} (h : codeGen[pc]? = some i) : pointOK pc i = true := by
  have h0 := allPointsOK_true
  simp only [allPointsOK, Bool.and_eq_true] at h0
  simpa using pointsOK_get codeGen 0 h0.1.1 pc i h

/-- **The held-mutex table is closed under the control flow**: executing the instruction at a reachable point keeps the
discipline (lock only with nothing held, unlock only what is held) and every successor point carries the resulting value. -/
theorem held_table_closed {pc : Nat} {i : Instr} {h : Option MuRef} (hi : codeGen[pc]? = some i) (hh : heldAt pc = some h) :
    ∃ h', heldAfter h i = some h' ∧ ∀ q ∈ succs pc i, heldAt q = some h' := by
  have := point_ok hi
  simp only [pointOK, hh, Bool.and_eq_true] at this
  cases hx : heldAfter h i with
  | none => simp [hx] at this
  | some h' =>
    refine ⟨h', rfl, ?_⟩
    simp only [hx, List.all_eq_true, beq_iff_eq] at this
    exact this.1

/-- every API method starts with no mutex held -/
theorem entries_free : ∀ m : Method, heldAt m.entry = some none := by
  intro m; cases m <;> decide +kernel

/-- **Locks are never nested**: a reachable `Lock` is executed with no mutex held. -/
theorem locks_never_nested {pc : Nat} {m : MuRef} {h : Option MuRef} (hi : codeGen[pc]? = some (.lock m)) (hh : heldAt pc = some h) :
    h = none := by
  have := point_ok hi
  simp only [pointOK, hh, Bool.and_eq_true] at this
  simpa using this.2

/-- **No mutex is held while waiting**: a reachable `WaitGroup.Wait` is executed with no mutex held, the one exception
being `hack.waitGroup.Wait()` (Serve waits for the server goroutine's first Accept) under ctx.mutex. -/
theorem mutex_not_held_while_waiting {pc : Nat} {g : WgRef} {h : Option MuRef} (hi : codeGen[pc]? = some (.wait g))
    (hh : heldAt pc = some h) : h = none ∨ (g = .hack .sh ∧ h = some .ctx) := by
  have := point_ok hi
  simp only [pointOK, hh, Bool.and_eq_true, Bool.or_eq_true, beq_iff_eq] at this
  exact this.2

theorem goroutines_start_without_mutex {pc t : Nat} {h : Option MuRef} (hi : codeGen[pc]? = some (.spawn t)) (hh : heldAt pc = some h) :
    heldAt t = some none := by
  have := point_ok hi
  simp only [pointOK, hh, Bool.and_eq_true] at this
  simpa using this.2

theorem threads_end_without_mutex {pc : Nat} {h : Option MuRef} (hi : codeGen[pc]? = some .halt) (hh : heldAt pc = some h) :
    h = none := by
  have := point_ok hi
  simp only [pointOK, hh, Bool.and_eq_true] at this
  simpa using this.2

/-- the local variable that names the held mutex's owner (`w`, `handler`, …) is not assigned while the mutex is held -/
theorem held_mutex_name_stable {pc : Nat} {a : Act} {m : MuRef} (hi : codeGen[pc]? = some (.act a)) (hh : heldAt pc = some (some m)) :
    (a.writesW = none ∨ a.writesW ≠ m.usesW) ∧ (a.writesH = none ∨ a.writesH ≠ m.usesH) := by
  have := point_ok hi
  simp only [pointOK, hh, Bool.and_eq_true, Bool.or_eq_true, beq_iff_eq, bne_iff_ne, ne_eq] at this
  exact this.2

/-- the waits in the code that run under a mutex: exactly one program point, Serve's `hack.waitGroup.Wait()` -/
def waitsUnderMutex : Nat → List Instr → List Nat
  | _, [] => []
  | pc, .wait _ :: is => (if heldAt pc = some none ∨ heldAt pc = none then [] else [pc]) ++ waitsUnderMutex (pc + 1) is
  | pc, _ :: is => waitsUnderMutex (pc + 1) is

theorem only_wait_under_mutex : waitsUnderMutex 0 codeGen = [476] ∧ Method.entry .serve ≤ 476 ∧ heldAt 476 = some (some .ctx) := by
  decide +kernel

-- non-vacuity: reachable waits and locks exist, with and without the exception
example : codeGen[81]? = some (.wait (.stop .sw)) ∧ heldAt 81 = some none ∧
          codeGen[476]? = some (.wait (.hack .sh)) ∧ codeGen[39]? = some (.lock .ctx) ∧ heldAt 39 = some none ∧
          codeGen[40]? = some (.act .clearActive) ∧ heldAt 40 = some (some .ctx) := by
  decide +kernel

end EsbuildModel.C20Lock
