import EsbuildModel.Lemmas.PrintKey
import EsbuildModel.Impl.IdentLexDriver
/-!
C13 / C01 — the KEYS of object-literal properties and class members as `printProperty` / `printClass` print them
(model: Impl/PrintKey.lean; specification: Spec/PropertyKey.lean, ECMA-262 PropertyName / ClassElementName, PropName,
ToPropertyKey, the `__proto__` rule of §13.2.5.5 and the early errors of §15.7.1).

The theorems hold for EVERY identifier table `T`, every option set and every key, under
  * `WFKey`  — the key has a form the parser produces for that position (a private name / inlined enum / identifier only
               where legal; private names start with `#`, mangled names do not).
Before fix cb8882c (`numericKeyMustBeComputed`) a second hypothesis `KeySafe` was forced: inside `with` the number printer
writes `NaN` as `0 / 0` and `Infinity` as `1 / 0`, and such keys were not put in brackets (`with (x) y = {1e999: 1}` printed
`{ 1 / 0: 1 }`).  `with_infinity_key_is_bracketed` is that input under the new condition.
-/
namespace EsbuildModel.Props.C13PrintKey
open EsbuildModel.PrintKey EsbuildModel.Spec.PropertyKey
open EsbuildModel.IdentLex (Tables genTables)

/-- (1) For every member the tokens printed for its key are derivable as a PropertyName (ClassElementName) — whatever follows —
and the property key it denotes (ToPropertyKey: strings as they are, numbers through Number::toString, `[e]` through the value
of `e`) is the key of the member of the AST; the name is computed exactly when the model says so (`printedComputed`). -/
theorem printed_key_parses_to_same_key (T : Tables) (o : Opts) (p : Property) (rest : List Tok) (hwf : WFKey p) :
    ∃ pn, propertyName (toks (keyPieces T o p).1 ++ rest) = some (pn, rest) ∧ some pn.key = keyVal p.key ∧
      pn.computed = printedComputed T o p :=
  key_tokens T o p rest hwf


def plainOpts : Opts := ⟨false, false, false, false, false, false, false, false, false⟩
def msOpts : Opts := ⟨true, false, false, false, false, false, false, false, false⟩
def withOpts : Opts := ⟨false, false, false, false, false, false, false, false, true⟩
def fieldOf (k : KeyE) (computed : Bool) : Property :=
  { kind := .field, computed := computed, isStatic := false, wasShorthand := false, preferQuoted := false, key := k, value := .raw [49], init := none }

/-- non-vacuity: `{[-0]: 1}` under MinifySyntax (the seeded change `Signbit(v)` → `v < 0` printed `{-0: 1}`): the hypotheses hold,
the key is printed as `[-0]`, it parses, and the key is "0" -/
example : WFKey (fieldOf (.num (.fin true (some 0) ['0'])) true) ∧
    toks (keyPieces genTables msOpts (fieldOf (.num (.fin true (some 0) ['0'])) true)).1 =
      [.p "[", .p "-", .num (some 0) ['0'], .p "]"] ∧
    propertyName ([Tok.p "[", .p "-", .num (some 0) ['0'], .p "]"] ++ [.p ":"]) = some (⟨true, .numv false (some 0) ['0']⟩, [.p ":"]) := by
  refine ⟨trivial, by decide, by decide⟩

/-- the input that violated the statement before fix cb8882c: the non-computed key `Infinity` (source `1e999`) inside `with`
is now printed as `[1 / 0]`, a ComputedPropertyName whose key is "Infinity"; likewise `NaN` as `[0 / 0]` -/
theorem with_infinity_key_is_bracketed :
    toks (keyPieces genTables withOpts (fieldOf (.num (.inf false)) false)).1 =
      [.p "[", .num (some 1) ['1'], .p "/", .num (some 0) ['0'], .p "]"] ∧
    propertyName (toks (keyPieces genTables withOpts (fieldOf (.num (.inf false)) false)).1 ++ [.p ":"]) =
      some (⟨true, .str (sv "Infinity")⟩, [.p ":"]) ∧
    propertyName (toks (keyPieces genTables withOpts (fieldOf (.num (.nan false)) false)).1 ++ [.p ":"]) =
      some (⟨true, .str (sv "NaN")⟩, [.p ":"]) := by
  refine ⟨by decide, by decide, by decide⟩

theorem propName_iff (n : PName) (s : List Nat) : n.propName = some s ↔ n.computed = false ∧ n.key = .str s := by
  obtain ⟨c, k⟩ := n
  cases c <;> cases k <;> simp [PName.propName]

/-- (2a) NO SPECIAL NAME IS CREATED OR LOST: for each of `__proto__`, `constructor`, `prototype`, the printed key has that
PropName (a LITERAL property name with that string) exactly when the member of the AST has it — a computed `["__proto__"]`,
`["constructor"]`, `["prototype"]` stays computed under every option set, a literal one stays literal — except for the one
deliberate rewrite `protoBracket` (the shorthand `{__proto__}` whose value was renamed is printed as `["__proto__"]: v`).
Mangled property names are assumed not to be one of the three names. -/
theorem no_special_key_created_or_lost (T : Tables) (o : Opts) (p : Property) (rest : List Tok) (s : List Nat) (pn : PName)
    (hs : IsSpecial s) (hwf : WFKey p) (hm : ∀ n, p.key = .mangled n → toUTF16 n ≠ s)
    (hpb : protoBracket T o p = false)
    (hparse : propertyName (toks (keyPieces T o p).1 ++ rest) = some (pn, rest)) :
    pn.propName = some s ↔ (astPName p).propName = some s := by
  obtain ⟨pn', h1, h2, h3⟩ := key_tokens T o p rest hwf
  rw [hparse] at h1
  have hpn : pn = pn' := by simpa using h1
  subst hpn
  rw [propName_iff, propName_iff]
  by_cases hk : keyVal p.key = some (.str s)
  · have hic := isComputed_special o p s hs hwf hm hk
    have hkey : pn.key = .str s := by rw [hk] at h2; simpa using h2
    have hcomp : pn.computed = p.computed := by rw [h3, printedComputed, hpb, hic]; simp
    simp [astPName, hk, hkey, hcomp]
  · have hkey : pn.key ≠ .str s := fun e => hk (by rw [← h2, e])
    have hk' : (astPName p).key ≠ .str s := by
      intro e
      simp only [astPName] at e
      cases hv : keyVal p.key with
      | none => simp [hv] at e
      | some v => rw [hv] at e hk; simp at e; exact hk (by rw [e])
    constructor
    · intro h; exact absurd h.2 hkey
    · intro h; exact absurd h.2 hk'

theorem beq_some_congr (a b : Option (List Nat)) (s : List Nat) (h : a = some s ↔ b = some s) :
    (a == some s) = (b == some s) := by
  by_cases h1 : a = some s
  · have h2 := h.1 h1
    rw [h1, h2]
  · have h2 : ¬ b = some s := fun e => h1 (h.2 e)
    rw [beq_eq_false_iff_ne.2 h1, beq_eq_false_iff_ne.2 h2]

/-- (2b) CLASSES: whether the printed member is the class constructor (§15.7.1: a non-static plain method whose PropName is
"constructor") and whether it has one of the name-dependent early errors (a field named `constructor`, a static member named
`prototype`, an accessor / generator / async method named `constructor`, `#constructor`) is exactly what it is for the member
of the AST, whatever the option set: `["constructor"]() {}` never becomes the constructor, `static ["prototype"]` never
becomes an early error, and the other way round. -/
theorem class_specials_preserved (T : Tables) (o : Opts) (p : Property) (rest : List Tok) (pn : PName) (form : ClassForm) (st : Bool)
    (hwf : WFKey p) (hm : ∀ n s, IsSpecial s → p.key = .mangled n → toUTF16 n ≠ s)
    (hws : p.wasShorthand = false)
    (hparse : propertyName (toks (keyPieces T o p).1 ++ rest) = some (pn, rest)) :
    isConstructor pn form st = isConstructor (astPName p) form st ∧
    classEarlyError pn form st = classEarlyError (astPName p) form st := by
  have hpb : protoBracket T o p = false := by
    unfold protoBracket; split <;> simp [hws]
  have hc := no_special_key_created_or_lost T o p rest constructorName pn (Or.inr (Or.inl rfl)) hwf
    (fun n => hm n _ (Or.inr (Or.inl rfl))) hpb hparse
  have hp := no_special_key_created_or_lost T o p rest prototypeName pn (Or.inr (Or.inr rfl)) hwf
    (fun n => hm n _ (Or.inr (Or.inr rfl))) hpb hparse
  obtain ⟨pn', h1, h2, _⟩ := key_tokens T o p rest hwf
  rw [hparse] at h1
  have hpn : pn = pn' := by simpa using h1
  subst hpn
  have hkey : pn.key = (astPName p).key := by
    simp only [astPName]; rw [← h2]; rfl
  have ec := beq_some_congr _ _ _ hc
  have ep := beq_some_congr _ _ _ hp
  constructor
  · unfold isConstructor; rw [ec]
  · unfold classEarlyError; rw [hkey, ec, ep]

theorem canPrint_proto (T : Tables) (a n : Bool) : IdentLex.canPrintIdentifierUTF16 T a n (str "__proto__") = true := by
  cases a <;> cases n <;> rfl

/-- the form of the printed object property after its key -/
def printedForm (T : Tables) (o : Opts) (p : Property) : DefForm :=
  if (keyPieces T o p).2 then .shorthand
  else match p.value with
    | .fn _ _ => if p.kind.isMethodDef then .method else .colon
    | .none => .shorthand
    | _ => .colon

/-- the form of the property of the AST: `PropertyWasShorthand` is `{a}` in the source -/
def astForm (p : Property) : DefForm :=
  if p.wasShorthand then .shorthand
  else match p.value with
    | .fn _ _ => if p.kind.isMethodDef then .method else .colon
    | .none => .shorthand
    | _ => .colon

theorem key_is_proto (p : Property) (hwf : WFKey p) (hm : ∀ n, p.key = .mangled n → toUTF16 n ≠ protoName)
    (hc : p.computed = false) (hk : keyVal p.key = some (.str protoName)) : p.key = .str (str "__proto__") := by
  have hs : IsSpecial protoName := Or.inl rfl
  obtain ⟨h1, h2, h3⟩ := special_ne_nan hs
  cases hkey : p.key with
  | str u =>
    have hu : u = protoName := by simpa [hkey, keyVal, keyValue, toPropertyKey] using hk
    subst hu; rfl
  | num n =>
    have := numKey_ne_special n.toSpec hs
    simp [hkey, keyVal, keyValue, toPropertyKey] at hk
    exact absurd hk this
  | bigint t => simp [hkey, keyVal, keyValue, toPropertyKey] at hk
  | priv t => simp [hkey, keyVal] at hk
  | mangled n =>
    have := hm n hkey
    simp [hkey, keyVal, keyValue, toPropertyKey] at hk
    exact absurd hk this
  | ident n => simp [WFKey, hkey, hc] at hwf
  | enumStr u c => simp [WFKey, hkey, hc] at hwf
  | enumNum n c => simp [WFKey, hkey, hc] at hwf

theorem shorthand_aux (name : List Nat) : (str "__proto__" == name && (name != str "__proto__" || false)) = false := by
  by_cases h : str "__proto__" = name
  · subst h; simp
  · simp [h]

theorem joinUnits_proto : IdentLex.joinUnits (str "__proto__") = str "__proto__" := by decide

/-- (2c) OBJECT LITERALS: the printed property SETS THE PROTOTYPE (§13.2.5.5: a literal name `__proto__`, then `:`) exactly when the
property of the AST does (non-computed key `__proto__`, not a shorthand, not a method) — provided the shorthand `{__proto__}`
is not printed for a target without ObjectExtensions (`hsh`; FORCED HYPOTHESIS, a defect of esbuild: there `{__proto__}` is
printed as `{__proto__: __proto__}`, which sets the prototype). -/
theorem proto_setter_preserved (T : Tables) (o : Opts) (p : Property) (rest : List Tok) (pn : PName)
    (hwf : WFKey p) (hm : ∀ n, p.key = .mangled n → toUTF16 n ≠ protoName)
    (hsh : p.wasShorthand = true → o.noObjExt = false ∧ p.preferQuoted = false)
    (hparse : propertyName (toks (keyPieces T o p).1 ++ rest) = some (pn, rest)) :
    isProtoSetter pn (printedForm T o p) = isProtoSetter (astPName p) (astForm p) := by
  obtain ⟨pn', h1, h2, h3⟩ := key_tokens T o p rest hwf
  rw [hparse] at h1
  have hpn : pn = pn' := by simpa using h1
  subst hpn
  unfold isProtoSetter
  by_cases hpb : protoBracket T o p = true
  · have hcomp : pn.computed = true := by rw [h3, printedComputed, hpb]; simp
    have hws : p.wasShorthand = true := by
      unfold protoBracket at hpb
      split at hpb
      · simp only [Bool.and_eq_true] at hpb; exact hpb.2.1.1
      · cases hpb
    have e1 : pn.propName = none := by simp [PName.propName, hcomp]
    simp [e1, astForm, hws]
  · have hpb' : protoBracket T o p = false := by simpa using hpb
    have hiff := no_special_key_created_or_lost T o p rest protoName pn (Or.inl rfl) hwf hm hpb' hparse
    have ec := beq_some_congr _ _ _ hiff
    rw [ec]
    by_cases ha : (astPName p).propName = some protoName
    · obtain ⟨hc, hkv⟩ := (propName_iff _ _).1 ha
      have hc' : p.computed = false := hc
      have hkv' : keyVal p.key = some (.str protoName) := by
        simp only [astPName] at hkv
        cases hv : keyVal p.key with
        | none => simp [hv] at hkv
        | some v => simp [hv] at hkv; rw [hkv]
      have hkey := key_is_proto p hwf hm hc' hkv'
      have hf : (foldKey o p).1 = .str (str "__proto__") := fold_str o p _ hkey
      have hic : isComputed o p = false := by
        rw [isComputed_special o p protoName (Or.inl rfl) hwf hm hkv']; exact hc'
      have hform : printedForm T o p = astForm p := by
        unfold printedForm astForm
        cases hws : p.wasShorthand with
        | true =>
          obtain ⟨hno, hpq⟩ := hsh hws
          have hcp := canPrint_proto T o.asciiOnly o.noUE
          by_cases hsho : strShorthand o (str "__proto__") p = true
          · simp [keyPieces, hic, hf, hpq, hcp, hsho]
          · exfalso
            have : protoBracket T o p = true := by
              simp [protoBracket, hf, hic, hpq, hcp, hsho, hws, hno]
            rw [this] at hpb'; cases hpb'
        | false =>
          have hnsh : strShorthand o (str "__proto__") p = false := by
            unfold strShorthand canUseShorthand
            rw [joinUnits_proto, hws]
            cases hv : p.value <;> simp
            · intro _ e; exact e.symm
            · intro _ _ e h; exact absurd e.symm h
          by_cases hcond : (!p.preferQuoted && IdentLex.canPrintIdentifierUTF16 T o.asciiOnly o.noUE (str "__proto__")) = true
          · simp [keyPieces, hic, hf, hcond, hnsh, hws]
          · simp [keyPieces, hic, hf, hcond]
      rw [hform]
    · have : ((astPName p).propName == some protoName) = false := beq_eq_false_iff_ne.2 ha
      simp [this]

def protoProp (wasShorthand : Bool) (valueName : String) : Property :=
  { kind := .field, computed := false, isStatic := false, wasShorthand := wasShorthand, preferQuoted := false,
    key := .str (str "__proto__"), value := .ident (str valueName), init := none }
def noObjExtOpts : Opts := ⟨false, false, false, false, true, false, false, false, false⟩

/-- non-vacuity of (2c): `{__proto__: a}` is printed as a prototype setter and is one; the shorthand `{__proto__}` whose value
was renamed to `a` is printed as `["__proto__"]: a` and neither sets the prototype -/
example : isProtoSetter ⟨false, .str protoName⟩ (printedForm genTables plainOpts (protoProp false "a")) = true ∧
    isProtoSetter (astPName (protoProp false "a")) (astForm (protoProp false "a")) = true ∧
    toks (keyPieces genTables plainOpts (protoProp true "a")).1 = [.p "[", .str protoName, .p "]"] ∧
    isProtoSetter (astPName (protoProp true "a")) (astForm (protoProp true "a")) = false := by decide

/-- the hypothesis `hsh` is needed (a defect of esbuild): without ObjectExtensions the shorthand `{__proto__}` is printed as
`__proto__: __proto__` — a prototype setter — although the property of the AST is not one -/
theorem shorthand_proto_without_object_extensions :
    toks (propPieces genTables noObjExtOpts 0 (protoProp true "__proto__")) = [.name protoName, .p ":", .name protoName] ∧
    isProtoSetter ⟨false, .str protoName⟩ (printedForm genTables noObjExtOpts (protoProp true "__proto__")) = true ∧
    isProtoSetter (astPName (protoProp true "__proto__")) (astForm (protoProp true "__proto__")) = false := by decide

/-- (3) THE SEMICOLON RULE: in a class body the tokens of a field (a member without a method body: field, `accessor`, `declare`)
are followed by `;` when another member follows, and by `;` `}` or `}` when it is the last one — under every option set, also
MinifyWhitespace.  So a field whose name is `get`, `set`, `static`, `async` or `accessor` is never followed by a token that
could make the word a modifier (`startsElementName`: a name, a string, a number, `[`, `*`, `#x`, `{`), and a field is never
continued by `[`, `(`, `*`, `in` or `instanceof` of the next line. -/
theorem prefix_unambiguous (T : Tables) (o : Opts) (k : Nat) (needs : Bool) (p q : Property) (rest : List Property)
    (hv : p.value = .none) (hk : p.kind ≠ .staticBlock) :
    ∃ pre next post, toks (classItems T o k needs (p :: q :: rest)) = pre ++ toks (propPieces T o k p) ++ next :: post ∧
      next = .p ";" ∧ startsElementName next = false := by
  obtain ⟨pre, post, h⟩ := field_then_semicolon T o k needs p q rest hv hk
  exact ⟨pre, .p ";", post, h, rfl, by decide⟩

theorem prefix_unambiguous_last (T : Tables) (o : Opts) (k : Nat) (ms : List Property) (p : Property)
    (hv : p.value = .none) (hk : p.kind ≠ .staticBlock) :
    ∃ pre next post, toks (classPieces T o k (ms ++ [p])) = pre ++ toks (propPieces T o (k + 1) p) ++ next :: post ∧
      (next = .p ";" ∨ next = .p "}") ∧ startsElementName next = false := by
  obtain ⟨pre, h⟩ := last_field_then_brace T o k ms p hv hk false
  have hcp : toks (classPieces T o k (ms ++ [p])) =
      toks [.sbi, .lit "class", .sp, .lit "{", .nl] ++ toks (classItems T o (k + 1) false (ms ++ [p]) ++ [.ind k, .lit "}"]) := by
    simp [classPieces, toks]
  cases hm : o.minifyWhitespace with
  | true =>
    refine ⟨toks [.sbi, .lit "class", .sp, .lit "{", .nl] ++ pre, .p "}", [], ?_, Or.inr rfl, by decide⟩
    rw [hcp, h]; simp [hm]
  | false =>
    refine ⟨toks [.sbi, .lit "class", .sp, .lit "{", .nl] ++ pre, .p ";", [.nl, .p "}"], ?_, Or.inl rfl, by decide⟩
    rw [hcp, h]; simp [hm]

/-- non-vacuity of (3): `class { get; x() {} }` minified: `get` is followed by `;` (`.nl` marks a call of printNewline, which
prints nothing under MinifyWhitespace) -/
example : toks (classPieces genTables ⟨false, true, false, false, false, false, false, false, false⟩ 0
    [{ kind := .field, computed := false, isStatic := false, wasShorthand := false, preferQuoted := false, key := .str (str "get"), value := .none, init := none },
     { kind := .method, computed := false, isStatic := false, wasShorthand := false, preferQuoted := false, key := .str (str "x"), value := .fn false false, init := none }]) =
    [.name (sv "class"), .p "{", .nl, .name (sv "get"), .p ";", .name (sv "x"), .p "(", .p ")", .p "{", .nl, .p "}", .nl, .p "}"] := by decide

-- OPEN key_fixed_point: print ∘ parse ∘ print = print for keys. Needs a model of the PARSER side (parseProperty's key forms,
-- PropertyPreferQuotedKey, the computed-flag removal and the `'123'` → `123` rewrite of visitExpr / visitClass under MinifySyntax)
-- tied to the real js_parser by a correspondence of its own; not done in this package.

end EsbuildModel.Props.C13PrintKey
