import EsbuildModel.Impl.SmSections
/-!
C16 — no crash, hang or internal error on any input.

The property speaks about every byte sequence and every option set of the whole program; there is no model of
the parsers.  It is decided by the search c16-fuzz (structure-aware mutation of the repository's own test
inputs, in isolated worker processes with time and memory limits).  What IS proved here is one piece of
crash-freedom that hinges on arithmetic and that no amount of sampling settles: flattening an index source map
never asks for a slice of negative length, for any number of sections with any combination of missing,
shorter and longer `sourcesContent` arrays.
-/
namespace EsbuildModel.SmSections

def Inv (st : St) : Prop := st.panicked = false ∧ 0 ≤ st.c ∧ st.c ≤ st.s

theorem step_inv (st : St) (x : Section) (h : Inv st) : Inv (step st x) := by
  obtain ⟨hp, h0, hle⟩ := h
  unfold step
  simp only [hp, Bool.false_eq_true, if_false]
  split
  · exact ⟨hp, h0, hle⟩
  · split
    · refine ⟨rfl, h0, ?_⟩
      show st.c ≤ st.s + (x.sources : Int)
      omega
    · split
      · next hneg => exfalso; omega
      · refine ⟨rfl, ?_, ?_⟩
        · show 0 ≤ st.s + ((min x.content x.sources : Nat) : Int)
          omega
        · show st.s + ((min x.content x.sources : Nat) : Int) ≤ st.s + (x.sources : Int)
          have : min x.content x.sources ≤ x.sources := Nat.min_le_right _ _
          omega

theorem foldl_inv (xs : List Section) (st : St) (h : Inv st) : Inv (xs.foldl step st) := by
  induction xs generalizing st with
  | nil => exact h
  | cons x xs ih => exact ih _ (step_inv st x h)

/-- C16 (source maps): flattening never panics on a negative padding length, and the aggregated
`sourcesContent` never outgrows `sources`, for every list of sections. -/
theorem flatten_never_panics (xs : List Section) :
    (run xs).panicked = false ∧ (run xs).c ≤ (run xs).s := by
  have := foldl_inv xs { s := 0, c := 0, panicked := false } ⟨rfl, by decide, by decide⟩
  exact ⟨this.1, this.2.2⟩

-- non-vacuity: a section with over-long sourcesContent followed by one with content
example : run [⟨true, true, 1, 3⟩, ⟨true, true, 2, 1⟩, ⟨false, true, 5, 5⟩, ⟨true, true, 1, 0⟩] =
    { s := 4, c := 2, panicked := false } := by decide

end EsbuildModel.SmSections
