import EsbuildModel.Lemmas.ToInt32
/-! # C03 — minification never changes behaviour: property theorems -/
namespace EsbuildModel.C03
open EsbuildModel.ToInt32

/-- `Fold.toInt32_correct`: for EVERY float64 value (finite, NaN, ±∞) and whatever value Go's
unspecified out-of-range `int32(f)` conversion produces, esbuild's compile-time `ToInt32` equals
ECMA-262 ToInt32 — this is what every folded `| & ^ ~ << >> >>>` is computed from. -/
theorem toInt32_correct (garbage : Int) (f : F64) : impl garbage f = spec f := impl_eq_spec garbage f

/-- likewise `ToUint32` -/
theorem toUint32_correct (garbage : Int) (f : F64) : implU garbage f = specU f := implU_eq_specU garbage f

/-- sanity: 2^32 + 2^31 + 0.5 ↦ −2^31, −(2^31 + 1) ↦ 2^31 − 1 -/
example : spec (.fin false (2 * (2^32 + 2^31) + 1) (-1)) = -2147483648 ∧ spec (.fin true (2^31 + 1) 0) = 2147483647 := by decide
end EsbuildModel.C03
