import EsbuildModel.Lemmas.OutPathsInside
/-
Property C17, name templates (`--entry-names`, `--chunk-names`, `--asset-names`):
`validatePathTemplate` (pkg/api), `TemplateToString`, `HasPlaceholder`, `SubstituteTemplate`
(internal/config) and the two-stage substitution of the linker.
Independent specification: `Spec.OutPath.expand` (replace every placeholder by its value, keep the rest).
-/
namespace EsbuildModel.C17Templates
open EsbuildModel.OutPaths EsbuildModel.Spec.OutPath

/-- **template_roundtrip**: printing the parsed template gives the template back (with the "./" the parser puts
in front and backslashes turned into slashes) – for every template that does not end with '['. -/
theorem template_roundtrip {s : Str} (hne : s ≠ []) (ho : ¬ EndsOpen s) :
    templateToString (validatePathTemplate s) = lit "./" ++ replaceBackslash s :=
  templateToString_validatePathTemplate hne ho

/-- parsing the printed form again changes nothing (parse ∘ print = id on what the parser produces) -/
theorem template_parse_print_parse {s : Str} (hne : s ≠ []) (ho : ¬ EndsOpen s) :
    parseLoop 0 [] (templateToString (validatePathTemplate s)) = validatePathTemplate s := by
  rw [template_roundtrip hne ho]
  simp [validatePathTemplate, hne]

/-- non-vacuity -/
example : templateToString (validatePathTemplate (lit "a\\[dir]/x[[name]-[hash].[ext]]")) =
    lit "./a/[dir]/x[[name]-[hash].[ext]]" ∧ ¬ EndsOpen (lit "a\\[dir]/x[[name]-[hash].[ext]]") := by decide

/-- the hypothesis is needed – a defect of `validatePathTemplate`: when the template ends with '[' the text
after the last placeholder is dropped (run on the real esbuild: `--entry-names=[name]-x[` writes `a.js`,
`--entry-names=zz[` uses the default template) -/
example : validatePathTemplate (lit "[name]-x[") = [⟨lit "./", .name⟩] ∧ validatePathTemplate (lit "zz[") = [] := by
  decide

/-- **substitute_is_textual**: `TemplateToString (SubstituteTemplate t phs)` writes every given value where its
placeholder is and keeps everything else – for every part list and every set of values. -/
theorem substitute_is_textual (phs : Placeholders) (t : List Part) :
    templateToString (substituteTemplate t phs) = renderWith phs t :=
  templateToString_substituteTemplate phs t

/-- **substitute_leaves_no_placeholder**: a placeholder that is still in the result had no value; so when all
four values are given, no placeholder is left. -/
theorem substitute_leaves_no_placeholder {phs : Placeholders} {t : List Part} {ph : Placeholder}
    (hne : ph ≠ .none) (h : hasPlaceholder (substituteTemplate t phs) ph = true) : phs.get ph = none :=
  hasPlaceholder_substituteTemplate hne h

theorem substitute_all_leaves_none (d n hs e : Str) (t : List Part) (ph : Placeholder) (hne : ph ≠ .none) :
    hasPlaceholder (substituteTemplate t (allValues d n hs e)) ph = false := by
  cases h : hasPlaceholder (substituteTemplate t (allValues d n hs e)) ph with
  | false => rfl
  | true =>
    have := substitute_leaves_no_placeholder hne h
    cases ph <;> simp [allValues, Placeholders.get] at this hne

/-- and a placeholder without a value is never lost (the linker relies on this for `[hash]`, which is
substituted in a second pass) -/
theorem substitute_keeps_unknown {phs : Placeholders} {t : List Part} {ph : Placeholder}
    (hne : ph ≠ .none) (hget : phs.get ph = none) (h : hasPlaceholder t ph = true) :
    hasPlaceholder (substituteTemplate t phs) ph = true :=
  hasPlaceholder_kept hne hget h

/-- non-vacuity: merging of adjacent literal parts, a placeholder that stays -/
example : substituteTemplate [⟨lit "./", .dir⟩, ⟨lit "/", .name⟩, ⟨lit "-", .hash⟩, ⟨lit ".js", .none⟩]
      { dir := some (lit "/a"), name := some (lit "b") } = [⟨lit ".//a/b-", .hash⟩, ⟨lit ".js", .none⟩] := by decide

/-- **final_path_is_expansion**: the relative output path the linker computes in two passes (dir, name, ext in
`computeChunks`; the hash in `generateChunksInParallel`) is the textual expansion of the user's template, with
"./" in front and the extension behind. -/
theorem final_path_is_expansion {s : Str} (hne : s ≠ []) (ho : ¬ EndsOpen s) (dir name ext hash : Str) :
    finalRelPath (finalTemplate (validatePathTemplate s) dir name ext) hash =
      '.' :: '/' :: (expand dir name hash (trimDot ext) (replaceBackslash s) ++ ext) :=
  finalRelPath_parsed hne ho dir name ext hash

/-- non-vacuity -/
example : finalRelPath (finalTemplate (validatePathTemplate (lit "[ext]/[dir]/[name]-[hash]")) (lit "/a") (lit "b")
      (lit ".css")) (lit "H") = lit "./css//a/b-H.css" := by decide

end EsbuildModel.C17Templates
