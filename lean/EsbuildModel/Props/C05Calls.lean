import EsbuildModel.Impl.Lower2
import EsbuildModel.Lemmas.Lower2
import EsbuildModel.Props.C05Assign
/-!
C05 — syntax lowering preserves behaviour: optional CALLS (`f?.(a)`, `o.p?.(a)`, `o?.[k]?.(a)`), method calls
through optional chains (`o?.p(a)`, `o?.p.q[k](a)`: the receiver is the base of the last link), parenthesised
chains that are called or used as a template tag (`(o?.p)(a)`, `(o?.p.q)`x``: the parentheses end the chain, the
call still gets `this`), `delete` at the end of a chain, `o?.[k]`, and tagged templates whose strings array is
cached per call site (`tag(_t || (_t = __template([…])), …)`).

Model: Impl/Lower2.lean (js_parser_lower.go lowerOptionalChain in full except `super` / private names,
lowerParenthesizedOptionalChain, lowerTemplateLiteral with a tag; js_parser.go visitors of ECall / EDot / EIndex /
EUnary(delete) / ETemplate as far as they hand `this` around).  Function objects are values `fn i`; calling one is
the world event `callf i this args`, so "same trace" includes the `this` and the arguments of every call.
Template objects are values `tpl site gen` ("the gen-th array created for that site"): object identity is modelled
by `H.tgen`, the cache (the realm's [[TemplateMap]] natively, the top-level temporary `_t` in the emitted code) by
`H.tcell`; neither is visible to the world.

The structure of the lowering is compared with the real parser by the kernel `lower2`, the two evaluators with
Node 20 (source text, and the text esbuild emits; every case is evaluated twice in a row so that the template
cache matters) by `lower2sem`.

Hypotheses (`Safe`, Props/C05Assign.lean) that the code FORCES, each with a counterexample below that has also been
run on the real esbuild + Node 20 (see the work package report):
* `o.p?.(…)`, `(o?.p)(…)`, `(o?.p)`…``: an identifier `o` is written again as the `this` argument after the key,
  the key's toString and the getter have run (`this_reread_example_differs`);
* `(o?.p)(args)` → `(o == null ? void 0 : o.p).call(o, args)`: if the callee is null / undefined the lowered code
  throws before the arguments are evaluated, natively they are evaluated first (`paren_null_callee_example_differs`).

Assumption of the model: reading the `call` property of a callee is not observable and yields
Function.prototype.call for functions (a Proxy callee could observe the lookup: inherent to the `.call` technique).
At most 2 arguments / substitutions per call; no spread; `super` and private names are not in the fragment.
-/
namespace EsbuildModel.Lower2

/-- neither a compound assignment nor a member call that esbuild turns into `.call(this, …)` -/
def S.plainOnly : S → Bool
  | .id _ => true
  | .lit _ => true
  | .tstr _ => true
  | .this => true
  | .call _ a => a.plainOnly
  | .dot o _ => o.plainOnly
  | .optDot o _ => o.plainOnly
  | .paren a => a.plainOnly
  | .idx o k => o.plainOnly && k.plainOnly
  | .optIdx o k => o.plainOnly && k.plainOnly
  | .nullish a b => a.plainOnly && b.plainOnly
  | .tcat p s _ => p.plainOnly && s.plainOnly
  | .asgVar _ _ _ => false
  | .asgDot _ _ _ _ => false
  | .asgIdx _ _ _ _ => false
  | .vcall _ _ f _ a b => f.plainOnly && a.plainOnly && b.plainOnly
  | .mcall mode _ _ _ o k _ a b => mode == .plain && o.plainOnly && k.plainOnly && a.plainOnly && b.plainOnly
  | .del _ _ o k => o.plainOnly && k.plainOnly
  | .delVal a => a.plainOnly

theorem safe_of_plainOnly (w : World) : ∀ e : S, e.plainOnly = true → Safe w e ∧ e.noPow = true := by
  intro e
  induction e with
  | id x => intro _; simp [Safe, S.noPow]
  | lit v => intro _; simp [Safe, S.noPow]
  | tstr s => intro _; simp [Safe, S.noPow]
  | this => intro _; simp [Safe, S.noPow]
  | call f a ih => intro h; simpa [Safe, S.noPow] using ih (by simpa [S.plainOnly] using h)
  | dot o p ih => intro h; simpa [Safe, S.noPow] using ih (by simpa [S.plainOnly] using h)
  | optDot o p ih => intro h; simpa [Safe, S.noPow] using ih (by simpa [S.plainOnly] using h)
  | paren a ih => intro h; simpa [Safe, S.noPow] using ih (by simpa [S.plainOnly] using h)
  | delVal a ih => intro h; simpa [Safe, S.noPow] using ih (by simpa [S.plainOnly] using h)
  | idx o k iho ihk =>
    intro h
    simp only [S.plainOnly, Bool.and_eq_true] at h
    simp only [Safe, S.noPow, Bool.and_eq_true]
    exact ⟨⟨(iho h.1).1, (ihk h.2).1⟩, (iho h.1).2, (ihk h.2).2⟩
  | optIdx o k iho ihk =>
    intro h
    simp only [S.plainOnly, Bool.and_eq_true] at h
    simp only [Safe, S.noPow, Bool.and_eq_true]
    exact ⟨⟨(iho h.1).1, (ihk h.2).1⟩, (iho h.1).2, (ihk h.2).2⟩
  | del ol lk o k iho ihk =>
    intro h
    simp only [S.plainOnly, Bool.and_eq_true] at h
    simp only [Safe, S.noPow, Bool.and_eq_true]
    exact ⟨⟨(iho h.1).1, (ihk h.2).1⟩, (iho h.1).2, (ihk h.2).2⟩
  | nullish a b iha ihb =>
    intro h
    simp only [S.plainOnly, Bool.and_eq_true] at h
    simp only [Safe, S.noPow, Bool.and_eq_true]
    exact ⟨⟨(iha h.1).1, (ihb h.2).1⟩, (iha h.1).2, (ihb h.2).2⟩
  | tcat p s t ihp ihs =>
    intro h
    simp only [S.plainOnly, Bool.and_eq_true] at h
    simp only [Safe, S.noPow, Bool.and_eq_true]
    exact ⟨⟨(ihp h.1).1, (ihs h.2).1⟩, (ihp h.1).2, (ihs h.2).2⟩
  | asgVar x op r _ => intro h; simp [S.plainOnly] at h
  | asgDot o p op r _ _ => intro h; simp [S.plainOnly] at h
  | asgIdx o k op r _ _ _ => intro h; simp [S.plainOnly] at h
  | vcall opt tpl f n a b ihf iha ihb =>
    intro h
    simp only [S.plainOnly, Bool.and_eq_true] at h
    simp only [Safe, S.noPow, Bool.and_eq_true]
    exact ⟨⟨(ihf h.1.1).1, (iha h.1.2).1, (ihb h.2).1⟩, ⟨(ihf h.1.1).2, (iha h.1.2).2⟩, (ihb h.2).2⟩
  | mcall mode tpl ol lk o k n a b iho ihk iha ihb =>
    intro h
    simp only [S.plainOnly, Bool.and_eq_true, beq_iff_eq] at h
    obtain ⟨⟨⟨⟨hm, ho⟩, hk⟩, ha⟩, hb⟩ := h
    subst hm
    simp only [Safe, S.noPow, Bool.and_eq_true]
    exact ⟨⟨(iho ho).1, (ihk hk).1, (iha ha).1, (ihb hb).1, fun hc => absurd rfl hc, fun hc => by cases hc⟩,
      ⟨⟨(iho ho).2, (ihk hk).2⟩, (iha ha).2⟩, (ihb hb).2⟩

/-- the whole user-visible state (trace, variables, template cache and object counter) is the same -/
theorem lowering2_preserves_state (w : World) (e : S) (h : H) (tm : Nat → Val) (hs : Safe w e) :
    (evalT w (lower e) ⟨h, tm⟩).1 = (evalS w e h).1 ∧ (evalT w (lower e) ⟨h, tm⟩).2.h = (evalS w e h).2 :=
  fin_ok w e _ _ (lowerC_good w e 0 hs) ⟨h, tm⟩

/-- C05, optional calls and `this`: for every parsed expression of the fragment (optional calls, method calls
through chains, parenthesised chains that are called, nested anyhow with everything of Props/C05Assign.lean),
every world satisfying `Safe`, every state, as long as no `**` meets a BigInt: the lowered expression gives the same
value or exception, the same trace (every `callf` event carries the function, its `this` and its arguments; every
operand is evaluated once, in order) and the same variables, and the evaluation stays inside the model. -/
theorem optional_call_lowering_preserves_behaviour (w : World) (e : S) (h : H) (tm : Nat → Val)
    (hwf : e.wf = true) (hs : Safe w e) (hbig : (evalS w e h).1 ≠ .err .bigint) :
    (evalT w (lower e) ⟨h, tm⟩).1 = (evalS w e h).1 ∧
    (evalT w (lower e) ⟨h, tm⟩).2.h.tr = (evalS w e h).2.tr ∧
    (evalT w (lower e) ⟨h, tm⟩).2.h.env = (evalS w e h).2.env ∧
    (∀ x, (evalS w e h).1 = .err x → x.marker = false) :=
  exponent_assign_lowering_preserves_behaviour w e h tm hwf hs hbig

/-- C05, `delete` chains, plain method calls through chains, optional calls of values, `o?.[k]`, tagged
templates with an ordinary tag: for every parsed expression WITHOUT compound assignments and without the member
calls that need `.call(this, …)`, EVERY world and every state — no hypothesis: same value or exception (`true`
when the chain under `delete` is cut short), same trace, same variables. -/
theorem delete_chain_lowering_preserves_behaviour (w : World) (e : S) (h : H) (tm : Nat → Val)
    (hwf : e.wf = true) (hp : e.plainOnly = true) :
    (evalT w (lower e) ⟨h, tm⟩).1 = (evalS w e h).1 ∧
    (evalT w (lower e) ⟨h, tm⟩).2.h.tr = (evalS w e h).2.tr ∧
    (evalT w (lower e) ⟨h, tm⟩).2.h.env = (evalS w e h).2.env ∧
    (∀ x, (evalS w e h).1 = .err x → x.marker = false) :=
  logical_assign_lowering_preserves_behaviour w e h tm hwf (safe_of_plainOnly w e hp).2 (safe_of_plainOnly w e hp).1

/-- C05, tagged templates: under `Safe`, the lowered expression behaves like the source on the FIRST evaluation
(value, trace — the `callf` events carry the receiver and the strings array —, variables, template cache, object
counter) and again on a SECOND evaluation from the states the first one left (whatever the temporaries hold):
the array passed for a site the second time is the one the source semantics passes, which is the cached one
(`template_object_is_cached`). -/
theorem tagged_template_lowering_preserves_behaviour (w : World) (e : S) (h : H) (tm : Nat → Val) (hs : Safe w e) :
    (evalT w (lower e) ⟨h, tm⟩).1 = (evalS w e h).1 ∧
    (evalT w (lower e) ⟨h, tm⟩).2.h = (evalS w e h).2 ∧
    (evalT w (lower e) (evalT w (lower e) ⟨h, tm⟩).2).1 = (evalS w e (evalS w e h).2).1 ∧
    (evalT w (lower e) (evalT w (lower e) ⟨h, tm⟩).2).2.h = (evalS w e (evalS w e h).2).2 := by
  obtain ⟨h1, h2⟩ := lowering2_preserves_state w e h tm hs
  refine ⟨h1, h2, ?_⟩
  have := lowering2_preserves_state w e (evalT w (lower e) ⟨h, tm⟩).2.h (evalT w (lower e) ⟨h, tm⟩).2.tm hs
  exact ⟨this.1.trans (by rw [h2]), this.2.trans (by rw [h2])⟩

/-- the emitted `_t || (_t = __template([…]))` is GetTemplateObject -/
theorem template_cache_expression_is_GetTemplateObject (w : World) (t : TplSite) (s : TState) :
    (evalT w (tplExpr t) s).1 = (getTpl t.site s.h).1 ∧ (evalT w (tplExpr t) s).2.h = (getTpl t.site s.h).2 :=
  sim_tplExpr w t s

theorem getTpl_of_cell (site g : Nat) (h : H) (hc : h.tcell site = some g) : getTpl site h = (.val (.tpl site g), h) := by
  unfold getTpl
  rw [hc]

/-- The SAME array on every evaluation of one site: once GetTemplateObject has produced the array of a site, any
further evaluation of any expression leaves it cached, so the next GetTemplateObject of that site (in the source
semantics, hence — by the theorem above — in the lowered code) yields the same object. -/
theorem template_object_is_cached (w : World) (site : Nat) (h : H) (e : S) :
    (getTpl site (evalS w e (getTpl site h).2).2).1 = (getTpl site h).1 := by
  have hc : ∃ g, (getTpl site h).1 = .val (.tpl site g) ∧ (getTpl site h).2.tcell site = some g := by
    unfold getTpl
    split
    · rename_i g hg; exact ⟨g, rfl, hg⟩
    · exact ⟨h.tgen site, rfl, by simp⟩
  obtain ⟨g, hv, hcell⟩ := hc
  have := evalC_inv (tcell_stepInv w site g) e (getTpl site h).2 hcell
  rw [hv]
  simp only [evalS, topP_snd]
  rw [getTpl_of_cell _ _ _ this]

/-- different sites never share an array -/
theorem template_objects_of_different_sites_differ (s1 s2 : Nat) (h1 h2 : H) (hne : s1 ≠ s2) :
    (getTpl s1 h1).1 ≠ (getTpl s2 h2).1 := by
  unfold getTpl
  split <;> split <;> simp [hne]

/-- `__template` makes a NEW array each time it is called: without the cache a site would pass a different object
on every evaluation -/
theorem template_uncached_would_differ (site : Nat) (h : H) :
    (mkTplObj site (mkTplObj site h).2).1 ≠ (mkTplObj site h).1 := by
  simp [mkTplObj]

-- ---------------------------------------------------------------- non-vacuity

/-- `v1?.p7?.(f0(v3))`: an optional call of an optional member: the getter gives the function object fn 1, which
is called with `this` = obj 1 (an identifier written three times by esbuild) after the argument has been evaluated -/
def exOptCall : S := .mcall .opt none true (.dot 7) (.id 1) (.lit .undef) 1 (.call 0 (.id 3)) (.lit .undef)
example : exOptCall.wf = true ∧ Safe exW exOptCall ∧ (evalS exW exOptCall exH).1 ≠ .err .bigint :=
  ⟨rfl, ⟨trivial, trivial, trivial, trivial, fun _ x _ => ⟨exW_keeps x, rfl⟩, fun hc => by cases hc⟩, by decide⟩
example : (evalS exW exOptCall exH).1 = .val (.num 102) ∧
    (evalS exW exOptCall exH).2.tr = [.get (.obj 1) (pkey 7), .call 0 (.obj 3), .callf 1 (.obj 1) [.obj 7]] ∧
    (evalT exW (lower exOptCall) ⟨exH, fun _ => .undef⟩).2.h.tr = (evalS exW exOptCall exH).2.tr := by decide

/-- `(f0(v0)?.p6.p7)`x${v3}``: the seeded bug's shape (a parenthesised chain with two links as a template tag).
The receiver is the object `f0(v0).p6` (obj 17), captured in a temporary; the strings array is tpl 0 0 -/
def exTag : S := .mcall .paren (some ⟨0, ["x", ""]⟩) false (.dot 7) (.optDot (.call 0 (.id 0)) 6) (.lit .undef) 1
  (.id 3) (.lit .undef)
theorem exTag_never_nullish : NeverNullish exW false (.dot 7) (.optDot (.call 0 (.id 0)) 6) (.lit .undef) := by
  intro h; rfl
example : exTag.wf = true ∧ Safe exW exTag :=
  ⟨rfl, trivial, trivial, trivial, trivial, fun _ x hx => by simp [S.asId] at hx,
    fun _ => Or.inl exTag_never_nullish⟩
/-- evaluated twice: the receiver and the SAME array both times, source and lowered alike -/
example : (evalS exW exTag (evalS exW exTag exH).2).2.tr =
      [.call 0 .null, .get (.obj 7) (pkey 6), .get (.obj 17) (pkey 7), .callf 17 (.obj 17) [.tpl 0 0, .obj 3],
       .call 0 .null, .get (.obj 7) (pkey 6), .get (.obj 17) (pkey 7), .callf 17 (.obj 17) [.tpl 0 0, .obj 3]] ∧
    (evalT exW (lower exTag) (evalT exW (lower exTag) ⟨exH, fun _ => .undef⟩).2).2.h.tr =
      (evalS exW exTag (evalS exW exTag exH).2).2.tr := by decide

/-- `delete v0?.[f0(v1)]` with v0 = null: true, and the key is not evaluated; `delete f0(v1)?.p2`: a delete event -/
def exDel1 : S := .del true .idx (.id 0) (.call 0 (.id 1))
def exDel2 : S := .del true (.dot 2) (.call 0 (.id 1)) (.lit .undef)
example : exDel1.wf = true ∧ exDel1.plainOnly = true ∧ exDel2.wf = true ∧ exDel2.plainOnly = true := ⟨rfl, rfl, rfl, rfl⟩
example : (evalS exW exDel1 exH).1 = .val (.bool true) ∧ (evalS exW exDel1 exH).2.tr = [] ∧
    (evalS exW exDel2 exH).2.tr = [.call 0 (.obj 1), .del (.obj 7) (pkey 2)] ∧
    (evalT exW (lower exDel2) ⟨exH, fun _ => .undef⟩).2.h.tr = (evalS exW exDel2 exH).2.tr := by decide

-- ---------------------------------------------------------------- the two excluded situations

/-- `(v0?.p7)(f0(v3))` with v0 = null: natively the argument is evaluated (the call event) and then the call of
`undefined` throws; the lowered `(v0 == null ? void 0 : v0.p7).call(v0, f0(v3))` throws at `.call`, before the
argument is evaluated.  `Safe` excludes this (it demands `NeverNullish` or arguments without effects). -/
def exParenNull : S := .mcall .paren none true (.dot 7) (.id 0) (.lit .undef) 1 (.call 0 (.id 3)) (.lit .undef)
theorem paren_null_callee_example_differs :
    (evalS exW exParenNull exH).1 = .err .typeError ∧
    (evalT exW (lower exParenNull) ⟨exH, fun _ => .undef⟩).1 = .err .typeError ∧
    (evalS exW exParenNull exH).2.tr = [.call 0 (.obj 3)] ∧
    (evalT exW (lower exParenNull) ⟨exH, fun _ => .undef⟩).2.h.tr = [] := by decide

/-- a world whose getter on obj 1 reassigns the user variable v1 -/
def badW2 : World :=
  { exW with host := fun ev tr env =>
      match ev with
      | .get (.obj 1) _ => (.ret (.fn 4), upd env 1 (.obj 9))
      | ev => exW.host ev tr env }

/-- `v1.p7?.()` in that world: natively `this` is the object the property was read from (obj 1); the lowered
`(_a = v1.p7) == null ? void 0 : _a.call(v1)` reads v1 again after the getter ran and passes obj 9.
`Safe` excludes this (it demands `Keeps badW2 1`). -/
def exThis : S := .mcall .opt none false (.dot 7) (.id 1) (.lit .undef) 0 (.lit .undef) (.lit .undef)
theorem this_reread_example_differs :
    (evalS badW2 exThis exH).2.tr = [.get (.obj 1) (pkey 7), .callf 4 (.obj 1) []] ∧
    (evalT badW2 (lower exThis) ⟨exH, fun _ => .undef⟩).2.h.tr = [.get (.obj 1) (pkey 7), .callf 4 (.obj 9) []] := by
  decide

end EsbuildModel.Lower2
