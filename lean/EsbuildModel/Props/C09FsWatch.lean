import EsbuildModel.Props.C09FsCache
/-! # C09 — the watch predicate of a file that was read, and the parse caches -/
namespace EsbuildModel.C09FsCache
open EsbuildModel.StatCache EsbuildModel.FsCache

/-! ## 2. the predicate recorded for a read file fires whenever the contents differ from what was read -/

/-- SEMANTIC form. Any number of builds (each with a fresh `realFS`), every read through `FSCache.ReadFile`, trusted
changes in between — also in the middle of a build and between the `stat` and the `read` of one call; then
`WatchData()`; then any trusted changes. If the predicate made for path `p` does NOT fire at the end, the path holds
exactly what the LAST read of `p` in the last build answered (same contents, or still nothing), provided the path was
not seen missing and then read successfully within that one build (`flip`, see the example below). -/
theorem watch_file_predicate_complete_of_trusted (cfg : Cfg) (clock0 : Int) (w0 : World) (ops : List Op) (acts : List Act)
    (hvia : ∀ op ∈ ops, op.viaCache = true)
    (h : Trusted cfg (State.init clock0 w0) ops)
    (ha : ActsOK cfg (resolveWatchData cfg (run cfg (State.init clock0 w0) ops)) acts) :
    let s := run cfg (State.init clock0 w0) ops
    let s' := runActs cfg (resolveWatchData cfg s) acts
    ∀ p d r, s'.wd p = some d → s.lastRead p = some r → s.flip p = false →
      pollFires cfg s' p d = false → r = resOf (s'.world p) := by
  intro s s' p d r hd hr hflip hquiet
  obtain ⟨_, hw⟩ := WInv_run (Inv_init cfg clock0 w0) (WInv_init cfg clock0 w0) h hvia
  -- `WatchData()` finds nothing to resolve
  have hres : WInvAt cfg (resolveWatchData cfg s) p := by
    intro d1 hd1
    simp only [resolveWatchData] at hd1
    cases hsd : s.wd p with
    | none => rw [hsd] at hd1; cases hd1
    | some d0 =>
      rw [hsd] at hd1
      obtain ⟨r0, hr0, hc0⟩ := hw p d0 hsd
      have hne : d0.state ≠ .needModKey := by
        intro hn; rw [hn] at hc0; exact hc0
      simp only [Option.map, wdResolve, hne, if_false] at hd1
      injection hd1 with hd1
      subst hd1
      exact ⟨r0, hr0, hc0⟩
  have hfin := WInvAt_runActs ha hres
  obtain ⟨r1, hr1, hc1⟩ := hfin d hd
  have hr1' : s.lastRead p = some r1 := by
    have : (runActs cfg (resolveWatchData cfg s) acts).lastRead = s.lastRead := by rw [runActs_lastRead]; rfl
    rw [← this]; exact hr1
  rw [hr] at hr1'
  injection hr1' with hr1'
  subst hr1'
  have hflip' : s'.flip p = false := by
    have : (runActs cfg (resolveWatchData cfg s) acts).flip = s.flip := by rw [runActs_flip]; rfl
    show (runActs cfg (resolveWatchData cfg s) acts).flip p = false
    rw [this]; exact hflip
  simp only [pollFires, predFires] at hquiet
  cases hst : d.state <;> rw [hst] at hc1 hquiet <;> simp only [WCase] at hc1
  · -- hasModKey: the key still answers and is the recorded one
    simp only [Bool.or_eq_false_iff, Bool.not_eq_false', decide_eq_false_iff_not, ne_eq, Decidable.not_not] at hquiet
    obtain ⟨hok, hkey⟩ := hquiet
    cases hkr : modKey cfg.plat cfg.gapSec s'.clock (s'.world p) with
    | ok K =>
      rw [hkr] at hkey
      simp only [KeyRes.key] at hkey
      rcases hc1 with hz | ⟨C, hC, ht⟩
      · exact absurd (hkey.trans hz) (modKey_ok_ne_zero hkr)
      · rw [← hkey] at ht
        rw [hC]; exact (trusted_key_current ht hkr).symm
    | unusable => rw [hkr] at hok; cases hok
    | err => rw [hkr] at hok; cases hok
  · -- missing: nothing there now
    obtain ⟨_, hfl | herr⟩ := hc1
    · rw [hflip'] at hfl; cases hfl
    · cases hwp : s'.world p with
      | none => rw [herr]; rfl
      | some f => rw [hwp] at hquiet; cases hquiet
  · -- unusable: contents compared directly
    obtain ⟨C, hC, hfc, _⟩ := hc1
    simp only [decide_eq_false_iff_not, ne_eq, Decidable.not_not] at hquiet
    rw [hC, hquiet, hfc]

/-- `watch_file_predicate_complete`, OPERATIONAL form (hypotheses of `readfile_is_current`) -/
theorem watch_file_predicate_complete (cfg : Cfg) (hfit : ResFits cfg) (clock0 : Int) (w0 : World)
    (ops : List Op) (acts : List Act)
    (hh : ∀ op ∈ ops, op.Honest = true) (hvia : ∀ op ∈ ops, op.viaCache = true) (ha : acts.all Act.Honest = true) :
    let s := run cfg (State.init clock0 w0) ops
    let s' := runActs cfg (resolveWatchData cfg s) acts
    ∀ p d r, s'.wd p = some d → s.lastRead p = some r → s.flip p = false →
      pollFires cfg s' p d = false → r = resOf (s'.world p) :=
  watch_file_predicate_complete_of_trusted cfg clock0 w0 ops acts hvia (honest_trusted hfit _ ops hh)
    (honest_acts_ok hfit _ acts ha)

/-! ### non-vacuity and the two forced hypotheses -/

def fired (cfg : Cfg) (s : State) (p : Nat) : Option Bool := (s.wd p).map (pollFires cfg s p)
def afterBuild (cfg : Cfg) (ops : List Op) (acts : List Act) : State :=
  runActs cfg (resolveWatchData cfg (run cfg (State.init (sec 200) w1) ops)) acts

/-- an old file: recorded with its key; a later write fires, no write does not -/
example : fired (cfgUnix 3 1) (afterBuild (cfgUnix 3 1) [.read 0 []] [.tick 5, .edit (.write 0 [98])]) 0 = some true ∧
          fired (cfgUnix 3 1) (afterBuild (cfgUnix 3 1) [.read 0 []] [.tick 5]) 0 = some false := by decide +kernel
/-- a file that is too new: recorded with its contents; a write of the same bytes is quiet, other bytes fire -/
example : fired (cfgUnix 3 1) (afterBuild (cfgUnix 3 1) [.act (.edit (.write 0 [97])), .read 0 []] [.edit (.write 0 [98])]) 0 = some true ∧
          fired (cfgUnix 3 1) (afterBuild (cfgUnix 3 1) [.act (.edit (.write 0 [97])), .read 0 []] [.edit (.write 0 [97])]) 0 = some false := by
  decide +kernel

/-- FORCED (`flip`): the path is missing at the first read of a build, is created, and is read again in the same
build: the slot stays `stateFileMissing`, so the predicate watches for EXISTENCE — a later deletion is not reported
although the build used the contents. -/
def flipOps : List Op := [.read 5 [], .act (.edit (.create 5 9 420 1000 [120])), .read 5 []]
example : (afterBuild (cfgUnix 3 1) flipOps []).flip 5 = true ∧
    answers (afterBuild (cfgUnix 3 1) flipOps []) = [(false, .err), (false, .ok [120])] ∧
    fired (cfgUnix 3 1) (afterBuild (cfgUnix 3 1) flipOps [.edit (.delete 5)]) 5 = some false := by decide +kernel

/-- FORCED (`viaCache`): resolver.go reads the package.json of a tsconfig `extends` package with `fs.ReadFile` directly.
Alone, that leaves `stateFileNeedModKey`, and `WatchData()` takes the key at the END of the build: an edit between the
read and the end of a build that then runs longer than the gap is recorded with the NEW key, and never reported. -/
def rawOps : List Op := [.rawRead 0, .act (.edit (.write 0 [98])), .act (.tick 4000000000)]
example : (∀ op ∈ rawOps, op.Honest = true) ∧
    answers (afterBuild (cfgUnix 3 1) rawOps []) = [(false, .ok [97])] ∧
    fired (cfgUnix 3 1) (afterBuild (cfgUnix 3 1) rawOps [.tick 1000]) 0 = some false := by decide +kernel

/-- FORCED ("the LAST read"): one build reads the path twice (two modules for one file: `./a.js` and `./a.js?2`, or
`with { type: … }`), the file is edited in between and the build is still running more than the gap later: the slot keeps
only the key of the second read, the first answer is stale, the predicate stays quiet. REPRODUCED on the real watcher
(see the work package report): the watcher idles on an output that contains the old contents. With less than the gap
between edit and second read the slot holds `ModKey{}` and fires (second example) — also as the real code does. -/
def doubleOps (wait : Nat) : List Op := [.read 0 [], .act (.edit (.write 0 [98])), .act (.tick wait), .read 0 []]
example : answers (afterBuild (cfgUnix 3 1) (doubleOps 4000000000) []) = [(false, .ok [97]), (false, .ok [98])] ∧
    fired (cfgUnix 3 1) (afterBuild (cfgUnix 3 1) (doubleOps 4000000000) [.tick 1000]) 0 = some false := by decide +kernel
example : fired (cfgUnix 3 1) (afterBuild (cfgUnix 3 1) (doubleOps 1000000000) [.tick 1000]) 0 = some true ∧
    fired (cfgUnix 3 1) (afterBuild (cfgUnix 3 1) (doubleOps 1000000000) [.tick 9000000000]) 0 = some true := by decide +kernel

/-! ## 3. the parse caches -/
open EsbuildModel.AstCache in
/-- `ast_cache_hit_sound`: for EVERY history of `Parse` requests on one of the three caches — starting from any cache
whose entries are parses of their own keys — every answer equals a fresh parse of the requested source with the
requested options, and every HIT was served from an entry stored for the same key path with an IDENTICAL source
(index, key path, pretty paths, identifier name, contents) and `Equal` options; provided `Equal` options parse alike
(C09.js_cache_key_covers / css_cache_key_covers establish that over the regenerated field lists). -/
theorem ast_cache_hit_sound {Opt Res : Type} (equal : Opt → Opt → Bool) (parse : Source → Opt → Res)
    (hequal : ∀ s a b, equal a b = true → parse s a = parse s b)
    (reqs : List (Source × Opt)) (c : Cache Opt Res)
    (hc : ∀ k e, c k = some e → e.result = parse e.source e.options) :
    (∀ a ∈ runReqs equal parse c reqs, a.1 = parse a.2.2.1 a.2.2.2) ∧
    (∀ s o, (parseCached equal parse c s o).hit = true →
        ∃ e, c s.keyPath = some e ∧ e.source = s ∧ equal e.options o = true ∧ (parseCached equal parse c s o).result = e.result) := by
  constructor
  · induction reqs generalizing c with
    | nil => intro a ha; cases ha
    | cons q qs ih =>
      obtain ⟨s, o⟩ := q
      intro a ha
      simp only [runReqs, List.mem_cons] at ha
      have hstep : (parseCached equal parse c s o).result = parse s o ∧
          ∀ k e, (parseCached equal parse c s o).cache k = some e → e.result = parse e.source e.options := by
        unfold parseCached
        cases hk : c s.keyPath with
        | none =>
          refine ⟨rfl, ?_⟩
          intro k e he
          simp only at he
          split at he
          · injection he with he; subst he; rfl
          · exact hc k e he
        | some entry =>
          simp only
          split
          · rename_i hh
            refine ⟨?_, hc⟩
            simp only
            rw [hc _ entry hk, hh.1]
            exact hequal _ _ _ hh.2
          · refine ⟨rfl, ?_⟩
            intro k e he
            simp only at he
            split at he
            · injection he with he; subst he; rfl
            · exact hc k e he
      rcases ha with ha | ha
      · subst ha; exact hstep.1
      · exact ih _ hstep.2 a ha
  · intro s o hhit
    unfold parseCached at hhit ⊢
    cases hk : c s.keyPath with
    | none => rw [hk] at hhit; simp at hhit
    | some entry =>
      rw [hk] at hhit
      simp only at hhit ⊢
      split at hhit
      · rename_i hh
        simp only [if_pos hh]
        exact ⟨entry, rfl, hh.1, hh.2, rfl⟩
      · simp at hhit

/-- non-vacuity: same source and options hit; changed contents, a changed source index, or changed options miss -/
example :
    let src : AstCache.Source := ⟨1, 10, 20, 30, [97]⟩
    (AstCache.runReqs (fun (a b : Nat) => a == b) (fun s o => (s.contents, o)) AstCache.Cache.empty
      [(src, 0), (src, 0), ({ src with contents := [98] }, 0), ({ src with contents := [98], index := 2 }, 0),
       ({ src with contents := [98], index := 2 }, 1)]).map (fun a => a.2.1) = [false, true, false, false, false] := by
  decide +kernel

end EsbuildModel.C09FsCache
