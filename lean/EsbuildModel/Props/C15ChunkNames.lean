import EsbuildModel.Lemmas.ChunkNames
import EsbuildModel.Lemmas.ChunkNamesMinify
import EsbuildModel.Lemmas.ChunkNamesPerm
import EsbuildModel.Props.C15Slots
import EsbuildModel.Impl.ChunkNamesDriver
/-!
C15 / C10 — renaming at chunk level (`renameSymbolsInChunk`, Impl/ChunkNames.lean).

Vocabulary.  A *ref* is what the Go code passes around (it may carry a `Link`); `c.fol x = some s` says that `s`
is the symbol `ast.FollowSymbols` reaches from `x`.  `topRefs c` are the refs handed to `AddTopLevelSymbol`
(characterised by `import_is_top_ref`, `wrapper_is_top_ref`, `live_top_level_declaration_is_top_ref`,
`cjs_hoisted_external_import_is_top_ref`).  `StartScope c S`: `S` is one of the scopes of the chunk's files from
which `AssignNamesByScope` starts a traversal (`cjs_module_scope_is_started`, `live_part_scope_is_started`).
`Vis declB S x y` (Spec/ScopeTree.lean): inside `S`, `x` is declared in a scope in which `y` is visible.
`Slots.Ren syms s`: `s` is a symbol the number renamer renames (default or private-name namespace).

Part N: the NumberRenamer branch (no --minify-identifiers); part M: the MinifyRenamer branch; part D: determinism.
All theorems are for every chunk: any number of files, any scope trees, any symbol tables.  They are stated for
runs that return `.ok` (`.panic` is a Go panic, `.outOfFuel` only says that the fuel handed to the model was
too small: `Slots.rename_loop_terminates`).
-/
namespace EsbuildModel.ChunkNames
open Slots (Scope Name NSym Res declA declB allList Vis rootScope WFList Ren)

/-- `S` is a scope from which AssignNamesByScope starts: the module scope of a CommonJS-wrapped file, or a scope
listed in `part.Scopes` of a live part that is the module scope or one of its children -/
def StartScope (c : Chunk) (S : Scope) : Prop := ∃ scopes, c.files.mapM fileScopes = some scopes ∧ S ∈ scopes.flatten

-- ================================================================================================
-- what is registered at the top level, and which scopes are walked (the two seeded bugs dropped exactly these)

/-- **(3) cross_chunk_import_has_own_name, registration.** Every symbol imported from another chunk is handed to
`AddTopLevelSymbol`, whatever the order of `importsFromOtherChunks`. -/
theorem import_is_top_ref {c : Chunk} {i : Nat} (h : i ∈ c.imports) : i ∈ topRefs c := by
  simp only [topRefs, sortedImports, List.mem_append]
  exact Or.inl (mem_sortNat.mpr h)

/-- The wrapper symbol (`require_foo` / `init_foo`) of every wrapped file of the chunk is a top-level name. -/
theorem wrapper_is_top_ref {c : Chunk} {f : File} (hf : f ∈ c.files) (hw : f.wrap = 1 ∨ f.wrap = 2) :
    f.wrapperRef ∈ topRefs c := by
  simp only [topRefs, List.mem_append, List.mem_flatMap]
  refine Or.inr ⟨f, hf, ?_⟩
  rcases hw with hw | hw
  · simp [fileTop, hw]
  · simp [fileTop, hw]

/-- Every top-level declaration of a live part of a file that is not CommonJS-wrapped is a top-level name. -/
theorem live_top_level_declaration_is_top_ref {c : Chunk} {f : File} {p : Part} {d : Nat} (hf : f ∈ c.files)
    (hw : f.wrap ≠ 1) (hp : p ∈ f.parts) (hl : p.live = true) (hd : (d, true) ∈ p.declared) : d ∈ topRefs c := by
  simp only [topRefs, List.mem_append, List.mem_flatMap]
  refine Or.inr ⟨f, hf, ?_⟩
  simp only [fileTop, hw, if_false, List.mem_append, List.mem_flatMap]
  refine Or.inr ⟨p, hp, ?_⟩
  simp only [hl, if_true, List.mem_map, List.mem_filter]
  exact ⟨(d, true), ⟨hd, rfl⟩, rfl⟩

/-- The names bound by an `import` statement of an external module in a CommonJS-wrapped file are top-level names
when the output format keeps `import` statements (they are hoisted out of the wrapper). -/
theorem cjs_hoisted_external_import_is_top_ref {c : Chunk} {f : File} {p : Part} {st : HStmt} {x : Nat}
    (hf : f ∈ c.files) (hw : f.wrap = 1) (hk : c.keepESM = true) (hp : p ∈ f.parts) (hs : st ∈ p.stmts)
    (hx : x ∈ st.refs) : x ∈ topRefs c := by
  simp only [topRefs, List.mem_append, List.mem_flatMap]
  refine Or.inr ⟨f, hf, ?_⟩
  simp only [fileTop, hw, if_true, hk, List.mem_cons, List.mem_flatMap]
  exact Or.inr ⟨p, hp, st, hs, hx⟩

theorem mapM_flatten_mem {α β : Type} {g : α → Option (List β)} : ∀ {l : List α} {l' : List (List β)},
    l.mapM g = some l' → ∀ a ys y, a ∈ l → g a = some ys → y ∈ ys → y ∈ l'.flatten := by
  intro l l' h a ys y ha hg hy
  obtain ⟨ys', h1, h2⟩ := mapM_mem h a ha
  rw [hg] at h1; cases h1
  exact List.mem_flatten.mpr ⟨ys, h2, hy⟩

/-- The whole module scope of a CommonJS-wrapped file is walked (when the walk does not panic). -/
theorem cjs_module_scope_is_started {c : Chunk} {f : File} {scopes : List (List Scope)}
    (h : c.files.mapM fileScopes = some scopes) (hf : f ∈ c.files) (hw : f.wrap = 1) : StartScope c f.module :=
  ⟨scopes, h, mapM_flatten_mem h f [f.module] f.module hf (by simp [fileScopes, hw]) List.mem_cons_self⟩

/-- Every child of the module scope that a live part lists in `part.Scopes` is walked. -/
theorem live_part_scope_is_started {c : Chunk} {f : File} {p : Part} {path : List Nat} {S : Scope}
    {scopes : List (List Scope)} (h : c.files.mapM fileScopes = some scopes) (hf : f ∈ c.files) (hw : f.wrap ≠ 1)
    (hp : p ∈ f.parts) (hl : p.live = true) (hpath : path ∈ p.scopes) (hlen : path.length ≤ 1)
    (hS : f.module.sub? path = some S) : StartScope c S := by
  refine ⟨scopes, h, ?_⟩
  obtain ⟨ys, h1, h2⟩ := mapM_mem h f hf
  simp only [fileScopes, hw, if_false, Option.map_eq_some_iff] at h1
  obtain ⟨parts, hparts, rfl⟩ := h1
  have hp' : p ∈ f.parts.filter (·.live) := List.mem_filter.mpr ⟨hp, hl⟩
  obtain ⟨ps, hps1, hps2⟩ := mapM_mem hparts p hp'
  simp only [partScopes] at hps1
  have hpath' : path ∈ p.scopes.filter (fun path => path.length ≤ 1) :=
    List.mem_filter.mpr ⟨hpath, by simpa using hlen⟩
  obtain ⟨S', hS1, hS2⟩ := mapM_mem hps1 path hpath'
  rw [hS] at hS1; cases hS1
  exact List.mem_flatten.mpr ⟨parts.flatten, h2, List.mem_flatten.mpr ⟨ps, hps2, hS2⟩⟩

-- ================================================================================================
-- Part N: the NumberRenamer branch

theorem numberNames_facts {fuel : Nat} {c : Chunk} {names : List Name} (h : numberNames fuel c = .ok names) :
    ∃ reserved top scopes' scopes, reservedNames c = some reserved ∧ numberInputs c = some (top, scopes') ∧
      (topRefs c).mapM c.fol = some top ∧ c.files.mapM fileScopes = some scopes ∧
      resolveScopes c.fol scopes.flatten = some scopes' ∧
      Slots.numberRenameWith fuel c.nsyms reserved top scopes' = .ok names := by
  unfold numberNames at h
  split at h
  · next reserved top scopes' hres hin =>
    refine ⟨reserved, top, scopes', ?_⟩
    have hin' := hin
    unfold numberInputs at hin'
    split at hin'
    · next top0 scopes htop hsc =>
      split at hin'
      · next sc' hr =>
        simp only [Option.some.injEq, Prod.mk.injEq] at hin'
        obtain ⟨rfl, rfl⟩ := hin'
        exact ⟨scopes, hres, hin, htop, hsc, hr, h⟩
      · cases hin'
    · cases hin'
  · cases h

/-- the three ways two refs of a chunk can be in scope together -/
def VisibleTogether (c : Chunk) (x y : Nat) : Prop :=
  (x ∈ topRefs c ∧ y ∈ topRefs c) ∨
  (y ∈ topRefs c ∧ ∃ S, StartScope c S ∧ x ∈ S.all declB) ∨
  (∃ S, StartScope c S ∧ Vis declB S x y)

theorem fol_det {c : Chunk} {x s s' : Nat} (h : c.fol x = some s) (h' : c.fol x = some s') : s = s' := by
  rw [h] at h'; exact Option.some.inj h'

/-- visibility in the chunk is visibility in the tree the number renamer walks -/
theorem vis_root {c : Chunk} {top : List Nat} {scopes' : List Scope} {scopes : List (List Scope)}
    (htop : (topRefs c).mapM c.fol = some top) (hsc : c.files.mapM fileScopes = some scopes)
    (hr : resolveScopes c.fol scopes.flatten = some scopes')
    {x y s t : Nat} (hx : c.fol x = some s) (hy : c.fol y = some t) (hv : VisibleTogether c x y) :
    Vis declB (rootScope top scopes') s t := by
  have hd : ∀ j, j ∈ top → j ∈ declB (rootScope top scopes') := by intro j hj; simp [declB, hj]
  have topmem : ∀ z r, z ∈ topRefs c → c.fol z = some r → r ∈ top := by
    intro z r hz hzr
    obtain ⟨r', h1, h2⟩ := mapM_mem htop z hz
    rw [fol_det hzr h1]; exact h2
  have started : ∀ S, StartScope c S → ∃ S', resolveScope c.fol S = some S' ∧ S' ∈ scopes' := by
    intro S ⟨sc2, h1, h2⟩
    rw [hsc] at h1; cases h1
    exact resolveScopes_mem hr S h2
  rcases hv with ⟨h1, h2⟩ | ⟨h1, S, hS, h2⟩ | ⟨S, hS, h2⟩
  · exact .here (hd _ (topmem x s h1 hx)) (hd _ (topmem y t h2 hy))
  · obtain ⟨S', hS1, hS2⟩ := started S hS
    obtain ⟨r, hr1, hr2⟩ := resolveScope_all S hS1 h2
    rw [fol_det hx hr1]
    exact .inner (c := S') hS2 (hd _ (topmem y t h1 hy)) hr2
  · obtain ⟨S', hS1, hS2⟩ := started S hS
    obtain ⟨s', t', hs, ht, hv'⟩ := vis_resolve h2 hS1
    rw [fol_det hx hs, fol_det hy ht]
    exact .deeper (c := S') hS2 hv'

/-- **(1) chunk_names_injective_where_visible, without --minify-identifiers.**  Two refs of a chunk whose
link-followed symbols are different and renameable, and which are in scope together — both registered at the top
level of the chunk (declared at the top level of any of its files, a wrapper, a cross-chunk import, a hoisted
external import), or one of them top-level and the other declared anywhere in a walked scope of any file, or one
declared in a scope in which the other is visible — never get the same final name.
`hwf` is the shape of hoisted copies (`WFList`, Spec/ScopeTree.lean) on the followed trees; the kernel checks
it on every real chunk (`hyp=ok`), the counterexample without it is in Props/C15Slots.lean. -/
theorem chunk_names_injective_where_visible_number {fuel : Nat} {c : Chunk} {names : List Name}
    (h : numberNames fuel c = .ok names)
    (hwf : ∀ top scopes, numberInputs c = some (top, scopes) → WFList declB top scopes)
    {x y s t : Nat} (hx : c.fol x = some s) (hy : c.fol y = some t) (hst : s ≠ t)
    (hrs : Ren c.nsyms s) (hrt : Ren c.nsyms t) (hv : VisibleTogether c x y) :
    ∃ a b, numberNameFor c names x = some a ∧ numberNameFor c names y = some b ∧ a ≠ b := by
  obtain ⟨reserved, top, scopes', scopes, _, hin, htop, hsc, hr, hrun⟩ := numberNames_facts h
  have hvis := vis_root htop hsc hr hx hy hv
  obtain ⟨a, b, ha, hb, hab⟩ := Slots.number_names_separate_visible hrun (hwf _ _ hin) hvis hst hrs hrt
  exact ⟨a, b, by simp [numberNameFor, hx, ha], by simp [numberNameFor, hy, hb], hab⟩

theorem mem_allList_of_mem {d : Scope → List Nat} {u : Nat} : ∀ {l : List Scope} {S : Scope}, S ∈ l → u ∈ S.all d →
    u ∈ allList d l
  | [], _, h, _ => by simp at h
  | a :: as, S, h, hu => by
    simp only [allList, List.mem_append]
    rcases List.mem_cons.mp h with rfl | h
    · exact Or.inl hu
    · exact Or.inr (mem_allList_of_mem h hu)

/-- a ref that is registered at the top level or declared in a walked scope is, followed, in the renamer's tree -/
theorem in_root {c : Chunk} {top : List Nat} {scopes' : List Scope} {scopes : List (List Scope)}
    (htop : (topRefs c).mapM c.fol = some top) (hsc : c.files.mapM fileScopes = some scopes)
    (hr : resolveScopes c.fol scopes.flatten = some scopes')
    {x s : Nat} (hx : c.fol x = some s) (hin : x ∈ topRefs c ∨ ∃ S, StartScope c S ∧ x ∈ S.all declB) :
    s ∈ (rootScope top scopes').all declB := by
  simp only [Scope.all, declB, List.mem_append]
  rcases hin with h1 | ⟨S, ⟨sc2, h1, h2⟩, h3⟩
  · obtain ⟨r', h1', h2'⟩ := mapM_mem htop x h1
    rw [fol_det hx h1']; exact Or.inl (Or.inl h2')
  · rw [hsc] at h1; cases h1
    obtain ⟨S', hS1, hS2⟩ := resolveScopes_mem hr S h2
    obtain ⟨r, hr1, hr2⟩ := resolveScope_all S hS1 h3
    rw [fol_det hx hr1]
    exact Or.inr (mem_allList_of_mem hS2 hr2)

/-- **(2) no_capture_of_free_globals, without --minify-identifiers.**  No renamed symbol of the chunk — top-level or
nested, in any file — ends with a keyword, a strict-mode reserved word, one of the names the bundler needs
(`require`, `Promise`; `exports`, `module` for CommonJS on node), or the name of a symbol that must keep its name
(an unbound = free global identifier, a name pinned by direct `eval` or `with`) that is declared in any scope of
any file of the chunk. -/
theorem no_capture_of_free_globals_number {fuel : Nat} {c : Chunk} {names : List Name}
    (h : numberNames fuel c = .ok names) {x s : Nat} (hx : c.fol x = some s) (hrs : Ren c.nsyms s)
    (hin : x ∈ topRefs c ∨ ∃ S, StartScope c S ∧ x ∈ S.all declB) :
    ∃ a, numberNameFor c names x = some a ∧ a ∉ jsKeywords ∧ a ∉ strictReserved ∧ a ∉ extraReserved c ∧
      ∀ (f : File) (u : Nat) (sym : CSym), f ∈ c.files → u ∈ f.module.all declB → c.syms[u]? = some sym →
        sym.ns = 4 → a ≠ sym.name := by
  obtain ⟨reserved, top, scopes', scopes, hres, _, htop, hsc, hr, hrun⟩ := numberNames_facts h
  obtain ⟨a, ha, hnr⟩ := Slots.number_names_not_reserved hrun (in_root htop hsc hr hx hin) hrs
  unfold reservedNames at hres
  split at hres
  · cases hres
  · next pinned hp =>
    simp only [Option.some.injEq] at hres
    subst hres
    simp only [List.mem_append, not_or] at hnr
    refine ⟨a, by simp [numberNameFor, hx, ha], hnr.1.1.1, hnr.1.1.2, hnr.2, ?_⟩
    intro f u sym hf hu hsu h4 hab
    apply hnr.1.2
    rw [hab]
    have hmem : u ∈ allList declB (c.files.map (·.module)) :=
      mem_allList_of_mem (List.mem_map.mpr ⟨f, hf, rfl⟩) hu
    have : c.nsyms[u]? = some (toN sym) := by simp [Chunk.nsyms, List.getElem?_map, hsu]
    exact Slots.reservedScopes_mem _ hp u (toN sym) hmem this h4

/-- **(3) cross_chunk_import_has_own_name, without --minify-identifiers.**  A symbol imported from another chunk has
a name of its own in the importing chunk: no other top-level symbol of the chunk and no symbol declared in any
walked scope of any of its files ends with the same name. -/
theorem cross_chunk_import_has_own_name_number {fuel : Nat} {c : Chunk} {names : List Name}
    (h : numberNames fuel c = .ok names)
    (hwf : ∀ top scopes, numberInputs c = some (top, scopes) → WFList declB top scopes)
    {i y s t : Nat} (hi : i ∈ c.imports) (hx : c.fol i = some s) (hy : c.fol y = some t) (hst : s ≠ t)
    (hrs : Ren c.nsyms s) (hrt : Ren c.nsyms t)
    (hin : y ∈ topRefs c ∨ ∃ S, StartScope c S ∧ y ∈ S.all declB) :
    ∃ a b, numberNameFor c names i = some a ∧ numberNameFor c names y = some b ∧ a ≠ b := by
  rcases hin with h1 | h1
  · exact chunk_names_injective_where_visible_number h hwf hx hy hst hrs hrt (Or.inl ⟨import_is_top_ref hi, h1⟩)
  · obtain ⟨b, a, hb, ha, hba⟩ := chunk_names_injective_where_visible_number h hwf hy hx (Ne.symm hst) hrt hrs
      (Or.inr (Or.inl ⟨import_is_top_ref hi, h1⟩))
    exact ⟨a, b, ha, hb, Ne.symm hba⟩

/-- **(5) unrenamed_when_possible.**  A renamed symbol keeps its own name (after the JSX capital rule and after being
made a valid identifier: `Slots.baseName`) unless that name is reserved or is the final name of another symbol
that is in scope together with it in the chunk; in particular a top-level symbol whose name is free keeps it. -/
theorem unrenamed_when_possible {fuel : Nat} {c : Chunk} {names : List Name}
    (h : numberNames fuel c = .ok names) {x s : Nat} (hx : c.fol x = some s) (hrs : Ren c.nsyms s)
    (hin : x ∈ topRefs c ∨ ∃ S, StartScope c S ∧ x ∈ S.all declB) :
    ∃ a base reserved top scopes, numberNameFor c names x = some a ∧ Slots.baseName c.nsyms s = some base ∧
      reservedNames c = some reserved ∧ numberInputs c = some (top, scopes) ∧
      (a = base ∨ base ∈ reserved ∨
        ∃ u, u ≠ s ∧ Vis declB (rootScope top scopes) s u ∧ Slots.nameForSymbol c.nsyms names u = some base) := by
  obtain ⟨reserved, top, scopes', scopes, hres, hin', htop, hsc, hr, hrun⟩ := numberNames_facts h
  obtain ⟨a, base, ha, hb, hcase⟩ := Slots.number_renamed_only_on_collision hrun (in_root htop hsc hr hx hin) hrs
  exact ⟨a, base, reserved, top, scopes', by simp [numberNameFor, hx, ha], hb, hres, hin', hcase⟩

-- ================================================================================================
-- Part M: the MinifyRenamer branch (--minify-identifiers)

/-- the alphabets of the name minifier have no repeated character and are not empty (true of
`DefaultNameMinifierJS`, Props/C15.lean; `ShuffleByCharFreq` only permutes them) -/
structure GoodAlphabet (c : Chunk) : Prop where
  hh : c.head.Nodup
  ht : c.tail.Nodup
  hH : 0 < c.head.length
  hT : 0 < c.tail.length

theorem minifyNames_facts {fuel : Nat} {c : Chunk} {mf : Minified} (h : minifyNames fuel c = .ok mf) :
    ∃ reserved tab, reservedNames c = some reserved ∧ minifySlots c = some (tab, mf.toSlot) ∧
      assignTabs ⟨c.head, c.tail⟩ reserved fuel 0 tab = some mf.tabs := by
  unfold minifyNames at h
  split at h
  · next reserved tab m hres hsl =>
    split at h
    · next tabs ht =>
      simp only [Res.ok.injEq] at h; subst h
      exact ⟨reserved, tab, hres, hsl, ht⟩
    · cases h
  · cases h

/-- how NameForSymbol finds the name of a followed, renameable symbol that has a slot -/
theorem minifyNameFor_slot {c : Chunk} {mf : Minified} {x s a : Nat} {sym : CSym} {na : Name}
    (hx : c.fol x = some s) (hs : c.syms[s]? = some sym) (h4 : sym.ns ≠ 4) (ha : slotOf sym mf.toSlot s = some a)
    (hna : minifyNameFor c mf x = some na) : ∃ t, mf.tabs[sym.ns]? = some t ∧ (a, na) ∈ t := by
  simp only [minifyNameFor, hx, hs, h4, if_false, ha] at hna
  split at hna
  · cases hna
  · next t ht => exact ⟨t, ht, lookup_mem hna⟩

/-- Two symbols of one namespace whose slots differ are printed with different names. -/
theorem minified_names_differ_of_slots_differ {fuel : Nat} {c : Chunk} {mf : Minified}
    (h : minifyNames fuel c = .ok mf) (ga : GoodAlphabet c)
    {x y s t a b : Nat} {sym sym' : CSym} (hx : c.fol x = some s) (hy : c.fol y = some t)
    (hs : c.syms[s]? = some sym) (ht : c.syms[t]? = some sym') (hns : sym.ns = sym'.ns) (h4 : sym.ns ≠ 4)
    (ha : slotOf sym mf.toSlot s = some a) (hb : slotOf sym' mf.toSlot t = some b) (hab : a ≠ b)
    {na nb : Name} (hna : minifyNameFor c mf x = some na) (hnb : minifyNameFor c mf y = some nb) : na ≠ nb := by
  obtain ⟨reserved, tab, _, _, htabs⟩ := minifyNames_facts h
  obtain ⟨t1, ht1, hm1⟩ := minifyNameFor_slot hx hs h4 ha hna
  obtain ⟨t2, ht2, hm2⟩ := minifyNameFor_slot hy ht (hns ▸ h4) hb hnb
  rw [← hns, ht1] at ht2; cases ht2
  obtain ⟨sl, _, hassign⟩ := assignTabs_get tab 0 htabs sym.ns t1 ht1
  exact Rename.assign_names_injective ⟨c.head, c.tail⟩ ga.hh ga.ht ga.hH ga.hT _ _ fuel sl t1 hassign hm1 hm2 hab

/-- **(1) chunk_names_injective_where_visible, with --minify-identifiers.**  Two refs of a chunk whose link-followed
symbols are different, of the same slot namespace, renameable and both counted (each has a slot: a nested slot from
the parser or a top-level slot from AllocateTopLevelSymbolSlots) are printed with different names, in each of the
three situations: both top-level (no nested slot) — whatever files of the chunk they come from, cross-chunk imports
and wrappers included; one top-level and the other nested anywhere in the chunk (`hbelow`); both nested with
different nested slots (`hnested`).
`hnested` is what `Slots.slots_separate_visible` (Props/C15Slots.lean, A1) proves of two symbols that are visible
together in one file; `hbelow` follows from `Slots.nested_symbol_gets_slot` (A2: a nested slot is below the file's
count) and `first_ge_file` (UnionMax); the kernel checks `hbelow` on every real chunk (`hyp=ok`). -/
theorem chunk_names_injective_where_visible_minify {fuel : Nat} {c : Chunk} {mf : Minified}
    (h : minifyNames fuel c = .ok mf) (ga : GoodAlphabet c)
    {x y s t a b : Nat} {sym sym' : CSym} (hx : c.fol x = some s) (hy : c.fol y = some t) (hst : s ≠ t)
    (hs : c.syms[s]? = some sym) (ht : c.syms[t]? = some sym') (hns : sym.ns = sym'.ns) (h4 : sym.ns ≠ 4)
    (ha : slotOf sym mf.toSlot s = some a) (hb : slotOf sym' mf.toSlot t = some b)
    (hbelow : ∀ j, sym.slot = some j → j < firstTopLevelSlots c.files sym.ns)
    (hbelow' : ∀ j, sym'.slot = some j → j < firstTopLevelSlots c.files sym'.ns)
    (hnested : ∀ i j, sym.slot = some i → sym'.slot = some j → i ≠ j)
    {na nb : Name} (hna : minifyNameFor c mf x = some na) (hnb : minifyNameFor c mf y = some nb) : na ≠ nb := by
  obtain ⟨reserved, tab, _, hslots, _⟩ := minifyNames_facts h
  obtain ⟨inv, _, _⟩ := minifySlots_facts hslots
  refine minified_names_differ_of_slots_differ h ga hx hy hs ht hns h4 ha hb ?_ hna hnb
  simp only [slotOf] at ha hb
  cases h1 : sym.slot with
  | none =>
    rw [h1] at ha
    simp only at ha
    obtain ⟨sy, sl, e1, _, hge, _⟩ := inv.range s a ha
    rw [hs] at e1; cases e1
    cases h2 : sym'.slot with
    | none =>
      rw [h2] at hb
      simp only at hb
      intro hab
      subst hab
      exact hst (inv.inj s t a sym sym' ha hb hs ht hns)
    | some j =>
      rw [h2] at hb
      simp only [Option.some.injEq] at hb
      subst hb
      have := hbelow' j h2
      rw [← hns] at this
      omega
  | some i =>
    rw [h1] at ha
    simp only [Option.some.injEq] at ha
    subst ha
    cases h2 : sym'.slot with
    | none =>
      rw [h2] at hb
      simp only at hb
      obtain ⟨sy, sl, e1, _, hge, _⟩ := inv.range t b hb
      rw [ht] at e1; cases e1
      have := hbelow i h1
      rw [hns] at this
      omega
    | some j =>
      rw [h2] at hb
      simp only [Option.some.injEq] at hb
      subst hb
      exact hnested i j h1 h2

/-- **(2) no_capture_of_free_globals, with --minify-identifiers.**  A minified ordinary symbol (default namespace, with a
slot) never gets a keyword, a strict-mode reserved word, a name the bundler needs, or the name of a symbol that must
keep its name (free global, name pinned by `eval` / `with`) declared in any scope of any file of the chunk. -/
theorem no_capture_of_free_globals_minify {fuel : Nat} {c : Chunk} {mf : Minified}
    (h : minifyNames fuel c = .ok mf) {x s a : Nat} {sym : CSym} (hx : c.fol x = some s) (hs : c.syms[s]? = some sym)
    (h0 : sym.ns = 0) (ha : slotOf sym mf.toSlot s = some a) {na : Name} (hna : minifyNameFor c mf x = some na) :
    na ∉ jsKeywords ∧ na ∉ strictReserved ∧ na ∉ extraReserved c ∧
      ∀ (f : File) (u : Nat) (usym : CSym), f ∈ c.files → u ∈ f.module.all declB → c.syms[u]? = some usym →
        usym.ns = 4 → na ≠ usym.name := by
  obtain ⟨reserved, tab, hres, _, htabs⟩ := minifyNames_facts h
  obtain ⟨t1, ht1, hm1⟩ := minifyNameFor_slot hx hs (by omega) ha hna
  obtain ⟨sl, _, hassign⟩ := assignTabs_get tab 0 htabs sym.ns t1 ht1
  rw [h0] at hassign
  simp only [Nat.add_zero, Nat.zero_ne_one, if_false] at hassign
  have hnr := assign_pair_not_reserved (Or.inl rfl) hassign hm1
  unfold reservedNames at hres
  split at hres
  · cases hres
  · next pinned hp =>
    simp only [Option.some.injEq] at hres
    subst hres
    simp only [List.mem_append, not_or] at hnr
    refine ⟨hnr.1.1.1, hnr.1.1.2, hnr.2, ?_⟩
    intro f u usym hf hu hsu hu4 hab
    apply hnr.1.2
    rw [hab]
    have hmem : u ∈ allList declB (c.files.map (·.module)) :=
      mem_allList_of_mem (List.mem_map.mpr ⟨f, hf, rfl⟩) hu
    have : c.nsyms[u]? = some (toN usym) := by simp [Chunk.nsyms, List.getElem?_map, hsu]
    exact Slots.reservedScopes_mem _ hp u (toN usym) hmem this hu4

/-- A minified label never gets a keyword. -/
theorem minified_label_not_keyword {fuel : Nat} {c : Chunk} {mf : Minified}
    (h : minifyNames fuel c = .ok mf) {x s a : Nat} {sym : CSym} (hx : c.fol x = some s) (hs : c.syms[s]? = some sym)
    (h1 : sym.ns = 1) (ha : slotOf sym mf.toSlot s = some a) {na : Name} (hna : minifyNameFor c mf x = some na) :
    na ∉ jsKeywords := by
  obtain ⟨reserved, tab, _, _, htabs⟩ := minifyNames_facts h
  obtain ⟨t1, ht1, hm1⟩ := minifyNameFor_slot hx hs (by omega) ha hna
  obtain ⟨sl, _, hassign⟩ := assignTabs_get tab 0 htabs sym.ns t1 ht1
  rw [h1] at hassign
  simp only [Nat.zero_add, if_true] at hassign
  exact assign_pair_not_reserved (Or.inr rfl) hassign hm1

/-- A symbol that must keep its name (free global, pinned by `eval` / `with`) is printed with its original name. -/
theorem pinned_symbol_keeps_name_minify {c : Chunk} {mf : Minified} {x s : Nat} {sym : CSym}
    (hx : c.fol x = some s) (hs : c.syms[s]? = some sym) (h4 : sym.ns = 4) : minifyNameFor c mf x = some sym.name := by
  simp [minifyNameFor, hx, hs, h4]

/-- **(3) cross_chunk_import_has_own_name, with --minify-identifiers: registration.**  The symbol counted for a
cross-chunk import (links followed, namespace aliases resolved), when it is renameable and not a nested symbol, gets a
top-level slot of its own namespace at or above the first top-level slot; so does every symbol used or declared in
a live part of a file of the chunk and the `exports` / `module` symbols the files use.  (With
`chunk_names_injective_where_visible_minify`: nothing else in the chunk is printed with the same name.) -/
theorem cross_chunk_import_has_own_slot_minify {fuel : Nat} {c : Chunk} {mf : Minified}
    (h : minifyNames fuel c = .ok mf) {x r : Nat} {sym : CSym}
    (hin : x ∈ c.imports ∨ ∃ f e, f ∈ c.files ∧ e ∈ fileCalls f ∧ e.1 = x)
    (ht : target c.syms x = some r) (hs : c.syms[r]? = some sym) (h4 : sym.ns ≠ 4) (hsl : sym.slot = none) :
    ∃ a, slotOf sym mf.toSlot r = some a ∧ firstTopLevelSlots c.files sym.ns ≤ a ∧
      ∀ r' sym' b, r' ≠ r → c.syms[r']? = some sym' → sym'.ns = sym.ns → sym'.slot = none →
        slotOf sym' mf.toSlot r' = some b → a ≠ b := by
  obtain ⟨reserved, tab, _, hslots, _⟩ := minifyNames_facts h
  obtain ⟨inv, cimp, cfile⟩ := minifySlots_facts hslots
  have hcov : ∃ a, mf.toSlot.lookup r = some a := by
    rcases hin with hi | ⟨f, e, hf, he, rfl⟩
    · exact cimp x r sym hi ht hs h4 hsl
    · exact cfile f e r sym hf he ht hs h4 hsl
  obtain ⟨a, ha⟩ := hcov
  obtain ⟨sy, sl, e1, _, hge, _⟩ := inv.range r a ha
  rw [hs] at e1; cases e1
  refine ⟨a, by simp [slotOf, hsl, ha], hge, ?_⟩
  intro r' sym' b hne hs' hns' hsl' hb hab
  subst hab
  simp only [slotOf, hsl'] at hb
  exact hne (inv.inj r' r a sym' sym hb ha hs' hs hns')

-- ================================================================================================
-- Part D: determinism (rename_deterministic)
--
-- Go map ranges in the modelled code and how the result is made independent of their order:
--  * linker.go renameSymbolsInChunk `for _, imports := range …importsFromOtherChunks` (map chunk index → items):
--    collected, then sort.Sort by (StableSourceIndex, InnerIndex)  — `rename_deterministic_imports` below;
--  * renamer.go ComputeReservedNames `range js_lexer.Keywords`, `range StrictModeReservedWords`,
--    computeReservedNamesForScope `range scope.Members`: only insert keys into a set (the model keeps a list and
--    every theorem uses membership only; Slots.numberRenameWith looks names up by key);
--  * renamer.go assignNamesInScope / assignNestedScopeSlotsHelper `range scope.Members`: inner indices collected and
--    sort.Ints — `resolveScope` sorts the members (Slots.sortNat) before anything reads them, `resolve_members_perm`;
--  * renamer.go AccumulateSymbolUseCounts `range symbolUses`: nested symbols add to a slot counter (commutative),
--    top-level symbols are appended and the array is sorted (count, stable index, inner index) before use; two
--    entries that compare equal are equal — `sorted_top_level_array_perm` below;
--  * renamer.go AssignNamesByScope `range nestedScopes` (map source index → scopes), one goroutine per file: the files
--    share only the root numberScope, which is read-only in this phase (OPEN below);
--  * linker.go `nestedScopes[sourceIndex] = …`: writes only.
-- All of these are on the reviewed list of Gen/MapRanges.lean.

/-- **(4) rename_deterministic, cross-chunk imports.**  The names do not depend on the order in which the map
`importsFromOtherChunks` is ranged over (nor on the order of the items): both branches read the imports only after
sorting them by (stable source index, inner index). -/
theorem rename_deterministic_imports (fuel : Nat) (c : Chunk) {imports' : List Nat} (hp : c.imports.Perm imports') :
    renameSymbolsInChunk fuel { c with imports := imports' } = renameSymbolsInChunk fuel c := by
  have hs : sortedImports { c with imports := imports' } = sortedImports c := (sortNat_perm hp).symm
  have ht : topRefs { c with imports := imports' } = topRefs c := by
    simp only [topRefs, hs]
  have hn : numberNames fuel { c with imports := imports' } = numberNames fuel c := by
    simp only [numberNames, numberInputs, ht]
    rfl
  have hm : minifyNames fuel { c with imports := imports' } = minifyNames fuel c := by
    simp only [minifyNames, minifySlots, hs]
    rfl
  simp only [renameSymbolsInChunk, hn, hm]

/-- The members of a scope are a Go map: the walk sees them sorted, so their order in the input does not matter. -/
theorem resolve_members_perm (f : Nat → Option Nat) {m m' : List Nat} (hp : m.Perm m') (g : List Nat) (l : Option Nat)
    (ch : List Scope) : resolveScope f ⟨m, g, l, ch⟩ = resolveScope f ⟨m', g, l, ch⟩ := by
  simp only [resolveScope, sortNat_perm hp]

/-- **(4) rename_deterministic, symbol-use maps: the sort.**  `sort.Sort(topLevelSymbols)` makes the per-file array of
top-level symbol counts independent of the order in which `part.SymbolUses` was ranged over: two arrays with the
same entries in any order sort to the same array (`sort.Sort` is not stable, but entries that compare equal both ways
are equal). -/
theorem sorted_top_level_array_perm {l l' : TopArr} (hp : l.Perm l') : l.mergeSort countLe = l'.mergeSort countLe :=
  mergeSort_countLe_perm hp

/-- **(4) rename_deterministic, symbol-use maps: one goroutine.**  For any two orders of the AccumulateSymbolCount calls
of a file the nested-slot counters end equal and the deferred arrays are permutations of each other, or both panic. -/
theorem accumulate_calls_commute (syms : List CSym) {es es' : List (Nat × Nat)} (hp : es.Perm es') (st : SlotTab × TopArr) :
    Rel (accumulateAll syms st es) (accumulateAll syms st es') :=
  accumulateAll_perm syms hp st

/-- **(4) rename_deterministic, symbol-use maps: the whole minifier branch.**  Two chunks that differ only in the order
of the `SymbolUses` maps of their parts (`SameUpToUseOrder`, established by `sameUpToUseOrder_of_parts`) get the same
slot tables, the same `topLevelSymbolToSlot` and the same names. -/
theorem rename_deterministic_symbol_uses (fuel : Nat) {c c' : Chunk} (hs : c.syms = c'.syms) (hi : c.imports = c'.imports)
    (hh : c.head = c'.head) (ht : c.tail = c'.tail) (hb : c.bundling = c'.bundling) (hc : c.cjsNode = c'.cjsNode)
    (hf : Zip2 SameUpToUseOrder c.files c'.files) : minifyNames fuel c = minifyNames fuel c' := by
  have hr : reservedNames c = reservedNames c' := by
    simp only [reservedNames, Chunk.nsyms, extraReserved, modules_perm hf, hs, hb, hc]
  simp only [minifyNames, hr, minifySlots_perm hs hi hf, hh, ht]

-- OPEN (rename_deterministic, full strength):
--   `Slots.assignRecList` over the scope lists of two different files commutes (the goroutines of AssignNamesByScope,
--   `range nestedScopes`): the files' nested symbols are disjoint and the shared root scope is only read.  Tested by
--   the correspondence (Go's map order and goroutine schedule vary from run to run, the model runs one fixed order,
--   0 disagreements), not proved.

-- ================================================================================================
-- the hypothesis `hwf` is what the kernel checks on every real chunk

mutual
theorem wfScopeB_iff (d : Scope → List Nat) : (S : Scope) → ∀ (ctx : List Nat), wfScopeB d ctx S = true ↔ S.WF d ctx
  | ⟨m, g, l, ch⟩, ctx => by
    simp only [wfScopeB, Scope.WF]
    exact wfListB_iff d ch _
theorem wfListB_iff (d : Scope → List Nat) : (l : List Scope) → ∀ (ctx : List Nat), wfListB d ctx l = true ↔ WFList d ctx l
  | [], ctx => by simp [wfListB, WFList]
  | c :: cs, ctx => by
    simp only [wfListB, WFList, Bool.and_eq_true, wfScopeB_iff d c ctx, wfListB_iff d cs ctx, List.all_eq_true,
      Bool.or_eq_true, Bool.not_eq_true', List.contains_iff_mem]
    constructor
    · rintro ⟨⟨h1, h2⟩, h3⟩
      refine ⟨h1, h2, fun s hs hs' => ?_⟩
      rcases h3 s hs with h | h
      · rw [List.contains_iff_mem.mpr hs'] at h; cases h
      · exact h
    · rintro ⟨h1, h2, h3⟩
      refine ⟨⟨h1, h2⟩, fun s hs => ?_⟩
      by_cases hm : s ∈ allList d cs
      · exact Or.inr (h3 s hs hm)
      · left
        cases hc : (allList d cs).contains s with
        | false => rfl
        | true => exact absurd (List.contains_iff_mem.mp hc) hm
end

/-- The driver's `hyp` check is the hypothesis `hwf` of the number-renamer theorems: a chunk for which the kernel
answers `hyp=ok` (every real chunk of the correspondence runs) satisfies it. -/
theorem hypWF_iff (c : Chunk) : hypWF c = true ↔
    ∀ top scopes, numberInputs c = some (top, scopes) → WFList declB top scopes := by
  unfold hypWF
  cases h : numberInputs c with
  | none => simp
  | some p =>
    obtain ⟨top, scopes⟩ := p
    simp only [wfListB_iff, Option.some.injEq, Prod.mk.injEq]
    constructor
    · rintro hw t s ⟨rfl, rfl⟩; exact hw
    · intro hw; exact hw top scopes ⟨rfl, rfl⟩

/-- The driver's `slots` check is the hypothesis `hbelow` of `chunk_names_injective_where_visible_minify` for every
symbol declared in a scope tree of the chunk. -/
theorem hypSlots_spec {c : Chunk} (h : hypSlots c = true) {r j : Nat} {sym : CSym}
    (hr : r ∈ allList declA (c.files.map (·.module))) (hs : c.syms[r]? = some sym) (h4 : sym.ns ≠ 4)
    (hj : sym.slot = some j) : j < firstTopLevelSlots c.files sym.ns := by
  simp only [hypSlots, List.all_eq_true] at h
  have := h r hr
  simp only [hs, hj, Bool.or_eq_true, decide_eq_true_eq] at this
  rcases this with h' | h'
  · exact absurd h' h4
  · exact h'

/-- The driver's `imp` check: a cross-chunk import that must keep its name (none occurs in practice: bundled ES module
top-level symbols are never pinned) has a reserved name, so that no renamed symbol can take it. -/
theorem hypImports_spec {c : Chunk} (h : hypImports c = true) {reserved : List Name} (hres : reservedNames c = some reserved)
    {i r : Nat} {sym : CSym} (hi : i ∈ c.imports) (hf : c.fol i = some r) (hs : c.syms[r]? = some sym) (h4 : sym.ns = 4) :
    sym.name ∈ reserved := by
  simp only [hypImports, hres, List.all_eq_true] at h
  have := h i hi
  simp only [hf, hs, h4, bne_self_eq_false, Bool.false_or] at this
  exact List.contains_iff_mem.mp this

-- ================================================================================================
-- non-vacuity: one concrete chunk that meets the hypotheses of every theorem above.
-- Two files.  File 0 (not wrapped): top-level `foo` (1), a function with the parameter `foo` (2, nested slot 0)
-- containing a label `foo:` (7), the free global `foo2` (3, unbound) and an import alias `imp` (4) linked to the
-- symbol `foo` (0) that lives in ANOTHER chunk.  File 1 (ESM-wrapped): wrapper `init_b` (5), top-level `foo` (6).
-- Without --minify-identifiers: foo (import), foo3 (foo2 is a free global), foo5 (parameter), init_b, foo4.
-- With it (alphabet abAB / ab01): nested slot 0 `a`, import `b`, `A`, `B`, `aa`.

deriving instance DecidableEq for Rename.Slot
deriving instance DecidableEq for Slots.Res

def exSyms : List CSym :=
  [⟨0, "foo".toList, false, none, none, none⟩, ⟨0, "foo".toList, false, none, none, none⟩,
   ⟨0, "foo".toList, false, none, none, some 0⟩, ⟨4, "foo2".toList, false, none, none, none⟩,
   ⟨0, "imp".toList, false, some 0, none, none⟩, ⟨0, "init_b".toList, false, none, none, none⟩,
   ⟨0, "foo".toList, false, none, none, none⟩, ⟨1, "foo".toList, false, none, none, some 0⟩]
def exFile0 : File :=
  { wrap := 0, wrapperRef := 8, usesExports := false, exportsRef := 8, usesModule := false, moduleRef := 8,
    slotCounts := [1, 1, 0, 0], module := ⟨[1, 3, 4], [], none, [⟨[2], [], none, [⟨[], [], some 7, []⟩]⟩]⟩,
    parts := [{ live := true, declared := [(1, true), (2, false)], uses := [(4, 2), (3, 1), (1, 1), (2, 3), (7, 1)], scopes := [[0]], stmts := [] }] }
def exFile1 : File :=
  { wrap := 2, wrapperRef := 5, usesExports := false, exportsRef := 8, usesModule := false, moduleRef := 8,
    slotCounts := [0, 0, 0, 0], module := ⟨[6], [5], none, []⟩,
    parts := [{ live := true, declared := [(6, true), (5, true)], uses := [(6, 1)], scopes := [], stmts := [] }] }
def exChunk (minify : Bool) : Chunk :=
  { minify, cjsNode := false, bundling := true, keepESM := true, head := "abAB".toList, tail := "ab01".toList,
    syms := exSyms, files := [exFile0, exFile1], imports := [0] }

def exMin : Minified :=
  ⟨[(6, 4), (5, 3), (1, 2), (0, 1)], [[(0, ['a']), (1, ['b']), (2, ['A']), (4, ['B']), (3, ['a', 'a'])], [(0, ['a'])], [], []]⟩

theorem exSlots : minifySlots (exChunk true) =
    some ([[⟨4, false⟩, ⟨3, false⟩, ⟨2, false⟩, ⟨1, false⟩, ⟨2, false⟩], [⟨1, false⟩], [], []], [(6, 4), (5, 3), (1, 2), (0, 1)]) := by
  have a0 : accumulateAll exSyms (initSlots (firstTopLevelSlots [exFile0, exFile1]), []) (fileCalls exFile0) =
      some ([[⟨4, false⟩], [⟨1, false⟩], [], []], [(0, 2), (1, 1), (1, 1)]) := by decide +kernel
  have s0 : ([(0, 2), (1, 1), (1, 1)] : TopArr).mergeSort countLe = [(0, 2), (1, 1), (1, 1)] :=
    List.mergeSort_of_pairwise (by decide)
  have a1 : accumulateAll exSyms ([[⟨4, false⟩], [⟨1, false⟩], [], []], []) (fileCalls exFile1) =
      some ([[⟨4, false⟩], [⟨1, false⟩], [], []], [(6, 1), (6, 1), (5, 1)]) := by decide +kernel
  have s1 : ([(6, 1), (6, 1), (5, 1)] : TopArr).mergeSort countLe = [(5, 1), (6, 1), (6, 1)] := by
    simp [List.mergeSort, List.MergeSort.Internal.splitInTwo, countLe]
  have a2 : accFiles exSyms (initSlots (firstTopLevelSlots [exFile0, exFile1])) [exFile0, exFile1] =
      some ([[⟨4, false⟩], [⟨1, false⟩], [], []], [[(0, 2), (1, 1), (1, 1)], [(5, 1), (6, 1), (6, 1)]]) := by
    simp only [accFiles, a0, a1, s0, s1]
  have a3 : accumulateAll exSyms ([[⟨4, false⟩], [⟨1, false⟩], [], []], []) ((sortedImports (exChunk true)).map (fun r => (r, 1))) =
      some ([[⟨4, false⟩], [⟨1, false⟩], [], []], [(0, 1)]) := by decide +kernel
  have a4 : allocAll exSyms ([[⟨4, false⟩], [⟨1, false⟩], [], []], [])
      ([(0, 1)] ++ [[(0, 2), (1, 1), (1, 1)], [(5, 1), (6, 1), (6, 1)]].flatten) =
      some ([[⟨4, false⟩, ⟨3, false⟩, ⟨2, false⟩, ⟨1, false⟩, ⟨2, false⟩], [⟨1, false⟩], [], []], [(6, 4), (5, 3), (1, 2), (0, 1)]) := by
    decide +kernel
  unfold minifySlots
  rw [show accFiles (exChunk true).syms (initSlots (firstTopLevelSlots (exChunk true).files)) (exChunk true).files = _ from a2]
  dsimp only
  rw [show accumulateAll (exChunk true).syms ([[⟨4, false⟩], [⟨1, false⟩], [], []], [])
    ((sortedImports (exChunk true)).map (fun r => (r, 1))) = _ from a3]
  exact a4

theorem exRun : minifyNames 20 (exChunk true) = .ok exMin := by
  have r0 : reservedNames (exChunk true) = some (jsKeywords ++ strictReserved ++ ["foo2".toList] ++ ["require".toList, "Promise".toList]) := by
    decide +kernel
  have o0 : Rename.order [⟨4, false⟩, ⟨3, false⟩, ⟨2, false⟩, ⟨1, false⟩, ⟨2, false⟩] =
      [(0, ⟨4, false⟩), (1, ⟨3, false⟩), (2, ⟨2, false⟩), (4, ⟨2, false⟩), (3, ⟨1, false⟩)] := by
    simp [Rename.order, List.zipIdx, List.mergeSort, List.MergeSort.Internal.splitInTwo]
  have o1 : Rename.order [] = [] := by simp [Rename.order]
  have o2 : Rename.order [⟨1, false⟩] = [(0, ⟨1, false⟩)] := by simp [Rename.order, List.zipIdx]
  have t2 : Rename.assign ⟨(exChunk true).head, (exChunk true).tail⟩ 1 jsKeywords 20 [⟨1, false⟩] = some [(0, ['a'])] := by
    unfold Rename.assign
    rw [o2]
    decide +kernel
  have t0 : Rename.assign ⟨(exChunk true).head, (exChunk true).tail⟩ 0
      (jsKeywords ++ strictReserved ++ ["foo2".toList] ++ ["require".toList, "Promise".toList]) 20
      [⟨4, false⟩, ⟨3, false⟩, ⟨2, false⟩, ⟨1, false⟩, ⟨2, false⟩] =
      some [(0, ['a']), (1, ['b']), (2, ['A']), (4, ['B']), (3, ['a', 'a'])] := by
    unfold Rename.assign
    rw [o0]
    decide +kernel
  have t1 : ∀ ns res, Rename.assign ⟨(exChunk true).head, (exChunk true).tail⟩ ns res 20 [] = some [] := by
    intro ns res
    unfold Rename.assign
    rw [o1]
    rfl
  unfold minifyNames
  rw [r0, exSlots]
  simp only [assignTabs, if_neg (by decide : ¬ ((0 : Nat) = 1)), Nat.zero_add, if_true, t0, t1, t2]
  rfl

-- ---- part N on the example
theorem exNumber : numberNames 20 (exChunk false) =
    .ok ["foo".toList, "foo3".toList, "foo5".toList, [], [], "init_b".toList, "foo4".toList, []] := by decide +kernel

def exInner : Scope := ⟨[2], [], none, [⟨[], [], some 7, []⟩]⟩
theorem exStarted : StartScope (exChunk false) exInner := ⟨[[exInner], []], rfl, by simp⟩
theorem exInputs : numberInputs (exChunk false) = some ([0, 1, 5, 6, 5], [⟨[], [2], none, [⟨[], [], some 7, []⟩]⟩]) := rfl
theorem exWF : ∀ top scopes, numberInputs (exChunk false) = some (top, scopes) → WFList declB top scopes := by
  intro top scopes h
  rw [exInputs] at h
  simp only [Option.some.injEq, Prod.mk.injEq] at h
  obtain ⟨rfl, rfl⟩ := h
  simp [WFList, Scope.WF, Scope.all, allList, declB]

-- the cross-chunk import `foo` (0) and the top-level `foo` of the first file (1): foo / foo3
example : ∃ a b, numberNameFor (exChunk false) ["foo".toList, "foo3".toList, "foo5".toList, [], [], "init_b".toList, "foo4".toList, []] 0 = some a ∧
    numberNameFor (exChunk false) ["foo".toList, "foo3".toList, "foo5".toList, [], [], "init_b".toList, "foo4".toList, []] 1 = some b ∧ a ≠ b :=
  cross_chunk_import_has_own_name_number exNumber exWF (i := 0) (y := 1) (s := 0) (t := 1) (by decide) rfl rfl (by decide)
    ⟨_, rfl, Or.inl rfl⟩ ⟨_, rfl, Or.inl rfl⟩ (Or.inl (by decide +kernel))
-- the parameter `foo` (2) of a function of the first file and the top-level `foo` (6) of the SECOND file: foo5 / foo4
example : ∃ a b, numberNameFor (exChunk false) ["foo".toList, "foo3".toList, "foo5".toList, [], [], "init_b".toList, "foo4".toList, []] 2 = some a ∧
    numberNameFor (exChunk false) ["foo".toList, "foo3".toList, "foo5".toList, [], [], "init_b".toList, "foo4".toList, []] 6 = some b ∧ a ≠ b :=
  chunk_names_injective_where_visible_number exNumber exWF (x := 2) (y := 6) (s := 2) (t := 6) rfl rfl (by decide)
    ⟨_, rfl, Or.inl rfl⟩ ⟨_, rfl, Or.inl rfl⟩
    (Or.inr (Or.inl ⟨by decide +kernel, exInner, exStarted, by simp [exInner, Scope.all, declB, allList]⟩))
-- the import alias `imp` (4) of the first file is linked to the import (0): both refs print as `foo`
example : (exChunk false).fol 4 = some 0 := rfl
-- no capture: symbol 1 would like `foo`, then `foo2`; `foo2` is a free global (symbol 3, unbound) of the chunk
example : ∃ a, numberNameFor (exChunk false) ["foo".toList, "foo3".toList, "foo5".toList, [], [], "init_b".toList, "foo4".toList, []] 1 = some a ∧
    a ∉ jsKeywords ∧ a ∉ strictReserved ∧ a ∉ extraReserved (exChunk false) ∧
    ∀ (f : File) (u : Nat) (sym : CSym), f ∈ (exChunk false).files → u ∈ f.module.all declB →
      (exChunk false).syms[u]? = some sym → sym.ns = 4 → a ≠ sym.name :=
  no_capture_of_free_globals_number exNumber (x := 1) (s := 1) rfl ⟨_, rfl, Or.inl rfl⟩ (Or.inl (by decide +kernel))
example : (exChunk false).syms[3]? = some ⟨4, "foo2".toList, false, none, none, none⟩ ∧ 3 ∈ exFile0.module.all declB :=
  ⟨rfl, by decide +kernel⟩

-- ---- part M on the example: top-level import (0, slot 1) and top-level `foo` of the second file (6, slot 4);
-- top-level 1 (slot 2) against the nested parameter 2 (nested slot 0 < firstTopLevelSlots 0 = 1)
example : GoodAlphabet (exChunk true) := ⟨by decide, by decide, by decide, by decide⟩
example : minifyNameFor (exChunk true) exMin 0 = some ['b'] ∧ minifyNameFor (exChunk true) exMin 6 = some ['B'] ∧
    minifyNameFor (exChunk true) exMin 2 = some ['a'] ∧ minifyNameFor (exChunk true) exMin 3 = some "foo2".toList := by
  decide +kernel
example : (['b'] : Name) ≠ ['B'] :=
  chunk_names_injective_where_visible_minify exRun ⟨by decide, by decide, by decide, by decide⟩
    (x := 0) (y := 6) (s := 0) (t := 6) (a := 1) (b := 4) rfl rfl (by decide) rfl rfl rfl (by decide) rfl rfl
    (fun j h => by cases h) (fun j h => by cases h) (fun i j h => by cases h) (by decide +kernel) (by decide +kernel)
example : (['A'] : Name) ≠ ['a'] :=
  chunk_names_injective_where_visible_minify exRun ⟨by decide, by decide, by decide, by decide⟩
    (x := 1) (y := 2) (s := 1) (t := 2) (a := 2) (b := 0) rfl rfl (by decide) rfl rfl rfl (by decide) rfl rfl
    (fun j h => by cases h) (fun j h => by cases h; decide +kernel) (fun i j h => by cases h) (by decide +kernel) (by decide +kernel)
example :=
  cross_chunk_import_has_own_slot_minify exRun (x := 0) (r := 0) (sym := ⟨0, "foo".toList, false, none, none, none⟩)
    (Or.inl (by decide)) (by decide +kernel) rfl (by decide) rfl
-- no capture under --minify-identifiers: the import (slot 1, `b`); the label `foo:` (nested label slot 0) is not a keyword
example := no_capture_of_free_globals_minify exRun (x := 0) (s := 0) (a := 1) (sym := ⟨0, "foo".toList, false, none, none, none⟩)
  rfl rfl rfl rfl (na := ['b']) (by decide +kernel)
example := minified_label_not_keyword exRun (x := 7) (s := 7) (a := 0) (sym := ⟨1, "foo".toList, false, none, none, some 0⟩)
  rfl rfl rfl rfl (na := ['a']) (by decide +kernel)
example := pinned_symbol_keeps_name_minify (c := exChunk true) (mf := exMin) (x := 3) (s := 3) rfl rfl rfl
-- unrenamed_when_possible: the wrapper `init_b` (5) keeps its name; `foo` (1) does not: `foo` is taken by the import
example := unrenamed_when_possible exNumber (x := 5) (s := 5) rfl ⟨_, rfl, Or.inl rfl⟩ (Or.inl (by decide +kernel))
-- determinism
example := rename_deterministic_imports 20 { exChunk false with imports := [0, 6] } (imports' := [6, 0]) (List.Perm.swap 6 0 [])
example := sorted_top_level_array_perm (l := [(6, 1), (5, 1)]) (l' := [(5, 1), (6, 1)]) (List.Perm.swap _ _ [])
-- the same chunk with the symbol-use map of its first part ranged over in another order: same slots, same names
def exFile0' : File :=
  { exFile0 with parts := [{ live := true, declared := [(1, true), (2, false)],
                             uses := [(7, 1), (2, 3), (4, 2), (3, 1), (1, 1)], scopes := [[0]], stmts := [] }] }
example : minifyNames 20 (exChunk true) = minifyNames 20 { exChunk true with files := [exFile0', exFile1] } :=
  rename_deterministic_symbol_uses 20 rfl rfl rfl rfl rfl rfl
    (.cons (sameUpToUseOrder_of_parts rfl rfl rfl rfl rfl rfl (.cons ⟨rfl, rfl, by decide⟩ .nil))
      (.cons ⟨List.Perm.refl _, rfl, rfl⟩ .nil))
example := accumulate_calls_commute exSyms (es := [(2, 3), (1, 1)]) (es' := [(1, 1), (2, 3)]) (List.Perm.swap _ _ [])
  (initSlots (firstTopLevelSlots [exFile0, exFile1]), [])
-- the decidable hypotheses hold for the example (the kernel prints `hyp=ok` for it)
example : hypWF (exChunk false) = true ∧ hypSlots (exChunk true) = true ∧ hypImports (exChunk true) = true := by
  decide +kernel
example := hypSlots_spec (c := exChunk true) (by decide +kernel) (r := 2) (j := 0)
  (sym := ⟨0, "foo".toList, false, none, none, some 0⟩) (by decide +kernel) rfl (by decide) rfl
end EsbuildModel.ChunkNames
