import EsbuildModel.Lemmas.Calc
/-
Property C12, `calc()` simplification (internal/css_parser/css_reduce_calc.go; model Impl/Calc.lean,
specification Spec/CssCalc.lean).  `simp` is the model of `partiallySimplify`, generic in the arithmetic.
-/
namespace EsbuildModel.C12Calc
open EsbuildModel.Calc EsbuildModel.Spec.CssCalc
open Lean.Grind

/-
(1) `simplify_preserves_value`, full strength: for EVERY tree, over ANY field, for EVERY assignment of quantities
to units and opaque leaves, the simplified tree has the value of the original wherever the original has one (no
division by zero).  The only hypothesis is on the abstract "reciprocal is shorter" test, a parameter of the
rewriting: it never fires on zero (`NeverOnZero`); the float64 test of the code meets it
(`real_test_never_on_zero`: `1 / ±0 = ±Inf`, which `floatToStringForCalc` refuses, so `x * 0` stays — run on the
real code: `calc(min(1px,2px) * 0)` is printed unchanged), and the example after the theorem shows it cannot be
dropped.  Since the fix 6fe6000 the test is only asked about plain numbers (`recipOne`), which is what makes the
theorem true; before it `calc(min(1, 2) * 0.5px)` became `calc(min(1, 2) / 2px)`.

WHAT REMAINS between this theorem and the code (exact field arithmetic vs float64), none of it proved here:
 (a) every merged constant is the left-to-right IEEE sum / product (`merged_constant_is_left_fold`), which can round;
     the result is abandoned unless every PRINTED constant is an exact 5-decimal text, but rounding of an
     intermediate is invisible to that test: `calc(1e16px + 1px - 1e16px)` → `0px` on the real code;
 (b) the reciprocal is `fl(1/n)`, not `1/n`.  The test requires n and fl(1/n) both to print exactly with at most 5
     decimals, n ↦ a/10^5, fl(1/n) ↦ b/10^5; then |ab/10^10 − 1| ≤ 4·2^-53 < 10^-10 forces ab = 10^10, i.e. the two
     PRINTED decimals are exact reciprocals (`* 0.2` → `/ 5`, `* 3` and `* 0.3` stay: run).  Paper argument only;
     the harness checks it with big rationals on every reduced case (stat `num-hook-exact`).
-/
theorem simplify_preserves_value {α : Type} [Field α] [DecidableEq α]
    (ρ : Env α (Token × Bool)) (pd : α → Bool) (hpd : NeverOnZero pd)
    (t : Term α) (v : α) (h : value ρ t = some v) :
    value ρ (simp (fieldOps pd) t) = some v :=
  simp_value_aux ρ pd hpd t v h

/-- the test of the code (`f64Ops.preferDiv`: both texts exist and the reciprocal's is shorter) never fires on ±0 -/
theorem real_test_never_on_zero (n : F64) (h : f64Ops.preferDiv n = true) : F64.isZero n = false :=
  f64_preferDiv_nonzero n h

def xTok : Token × Bool := (.mk .func [109, 105, 110] 0 0 true [], false)
def px : List Nat := [112, 120]
def ρ0 : Env Rat (Token × Bool) := { unit := fun _ => 3, leaf := fun _ => 5 }

/-- non-vacuity: a test that fires on 1/2 -/
example : NeverOnZero (fun (n : Rat) => n == 1/2) := by
  intro n h; simp at h; subst h; decide +kernel

/-- `x * 0.5` (value 5/2) becomes `x / 2` with the same value; `x * 0.5px` (value 15/2) is left alone -/
example :
    let pd : Rat → Bool := fun n => n == 1/2
    value ρ0 (simp (fieldOps pd) (.prod [.leaf xTok, .num [] (1/2)])) = some (5/2) ∧
    simp (fieldOps pd) (.prod [.leaf xTok, .num px (1/2)]) = .prod [.leaf xTok, .num px (1/2)] ∧
    value ρ0 (.prod [.leaf xTok, .num px (1/2)] : Term Rat) = some (15/2) := by
  refine ⟨?_, ?_, ?_⟩
  · decide +kernel
  · simp [simp, simpList, flattenProd, finishProd, mergeProd, twoNumbers, recipTail, recipOne, single, px]
  · decide +kernel

/-- the hypothesis is needed: a test that fires on 0 turns `x * 0` (value 0) into `x / 0⁻¹`, which has no value -/
example :
    let pd : Rat → Bool := fun n => n == 0
    value ρ0 (.prod [.leaf xTok, .num [] 0] : Term Rat) = some 0 ∧
    value ρ0 (simp (fieldOps pd) (.prod [.leaf xTok, .num [] 0])) = none := by
  refine ⟨?_, ?_⟩ <;> decide +kernel

/-
(2) OPEN — and FALSE (observation, still so after the fix): `simplify_idempotent`.  `calc(2 * (min(1px,2px) * 0.5))` → `calc(2 * min(1px, 2px) / 2)` →
`calc(1 * min(1px, 2px))` on the real code: the deviation turns `* 0.5` into `/ 2` inside the inner product, the
outer product then sees an Invert node instead of a number; the second run folds it.  Same thing in the model:
-/
example :
    let pd : Rat → Bool := fun n => n == 1/2
    let t : Term Rat := .prod [.num [] 2, .prod [.leaf xTok, .num [] (1/2)]]
    simp (fieldOps pd) t = .prod [.num [] 2, .leaf xTok, .inv (.num [] 2)] ∧
    simp (fieldOps pd) (simp (fieldOps pd) t) = .prod [.num [] 1, .leaf xTok] := by
  have e : ((1/2 : Rat) == 1/2) = true := by decide +kernel
  have e2 : ((2 : Rat) == 1/2) = false := by decide +kernel
  have e3 : ((2 : Rat) * (2 : Rat)⁻¹) = 1 := by decide +kernel
  have e4 : ((1/2 : Rat))⁻¹ = 2 := by decide +kernel
  have e5 : ((1 : Rat) == 1/2) = false := by decide +kernel
  refine ⟨?_, ?_⟩ <;>
    simp [simp, simpList, flattenProd, finishProd, mergeProd, absorbProd, twoNumbers, recipTail, recipOne, single,
      simpInv, fieldOps, e, e2, e3, e4, e5]

/-- (4a) the merged constant of a unit is the left-to-right sum (with the operation given: IEEE `+` in the
driver) of exactly the later numbers whose unit is equal up to ASCII case — nothing else is added to it -/
theorem merged_constant_is_left_fold {α : Type} (o : Ops α) (u : List Nat) (n : α) (l : List (Term α)) :
    (absorbSum o u n l).1 =
      (l.filterMap (fun t => match t with
        | .num u2 n2 => if equalFold u2 u then some n2 else none
        | _ => none)).foldl o.add n := by
  induction l generalizing n with
  | nil => rfl
  | cons t r ih =>
    cases t with
    | num u2 n2 =>
      simp only [absorbSum, List.filterMap_cons]
      split <;> simp [ih]
    | _ => simp only [absorbSum, List.filterMap_cons, ih]

/-- (4b) after the merge no two numeric children of a sum have the same unit (ASCII case-insensitively):
same-unit terms ARE always combined; `%` is a unit like any other and stays apart from plain numbers -/
theorem merged_units_distinct {α : Type} (o : Ops α) (l : List (Term α)) :
    (numUnits (mergeSum o l)).Nodup ∧ ∀ w, w ∈ numUnits (mergeSum o l) → w ∈ numUnits l := by
  induction h : l.length using Nat.strongRecOn generalizing l with
  | _ k ih =>
    cases l with
    | nil => simp [mergeSum, numUnits]
    | cons t r =>
      cases t with
      | num u n =>
        rw [mergeSum]
        have hlen := absorbSum_length o u n r
        have ih' := ih _ (by simp at h; omega) (absorbSum o u n r).2 rfl
        have hu := absorbSum_units o u n r
        simp only [numUnits, List.nodup_cons, List.mem_cons]
        exact ⟨⟨fun hm => hu.1 (ih'.2 _ hm), ih'.1⟩,
          fun w hw => hw.elim Or.inl (fun hm => Or.inr (hu.2 w (ih'.2 w hm)))⟩
      | _ =>
        rw [mergeSum]
        · have ih' := ih _ (by simp at h; omega) r rfl
          simpa [numUnits] using ih'
        · intro _ _ e; cases e

/-- what a simplified Sum node looks like: its children list went through the merge -/
theorem simplified_sum_units_distinct {α : Type} (o : Ops α) (ts : List (Term α)) :
    ∃ l, simp o (.sum ts) = single .sum l ∧ (numUnits l).Nodup :=
  ⟨_, by rw [simp], (merged_units_distinct o _).1⟩

/-- non-vacuity / no unit confusion on a concrete sum: `1px + 2em + 3PX + 4%` → `4px + 2em + 4%` -/
example :
    mergeSum (fieldOps (fun (_ : Rat) => false))
      [.num px 1, .num [101, 109] 2, .num [80, 88] 3, .num [37] 4]
      = [.num px (1 + 3), .num [101, 109] 2, .num [37] 4] := by
  simp [mergeSum, absorbSum, equalFold, foldUnit, lowerByte, px, fieldOps]

/-
(3) OPEN: `print_parse_roundtrip` (parseTokens of the children printed by `print (simp t)` has the value of `t`).
Not proved.  Evidence instead: the harness evaluates the real input tokens and the real output tokens with an
independent big-rational evaluator (kernel `calc`, op `assert`).  Note that `print` of a Negate node that is not a
non-first child of a Sum emits the token `Kind = TDelimSlash, Text = "*"` (so the round trip is false for such
trees); `parseTokens` never builds them.
(5) Totality: `simp`, `parseTokens`, `print`, `reduce` are total Lean functions (structural / length recursion);
Go panics are the explicit `.panic` results (nil Children, empty percentage text, unit offset beyond the text,
empty Sum/Product); that tokens of the real tokenizer never reach them is NOT proved (0 panics in the
`text` stream of the kernel).
-/

end EsbuildModel.C12Calc
