/-
Properties C01 / C13, expression level: the parentheses esbuild's printer emits are sufficient — the printed tokens,
parsed with the ECMAScript expression grammar, give back exactly the tree that was printed.

  model   : Impl/PrecPrint.lean  (`print`, transcribed from js_printer.go `printExpr`; levels, texts and associativity
            ranges come from Gen/OpTable.lean, regenerated from js_ast.go)
  spec    : Spec/ExprGrammar.lean (`parse`, reference parser written from ECMA-262 §13; `Expr.wellFormed`)
  helpers : Lemmas/PrecTable.lean, PrecPrint.lean, PrecParse.lean, PrecRoundTrip.lean
-/
import EsbuildModel.Lemmas.PrecRoundTrip
import EsbuildModel.Lemmas.PrecSpace
import EsbuildModel.Lemmas.PrecComma

namespace EsbuildModel.C13Prec
open EsbuildModel.JsExpr EsbuildModel.PrecPrint EsbuildModel.PrecSpace

/-- **The operator table of js_ast.go agrees with the grammar.** For every binary operator the table's level is the
number of the grammar stratum whose production introduces the operator, its text is the operator's punctuator, and
`IsLeftAssociative` / `IsRightAssociative` say on which side the production recurses. The one deliberate difference:
the comma operator is left-recursive in the grammar, the table marks it as neither (the printer never parenthesises
a comma operand of a comma: `a, (b, c)` is printed `a, b, c`). The same for the unary table rows. -/
theorem optable_agrees_with_grammar :
    (∀ op : BinOp, (binEntry op).level = op.stratum ∧ Tok.ofText (binEntry op).text = .p op.tok ∧
      (op ≠ .comma → (isLeftAssoc (binEntry op).code = true ↔ op.assoc = .left) ∧
                     (isRightAssoc (binEntry op).code = true ↔ op.assoc = .right)) ∧
      (op = .comma → isLeftAssoc (binEntry op).code = false ∧ isRightAssoc (binEntry op).code = false)) ∧
    (∀ op : UnOp, (unEntry op).level = (if op.isPostfix then 19 else 18) ∧ Tok.ofText (unEntry op).text = .p op.tok ∧
      isPrefix (unEntry op).code = !op.isPostfix ∧ isUnaryUpdate (unEntry op).code = op.isUpdate) := by
  refine ⟨fun op => ⟨binEntry_level op, binEntry_tok op, fun hc => ?_, fun hc => ?_⟩,
    fun op => ⟨unEntry_level op, unEntry_tok op, isPrefix_unEntry op, isUnaryUpdate_unEntry op⟩⟩
  · rw [isLeftAssoc_binEntry, isRightAssoc_binEntry]; simp [hc]
  · subst hc; rw [isLeftAssoc_binEntry, isRightAssoc_binEntry]; simp [BinOp.assoc]

/-- `BinOp.stratum`, `BinOp.assoc` and `BinOp.tok` are read off the reference parser: every operator sits in the operator
list of the stratum with its number, under its own punctuator. -/
theorem stratum_is_parser_level :
    (∀ op : BinOp, op.assoc = .left → ∀ io, (op = .in_ → io = true) → lookupOp (opsOfRank op.stratum) io (.p op.tok) = some op) ∧
    (∀ op : BinOp, op.stratum = 4 → assignOpOf (.p op.tok) = some op) ∧
    opsOfRank 1 = commaOps ∧ opsOfRank 6 = coalesceOps ∧ opsOfRank 7 = orOps ∧ opsOfRank 8 = andOps ∧
    (∀ i, i < 8 → bitOrStrata.drop i = opsOfRank (9 + i) :: bitOrStrata.drop (i + 1)) ∧
    BinOp.pow.stratum = 17 ∧ BinOp.pow.assoc = .right :=
  ⟨fun op h io hin => lookupOp_tok io op h hin, assignOpOf_tok, rfl, rfl, rfl, rfl, strata_drop, rfl, rfl⟩

/-- **Round trip.** For every well-formed expression tree (assignment / update targets are identifiers or member
accesses, comma chains lean left — the shapes the grammar derives), every level, both values of `forbidIn`, with and
without MinifyWhitespace, the tokens esbuild's printer emits are parsed by the ECMAScript grammar — Expression[+In],
and Expression[~In] when `forbidIn` was set — to exactly that tree. Unbounded depth, every operator of the regenerated
table. -/
theorem parse_print (e : Expr) (hwf : e.wellFormed = true) (minify : Bool) (level : Nat) (forbidIn : Bool) :
    parse true (print minify e level forbidIn false) = some e ∧
    (forbidIn = true → parse false (print minify e level forbidIn false) = some e) :=
  ⟨parse_print_aux e hwf level forbidIn true (by simp), fun h => parse_print_aux e hwf level forbidIn false (fun _ => h)⟩

/-- **Round trip for every tree the parser can build.** With proper assignment / update targets and NO condition on
commas: the printed tokens parse to the tree with its comma chains re-associated to the left (`a, (b, c)` is printed
`a, b, c`; the comma operator is associative, so evaluation order and value are those of the printed tree). For trees
whose commas already lean left this is `parse_print` (`normComma_id`). -/
theorem parse_print_normalised (e : Expr) (h : e.targetsOk = true) (minify : Bool) (level : Nat) (forbidIn : Bool) :
    parse true (print minify e level forbidIn false) = some e.normComma ∧
    (forbidIn = true → parse false (print minify e level forbidIn false) = some e.normComma) :=
  ⟨parse_print_norm_aux e h level forbidIn true (by simp), fun hf => parse_print_norm_aux e h level forbidIn false (fun _ => hf)⟩

theorem normComma_of_wellFormed (e : Expr) (h : e.wellFormed = true) : e.normComma = e := normComma_id e h

/-- Consequence: on well-formed trees the printer is injective (two different trees never print alike). -/
theorem print_injective (e₁ e₂ : Expr) (h₁ : e₁.wellFormed = true) (h₂ : e₂.wellFormed = true) (minify : Bool)
    (level : Nat) (forbidIn : Bool) (h : print minify e₁ level forbidIn false = print minify e₂ level forbidIn false) :
    e₁ = e₂ := by
  have a := (parse_print e₁ h₁ minify level forbidIn).1
  have b := (parse_print e₂ h₂ minify level forbidIn).1
  rw [h, b] at a
  exact (Option.some.inj a).symm

/-- the output so far when an expression statement (`false`) or the init of `for(` (`true`) starts -/
def startState (inFor : Bool) : St := { rev := if inFor then [.t (.p .lparen)] else [], prevOp := none }

/-- **MinifyWhitespace keeps the token stream.** Dropping the blanks from what the white-space model prints gives
exactly the tokens of `print true` (which parse back by `parse_print`). -/
theorem minified_tokens (e : Expr) (level : Nat) (forbidIn inFor : Bool) :
    toks (printS e level forbidIn false (startState inFor)).rev
      = (print true e level forbidIn false).reverse ++ toks (startState inFor).rev :=
  toks_printS e level forbidIn false _

/-- **No two tokens are glued.** In the output under MinifyWhitespace, for every expression tree at all (well-formed or
not), two tokens that stand next to each other without a blank are read back by the lexical grammar as those two tokens
(maximal munch never merges or re-splits them, no word runs into a word, no integer into a `.`), and `<`, `!`, `--` never
stand together as the comment opener `<!--`. -/
theorem minified_no_glue (e : Expr) (level : Nat) (forbidIn inFor : Bool) (pre post : List STok) (a b : Tok)
    (h : (printS e level forbidIn false (startState inFor)).out = pre ++ .t a :: .t b :: post) :
    glue a b = false ∧ ∀ c pre', pre = pre' ++ [.t c] → glue3 c a b = false := by
  have hstart : StartOK (startState inFor) := by
    cases inFor with
    | false => exact ⟨rfl, Or.inl ⟨rfl, rfl⟩⟩
    | true => exact ⟨rfl, Or.inr ⟨_, [], rfl, Or.inl ⟨rfl, rfl⟩⟩⟩
  exact safeRev_spec _ (printS_ok e level forbidIn false _ hstart).1 pre post a b h

/-! ### non-vacuity: concrete inputs that meet the hypotheses, and what the definitions compute on them -/

/-- `x0 = x1 in new (x2())((x3, x4))`, the init of a `for(;;)` -/
def ex1 : Expr :=
  .binary .assign (.ident 0) (.binary .in_ (.ident 1)
    (.new (.call (.ident 2) .nil) (.cons (.binary .comma (.ident 3) (.ident 4)) .nil)))

example : ex1.wellFormed = true := by decide
-- forbidIn: the `in` gets parentheses; the call that is the target of `new` and the comma argument too
example : print false ex1 0 true false =
    [.ident 0, .p .assign, .p .lparen, .ident 1, .p .kIn, .p .kNew, .p .lparen, .ident 2, .p .lparen, .p .rparen, .p .rparen,
     .p .lparen, .p .lparen, .ident 3, .p .comma, .ident 4, .p .rparen, .p .rparen, .p .rparen] := by decide +kernel
example : parse false (print false ex1 0 true false) = some ex1 := (parse_print ex1 (by decide) false 0 true).2 rfl

/-- `(-x0) ** (x1 ?? (x2 || x3)) ** x4--`, `**` with a unary left operand, `??` over `||`, right-nested `**` -/
def ex2 : Expr :=
  .binary .pow (.unary .neg (.ident 0))
    (.binary .pow (.binary .nullish (.ident 1) (.binary .logicalOr (.ident 2) (.ident 3))) (.unary .postDec (.ident 4)))

example : ex2.wellFormed = true := by decide
example : print false ex2 0 false false =
    [.p .lparen, .p .minus, .ident 0, .p .rparen, .p .starstar, .p .lparen, .ident 1, .p .qq, .p .lparen, .ident 2, .p .barbar,
     .ident 3, .p .rparen, .p .rparen, .p .starstar, .ident 4, .p .minusminus] := by decide +kernel

/-- the grammar rejects what the missing parentheses would give -/
example : parse true [.p .minus, .ident 0, .p .starstar, .ident 1] = none := by decide +kernel
example : parse true [.ident 0, .p .qq, .ident 1, .p .barbar, .ident 2] = none := by decide +kernel
example : parse false [.ident 0, .p .assign, .ident 1, .p .kIn, .ident 2] = none := by decide +kernel
example : parse true [.p .kNew, .ident 0, .p .lparen, .p .rparen, .p .lparen, .p .rparen] =
    some (.call (.new (.ident 0) .nil) .nil) := by rfl

/-- a right-nested comma prints like the left-nested one and parses to it (`parse_print_normalised`) -/
example : (Expr.binary .comma (.ident 0) (.binary .comma (.ident 1) (.ident 2))).wellFormed = false := by decide
example : parse true (print false (.binary .comma (.ident 0) (.binary .comma (.ident 1) (.ident 2))) 0 false false) =
    some (.binary .comma (.binary .comma (.ident 0) (.ident 1)) (.ident 2)) := by
  have h : print false (.binary .comma (.ident 0) (.binary .comma (.ident 1) (.ident 2))) 0 false false =
      [.ident 0, .p .comma, .ident 1, .p .comma, .ident 2] := by decide +kernel
  rw [h]; rfl

/-- white space under MinifyWhitespace: `x0 - --x1 + +x2 < !--x3`, `1 .x0`, `typeof x0 in x1` -/
def ex3 : Expr :=
  .binary .lt (.binary .add (.binary .sub (.ident 0) (.unary .preDec (.ident 1))) (.unary .pos (.ident 2)))
    (.unary .not (.unary .preDec (.ident 3)))

example : (printS ex3 0 false false (startState false)).out =
    [.t (.ident 0), .t (.p .minus), .sp, .t (.p .minusminus), .t (.ident 1), .t (.p .plus), .sp, .t (.p .plus), .t (.ident 2),
     .t (.p .lt), .t (.p .bang), .sp, .t (.p .minusminus), .t (.ident 3)] := by decide +kernel
example : (printS (.dot (.num 1) 0) 0 false false (startState false)).out =
    [.t (.num 1), .sp, .t (.p .dot), .t (.ident 0)] := by decide +kernel
example : glue (.p .plus) (.p .plusplus) = true ∧ glue (.p .plusplus) (.p .plus) = false ∧
    glue (.ident 0) (.p .kIn) = true ∧ glue (.num 1) (.p .dot) = true ∧ glue (.p .minusminus) (.p .gt) = false := by
  decide +kernel

end EsbuildModel.C13Prec
