import EsbuildModel.Lemmas.BrowserMap
/-! # C11 — module resolution: the package.json `browser` map (checkBrowserMap): property theorems

Model: Impl/BrowserMap.lean (transcribed from package_json.go).  Specification: Spec/BrowserField.lean (my
reading of package-browser-field-spec as rules F1–F6).  `goJoin` (Go's path.Join) is shared by both. -/
namespace EsbuildModel.C11BrowserMap
open EsbuildModel.NodeExports (Str)
open EsbuildModel.PkgExports (goJoin splitAt joinSlash)
open EsbuildModel.BrowserMap
open EsbuildModel.BrowserFieldSpec (firstPresent fileCandidates moduleCandidates forms formsNoExt isBare)

/-- **(3) browser_map_spec, file requests** (absolutePathKind).  For every map, every list of implicit
extensions, every scope directory and every absolute input path: checkBrowserMap answers with the FIRST
candidate name of rule F4 that is a key of the map (and its value: a replacement or "disabled"), where the
candidates are computed from the path relative to the scope directory; `none` if that path cannot be made
relative.  In particular the order in which names and implicit extensions are tried is exactly F3/F4. -/
theorem browser_map_spec_file (scopeAbs : Str) (m : BMap) (exts : List Str) (resolveDir input : Str) :
    checkBrowserMap true (some (scopeAbs, m)) exts resolveDir input .absolute =
      match rel scopeAbs input with
      | none => none
      | some r => firstPresent m (fileCandidates goJoin exts (backToFwd r)) := by
  simp only [checkBrowserMap, Bool.not_true, Bool.false_eq_true, if_false]
  cases rel scopeAbs input with
  | none => rfl
  | some r =>
    simp only [Option.map_some, fileCandidates]
    by_cases hdot : backToFwd r = ['.']
    · simp [hdot, firstPresent]
    · simp only [hdot, if_false, checkPath_true, firstPresent_append, isPackagePath_eq]
      cases firstPresent m (forms goJoin exts (backToFwd r)) with
      | some x => rfl
      | none =>
        simp only
        by_cases hb : isBare (backToFwd r) = true
        · simp [hb]
        · have hb' : isBare (backToFwd r) = false := by simpa using hb
          simp [hb', firstPresent]

/-- **(3) browser_map_spec, module requests** (packagePathKind).  `r` is the importing directory relative to
the scope directory (the scope is an ancestor of it, so `r` exists); the only hypothesis is that no directory
name on that path contains a backslash (the Go code rewrites `\` to `/` there, also on POSIX systems).
Then checkBrowserMap answers with the first candidate name of rule F5 that is a key of the map. -/
theorem browser_map_spec_module (scopeAbs : Str) (m : BMap) (exts : List Str) (resolveDir n r : Str)
    (hr : rel scopeAbs resolveDir = some r) (hbs : '\\' ∉ r) :
    checkBrowserMap true (some (scopeAbs, m)) exts resolveDir n .package =
      firstPresent m (moduleCandidates goJoin exts (if r = ['.'] then [] else splitAt (· = '/') r) n) := by
  simp only [checkBrowserMap, Bool.not_true, Bool.false_eq_true, if_false, hr, moduleCandidates]
  by_cases hdot : n = ['.']
  · simp [hdot, firstPresent]
  · simp only [hdot, if_false, checkPath_true, checkPath_false, firstPresent_append, isPackagePath_eq]
    cases firstPresent m (forms goJoin exts n) with
    | some x => rfl
    | none =>
      simp only
      by_cases hb : isBare n = true
      · simp only [hb, Bool.not_true, Bool.false_eq_true, if_false, Bool.true_and]
        have hnm : nodeModulesStr = "node_modules".toList := rfl
        by_cases hrd : r = ['.']
        · simp [hrd, hnm]
        · simp only [hrd, if_false, any_eq_contains, hnm]
          have hne : splitAt (· = '/') r ≠ [] := by
            rw [PkgExports.splitAt_eq]; exact PkgExports.splitBy_ne_nil _ _
          cases hc : (splitAt (· = '/') r).contains "node_modules".toList with
          | true => simp [firstPresent]
          | false =>
            simp only [Bool.false_eq_true, if_false, Bool.not_false, if_true]
            rw [foldr_between _ hne, joinSlash_splitAt, backToFwd_id r hbs]
            simp
      · have hb' : isBare n = false := by simpa using hb
        simp [hb', firstPresent]

/-- F6 and the scope: outside the browser platform, or without an enclosing package.json that has a browser
map, nothing is remapped -/
theorem browser_map_off (scope : Option (Str × BMap)) (exts : List Str) (resolveDir input : Str) (kind : Kind) :
    checkBrowserMap false scope exts resolveDir input kind = none ∧
    checkBrowserMap true none exts resolveDir input kind = none := by
  simp [checkBrowserMap]

/-- **soundness**: an answer is always an entry of the map (nothing is invented, no prefix/pattern matching), for
both kinds of requests, all maps and paths -/
theorem browser_answer_is_an_entry (scope : Option (Str × BMap)) (browser : Bool) (exts : List Str)
    (resolveDir input : Str) (kind : Kind) (k : Str) (v : Option Str)
    (h : checkBrowserMap browser scope exts resolveDir input kind = some (k, v)) :
    ∃ scopeAbs m, scope = some (scopeAbs, m) ∧ (k, v) ∈ m := by
  have key : ∀ (m : BMap) p b, checkPath m exts p b = some (k, v) → (k, v) ∈ m := by
    intro m p b hc
    cases b with
    | true => rw [checkPath_true] at hc; exact (firstPresent_mem m _ k v hc).2
    | false => rw [checkPath_false] at hc; exact (firstPresent_mem m _ k v hc).2
  cases browser with
  | false => simp [checkBrowserMap] at h
  | true =>
    cases scope with
    | none => simp [checkBrowserMap] at h
    | some sm =>
      obtain ⟨scopeAbs, m⟩ := sm
      refine ⟨scopeAbs, m, rfl, ?_⟩
      cases kind with
      | absolute =>
        rw [browser_map_spec_file] at h
        cases hrel : rel scopeAbs input with
        | none => rw [hrel] at h; cases h
        | some r => rw [hrel] at h; exact (firstPresent_mem m _ k v h).2
      | package =>
        simp only [checkBrowserMap, Bool.not_true, Bool.false_eq_true, if_false] at h
        by_cases hdot : input = ['.']
        · simp [hdot] at h
        · simp only [hdot, if_false] at h
          cases hcp : checkPath m exts input true with
          | some x => rw [hcp] at h; simp only [Option.some.injEq] at h; subst h; exact key m _ _ hcp
          | none =>
            rw [hcp] at h; simp only at h
            by_cases hpk : isPackagePath input = true
            · simp only [hpk, Bool.not_true, Bool.false_eq_true, if_false] at h
              cases hrd : rel scopeAbs resolveDir with
              | none =>
                rw [hrd] at h
                simp only [List.any_nil, Bool.false_eq_true, if_false] at h
                exact key m _ _ h
              | some r =>
                rw [hrd] at h
                simp only at h
                by_cases hr1 : r = ['.']
                · simp only [hr1, if_true, List.any_nil, Bool.false_eq_true, if_false] at h
                  exact key m _ _ h
                · simp only [hr1, if_false] at h
                  split at h
                  · cases h
                  · exact key m _ _ h
            · simp [hpk] at h

/-- **(4) determinism**: checkBrowserMap consults the Go map `browserMap` only through `m[key]`; its answer is
the same for every order of the entries (keys pairwise distinct, as in a Go map), for all inputs. -/
theorem browser_order_independent (m1 m2 : BMap) (hp : m1.Perm m2) (hn : KeysNodup m1) (browser : Bool)
    (scopeAbs : Str) (exts : List Str) (resolveDir input : Str) (kind : Kind) :
    checkBrowserMap browser (some (scopeAbs, m1)) exts resolveDir input kind =
      checkBrowserMap browser (some (scopeAbs, m2)) exts resolveDir input kind := by
  have h : ∀ ks, firstPresent m1 ks = firstPresent m2 ks := firstPresent_congr (lookup_perm hp hn)
  simp only [checkBrowserMap, checkPath_true, checkPath_false, h]

/-- the parser produces such a map: keys pairwise distinct -/
theorem parsed_browser_map_is_a_map (props : List (Str × BVal)) : KeysNodup (parseBrowser [] props) :=
  parseBrowser_nodup props [] (by simp [KeysNodup])

/-- what the parser stores: for every key the LAST property with that key that is a string (replacement) or
`false` (disabled); `true` and other values never change the map -/
theorem parsed_browser_map_lookup (props : List (Str × BVal)) (k : Str) :
    lookup (parseBrowser [] props) k = lastSetting props k :=
  parseBrowser_lookup_aux props [] k none rfl

/-! ## non-vacuity and the documented corner cases (extensions [".js", ".json"], scope "/p") -/

def exExts : List Str := [['.', 'j', 's'], ['.', 'j', 's', 'o', 'n']]

/-- {"./no-ext": "./nb.js", "./ext.js": "./eb.js", "./d/index.js": false, "pkg": "./shim.js", "./sub/q": "pkg2", "./dup": "x", "./dup": true, "./dup": false} -/
def exProps : List (Str × BVal) :=
  [("./no-ext".toList, .str "./nb.js".toList), ("./ext.js".toList, .str "./eb.js".toList),
   ("./d/index.js".toList, .fls), ("pkg".toList, .str "./shim.js".toList), ("./sub/q".toList, .str "pkg2".toList),
   ("./dup".toList, .str "x".toList), ("./dup".toList, .tru), ("./dup".toList, .fls)]

def exMap : BMap := parseBrowser [] exProps

/-- "./dup": the string is overwritten by the later `false`, the `true` in between is ignored -/
example : lookup exMap "./dup".toList = some none := by decide

/-- Webpack's rule quoted in package_json.go: the key "./no-ext" is found by the request for the file
/p/no-ext but NOT by /p/no-ext.js … -/
example : checkBrowserMapV true (some ("/p".toList, exMap)) exExts "/p".toList "/p/no-ext".toList .absolute
    = some (some "./nb.js".toList) := by decide
example : checkBrowserMapV true (some ("/p".toList, exMap)) exExts "/p".toList "/p/no-ext.js".toList .absolute = none := by decide
/-- … while the key "./ext.js" is found by /p/ext.js and ALSO by /p/ext (implicit extension) -/
example : checkBrowserMapV true (some ("/p".toList, exMap)) exExts "/p".toList "/p/ext".toList .absolute
    = some (some "./eb.js".toList) := by decide
/-- a directory is found through its index file with an implicit extension; `false` = disabled -/
example : checkBrowserMapV true (some ("/p".toList, exMap)) exExts "/p".toList "/p/d".toList .absolute = some none := by decide
/-- a module name: as written; and Browserify's "./sub/q" for `require('q')` from /p/sub — but not from below a node_modules directory -/
example : checkBrowserMapV true (some ("/p".toList, exMap)) exExts "/p/sub".toList "pkg".toList .package
    = some (some "./shim.js".toList) := by decide
example : checkBrowserMapV true (some ("/p".toList, exMap)) exExts "/p/sub".toList "q".toList .package
    = some (some "pkg2".toList) := by decide
example : checkBrowserMapV true (some ("/p".toList, exMap)) exExts "/p/node_modules/sub".toList "q".toList .package = none := by decide
/-- the hypotheses of `browser_map_spec_module` are satisfiable -/
example : rel "/p".toList "/p/sub".toList = some "sub".toList ∧ '\\' ∉ "sub".toList := by decide

end EsbuildModel.C11BrowserMap
