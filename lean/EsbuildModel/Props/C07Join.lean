import EsbuildModel.Lemmas.SmFinalize3
/-!
# C07 — source maps: chunks of mappings, computed independently and joined (property theorems only)

Model: `Impl/SmJoin.lean` (`appendMappingToBuffer`, `ChunkBuilder`, `AppendSourceMapChunk`, the linker's loop around
it). Specification: `Spec/SourceMapV3.lean` (decoder of the `mappings` string written from the format description,
plus the vocabulary `Ev`/`segsOf`/`place`/`SortedGen`). Definitions that only serve to state the theorems
(`lower`, `encEvs`, `Piece`, `placedFrom`, `eventsFrom`, `encodeChunk`) live in `Lemmas/SmJoin*.lean`.

All statements are for lists of any length and integers of any size (the model's `Int` is unbounded; Go's is
64 bit, see the assumptions in `checklib/props.py`).
-/
namespace EsbuildModel.C07Join
open SmJoin
open Spec.SourceMapV3

/-! ## 1. one chunk: decoding what a `ChunkBuilder` wrote gives back what it was asked to record -/

/-- For EVERY sequence of builder events (line terminators and columns of printed output, `AddSourceMapping` calls,
with or without the cover-lines rule) the Source Map v3 decoder reads, from the bytes of the chunk, exactly the
segments the builder was asked to record (`lower`: every mapping at the line/column the output had reached, plus
the copies the cover-lines rule inserts), with their absolute positions. Never `none`: the chunk is well-formed. -/
theorem builder_roundtrip (cover : Bool) (bevs : List BEv) :
    decode (buildChunk cover bevs).buffer.data = some (segsOf 0 (lower cover bevs)) := by
  rw [buildChunk_eq]; exact decode_encEvs _ _

/-- … and the real builder establishes the well-formedness by itself: what it records is sorted by generated
position (line, then column), whatever the events. -/
theorem builder_sorted (cover : Bool) (bevs : List BEv) : SortedGen (segsOf 0 (lower cover bevs)) :=
  (sorted_of_mono _ 0 0 (mono_lower cover bevs).1).1

/-- `decode (encodeChunk ms) = ms` for every list of mappings with non-decreasing generated positions (all with
a source and a non-negative column): `encodeChunk ms` drives a `ChunkBuilder` through the line breaks, columns and
`AddSourceMapping` calls that record `ms`. -/
theorem encodeChunk_roundtrip (ms : List Seg) (hsorted : SortedGen ms)
    (hwf : ∀ m ∈ ms, m.orig.isSome = true ∧ 0 ≤ m.genCol) :
    decode (encodeChunk ms).buffer.data = some ms := by
  unfold encodeChunk
  rw [builder_roundtrip, lower_eventsOf ms hsorted hwf]

example : decode (encodeChunk [⟨0, 0, some ⟨0, 0, 0, none⟩⟩, ⟨0, 7, some ⟨0, 0, 4, some 0⟩⟩,
      ⟨2, 3, some ⟨1, 40, 2, none⟩⟩, ⟨2, 3, some ⟨0, 1, 1, some 5⟩⟩]).buffer.data =
    some [⟨0, 0, some ⟨0, 0, 0, none⟩⟩, ⟨0, 7, some ⟨0, 0, 4, some 0⟩⟩,
      ⟨2, 3, some ⟨1, 40, 2, none⟩⟩, ⟨2, 3, some ⟨0, 1, 1, some 5⟩⟩] :=
  encodeChunk_roundtrip _ (by decide) (by decide)

/-! ## 2. joining -/

/-- One call of `AppendSourceMapChunk` with ANY previous end state and ANY start state (no name of its own, line
offset not negative) on a non-ignorable chunk of a `ChunkBuilder`: the joiner receives exactly the bytes that the
sequential encoder, continuing from the previous end state after the joiner's last byte, writes for the line breaks
asked for by the start state followed by the chunk's line breaks and segments shifted by the start state (column on
the chunk's first line only; source index, original line/column, name index everywhere). Never a panic. -/
theorem append_is_sequential_encoding (j : Joiner) (prevEnd start : State) (hl : 0 ≤ start.genLine)
    (hn : start.hasName = false) (cover : Bool) (bevs : List BEv)
    (hok : (buildChunk cover bevs).shouldIgnore = false) :
    appendSourceMapChunk j prevEnd start (buildChunk cover bevs).buffer =
      some (j.addBytes (encEvs prevEnd j.lastByte (List.replicate start.genLine.toNat Ev.nl ++
        shiftEvs (shiftOfStart start) (lower cover bevs))).bytes) := by
  rw [buildChunk_eq] at hok ⊢
  obtain ⟨s, c, o, rest, h⟩ := not_ignored_decomp (lower cover bevs) hok (allSrc_lower cover bevs)
  rw [h]
  rw [(asmc_src j prevEnd start hl hn s c o rest).1, addBytes_eq, encEvs_last]

/-- **Joining is equivalent to having encoded everything sequentially.** For every list of pieces (chunks of
`ChunkBuilder`s — with or without names, starting with `;` or not, any offsets — and null entries, whose only mapping
omits the source) the bytes that the linker's loop writes between the quotes of `"mappings"` are the bytes one
sequential encoder writes, from the zero state, for all line breaks and segments of the joined file. -/
theorem join_is_sequential_encoding (ps : List Piece) (hok : ∀ p ∈ ps, p.ok) :
    linkJoin (ps.map Piece.toLinkIn) = some (encEvs {} 34 (joinedEvs {} 0 ps)).bytes :=
  linkJoin_eq ps hok

/-- **Join theorem.** The loop never panics, and decoding the joined buffer gives exactly the concatenation of
every piece's own segments, each moved (`place`) to where the piece's text starts in the joined file (`placedFrom`
adds up offsets and text extents as `LineColumnOffset.Add` does): generated line offset; column offset only on the
piece's first line; source index offset; names offset. -/
theorem join_decodes (ps : List Piece) (hok : ∀ p ∈ ps, p.ok) :
    ∃ bytes, linkJoin (ps.map Piece.toLinkIn) = some bytes ∧ decode bytes = some (placedFrom {} 0 ps) := by
  refine ⟨_, linkJoin_eq ps hok, ?_⟩
  rw [decode_encEvs]
  have := segsOf_joined ps hok {} (by decide) 0
  simpa using congrArg some this

/-! ## 3. well-formedness of the result -/

/-- The joined mappings are sorted by generated position, provided no piece is placed to the left of the end of
the text before it (column offsets are not negative — they are lengths of text). -/
theorem join_sorted (ps : List Piece) (hok : ∀ p ∈ ps, p.ok) (hcols : ∀ p ∈ ps, 0 ≤ p.offsetLC.columns) :
    SortedGen (placedFrom {} 0 ps) := by
  have hm := mono_joined ps (fun p hp => p.orderly_of_ok (hok p hp) (hcols p hp)) {} 0 0 (by decide)
  have := (sorted_of_mono _ 0 0 hm).1
  have h2 := segsOf_joined ps hok {} (by decide) 0
  simp only [show ({} : LineCol).lines.toNat = 0 from rfl] at h2
  rw [h2] at this
  exact this

/-- name and source indices stay in range: a segment of the joined file refers to source `i + sourcesIndex` and name
`n + (number of names of the pieces before)` exactly when the piece's own segment refers to `i` and `n` -/
theorem place_indices (line : Nat) (col src name : Int) (s : Seg) (o : Orig) (h : s.orig = some o) :
    (place line col src name s).orig = some ⟨o.src + src, o.line, o.col, o.name.map (· + name)⟩ := by
  simp [place, h]

/-! ## 4. `SourceMapPieces.Finalize`: column shifts after the final paths have been substituted -/

/-- On ANY bytes written by the sequential encoder (in particular on every joined `mappings`, by
`join_is_sequential_encoding`) and for ANY list of shifts each of which stays on its line, `Finalize` does not panic,
its loop ends, and it writes the sequential encoding of the same line breaks and segments with generated columns moved
as its loop decides (`finEvs`: the shift just crossed into if it lies on the segment's line, else the shift in force
before on this line). -/
theorem finalize_is_sequential_encoding (evs : List Ev) (shifts : List SMShift)
    (hsh : ∀ sh ∈ shifts, sh.before.lines = sh.after.lines) :
    finalize (encEvs {} 34 evs).bytes shifts = some (encEvs {} 34 (finEvs 0 0 shifts evs)).bytes :=
  finalize_eq evs shifts hsh

/-- … so the result is well-formed, and nothing but generated columns has changed: same number of segments, same
lines, same sources, original positions and names, in the same order. -/
theorem finalize_changes_only_columns (evs : List Ev) (shifts : List SMShift)
    (hsh : ∀ sh ∈ shifts, sh.before.lines = sh.after.lines) :
    ∃ out segs, finalize (encEvs {} 34 evs).bytes shifts = some out ∧ decode out = some segs ∧
      segs.map (fun s => (s.genLine, s.orig)) = (segsOf 0 evs).map (fun s => (s.genLine, s.orig)) :=
  ⟨_, _, finalize_eq evs shifts hsh, decode_encEvs _ _, finEvs_shape evs 0 0 shifts 0⟩

/-- **Finalize after join.** For pieces as in `join_sorted` and shifts `s0 :: T` (`s0` is the initial element the
linker puts in front; `T` sorted by `before` position, every shift on one line): decoding the finalized mappings gives
the joined segments, each moved horizontally by `deltaAt T line col` — the `after.columns - before.columns` of the last
shift that lies strictly before the segment's generated position, if that shift is on the segment's line, else 0. -/
theorem finalize_join_decodes (ps : List Piece) (hok : ∀ p ∈ ps, p.ok) (hcols : ∀ p ∈ ps, 0 ≤ p.offsetLC.columns)
    (s0 : SMShift) (T : List SMShift) (hsorted : ShiftsSorted T)
    (hlines : ∀ s ∈ T, s.before.lines = s.after.lines) (hs0 : s0.before.lines = s0.after.lines) :
    ∃ m out, linkJoin (ps.map Piece.toLinkIn) = some m ∧ finalize m (s0 :: T) = some out ∧
      decode out = some ((placedFrom {} 0 ps).map (moveCol (deltaAt T))) := by
  have hm := mono_joined ps (fun p hp => p.orderly_of_ok (hok p hp) (hcols p hp)) {} 0 0 (by decide)
  have hall : ∀ sh ∈ s0 :: T, sh.before.lines = sh.after.lines := by
    intro sh h
    simp only [List.mem_cons] at h
    rcases h with rfl | h
    · exact hs0
    · exact hlines sh h
  refine ⟨_, _, linkJoin_eq ps hok, finalize_eq _ _ hall, ?_⟩
  rw [decode_encEvs, finEvs_decl s0 T hsorted hlines _ hm]
  have h1 := segsOf_shiftCols (deltaAt T) (joinedEvs {} 0 ps) 0
  have h2 := segsOf_joined ps hok {} (by decide) 0
  simp only [show ({} : LineCol).lines.toNat = 0 from rfl] at h2
  simp only [Int.natCast_zero] at h1
  rw [h1, h2]

/-! ### non-vacuity: a joined file of four pieces (multi-line chunk with names and cover-lines copies, null entry,
single-line chunk from an input source map, chunk starting with `;` on a new line) -/

def examplePieces : List Piece :=
  [ .chunk true [.cols 1, .newline, .map (some ⟨0, 0, 2, none⟩), .map (some ⟨0, 2, 1, some 0⟩), .cols 7, .newline,
      .cols 2, .map (some ⟨0, 2, 2, none⟩)] ⟨0, 3⟩ 0 1,
    .null 1,
    .chunk false [.map (some ⟨1, 5, 5, some 0⟩), .cols 4] ⟨0, 2⟩ 1 1,
    .chunk true [.newline, .cols 2, .map (some ⟨0, 1, 1, none⟩)] ⟨1, 4⟩ 3 0 ]

theorem examplePieces_ok : ∀ p ∈ examplePieces, p.ok := by
  intro p hp
  simp only [examplePieces, List.mem_cons, List.not_mem_nil, or_false] at hp
  rcases hp with rfl | rfl | rfl | rfl
  · exact ⟨chunk_ok_of_seg _ _ (by decide), by decide⟩
  · trivial
  · exact ⟨chunk_ok_of_seg _ _ (by decide), by decide⟩
  · exact ⟨chunk_ok_of_seg _ _ (by decide), by decide⟩

example := join_decodes examplePieces examplePieces_ok
example := join_sorted examplePieces examplePieces_ok (by decide)
example := join_is_sequential_encoding examplePieces examplePieces_ok
example : (placedFrom {} 0 examplePieces).length = 7 := by decide

/-- three shifts after the initial one: two on line 2 (the second beyond the first), one on line 4 -/
def exampleShifts : List SMShift :=
  [⟨⟨2, 1⟩, ⟨2, 4⟩⟩, ⟨⟨2, 3⟩, ⟨2, 5⟩⟩, ⟨⟨4, 0⟩, ⟨4, 7⟩⟩]

example := finalize_join_decodes examplePieces examplePieces_ok (by decide) {} exampleShifts
  (by unfold ShiftsSorted exampleShifts; simp [Offset.lt]) (by decide) rfl
example : (placedFrom {} 0 examplePieces).map (moveCol (deltaAt exampleShifts)) ≠ placedFrom {} 0 examplePieces := by
  decide
example := finalize_is_sequential_encoding [.seg 0 none, .seg 4 (some ⟨0, 1, 2, some 3⟩), .nl, .seg 2 none]
  [{}, ⟨⟨0, 2⟩, ⟨0, 9⟩⟩] (by decide)
example := append_is_sequential_encoding ⟨[65, 65, 65, 65], 65⟩ { genCol := 3, srcIdx := 2, origName := 4 }
  { genLine := 1, genCol := 5, srcIdx := 3, origName := 6 } (by decide) rfl true
  [.map (some ⟨0, 0, 0, none⟩), .cols 3, .map (some ⟨0, 0, 3, some 1⟩)] (chunk_ok_of_seg _ _ (by decide))

end EsbuildModel.C07Join
