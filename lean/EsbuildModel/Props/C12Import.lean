import EsbuildModel.Lemmas.CssImportMain
import EsbuildModel.Lemmas.Dfs
/-!
# C12 — CSS bundling preserves the cascade: order and de-duplication of `@import`

Property theorems about the model `Impl/CssImport.lean` of `findImportedFilesInCSSOrder` /
`findImportedCSSFilesInJSOrder` (`internal/linker/linker.go`) against the specification
`Spec/CssImportCascade.lean` (CSS Cascade 5: `@import` = insertion of the imported rules wrapped in the import
conditions; cascade = importance, layers (reversed for important), specificity, order).

`sem g decl ext 0 order` is the style sheet that the linker prints for `order` (every entry wrapped in its conditions,
`Lemmas/CssImportSem.lean`); `decl` gives the declaration of every rule id and `ext` the contents of the external
style sheets — the theorems hold for all of them.  `winner env m prop sheet` is the cascaded value of property
`prop` for the element described by the matcher `m` in environment `env`; `CtxSame a b` says that `a` and `b` give the
same winners when placed in ANY surrounding style sheet (`CtxSame.sameCascade`: in particular on their own).

Forced hypotheses (each with a counterexample below that was also run on the real esbuild):
* `GraphNoAnon`: no `@import … layer;` (anonymous layer) — esbuild prints one anonymous layer PER FILE of the subtree;
* `SafePair` / `SafeLayers` (`SafeBundle`): a copy is only dropped as redundant when it has no further `layer(…)`
  conditions than the copy that masks it (or, for phase 2, all its rules are normal and not in a layer of their own);
* external imports: hoisting them changes the cascade unless they are inert for the question asked.
-/
namespace EsbuildModel.C12Import
open EsbuildModel.CssImport EsbuildModel.Spec.CssCascade

/-- **Phase 0 is the specification's inlining.** For a well-formed graph without anonymous-layer imports the
traversal succeeds, and the list it produces stands for a style sheet with the same cascade — in every context — as
the flattened import tree of the entry point(s). -/
theorem traversal_is_inlining (g : Graph) (decl : Nat → Decl) (ext : Nat → List Item) (eps : List Nat)
    (hwf : GraphWF g) (hna : GraphNoAnon g) (heps : ∀ e ∈ eps, e < g.length) :
    ∃ order, visitAll g eps = some order ∧
      CtxSame (sem g decl ext 0 order) (flatten decl ext [] 0 (entrySheet g eps)) := by
  obtain ⟨o0, ho0⟩ := visitAll_some hwf eps heps
  have hok := visitAll_entries (graphSat_of_noAnon hna) eps o0 ho0
  refine ⟨o0, ho0, ?_⟩
  rw [sem_eq_semN g decl ext (fun e he => (hok e he).1)]
  rw [flatten_eq_flattenN decl ext _ (entrySheet_noAnon hna eps), flattenN_entrySheet]
  exact (visitAll_dupEq g decl ext eps o0 ho0).ctxSame

/-- **External imports first** (forced by CSS syntax: `@import` must precede all rules except `@layer` statements):
the hoisted list is a block of external imports and `@layer` entries followed by a block without external imports. -/
theorem external_imports_first (order : List Entry) :
    ∃ h r, hoist order = h ++ r ∧ (∀ e ∈ h, e.kind = .ext ∨ e.kind = .layers) ∧ (∀ e ∈ r, e.kind ≠ .ext) :=
  hoist_externals_first order

/-- hoisting is a stable partition: internal entries keep their relative order, external entries keep theirs -/
theorem hoist_keeps_relative_order (order : List Entry) :
    (hoist order).filter notExt = order.filter notExt ∧ (hoist order).filter isExt = order.filter isExt :=
  ⟨hoist_internal_order order, hoist_external_order order⟩

/-- **Hoisting preserves the winners when the external style sheets are opaque for the question**: for an
environment, element and property such that no external style sheet has an applicable declaration of the property,
and the external imports neither carry `layer` conditions nor declare layers, the cascaded value is unchanged. -/
theorem external_imports_first_preserves_winners (g : Graph) (decl : Nat → Decl) (ext : Nat → List Item)
    (order : List Entry) (hna : NoAnonEntries order) (hcl : ExtCondsNoLayer order)
    (env : Env) (m : Matcher) (prop : Nat) (hs : ExtSilent ext m prop) :
    winner env m prop (sem g decl ext 0 (hoist order)) = winner env m prop (sem g decl ext 0 order) := by
  have hnaH : NoAnonEntries (hoist order) := fun e he => hna e (mem_hoist order e he)
  rw [sem_eq_semN g decl ext hnaH, sem_eq_semN g decl ext hna]
  have hin : ∀ es : List Entry, (∀ e ∈ es, e ∈ order) →
      ∀ e ∈ es, isExt e = true → Inert env m prop (semEntryN g decl ext e) := by
    intro es hsub e he hk
    have hk' : e.kind = .ext := by simpa [isExt] using hk
    exact inert_of_silent g decl hs env hk' (hcl e (hsub e he) hk')
  have h1 := winner_filter_inert g decl ext (hoist order) (hin _ (mem_hoist order)) []
  have h2 := winner_filter_inert g decl ext order (hin _ (fun e he => he)) []
  simp only [List.nil_append] at h1 h2
  rw [h1, h2, hoist_internal_order]

/-- **Phase 2 (keep the last copy) preserves the cascade** — partial: under the pairwise hypothesis `SafePair`
(for every earlier copy `a` and later copy `b` of the same file / external path with
`isConditionalImportRedundant(a.conditions, b.conditions)`: the conditions of `a` beyond the length of `b`'s list have no
`layer`, or all rules of the file are normal declarations outside any layer of their own), for lists without
anonymous-layer conditions and external style sheets that declare no layers. -/
theorem import_order_dedupe_preserves_cascade_partial (g : Graph) (decl : Nat → Decl) (ext : Nat → List Item)
    (order : List Entry) (hext : ExtNoLayers ext) (hna : NoAnonEntries order) (hclean : ExtEntriesClean order)
    (hsafe : order.Pairwise (SafePair g decl ext)) :
    CtxSame (sem g decl ext 0 (dedupe g order).1) (sem g decl ext 0 order) := by
  have hnaD : NoAnonEntries (dedupe g order).1 := by
    intro x hx
    obtain ⟨e, he, hc, _⟩ := dedupe_mem g order x hx
    rw [hc]; exact hna e he
  rw [sem_eq_semN g decl ext hnaD, sem_eq_semN g decl ext hna]
  exact (dedupe_inv g decl ext hext order hsafe hclean).1

-- OPEN (false as stated, see the counterexamples at the end of the file):
--   theorem import_order_dedupe_preserves_cascade … (no `hsafe`) :
--     CtxSame (sem g decl ext 0 (dedupe g order).1) (sem g decl ext 0 order)
-- What is missing is not a proof but a change of `isConditionalImportRedundant`: it must answer `false` when
-- `earlier[i].Layers` is non-empty for some `i >= len(later)`.

/-- **Phases 3 and 4 (`@layer` entries) never fail and preserve the cascade** — partial: under `SafeLayers` (an
`@layer` entry is only dropped as redundant against an emitted entry with the same layer names when it has no further
`layer` conditions). -/
theorem layer_passes_preserve_cascade_partial (g : Graph) (decl : Nat → Decl) (ext : Nat → List Item)
    (order : List Entry) (hext : ExtNoLayers ext) (hna : NoAnonEntries order) (hclean : ExtEntriesClean order)
    (hsafe : SafeLayers g order) :
    ∃ o3, layerPass g order = some o3 ∧
      CtxSame (sem g decl ext 0 (mergeLayers o3)) (sem g decl ext 0 order) := by
  obtain ⟨o3, ho3, h3, hna3⟩ := layerPass_spec g decl ext hext order hna hclean hsafe
  refine ⟨o3, ho3, ?_⟩
  rw [sem_eq_semN g decl ext (mergeLayers_noAnon hna3), sem_eq_semN g decl ext hna]
  exact (mergeLayers_dupEq g decl ext o3).ctxSame.trans h3

/-- **The whole function** — partial: for a well-formed graph without anonymous-layer imports whose redundancy hits
are safe (`SafeBundle`), `findImportedFilesInCSSOrder` succeeds and, for every environment, element and property for
which the external style sheets are opaque, the printed bundle has the same cascaded value as the flattened import
tree of the specification. -/
theorem bundle_preserves_cascade_partial (g : Graph) (decl : Nat → Decl) (ext : Nat → List Item) (eps : List Nat)
    (hwf : GraphWF g) (hna : GraphNoAnon g) (heps : ∀ e ∈ eps, e < g.length) (hext : ExtNoLayers ext)
    (hsafe : SafeBundle g decl ext eps) :
    ∃ out, findOrder g eps = some out ∧
      ∀ env m prop, ExtSilent ext m prop →
        (∀ o0, visitAll g eps = some o0 → ExtCondsNoLayer o0) →
        winner env m prop (sem g decl ext 0 out) = winner env m prop (flatten decl ext [] 0 (entrySheet g eps)) := by
  obtain ⟨o0, out, ho0, hout, hna0, hnaO, h0, h1⟩ := findOrder_spec g decl ext eps hwf hna heps hext hsafe
  refine ⟨out, hout, ?_⟩
  intro env m prop hs hcl
  rw [sem_eq_semN g decl ext hnaO, h1.sameCascade env m prop, ← h0.sameCascade env m prop]
  have := external_imports_first_preserves_winners g decl ext o0 hna0 (hcl o0 ho0) env m prop hs
  rw [sem_eq_semN g decl ext (fun e he => hna0 e (mem_hoist o0 e he)), sem_eq_semN g decl ext hna0] at this
  exact this

/-- Corollary without internal hypotheses: when no `@import` rule has a `layer` keyword (media / supports conditions,
`@layer` rules inside the files and `!important` are all allowed) and nothing is external, bundling preserves every
cascaded value. -/
theorem bundle_preserves_cascade_without_layered_imports (g : Graph) (decl : Nat → Decl) (eps : List Nat)
    (hwf : GraphWF g) (hnl : GraphNoCondLayers g) (heps : ∀ e ∈ eps, e < g.length) :
    ∃ out, findOrder g eps = some out ∧
      SameCascade (sem g decl (fun _ => []) 0 out) (flatten decl (fun _ => []) [] 0 (entrySheet g eps)) := by
  have hext : ExtNoLayers (fun _ => ([] : List Item)) := fun p it hit => by cases hit
  obtain ⟨out, hout, h⟩ := bundle_preserves_cascade_partial g decl (fun _ => []) eps hwf
    (graphNoAnon_of_noCondLayers hnl) heps hext (safeBundle_of_noCondLayers hnl decl _ eps)
  refine ⟨out, hout, ?_⟩
  intro env m prop
  apply h env m prop
  · intro p it hit; cases hit
  · intro o0 ho0 e he _
    exact (visitAll_entries hnl eps o0 ho0 e he).1

/-- **`findImportedFilesInCSSOrder` never fails**: for every graph whose imports name existing files (anonymous
layers, redundancy hits that break the cascade and external imports included) no index of the traversal or of the duplicate lists
of the `@layer` pass is out of range, and the chain of visited files ends every recursion. -/
theorem css_import_order_never_fails (g : Graph) (eps : List Nat) (hwf : GraphWF g)
    (heps : ∀ e ∈ eps, e < g.length) : ∃ out, findOrder g eps = some out := by
  obtain ⟨o0, ho0⟩ := visitAll_some hwf eps heps
  obtain ⟨o3, ho3⟩ := layerPass_total g (dedupe g (hoist o0)).1
  exact ⟨mergeLayers o3, by simp [findOrder, ho0, ho3]⟩

/-- a decidable form of `SafeBundle` (sufficient, not necessary: it ignores the `PlainContent` alternative) -/
theorem safeBundle_of_check' {g : Graph} {eps : List Nat} (h : safeBundleB g eps = true) (decl : Nat → Decl)
    (ext : Nat → List Item) : SafeBundle g decl ext eps := safeBundle_of_check h decl ext

-- ------------------------------------------------------------------ JavaScript order

/-- every import record of a JavaScript file points at an existing file -/
def JsWF (js : List (List JsImport)) (nCss : Nat) : Prop :=
  ∀ ims ∈ js, ∀ im ∈ ims, match im with | .js k => k < js.length | .css i => i < nCss

/-- **`findImportedCSSFilesInJSOrder`**: terminates, lists every CSS file at most once, and lists exactly the CSS
files that are reachable from the entry point through import records (the order is the mark-on-entry post-order
`Dfs.run`, the same generic traversal as C02's JavaScript order). -/
theorem css_files_in_js_order (js : List (List JsImport)) (nCss : Nat) (entry : Nat) (hwf : JsWF js nCss)
    (he : entry < js.length) :
    ∃ o, jsOrder js nCss entry = some o ∧ o.Nodup ∧
      ∀ i, i ∈ o ↔ Dfs.Reach (jsSucc js nCss) entry (js.length + i) := by
  have hW : Dfs.WF (jsSucc js nCss) (js.length + nCss) := by
    intro i hi
    unfold jsSucc
    cases hj : js[i]? with
    | some ims =>
      refine ⟨_, rfl, ?_⟩
      intro j hj'
      rw [List.mem_map] at hj'
      obtain ⟨im, him, rfl⟩ := hj'
      have := hwf ims (List.mem_of_getElem? hj) im him
      cases im with
      | js k => simp only at this ⊢; omega
      | css c => simp only at this ⊢; omega
    | none =>
      simp only [hi, ↓reduceIte]
      exact ⟨[], rfl, fun j hj' => by cases hj'⟩
  obtain ⟨o', ho', hnd, hreach, _⟩ := Dfs.run_spec hW [entry] (by intro r hr; simp at hr; omega)
  have hsound := Dfs.run_sound [entry] o' ho'
  refine ⟨o'.filterMap (fun node => if node < js.length then none else some (node - js.length)),
    by simp [jsOrder, ho'], ?_, ?_⟩
  · refine List.Pairwise.filterMap _ ?_ hnd
    intro a a' hne b hb b' hb' hbb
    split at hb <;> split at hb' <;> simp_all
    omega
  · intro i
    rw [List.mem_filterMap]
    constructor
    · rintro ⟨node, hn, hf⟩
      split at hf
      · cases hf
      · simp only [Option.some.injEq] at hf
        obtain ⟨r, hr, hR⟩ := hsound node hn
        simp only [List.mem_singleton] at hr
        subst hr
        have : js.length + i = node := by omega
        rw [this]; exact hR
    · intro hR
      refine ⟨js.length + i, hreach entry (by simp) _ hR, ?_⟩
      simp

-- ====================================================================== non-vacuity and counterexamples

namespace Ex

def L (n : String) : Option Cond := some ⟨some (.named [n]), none, none⟩
def LA : Option Cond := some ⟨some .anon, none, none⟩
def S (k : Nat) : Option Cond := some ⟨none, some k, none⟩
def M (k : Nat) : Option Cond := some ⟨none, none, some k⟩
/-- every condition true, every selector matches with specificity 0, no external style sheets -/
def envT : Env := ⟨fun _ => true, fun _ => true⟩
def mAll : Matcher := fun _ => some 0
def noExt : Nat → List Item := fun _ => []
/-- rule `i` declares property 0 with value `i + 1` -/
def declN : Nat → Decl := fun i => ⟨0, 0, i + 1, false⟩
def declI : Nat → Decl := fun i => ⟨0, 0, i + 1, true⟩

/-- the cascaded value of property 0 in what esbuild prints -/
def bundleWinner (g : Graph) (decl : Nat → Decl) (ext : Nat → List Item) (m : Matcher) (eps : List Nat) :
    Option (Option Nat) :=
  (findOrder g eps).map (fun o => winner envT m 0 (sem g decl ext 0 o))
/-- … and in the flattened import tree of the specification -/
def specWinner (g : Graph) (decl : Nat → Decl) (ext : Nat → List Item) (m : Matcher) (eps : List Nat) : Option Nat :=
  winner envT m 0 (flatten decl ext [] 0 (entrySheet g eps))

-- ---------------------------------------------------------------- instances that meet the hypotheses

/-- entry imports `f1` under `supports(1)` and `f2`; `f1` imports `f3` under media 1, `f2` imports `f3` plainly;
`f3` has a layer statement and a rule in a layer of its own. The earlier copy of `f3` is dropped. -/
def ex1 : Graph := [
  ⟨[], [⟨.file 1, S 1⟩, ⟨.file 2, none⟩], []⟩,
  ⟨[], [⟨.file 3, M 1⟩], [.rule 0 []]⟩,
  ⟨[], [⟨.file 3, none⟩], [.rule 1 []]⟩,
  ⟨[], [], [.layers [["q"]], .rule 2 ["z"]]⟩]

example : (findOrder ex1 [0]).map (fun o => o.map (fun e => (e.kind, e.src))) =
    some [(.layers, 3), (.file, 1), (.file, 3), (.file, 2), (.file, 0)] := by decide

example := bundle_preserves_cascade_without_layered_imports ex1 declI [0]
  (graphWF_of_check (by decide)) (graphNoCondLayers_of_check (by decide)) (by decide)

example := css_import_order_never_fails ex1 [0] (graphWF_of_check (by decide)) (by decide)

example := traversal_is_inlining ex1 declI noExt [0] (graphWF_of_check (by decide))
  (graphNoAnon_of_check (by decide)) (by decide)

/-- layered imports with a redundancy hit that is safe: `[layer(a), supports(1)]` is masked by `[layer(a)]` -/
def ex2 : Graph := [
  ⟨[], [⟨.file 1, L "a"⟩, ⟨.file 2, L "a"⟩], []⟩,
  ⟨[], [⟨.file 2, S 1⟩], []⟩,
  ⟨[], [], [.rule 0 []]⟩]

example : (findOrder ex2 [0]).map (fun o => o.map (fun e => (e.kind, e.src, e.conds.length))) =
    some [(.file, 1, 1), (.file, 2, 1), (.file, 0, 0)] := by decide

example := bundle_preserves_cascade_partial ex2 declI noExt [0] (graphWF_of_check (by decide))
  (graphNoAnon_of_check (by decide)) (by decide) (fun _ it hit => by cases hit)
  (safeBundle_of_check (by decide) _ _)

/-- an external import in the middle: hoisting moves it to the front -/
def ex3 : Graph := [⟨[], [⟨.file 1, none⟩, ⟨.ext 1, M 1⟩], [.rule 0 []]⟩, ⟨[], [], [.rule 1 []]⟩]
/-- the external style sheet styles another property (7), not the one asked for (0) -/
def ext3 : Nat → List Item := fun _ => [Item.rule [] [] ⟨0, 7, 99, true⟩]

example : (visitAll ex3 [0]).map (fun o => ((hoist o).map (·.kind), o.map (·.kind))) =
    some ([.ext, .file, .file], [.file, .ext, .file]) := by decide

example (o : List Entry) (h : visitAll ex3 [0] = some o) := external_imports_first_preserves_winners ex3 declN ext3 o
  (fun e he => (visitAll_entries (graphSat_of_noAnon (graphNoAnon_of_check (by decide))) [0] o h e he).1)
  (fun e he _ => (visitAll_entries (graphNoCondLayers_of_check (g := ex3) (by decide)) [0] o h e he).1)
  envT mAll 0
  (by intro p it hit
      simp only [ext3, List.mem_singleton] at hit
      exact ⟨[], [], _, hit, Or.inr (by decide)⟩)

/-- JavaScript: `j0` imports `j1` and CSS file 1; `j1` imports CSS file 0 and `j0` (a cycle) -/
example : jsOrder [[.js 1, .css 1], [.css 0, .js 0]] 2 0 = some [0, 1] := by decide
example := css_files_in_js_order [[.js 1, .css 1], [.css 0, .js 0]] 2 0
  (by intro ims hims im him
      simp only [List.mem_cons, List.not_mem_nil, or_false] at hims
      rcases hims with rfl | rfl <;> simp only [List.mem_cons, List.not_mem_nil, or_false] at him <;>
        rcases him with rfl | rfl <;> decide)
  (by decide)

-- ---------------------------------------------------------------- the hypotheses are forced (counterexamples)
-- Every one of these was also run on the real esbuild (files written to disk, `esbuild --bundle`), with the same
-- output structure as the model's.

/-- KNOWN FINDING c12-import-dedupe-important-layers: entry `@import foo layer(a); @import lib layer(a);
@import g layer(a)`, foo `@import lib layer(b)`, lib and g set the property `!important`.  The dropped copy of lib
sat in layer `a.b`, which beats `a` for important declarations. -/
def kf : Graph := [
  ⟨[], [⟨.file 1, L "a"⟩, ⟨.file 2, L "a"⟩, ⟨.file 3, L "a"⟩], []⟩,
  ⟨[], [⟨.file 2, L "b"⟩], []⟩,
  ⟨[], [], [.rule 0 []]⟩,
  ⟨[], [], [.rule 1 []]⟩]
example : bundleWinner kf declI noExt mAll [0] = some (some 2) ∧ specWinner kf declI noExt mAll [0] = some 1 ∧
    safeBundleB kf [0] = false := by decide
/-- the same graph with NORMAL declarations is fine (the `PlainContent` alternative of `SafePair`) -/
example : bundleWinner kf declN noExt mAll [0] = some (some 2) ∧ specWinner kf declN noExt mAll [0] = some 2 := by decide

/-- NEW: normal declarations, but the rule of the file imported twice sits in a layer of its own:
entry `@layer z, y, x; @import foo; @import g layer(y); @import lib`, foo `@import lib layer(x)`,
lib `@layer z { rule 0 }`, g `rule 1`.  Inlined, rule 0 also stands in `x.z` which beats `y`; bundled it is only
in `z`, which loses against `y`. -/
def ce2 : Graph := [
  ⟨[["z"], ["y"], ["x"]], [⟨.file 1, none⟩, ⟨.file 3, L "y"⟩, ⟨.file 2, none⟩], []⟩,
  ⟨[], [⟨.file 2, L "x"⟩], []⟩,
  ⟨[], [], [.rule 0 ["z"]]⟩,
  ⟨[], [], [.rule 1 []]⟩]
example : bundleWinner ce2 declN noExt mAll [0] = some (some 2) ∧ specWinner ce2 declN noExt mAll [0] = some 1 ∧
    safeBundleB ce2 [0] = false := by decide

/-- NEW (`GraphNoAnon` is forced): `@import a layer;` where `a` imports `b`: both files belong to ONE anonymous layer
(specificity decides: the `#id` rule 0 of `b` wins), esbuild prints TWO anonymous layers (the later one wins). -/
def ce3 : Graph := [⟨[], [⟨.file 1, LA⟩], []⟩, ⟨[], [⟨.file 2, none⟩], [.rule 1 []]⟩, ⟨[], [], [.rule 0 []]⟩]
def declS : Nat → Decl := fun i => ⟨i, 0, i + 1, false⟩
def mSpec : Matcher := fun s => if s = 0 then some 100 else some 1
example : bundleWinner ce3 declS noExt mSpec [0] = some (some 2) ∧ specWinner ce3 declS noExt mSpec [0] = some 1 := by
  decide

/-- anonymous layers and `!important`: `@import lib layer; @import g layer(x); @import lib layer;` -/
def ce4 : Graph := [⟨[], [⟨.file 1, LA⟩, ⟨.file 2, L "x"⟩, ⟨.file 1, LA⟩], []⟩, ⟨[], [], [.rule 0 []]⟩,
  ⟨[], [], [.rule 1 []]⟩]
example : bundleWinner ce4 declI noExt mAll [0] = some (some 2) ∧ specWinner ce4 declI noExt mAll [0] = some 1 := by
  decide

/-- NEW (`ExtCondsNoLayer` is forced): `@import a layer(x); @import "http://…" layer(y); @import b layer(y);` —
hoisting the external import declares layer `y` before `x`; the winner among the INTERNAL rules changes even when
the external style sheet is empty. -/
def ce5 : Graph := [⟨[], [⟨.file 1, L "x"⟩, ⟨.ext 1, L "y"⟩, ⟨.file 2, L "y"⟩], []⟩, ⟨[], [], [.rule 0 []]⟩,
  ⟨[], [], [.rule 1 []]⟩]
example : bundleWinner ce5 declN noExt mAll [0] = some (some 1) ∧ specWinner ce5 declN noExt mAll [0] = some 2 := by
  decide

/-- NEW (`SafeLayers` is forced, phase 3): entry `@import f layer(a); @import foo layer(a); @import lib layer(a)`,
foo `@import lib layer(b); @import other layer(c); @import q layer(b)`.  The `@layer a { @layer b; }` left by the
dropped copy of lib is itself dropped as "redundant" against f's `[layer(a)]`, so `a.c` is declared before `a.b`:
inlined, `other` (rule 0, in `a.c`) beats `q` (rule 1, in `a.b`); bundled, `q` wins.  (Rules 2 and 3 set another
property; phase 2 is correct here by the `PlainContent` alternative.) -/
def ce6 : Graph := [
  ⟨[], [⟨.file 1, L "a"⟩, ⟨.file 2, L "a"⟩, ⟨.file 3, L "a"⟩], []⟩,
  ⟨[], [], [.rule 2 []]⟩,
  ⟨[], [⟨.file 3, L "b"⟩, ⟨.file 4, L "c"⟩, ⟨.file 5, L "b"⟩], []⟩,
  ⟨[], [], [.rule 3 []]⟩,
  ⟨[], [], [.rule 0 []]⟩,
  ⟨[], [], [.rule 1 []]⟩]
def decl6 : Nat → Decl := fun i => ⟨0, if i < 2 then 0 else 1, i + 1, false⟩
example : bundleWinner ce6 decl6 noExt mAll [0] = some (some 2) ∧ specWinner ce6 decl6 noExt mAll [0] = some 1 := by
  decide

/-- an external style sheet that styles the property asked for: hoisting changes the winner (esbuild's own comment
says so) — `ExtSilent` is forced. `@import a; @import "http://…";`, the external rule came last and won. -/
def ext7 : Nat → List Item := fun _ => [Item.rule [] [] ⟨0, 0, 99, false⟩]
def ce7 : Graph := [⟨[], [⟨.file 1, none⟩, ⟨.ext 1, none⟩], []⟩, ⟨[], [], [.rule 0 []]⟩]
example : bundleWinner ce7 declN ext7 mAll [0] = some (some 1) ∧ specWinner ce7 declN ext7 mAll [0] = some 99 := by
  decide

end Ex

end EsbuildModel.C12Import
