import EsbuildModel.Lemmas.JsonSoundTop
import EsbuildModel.Lemmas.JsonDialects
import EsbuildModel.Props.C01LexNum
/-!
# C13 — JSON input is accepted exactly when it is valid (property theorems)

Model: `Impl/JsonLex.lean` + `Impl/Json.lean` (`js_parser.ParseJSON` with the lexer in JSON mode, flavours
`js_lexer.JSON` and `js_lexer.TSConfigJSON`).  Specification: `Spec/Json.lean` (RFC 8259 / ECMA-404 derivations,
`rfc8259` = every extension off), `Spec/JsonDialects.lean` (the two supersets), `Spec/JsonText.lean` (UTF-8).
"Accepted": `ParseJSON` returns ok AND no error message is logged (`Out.accepted`).  A text is a list of Unicode
scalar values; the parser gets its UTF-8 bytes.  Parameters: `ParamsOK P Rd` (`Lemmas/JsonTok.lean`): the contract of
`LexNum` (`strconv.ParseFloat`, integer rounding) and "no white space code point is an identifier character".
-/
namespace EsbuildModel.C13Json
open EsbuildModel.Json EsbuildModel.Spec.Json

/-- **json_accepts_iff_valid_partial.** The strict flavour (`.json` files, loader `json`) accepts a text EXACTLY when
it is a text of the dialect `esbuildStrict`: RFC 8259 plus four deviations (ECMAScript white space between tokens;
HTML-like comments `<!--` / `-->`; integer parts `08…`/`09…`; escapes `\8` `\9`).  For ALL texts, any size or depth. -/
theorem json_accepts_iff_valid_partial {P : Params} {Rd : Rat → F64} (hP : ParamsOK P Rd) (o : Opts)
    (hfl : o.flavor = .json) (text : List Char) :
    (∃ ast, (parseJSON o P (utf8Text text)).accepted = some ast) ↔ Valid esbuildStrict text := by
  constructor
  · rintro ⟨ast, h⟩
    obtain ⟨t, h1, h2, _⟩ := doc_sound hP o hfl text ast h
    exact ⟨t, h1, h2⟩
  · rintro ⟨t, h1, rfl⟩
    have h1' : t.ok (dialectOf o.flavor) = true := by rw [hfl]; exact h1
    obtain ⟨ast, h, _⟩ := doc_complete hP o t h1'
    exact ⟨ast, h⟩

-- OPEN (FALSE of the code): `json_accepts_iff_valid` = the statement above with `rfc8259` in place of `esbuildStrict`.
--   theorem json_accepts_iff_valid (hP : ParamsOK P Rd) (o) (hfl : o.flavor = .json) (text) :
--       (∃ ast, (parseJSON o P (utf8Text text)).accepted = some ast) ↔ Valid rfc8259 text
-- Counterexamples run on the real code (esbuild CLI, `x.json --format=esm`; Node 20 `JSON.parse` throws on each):
--   `08` → 8, `[-09.5e1]` → [-95];  `"\8"` → "8";  `<!-- c` LF `1` → 1 (warning only), `1` LF `--> c` → 1;
--   VT / FF / U+00A0 / U+FEFF / U+2028 / U+3000 in front of a value → accepted.

/-- **json_accepts_rfc8259.** Every RFC 8259 text is accepted by the strict flavour (the direction of
`json_accepts_iff_valid` that does hold). -/
theorem json_accepts_rfc8259 {P : Params} {Rd : Rat → F64} (hP : ParamsOK P Rd) (o : Opts) (hfl : o.flavor = .json)
    (text : List Char) (h : Valid rfc8259 text) : ∃ ast, (parseJSON o P (utf8Text text)).accepted = some ast := by
  obtain ⟨t, h1, h2⟩ := h
  exact (json_accepts_iff_valid_partial hP o hfl text).2 ⟨t, Doc.ok_mono rfc_le_strict t h1, h2⟩

/-- **tsconfig_accepts_iff.** The tsconfig flavour (tsconfig.json files) accepts a text EXACTLY when it is a text of
the dialect `esbuildTsconfig`: RFC 8259 with `//` and `/* */` comments, a trailing comma in arrays and objects, the
deviations of the strict flavour, every ECMAScript NumericLiteral that is not a BigInt (except the `0789.5` forms;
white space and comments may follow a minus sign) and the ECMAScript string escapes, line continuations and raw
control characters in double-quoted strings.  For ALL texts. -/
theorem tsconfig_accepts_iff {P : Params} {Rd : Rat → F64} (hP : ParamsOK P Rd) (o : Opts)
    (hfl : o.flavor = .tsconfig) (text : List Char) :
    (∃ ast, (parseJSON o P (utf8Text text)).accepted = some ast) ↔ Valid esbuildTsconfig text := by
  constructor
  · rintro ⟨ast, h⟩
    obtain ⟨t, h1, h2, _⟩ := doc_sound hP o hfl text ast h
    exact ⟨t, h1, h2⟩
  · rintro ⟨t, h1, rfl⟩
    have h1' : t.ok (dialectOf o.flavor) = true := by rw [hfl]; exact h1
    obtain ⟨ast, h, _⟩ := doc_complete hP o t h1'
    exact ⟨ast, h⟩

/-- **tsconfig_accepts_strict.** Whatever the strict flavour accepts, the tsconfig flavour accepts (a tsconfig.json
that is plain JSON is read the same way). -/
theorem tsconfig_accepts_strict {P : Params} {Rd : Rat → F64} (hP : ParamsOK P Rd) (o o' : Opts) (hfl : o.flavor = .json)
    (hfl' : o'.flavor = .tsconfig) (text : List Char) (h : ∃ ast, (parseJSON o P (utf8Text text)).accepted = some ast) :
    ∃ ast, (parseJSON o' P (utf8Text text)).accepted = some ast := by
  obtain ⟨t, h1, h2⟩ := (json_accepts_iff_valid_partial hP o hfl text).1 h
  exact (tsconfig_accepts_iff hP o' hfl' text).2 ⟨t, Doc.ok_mono strict_le_tsconfig t h1, h2⟩

/-! ## the hypotheses are satisfiable, the dialect switches are exercised (non-vacuity) -/

/-- parameters meeting the contract exist -/
def toyParams : Params := ⟨C01Lex.toyParams, fun _ => false⟩

theorem toy_ok : ParamsOK toyParams C01Lex.toyR :=
  ⟨⟨fun n => by simp [toyParams, C01Lex.toyParams, C01Lex.toyR], C01Lex.driver_rndOK,
      fun p hwf _ => by simp only [toyParams, C01Lex.toyParams]; rw [Spec.Num.parseDec_render p hwf]⟩,
    fun _ _ => rfl, fun _ _ => rfl⟩

/-- an RFC 8259 derivation: `{"a": [1, -2.5e3, "x\n\u00e9"], "__proto__": null}` with white space -/
def sampleDoc : Doc :=
  ⟨[], .obj (.cons [] [.lit 'a'] [] [.ws ' ']
      (.arr (.cons [] (.num ⟨false, [], .dec ['1'] none none⟩) []
        (.cons [.ws ' '] (.num ⟨true, [], .dec ['2'] (some ['5']) (some ⟨false, .none, ['3']⟩)⟩) []
          (.last [.ws ' '] (.str [.lit 'x', .esc 'n', .u '0' '0' 'e' '9']) [] none)))) []
      (.last [.ws ' '] [.lit '_', .lit '_', .lit 'p', .lit 'r', .lit 'o', .lit 't', .lit 'o', .lit '_', .lit '_'] [] [.ws ' ']
        .null [] none)), [.ws '\n']⟩

example : sampleDoc.ok rfc8259 = true ∧
    sampleDoc.render = "{\"a\": [1, -2.5e3, \"x\\n\\u00e9\"], \"__proto__\": null}\n".toList := by decide

example : ∃ ast, (parseJSON ⟨.json, true, false⟩ toyParams (utf8Text sampleDoc.render)).accepted = some ast :=
  json_accepts_rfc8259 toy_ok _ rfl _ ⟨sampleDoc, by decide, rfl⟩

/-- each deviation of the strict flavour: a derivation of `esbuildStrict` that is not one of `rfc8259` -/
example : ∃ t : Doc, t.ok esbuildStrict = true ∧ t.ok rfc8259 = false ∧ t.render = "08".toList :=
  ⟨⟨[], .num ⟨false, [], .dec ['0', '8'] none none⟩, []⟩, by decide, by decide, by decide⟩
example : ∃ t : Doc, t.ok esbuildStrict = true ∧ t.ok rfc8259 = false ∧ t.render = "\"\\8\"".toList :=
  ⟨⟨[], .str [.esc '8'], []⟩, by decide, by decide, by decide⟩
example : ∃ t : Doc, t.ok esbuildStrict = true ∧ t.ok rfc8259 = false ∧ t.render = "<!-- c\n1".toList :=
  ⟨⟨[.htmlOpen [' ', 'c'], .ws '\n'], .num ⟨false, [], .dec ['1'] none none⟩, []⟩, by decide, by decide, by decide⟩
example : ∃ t : Doc, t.ok esbuildStrict = true ∧ t.ok rfc8259 = false ∧ t.render = [Char.ofNat 0xA0, '1'] :=
  ⟨⟨[.ws (Char.ofNat 0xA0)], .num ⟨false, [], .dec ['1'] none none⟩, []⟩, by decide, by decide, by decide⟩

/-- a tsconfig text: comments, a trailing comma, a hexadecimal number, a `\x` escape -/
example : ∃ t : Doc, t.ok esbuildTsconfig = true ∧ t.ok esbuildStrict = false ∧
    t.render = "[0x1F, /* c */ \"\\x41\", // d\n]".toList :=
  ⟨⟨[], .arr (.cons [] (.num ⟨false, [], .nonDec .hex false ['1', 'F']⟩) []
      (.last [.ws ' ', .block [' ', 'c', ' '], .ws ' '] (.str [.x '4' '1']) [] (some [.ws ' ', .line [' ', 'd'], .ws '\n']))), []⟩,
    by decide, by decide, by decide⟩

end EsbuildModel.C13Json
