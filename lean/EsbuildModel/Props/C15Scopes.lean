import EsbuildModel.Lemmas.ScopesRun
import EsbuildModel.Props.C15Slots
/-!
C15 — renaming never changes which declaration a name refers to: the parser side of the renamers' preconditions.

Props/C15Slots.lean proves that `renamer.AssignNestedScopeSlots` and the number renamer separate symbols that are
visible together, UNDER preconditions on the scope tree "that the parser is trusted to establish": `WFList`
(a symbol declared in two sibling scopes is also declared in an enclosing one), label symbols are of the label
namespace, are declared exactly once, and no symbol has a slot yet.  This file proves them for the scope tree
the model of the parser (Impl/Scopes.lean: parse pass, hoistSymbols, visit pass) ends with, for EVERY sequence of
scope pushes, declarations and references — including sequences no source text produces — with one hypothesis:

* `wsItems` — no scope has two function-body scopes as direct children (the parser pushes exactly one body scope per
  argument scope).  Without it the statement is false (counterexample at the end): the two bodies would both copy
  the parameters, and a later redeclaration in the argument scope takes the parameter out of the enclosing scope.

`run full esm useStrict items = some r` says that the real parser does not panic on the sequence (`none` = Go panic).
-/
namespace EsbuildModel.Scopes

open Slots (WFList declA declB labelsList allList nsOf)

mutual
theorem labels_toSlots : ∀ (sc : Sc), (toSlots sc).labels = sc.labelsL
  | .node f kids => by simp only [toSlots, Slots.Scope.labels, Sc.labelsL, labelsList_toSlots kids]
theorem labelsList_toSlots : ∀ (ks : List Sc), labelsList (toSlotsList ks) = labelsKids ks
  | [] => rfl
  | k :: ks => by simp only [toSlotsList, Slots.labelsList, labelsKids, labels_toSlots k, labelsList_toSlots ks]
end

theorem nsOf_isLab {syms : Syms} {l : Nat} (h : IsLab syms l) : nsOf (toSlotSyms syms) l = some 1 := by
  obtain ⟨s, hs, hk, hp⟩ := h
  simp only [nsOf, toSlotSyms, List.getElem?_map, hs, Option.map_some, slotNs, hk, hp]
  simp [SK.code]

/-- **Theorem 2 (`hoisted_tree_wellformed`).** The scope tree the parser ends with (after hoistSymbols and the visit
pass) satisfies every precondition of `Slots.slots_separate_visible` / `Slots.nested_symbol_gets_slot` /
`Slots.slot_counts_exact` (part A: `hwf`, `hfresh`, `hkind`, `honce`) and of `Slots.number_names_separate_visible`
(part B: `hwf` for `declB`). -/
theorem hoisted_tree_wellformed {full esm us : Bool} {items : List Item} {r : Result}
    (h : run full esm us items = some r) (hws : wsItems false items = true) :
    WFList declA (declB (toSlots r.tree)) (toSlots r.tree).children ∧
    WFList declB (declB (toSlots r.tree)) (toSlots r.tree).children ∧
    (∀ sym, sym ∈ toSlotSyms r.syms → sym.slot = none) ∧
    (∀ l, l ∈ labelsList (toSlots r.tree).children → nsOf (toSlotSyms r.syms) l = some 1) ∧
    (∀ l, l ∈ labelsList (toSlots r.tree).children →
      (declB (toSlots r.tree) ++ allList declA (toSlots r.tree).children).count l = 1) := by
  have hd := run_sibDisj h hws
  have hl := run_labels h
  cases ht : r.tree with
  | node f kids =>
    rw [ht] at hd hl
    simp only [Sc.SibDisj] at hd
    simp only [toSlots]
    refine ⟨wfList_of_kidsDisj (fun _ _ hs => hs) kids _ hd, wfList_of_kidsDisj ?_ kids _ hd, ?_, ?_, ?_⟩
    · intro sc s hs
      simp only [declA, declB, List.mem_append] at hs ⊢
      exact Or.inl hs
    · intro sym hs
      simp only [toSlotSyms, List.mem_map] at hs
      obtain ⟨_, _, rfl⟩ := hs
      rfl
    · intro l hlm
      rw [labelsList_toSlots] at hlm
      exact nsOf_isLab (hl l (by simp only [Sc.labelsL, List.mem_append]; exact Or.inr hlm)).1
    · intro l hlm
      rw [labelsList_toSlots] at hlm
      have h1 := (hl l (by simp only [Sc.labelsL, List.mem_append]; exact Or.inr hlm)).2
      have h2 : 1 ≤ (allKids kids).count l := by
        rw [Nat.succ_le_iff, List.count_pos_iff]
        exact labelsKids_sub_all kids l hlm
      simp only [Sc.all, Frame.decls, List.count_append] at h1
      simp only [declB, allList_toSlots, List.count_append]
      omega

/-- Theorem 2 composed with Props/C15Slots.lean **A1**: on the scope tree the parser produces,
`AssignNestedScopeSlots` gives different slots to two different renameable symbols of one namespace that are
visible together in a nested scope — no hypothesis about the tree is left. -/
theorem parser_tree_slots_separate_visible {full esm us : Bool} {items : List Item} {r : Result}
    (h : run full esm us items = some r) (hws : wsItems false items = true)
    {st' : Slots.St} {cnt : Slots.Counts}
    (ha : Slots.assignNestedScopeSlots (toSlots r.tree) (toSlotSyms r.syms) = some (st', cnt))
    {x : Slots.Scope} {s t n : Nat} (hx : x ∈ (toSlots r.tree).children) (hvis : Slots.Vis declA x s t) (hst : s ≠ t)
    (hs : s ∉ declB (toSlots r.tree)) (ht : t ∉ declB (toSlots r.tree))
    (hns : nsOf (toSlotSyms r.syms) s = some n) (hnt : nsOf (toSlotSyms r.syms) t = some n) (hn : n ≠ 4) :
    ∃ a b, st'[s]? = some (some a) ∧ st'[t]? = some (some b) ∧ a ≠ b := by
  obtain ⟨hwf, _, hfresh, hkind, honce⟩ := hoisted_tree_wellformed h hws
  exact Slots.slots_separate_visible ha hfresh hwf hkind honce hx hvis hst hs ht hns hnt hn

/-- sibling scopes of the parser's tree never declare a common symbol (the stronger fact behind `WFList`) -/
theorem sibling_scopes_declare_disjoint_symbols {full esm us : Bool} {items : List Item} {r : Result}
    (h : run full esm us items = some r) (hws : wsItems false items = true) : r.tree.SibDisj :=
  run_sibDisj h hws

-- non-vacuity ------------------------------------------------------------------------------------------------

/-- `function f(a) { l: { var a; a } } f; g` (sloppy script): the hypotheses hold, the run succeeds, the tree has a
label scope and a hoisted variable. -/
def exItems : List Item :=
  [.scope .fnArgs false none [.decl .hoisted 2, .declArgs,
      .scope .fnBody false none [.scope .label false (some 3) [.scope .block false none [.decl .hoisted 2, .ref 2]]]],
   .decl .hoistedFunction 4, .ref 4, .ref 5]

example : wsItems false exItems = true := by decide +kernel
example : (run true false false exItems).isSome = true := by decide +kernel
example : ((run true false false exItems).map (fun r => (r.tree.labelsL, r.tree.all))) = some ([7], [3, 8, 0, 1, 0, 1, 7, 2]) := by
  decide +kernel

/-- The hypothesis `wsItems` cannot be dropped: an argument scope with two body scopes, then a redeclaration of the
parameter.  Both bodies hold the parameter symbol 0, the argument scope ends with symbol 1: the sibling scopes share
a symbol that no enclosing scope declares. -/
def badItems : List Item :=
  [.scope .fnArgs false none [.decl .hoisted 2, .scope .fnBody false none [], .scope .fnBody false none [],
    .decl .hoisted 2]]

example : wsItems false badItems = false := by decide +kernel
example : (run false false false badItems).map (fun r => r.tree.all) = some [1, 0, 0] := by decide +kernel
example : ∀ r, run false false false badItems = some r → ¬ r.tree.SibDisj := by
  intro r hr hd
  have h1 : (run false false false badItems).map (fun r => r.tree.sibDisjB) = some false := by decide +kernel
  rw [hr] at h1
  simp only [Option.map_some, Option.some.injEq] at h1
  rw [sibDisjB_of _ hd] at h1
  cases h1

end EsbuildModel.Scopes
