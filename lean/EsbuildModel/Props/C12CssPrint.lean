import EsbuildModel.Lemmas.CssPrintIdent
import EsbuildModel.Lemmas.CssPrintQuoted
/-!
# C12 — CSS token printing: what `printIdent` writes is read back by the lexer as the same identifier
(property theorems; lemmas in `Lemmas/CssPrint*.lean`, `Lemmas/CssLexName.lean`, `Lemmas/CssLexEscape.lean`)
-/
namespace EsbuildModel.C12CssPrint
open EsbuildModel.CssLex
open EsbuildModel.Spec.Unicode (IsScalar)

/-- what may follow a printed identifier in the output: not a rune that continues a name (otherwise the lexer reads a
longer name: this is what a token boundary IS), not an escape, and whitespace only if `printIdent` was told so
(`mayNeedWhitespaceAfter`; `printTokens` passes it exactly when it prints whitespace next) -/
structure FollowOK (mayNeedWs : Bool) (follow : List Nat) : Prop where
  notName : headIs isNameContinue (decodeAll follow) = false
  notEscape : isValidEscape (decodeAll follow) = false
  whitespace : headIs isWhitespace (decodeAll follow) = true → mayNeedWs = true

theorem initialEscape_ne_hex (mode : IdentMode) (h : mode = .normal ∨ mode = .hash) (text : List Nat) :
    initialEscape mode text ≠ .hex := by
  rcases h with rfl | rfl
  · simp only [initialEscape]; split <;> simp
  · simp [initialEscape]

/-- **escape_roundtrip.**  For EVERY sequence of Unicode scalar values without U+0000 (leading digits, `-`, `--`,
control characters, U+FEFF, non-ASCII with or without `ASCIIOnly`, …), in identifier and hash position:
if `text` is its UTF-8 and `printed = printIdent(text)`, then on `printed ++ follow`
* the name loop of the lexer (`consumeName`) stops exactly in front of `follow`,
* the code points it reads are the given ones,
* and `decodeEscapesInToken(printed)` — what `Token.DecodedText` returns — is `text` again, byte for byte. -/
theorem escape_roundtrip (asciiOnly mayNeedWs : Bool) (mode : IdentMode) (hmode : mode = .normal ∨ mode = .hash)
    (cps : List Nat) (hs : ∀ c ∈ cps, IsScalar c ∧ c ≠ 0) (follow : List Nat) (hf : FollowOK mayNeedWs follow) :
    (consumeName (decodeAll (printIdent asciiOnly (cps.flatMap encRune) mode mayNeedWs ++ follow))).2 = decodeAll follow ∧
    (nameCps (decodeAll (printIdent asciiOnly (cps.flatMap encRune) mode mayNeedWs ++ follow))).1 = cps ∧
    decodeEscapes (printIdent asciiOnly (cps.flatMap encRune) mode mayNeedWs) = cps.flatMap encRune := by
  have hsc : ∀ c ∈ cps, IsScalar c := fun c hc => (hs c hc).1
  have hinit := initialEscape_ne_hex mode hmode (cps.flatMap encRune)
  rw [printIdent_eq_identLoop asciiOnly mayNeedWs mode cps hsc]
  have hn := identLoop_nameCps asciiOnly mayNeedWs _ hinit follow hf.notName hf.notEscape cps hs hf.whitespace true
  refine ⟨by rw [consumeName_rest, hn], by rw [hn], ?_⟩
  -- `DecodedText`
  have hn0 := identLoop_nameCps asciiOnly mayNeedWs _ hinit [] (by simp [decodeAll_nil, headIs])
    (by simp [decodeAll_nil, isValidEscape]) cps hs (by simp [decodeAll_nil, headIs]) true
  obtain ⟨P, hP, hwe, hnul⟩ := identLoop_decode asciiOnly mayNeedWs (initialEscape mode (cps.flatMap encRune)) cps hs true []
  simp only [List.append_nil, decodeAll_nil] at hn0 hP
  generalize hpr : identLoop asciiOnly (initialEscape mode (cps.flatMap encRune)) mayNeedWs true (cps.map mk) = printed at *
  have hraw : rawOf P = printed := by rw [← hP, rawOf_decodeAll]
  have hdecP : IsDec (P ++ []) := by rw [List.append_nil, ← hP]; exact IsDec.ofInput _
  have hchars : nameChars P = P := by
    have := nameChars_append P; rw [hP] at hn0; rw [hn0] at this; simpa using this
  have hdc : decCps P = cps := by
    have := decCps_name P [] (List.nil_prefix) (by rw [hchars]; exact hnul)
    rw [hchars, List.append_nil] at this
    rw [this]; rw [hP] at hn0; rw [hn0]; simp [decCps]
  have hcps := decodeEscapes_cps P [] hdecP
  have hwe2 := decodeEscapes_wellEnc P [] hdecP hwe
  rw [hraw] at hcps hwe2
  have := hwe2.raw
  rw [rawOf_decodeAll, hcps, hdc] at this
  exact this

/-- **string_roundtrip** (the `TString` part of `print_relex`).  For EVERY sequence of scalar values without U+0000:
`printQuoted(text)` followed by anything is read by `consumeString` as one string token that ends exactly at the
closing quote, and `Token.DecodedText` of it is `text` again, byte for byte (quotes, backslashes, newlines, `</style`,
non-ASCII under `ASCIIOnly`, U+FEFF: every escape written is sound and sufficient). -/
theorem string_roundtrip (o : POpts) (cps : List Nat) (hs : ∀ c ∈ cps, IsScalar c ∧ c ≠ 0) (follow : List Nat) :
    consumeString (decodeAll (printQuoted o (cps.flatMap encRune) ++ follow)) = (.TString, decodeAll follow) ∧
    decodedText .TString (printQuoted o (cps.flatMap encRune)) = some (cps.flatMap encRune) := by
  have hsc : ∀ c ∈ cps, IsScalar c := fun c hc => (hs c hc).1
  have hdec : decodeAll (cps.flatMap encRune) = cps.map mk := by
    have := decodeAll_map_mk cps hsc []; simpa [decodeAll_nil] using this
  unfold printQuoted printQuotedWithQuote
  rw [hdec]
  generalize hqd : bestQuoteCharForString (cps.flatMap encRune) false = quote
  have hq : quote = 34 ∨ quote = 39 := by rw [← hqd]; exact bestQuote_cases _
  have hqu : (quote != quoteForURL) = true := by rcases hq with rfl | rfl <;> decide
  have hqasc : quote < 128 := by omega
  simp only [hqu, if_true]
  constructor
  · have hrun := quotedLoop_strRun o quote hq follow cps hs none
    simp only [List.append_assoc, List.cons_append, List.nil_append]
    rw [decodeAll_ascii quote _ hqasc]
    simp only [consumeString]
    have := congrArg (·.1) hrun
    simpa [strRun] using this
  · have hbody := quoted_text_roundtrip o quote hq cps hs
    simp only [decodedText, List.cons_append, List.nil_append]
    have hlen : ¬ ((quote :: (quotedLoop o quote none (cps.map mk) ++ [quote])).length < 1) := by simp
    simp only [hlen, if_false]
    rw [slice_inner]
    simp [hbody]

/-- instances: what is written, and that the hypotheses can be met -/
-- `1é f` under `ASCIIOnly` is written `\31\e9 \ f`
example : printIdent true [49, 0xC3, 0xA9, 0x20, 0x66] .normal false = [92, 51, 49, 92, 101, 57, 32, 92, 32, 102] := by
  decide +kernel
example : FollowOK false [58] := ⟨by decide +kernel, by decide +kernel, by decide +kernel⟩
-- `a"` LF `é</style` under `ASCIIOnly` is written `'a"\a\e9<\/style'`
example : printQuoted ⟨false, true, false⟩ [97, 34, 10, 0xC3, 0xA9, 60, 47, 115, 116, 121, 108, 101] =
    [39, 97, 34, 92, 97, 92, 101, 57, 60, 92, 47, 115, 116, 121, 108, 101, 39] := by decide +kernel

-- the excluded case is real: U+0000 does not survive (`a` NUL `b` comes back as `a` U+FFFD `b`)
example : decodeEscapes (printIdent false [97, 0, 98] .normal false) = [97, 0xEF, 0xBF, 0xBD, 98] := by decide +kernel
-- since the fix "a six-digit CSS escape still needs a space before following whitespace" a rune ≥ U+100000 under
-- `ASCIIOnly` is followed by a protective space: `.a\100000  b` keeps the class `a􀀀` apart from `b` …
example : printIdent true [0xF4, 0x80, 0x80, 0x80] .normal true = [92, 49, 48, 48, 48, 48, 48, 32] ∧
    (nameCps (decodeAll (printIdent true [0xF4, 0x80, 0x80, 0x80] .normal true ++ [32, 98]))) =
      ([0x100000], decodeAll [32, 98]) := by constructor <;> decide +kernel
-- … and in a string the blank after such a rune survives
example : decodedText .TString (printQuoted ⟨false, true, false⟩ [0xF4, 0x80, 0x80, 0x80, 32, 120]) =
    some [0xF4, 0x80, 0x80, 0x80, 32, 120] := by decide +kernel

/-! ### `print_relex` for token lists

OPEN (FALSE of the code as it is): "for every token list the parser can hand to `printTokens`, lexing the printed text
yields the same kinds and decoded values".  `printTokens` has no `needsWhitespaceBetween` logic: it prints two tokens
next to each other exactly when no `TWhitespace` token stood between them in the source, and the lexer drops comments
without leaving a token.  So two identifiers, a number and a unit-like identifier, two minus signs, or an identifier
that ends in a hex escape and a hex letter, each pair separated in the source by a comment only, are printed glued
together (run on the real binary, see the report).  What is proved is the per-token part: `escape_roundtrip`
(identifier, function name, at-keyword and hash texts through `printIdent`) and `string_roundtrip` (`printQuoted`);
the instances below show the gluing on the pieces `printTokens` puts next to each other (its model is checked
against the real `css_printer.Print` by the `csslex` kernel). -/

-- two identifier tokens without whitespace flags are printed as one identifier
example :
    printIdent false [99] .normal false ++ printIdent false [100] .normal false = [99, 100] ∧
    (implViews [99, 100]).map (fun v => (v.kind, v.value)) = [(.TIdent, [99, 100])] := by
  constructor <;> decide +kernel

-- a number and the identifier `e3` are printed as the number `1e3`
example :
    [49] ++ printIdent false [101, 51] .normal false = [49, 101, 51] ∧
    (implViews [49, 101, 51]).map (fun v => (v.kind, v.value)) = [(.TNumber, [49, 101, 51])] := by
  constructor <;> decide +kernel

end EsbuildModel.C12CssPrint
