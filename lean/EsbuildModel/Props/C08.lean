import EsbuildModel.Impl.MapRangeReview
import EsbuildModel.Lemmas.Determinism
/-!
C08 — builds are deterministic.  Two pieces of the mechanism are proved here for every input:

* the diagnostics a build returns are sorted with `SortableMsgs.Less`; the sorted list does not depend on the
  order in which the goroutines reported the messages, provided no two messages agree on everything the
  comparator looks at (location, kind, text) — and when two do, the comparator cannot tell them apart, which
  is exactly the boundary of the guarantee (`less_total`);
* `helpers.Serializer` lets the per-entry-point sections run one at a time in entry-point order under every
  schedule.

The rest of C08 (map iteration order, parallel scan/link/print, hashing, path independence) is decided by the
search `c08-det` (repeated real builds under varying GOMAXPROCS, load delays and project locations).
-/
namespace EsbuildModel.Det

/-- the comparator is a strict order: irreflexive, asymmetric, and its complement is transitive -/
theorem less_strict_weak_order :
    (∀ a, less a a = false) ∧ (∀ a b, less a b = true → less b a = false) ∧
    (∀ a b c, less b a = false → less c b = false → less c a = false) :=
  ⟨less_irrefl, less_asymm, le_trans'⟩

/-- two messages the comparator leaves unordered agree on location, kind and text -/
theorem unordered_iff_same_key (a b : Msg) (h1 : less a b = false) (h2 : less b a = false) : key a = key b :=
  less_total a b h1 h2

theorem eq_of_key_eq : ∀ {l : List Msg}, l.Pairwise (fun a b => key a ≠ key b) →
    ∀ {a b : Msg}, a ∈ l → b ∈ l → key a = key b → a = b := by
  intro l
  induction l with
  | nil => intro _ a b ha; simp at ha
  | cons x l ih =>
    intro hp a b ha hb hk
    rw [List.pairwise_cons] at hp
    rcases List.mem_cons.mp ha with rfl | ha' <;> rcases List.mem_cons.mp hb with rfl | hb'
    · rfl
    · exact absurd hk (hp.1 b hb')
    · exact absurd hk.symm (hp.1 a ha')
    · exact ih hp.2 ha' hb' hk

theorem sortMsgs_sorted (l : List Msg) : (sortMsgs l).Pairwise (fun a b => (!less b a) = true) := by
  unfold sortMsgs
  apply List.pairwise_mergeSort
  · intro a b c h1 h2
    simp only [Bool.not_eq_true'] at *
    exact le_trans' a b c h1 h2
  · intro a b
    cases h : less b a
    · simp
    · simp [less_asymm b a h]

/-- C08 (diagnostics): whatever order the messages arrive in, the sorted result is the same, as long as the
messages are pairwise distinguishable by the comparator's key. -/
theorem sorted_msgs_independent_of_arrival_order (l₁ l₂ : List Msg) (hp : l₁.Perm l₂)
    (hd : l₁.Pairwise (fun a b => key a ≠ key b)) :
    (sortMsgs l₁).map (fun m => (m.loc, m.kind, m.text)) = (sortMsgs l₂).map (fun m => (m.loc, m.kind, m.text)) := by
  have hperm : (sortMsgs l₁).Perm (sortMsgs l₂) :=
    ((List.mergeSort_perm l₁ _).trans hp).trans (List.mergeSort_perm l₂ _).symm
  have heq : sortMsgs l₁ = sortMsgs l₂ := by
    apply List.Perm.eq_of_pairwise (le := fun a b => (!less b a) = true) _ (sortMsgs_sorted l₁) (sortMsgs_sorted l₂) hperm
    intro a b ha hb h1 h2
    simp only [Bool.not_eq_true'] at h1 h2
    have hk := less_total a b h2 h1
    -- both are members of l₁ with equal keys: they are the same element
    have ha' : a ∈ l₁ := (List.mem_mergeSort (le := fun a b => !less b a)).mp ha
    have hb' : b ∈ l₁ := hp.symm.subset ((List.mem_mergeSort (le := fun a b => !less b a)).mp hb)
    exact eq_of_key_eq hd ha' hb' hk
  rw [heq]

/-- C08 (serialised sections): under every schedule the workers enter their sections in index order, every
earlier worker has left before the next one enters, and so no two are ever inside together. -/
theorem serializer_runs_in_index_order (n : Nat) (sched : List Nat) :
    ∃ k, k ≤ n ∧ (Ser.run (Ser.init n) sched []).2 = List.range k ∧
      ∀ i, i + 1 < k → (Ser.run (Ser.init n) sched []).1[i]? = some 2 := by
  obtain ⟨k, hg, hl⟩ := run_order sched (Ser.init n) [] 0 (good_init n) (by simp)
  refine ⟨k, ?_, hl, hg.2.2.2⟩
  have := hg.1
  rw [Ser.run_length] at this
  simpa [Ser.init] using this


/-! ## No unreviewed order-sensitive map iteration (regenerated fact)

Go randomises the iteration order of maps. `Gen/MapRanges.lean` is regenerated on every run from the type-checked
source of the linker, bundler, api, graph, resolver, printers and renamer: every `for … range <map>` loop, the
slices its body appends to, and whether those slices are sorted later in the same function. -/
open EsbuildModel.Gen.MapRanges EsbuildModel.MapRangeReview in
/-- Every map iteration in the current source either only feeds slices that are sorted afterwards, or is one of
the sites reviewed as order-insensitive (Impl/MapRangeReview.lean gives the reason for each). A new map
iteration, or a sort that disappears after one (seeded change C08-m2), makes this proof fail. -/
theorem every_map_iteration_is_sorted_or_reviewed :
    ∀ s ∈ sites, s.sorted = true ∨ (s.pkg, s.fn, s.expr) ∈ reviewed.map keyOf := by
  decide +kernel

end EsbuildModel.Det
