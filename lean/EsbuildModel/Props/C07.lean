import EsbuildModel.Lemmas.Vlq
import EsbuildModel.Spec.Base64
/-!
# C07 — source maps: property theorems (helper lemmas live in `Lemmas/`)
-/
namespace EsbuildModel.C07
open EsbuildModel.Vlq

/-- The alphabet extracted from `sourcemap.go` on this run is the RFC 4648 alphabet.
Re-checked on every run against the regenerated `Gen/Base64.lean`. -/
theorem base64_is_rfc4648 : Gen.base64 = Spec.rfc4648 := by decide

/-- … and therefore digit → byte → digit is the identity on all 64 digits. -/
theorem base64_roundtrip : ∀ d, d < 64 → toDigit Gen.base64 (fromDigit Gen.base64 d) = d := by decide

/-- `Vlq.roundtrip` (digit level): for EVERY integer `v` and every following input `rest`,
decoding what `encodeVLQ` wrote yields `v` and consumes exactly the encoding. -/
theorem vlq_roundtrip_digits (v : Int) (rest : List Nat) :
    decode (encode v ++ rest) = some (v, rest) := decode_encode_digits v rest

/-- `Vlq.roundtrip` (byte level, real alphabet): `DecodeVLQ(pre ++ encodeVLQ(v) ++ rest, len(pre))`
returns `(v, len(pre) + len(encodeVLQ(v)))` — never panics, whatever follows. -/
theorem vlq_roundtrip_bytes (v : Int) (pre rest : List Nat) :
    decodeBytes Gen.base64 (pre ++ encodeBytes Gen.base64 v ++ rest) pre.length
      = some (v, pre.length + (encodeBytes Gen.base64 v).length) := by
  unfold decodeBytes encodeBytes
  have hmap : List.map (toDigit Gen.base64) (List.map (fromDigit Gen.base64) (encode v)) = encode v := by
    rw [List.map_map]
    conv => rhs; rw [← List.map_id (encode v)]
    apply List.map_congr_left
    intro d hd
    exact base64_roundtrip d (encode_lt v d hd)
  simp only [List.length_append, List.length_map, List.append_assoc, List.drop_left',
    List.map_append, hmap, decode_encode_digits]
  split
  · omega
  · simp; omega

/-- instance (the theorem has no hypotheses, so non-vacuity is immediate) -/
example := vlq_roundtrip_bytes (-161) [59] [44]

end EsbuildModel.C07
