import EsbuildModel.Lemmas.RegexLexPrint
import EsbuildModel.Lemmas.Quote
/-! # C13 / C01 — regular-expression literals: property theorems

Model: `Impl/RegexLex.lean` (`(*Lexer).Next` at a `/` + `(*Lexer).ScanRegExp`, `isUnsupportedRegularExpression` + the
`new RegExp(…)` rewriting, the printer's `ERegExp` arm).  Specification: `Spec/JsRegExpLiteral.lean` (ECMA-262 §12.9.5).
`na` is esbuild's ID_Continue table above U+007E, `U` is Unicode's ID_Continue. -/
namespace EsbuildModel.C13RegexLex
open EsbuildModel.RegexLex Spec.JsRegExpLiteral

/-- `[A-Za-z0-9_]`: the ASCII code points with the Unicode property ID_Continue -/
def asciiWord (c : Nat) : Bool := c == 95 || (48 ≤ c && c ≤ 57) || (97 ≤ c && c ≤ 122) || (65 ≤ c && c ≤ 90)

/-- the tables agree: below U+007F Unicode's ID_Continue is `[A-Za-z0-9_]` (a fact of the Unicode Character Database), from
U+007F on esbuild's table `idContinueES5OrESNext` is Unicode's -/
structure TableAgrees (na U : Nat → Bool) : Prop where
  ascii : ∀ c, c < 127 → U c = asciiWord c
  high : ∀ c, c ≥ 127 → U c = na c

theorem idPart_iff {na U : Nat → Bool} (h : TableAgrees na U) (c : Nat) : IdentifierPartChar U c ↔ idc na c = true := by
  unfold IdentifierPartChar idc
  by_cases hc : c < 127
  · rw [h.ascii c hc]
    have h1 : decide (c ≥ 127) = false := by simp; omega
    simp only [h1, Bool.false_and, Bool.or_false]
    unfold asciiWord asciiIdc
    simp only [Bool.or_eq_true, Bool.and_eq_true, beq_iff_eq, decide_eq_true_eq]
    omega
  · have hc' : c ≥ 127 := by omega
    rw [h.high c hc']
    have h1 : decide (c ≥ 127) = true := by simp; omega
    have h2 : asciiIdc c = false := by
      unfold asciiIdc
      simp only [Bool.or_eq_false_iff, Bool.and_eq_false_iff, beq_eq_false_iff_ne, decide_eq_false_iff_not]
      omega
    simp only [h1, h2, Bool.true_and, Bool.false_or, Bool.or_eq_true, beq_iff_eq]
    constructor
    · rintro (h | h | h | h)
      · exact .inr h
      · omega
      · exact .inl (.inl h)
      · exact .inl (.inr h)
    · rintro ((h | h) | h)
      · exact .inr (.inr (.inl h))
      · exact .inr (.inr (.inr h))
      · exact .inl h

/-! ## (1) ScanRegExp against the lexical grammar -/

/-- `scan_regexp_is_grammar` (full strength since /repo e618e05 added the `u`/`v` check): the lexer (`Next` at `/`, then
the parser's `ScanRegExp`) ends without ANY logged error with a token of `n` characters IFF the text starts with a
RegularExpressionLiteral `/body/flags` of ECMA-262 §12.9.5 that cannot be extended by another IdentifierPartChar (maximal
munch), whose flags satisfy the early errors (§13.2.7.2, §22.2.3.4: only letters of `dgimsuvy`, none twice, not both `u` and
`v`), and `n` is its length. -/
theorem scan_regexp_is_grammar {na U : Nat → Bool} (h : TableAgrees na U) (t : List Nat) (n : Nat) :
    lex na t = .ok n [] false ↔
      ∃ body flags, TokenAt U t body flags ∧ FlagsValid flags ∧ n = 2 + body.length + flags.length :=
  lex_ok_iff na U (idPart_iff h) t n

/-- completeness: every regular-expression literal that is valid per the lexical grammar and the early errors on flags
is accepted, with the right length -/
theorem scan_regexp_complete {na U : Nat → Bool} (h : TableAgrees na U) (t body flags : List Nat)
    (ht : TokenAt U t body flags) (hf : FlagsValid flags) : lex na t = .ok (2 + body.length + flags.length) [] false :=
  (scan_regexp_is_grammar h t _).2 ⟨body, flags, ht, hf, rfl⟩

/-- soundness: what is accepted without error is a maximal literal with valid flags -/
theorem scan_regexp_sound {na U : Nat → Bool} (h : TableAgrees na U) (t : List Nat) (n : Nat)
    (hl : lex na t = .ok n [] false) :
    ∃ body flags, TokenAt U t body flags ∧ n = 2 + body.length + flags.length ∧ FlagsValid flags := by
  obtain ⟨body, flags, ht, hf, hn⟩ := (scan_regexp_is_grammar h t n).1 hl
  exact ⟨body, flags, ht, hn, hf⟩

/-- the former counterexample is now a rejection: `/a/uv` is scanned to its end (5 characters) and the error
"The "u" and "v" flags cannot be used together" is logged; also behind a duplicate (`/a/uvu`), but not behind a
SyntaxError (`/a/uvx` panics at the `x` before the check) -/
example : lex (fun _ => false) [47, 97, 47, 117, 118] = .ok 5 [] true ∧ ¬ FlagsValid [117, 118] :=
  ⟨by decide, fun h => h.2.2 ⟨by decide, by decide⟩⟩
example : lex (fun _ => false) [47, 97, 47, 117, 118, 117] = .ok 6 [(5, 3)] true := by decide
example : lex (fun _ => false) [47, 97, 47, 117, 118, 120] = .syntax 5 [] := by decide
/-- `u` in the body does not count -/
example : lex (fun _ => false) [47, 117, 47, 118] = .ok 4 [] false := by decide

/-- the token is well defined: a text starts with at most one maximal regular-expression literal -/
theorem regexp_token_unique {U : Nat → Bool} {t b f b' f' : List Nat} (h : TokenAt U t b f) (h' : TokenAt U t b' f') :
    b = b' ∧ f = f' := tokenAt_unique h h'

/-- maximal munch: no longer prefix of the text is a RegularExpressionLiteral -/
theorem regexp_token_longest {U : Nat → Bool} {t b f : List Nat} (h : TokenAt U t b f) (m : Nat) (hmt : m ≤ t.length)
    (hm : Literal U (t.take m)) : m ≤ 2 + b.length + f.length := tokenAt_longest h m hmt hm

/-- a body is never empty (`//` is a comment) and does not start with `*` or `/` -/
theorem regexp_body_nonempty {b : List Nat} (h : Body b) : ∃ d r, b = d :: r ∧ d ≠ 47 ∧ d ≠ 42 := body_head h

/-- non-vacuity: `/[/\]]+\//gi.test` — a class containing `/` and an escaped `]`, an escaped `/`, two flags, then `.` -/
example : lex (fun _ => false) [47, 91, 47, 92, 93, 93, 43, 92, 47, 47, 103, 105, 46, 116] = .ok 12 [] false := by decide

example : TokenAt (fun c => asciiWord c) [47, 97, 47, 103, 46] [97] [103] :=
  ⟨.mk [97] [] (.plain 97 (by unfold NonTerminator IsLineTerminator; omega) (by decide) (by decide) (by decide) (by decide)) .empty,
   .snoc [] 103 .empty (.inl (by decide)), [46], by simp, by
     intro c hc; simp at hc; subst hc
     unfold IdentifierPartChar; simp [asciiWord]⟩

example : TableAgrees (fun _ => false) (fun c => decide (c < 127) && asciiWord c) :=
  ⟨fun c hc => by simp [hc], fun c hc => by simp; omega⟩

/-! ## (3) the printed literal is lexed again as the same token -/

/-- `printed_regexp_relexes`: whatever the printer has emitted so far (`js`), for every literal `v` that the lexer accepts
as a whole, and whatever is printed next — an identifier or keyword (`ident`: through `printSpaceBeforeIdentifier`, which
sees `prevRegExpEnd == len(js)`) or any text `post` that does not start with an identifier character —
the output is `pre ++ v ++ …` where `pre` is the old buffer, possibly with one space; `pre` does not end in `/` (so the
literal's `/` cannot be the second `/` of a `//` comment), does not end in `<` when the literal starts with `/script`
(any case) unless inline-script protection is switched off, and lexing the output from the literal's `/` gives the token `v`
again (same length, no error). -/
theorem printed_regexp_relexes (na : Nat → Bool) (noIS : Bool) (js v post : List Nat) (ident : Bool)
    (hv : lex na v = .ok v.length [] false)
    (hpost : ident = false → ∀ c, post.head? = some c → idc na c = false) :
    ∃ pre, printRegExp noIS js v = pre ++ v ∧ (pre = js ∨ pre = js ++ [32]) ∧
      pre.getLast? ≠ some 47 ∧
      (noIS = false → scriptPrefix v = true → pre.getLast? ≠ some 60) ∧
      lex na (((if ident then spaceBeforeIdentifier na (printRegExp noIS js v) true else printRegExp noIS js v)
        ++ post).drop pre.length) = .ok v.length [] false := by
  have hcont : ∀ pre : List Nat, lex na (((if ident then spaceBeforeIdentifier na (pre ++ v) true else pre ++ v)
        ++ post).drop pre.length) = .ok v.length [] false := by
    intro pre
    cases ident with
    | true =>
      simp only [if_true, spaceBeforeIdentifier_atEnd, List.append_assoc, List.drop_left]
      exact lex_append na v ([32] ++ post) hv (by intro c hc; simp at hc; subst hc; exact idc_space na)
    | false =>
      simp only [Bool.false_eq_true, if_false, List.append_assoc, List.drop_left]
      exact lex_append na v post hv (hpost rfl)
  rw [printRegExp_eq]
  refine ⟨js ++ (if needsSpace noIS js v then [32] else []), rfl, ?_, ?_, ?_, hcont _⟩
  · cases needsSpace noIS js v <;> simp
  · cases hs : needsSpace noIS js v with
    | true => simp
    | false => simpa using (needsSpace_false hs).1
  · cases hs : needsSpace noIS js v with
    | true => simp
    | false => simpa using (needsSpace_false hs).2

/-- non-vacuity: `x=a/` then `/b/g`, then `in y`: a space on both sides; `x=a<` then `/script>/` -/
example : printRegExp false [120, 61, 97, 47] [47, 98, 47, 103] = [120, 61, 97, 47, 32, 47, 98, 47, 103] := by decide
example : printRegExp false [97, 60] [47, 83, 99, 114, 105, 112, 116, 62, 47] = [97, 60, 32, 47, 83, 99, 114, 105, 112, 116, 62, 47] := by
  decide
example : lex (fun _ => false) [47, 98, 47, 103] = .ok 4 [] false := by decide
/-- without the space before an identifier the token would change: `/b/g` followed by `in` is `/b/gin` (a syntax error) -/
example : lex (fun _ => false) ([47, 98, 47, 103] ++ [105, 110]) = .syntax 5 [] := by decide

/-! ## (2) `new RegExp("…", "…")` denotes the same pattern -/

/-- `regexp_to_string_roundtrip`: for every literal `v` that the lexer accepts as a whole (code points of a decoded
source, i.e. ≤ U+10FFFF) and every feature set, the visitor never panics, and when it rewrites the literal to
`new RegExp(p)` / `new RegExp(p, f)` then
 * `p` is CodePointsToString(BodyText) and `f` (absent exactly when there are no flags; an absent argument is the empty
   String for the constructor) is CodePointsToString(FlagText) — the two Strings with which ECMA-262 §13.2.7.3 evaluates
   the literal itself, so the constructor call performs the same RegExpCreate;
 * the body is not empty (so the pattern argument is never `""`, which would denote `(?:)`);
 * with `Quote.decode_print` (C01): under every printer option set, quote character and column the string literal the
   printer emits for `p` is a valid literal whose String Value is again CodePointsToString(BodyText) (every `\` and quote
   of the body is escaped, `\/` stays `\/`). -/
theorem regexp_to_string_roundtrip (na : Nat → Bool) (u : Unsup) (v : List Nat) (hv : lex na v = .ok v.length [] false)
    (hcp : ∀ c ∈ v, c ≤ 1114111) :
    ∃ body flags, v = 47 :: body ++ 47 :: flags ∧ Body body ∧ body ≠ [] ∧ visit u v ≠ .panic ∧
      ∀ p f why, visit u v = .lower p f why →
        (p, f.getD []) = evaluationArguments body flags ∧ (f = none ↔ flags = []) ∧
        ∀ (o : Quote.Opts) (q : Nat), q = 34 ∨ q = 39 ∨ q = 96 → ∀ cur : Nat,
          ∃ fuel, Spec.JsString.decode q fuel (Quote.printUnquoted o q cur p) = some (codePointsToString body) := by
  obtain ⟨body, flags, hb, hfa, rfl⟩ := lex_whole na v hv
  have hvis := visit_literal u body flags (flagsValid_no_slash hfa)
  have hbody : ∀ c ∈ body, c ≤ 1114111 := fun c hc => hcp c (by simp [hc])
  have hflags : ∀ c ∈ flags, c ≤ 1114111 := fun c hc => hcp c (by simp [hc])
  obtain ⟨d, r, hd, _, _⟩ := body_head hb
  refine ⟨body, flags, rfl, hb, by simp [hd], hvis.1, ?_⟩
  intro p f why hl
  have := hvis.2 p f why hl
  unfold lowered at this
  simp only [Prod.mk.injEq] at this
  obtain ⟨hp, hf⟩ := this
  rw [stringToUTF16_eq body hbody] at hp
  rw [stringToUTF16_eq flags hflags] at hf
  refine ⟨?_, ?_, ?_⟩
  · unfold evaluationArguments
    rw [hp, hf]
    by_cases hfl : flags = []
    · simp [hfl, codePointsToString]
    · simp [hfl]
  · rw [hf]
    by_cases hfl : flags = [] <;> simp [hfl]
  · intro o q hq cur
    rw [hp]
    exact Quote.decode_print o q hq cur _ (codePointsToString_units body hbody)

/-- non-vacuity: `/(?<=\/)"\\/su` with lookbehind unsupported becomes `new RegExp("(?<=\\/)\"\\\\", "su")` — the values: -/
example : visit ⟨true, false, false, false, false, false, false⟩ [47, 40, 63, 60, 61, 92, 47, 41, 34, 92, 92, 47, 115, 117]
    = .lower [40, 63, 60, 61, 92, 47, 41, 34, 92, 92] (some [115, 117]) .lookbehind := by decide
example : lex (fun _ => false) [47, 40, 63, 60, 61, 92, 47, 41, 34, 92, 92, 47, 115, 117] = .ok 14 [] false := by decide
/-- without flags there is one argument; an astral character becomes a surrogate pair -/
example : visit ⟨false, true, false, false, false, false, false⟩ [47, 40, 63, 60, 110, 62, 128512, 41, 47]
    = .lower [40, 63, 60, 110, 62, 55357, 56832, 41] none .named := by decide
