import EsbuildModel.Lemmas.Quote
/-! # C13 — accepted input yields valid output: property theorems
So far: every string / template literal body the printer emits is a VALID literal body (the decoder of
`Spec.JsString` returns `none` for an unescaped quote or line terminator, `${`, a legacy octal or
malformed escape), for all inputs and option sets. -/
namespace EsbuildModel.C13
open EsbuildModel.Quote Spec.JsString

theorem string_literal_body_valid (o : Opts) (q : Nat) (hq : q = 34 ∨ q = 39 ∨ q = 96) (cur : Nat)
    (text : List Nat) (hu : ∀ u ∈ text, u < 65536) :
    ∃ fuel, (decode q fuel (printUnquoted o q cur text)).isSome = true := by
  obtain ⟨f, hf⟩ := decode_print o q hq cur text hu
  exact ⟨f, by simp [hf]⟩

end EsbuildModel.C13
