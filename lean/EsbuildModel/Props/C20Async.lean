import EsbuildModel.Lemmas.StdioAsyncInv
import EsbuildModel.Lemmas.StdioAsyncLive
import EsbuildModel.Lemmas.StdioAsyncHonest
import EsbuildModel.Props.C20Stdio
/-!
# C20 (service part, asynchronous commands) — every request receives exactly one response carrying its own id

Model: `Impl/StdioAsync.lean`, a transition system at packet level for `runService`, `sendPacket`, `sendRequest`,
`handleIncomingPacket` and the active-build bookkeeping of cmd/esbuild/service.go. An interleaving of the reader
goroutine, the writer goroutine, the handler goroutines and the host is a list of `Action`s; all theorems are for
EVERY such list (any number of requests, handlers and builds). Helper lemmas: `Lemmas/StdioAsync*.lean`.

Tied to the code by kernel `stdioasync`: whole sessions of the real `runService` against a scripted host (concurrent
transform / build / context requests, plugins that make the service call back, answers in random order); every
observed history has to be a run of this machine (the harness fills in the invisible steps, the Lean driver checks
every step and compares the packets written).

Assumption shared by all statements: fewer than 2^31 requests to the host in one session (`nextRequestID` is a
uint32 and the wire carries `id<<1`; the model counts in ℕ).
-/
namespace EsbuildModel.C20Async
open EsbuildModel.StdioAsync

/-! ## 1. one response per request -/

/-- **Exactly one response per request.** In every run that ends with the service returning from `runService`
(stdin closed, `keepAliveWaitGroup` at zero), for every id `i`: the number of responses carrying `i` on stdout equals
the number of requests carrying `i` that the host wrote — one response for each request (also when the host re-uses an
id), and none for an id that was never requested. -/
theorem one_response_per_request (pings : Bool) (as : List Action) (s : State)
    (h : run (init pings) as = some s) (hexit : canExit s = true) (i : Nat) :
    s.written.countP (isResp i) = (hostWrites as).countP (isReqIn i) := by
  have ha := answered_reach ⟨pings, as, h⟩ i
  have hio := io_run as _ s h
  simp only [canExit, Bool.and_eq_true, List.isEmpty_iff, Option.isNone_iff_eq_none, Bool.not_eq_true'] at hexit
  obtain ⟨⟨⟨⟨⟨⟨_, hstdin⟩, htasks⟩, hpend⟩, hwr⟩, _⟩, _⟩ := hexit
  simp only [init, hstdin, List.append_nil, List.nil_append] at hio
  rw [← hio]
  simpa [outQueue, htasks, hpend, hwr] using ha

/-- … and at EVERY moment of every run no id has more responses on stdout than requests written by the host: a
response is never sent twice and never invented. -/
theorem never_more_responses_than_requests (pings : Bool) (as : List Action) (s : State)
    (h : run (init pings) as = some s) (i : Nat) :
    s.written.countP (isResp i) ≤ (hostWrites as).countP (isReqIn i) := by
  have ha := answered_reach ⟨pings, as, h⟩ i
  have hio := io_run as _ s h
  simp only [init, List.append_nil, List.nil_append] at hio
  rw [← hio, List.countP_append]
  omega

/-- the host's packets reach `handleIncomingPacket` in the order they were written, none lost, none twice -/
theorem stdin_is_fifo (pings : Bool) (as : List Action) (s : State) (h : run (init pings) as = some s) :
    s.delivered ++ s.stdin = hostWrites as := by
  simpa [init] using io_run as _ s h

/-- non-vacuity: a transform (id 1), a build with plugins (id 2, key 7) that asks the host twice, and a request with
an unknown command (id 3), handlers finishing in another order than they came; the service can return at the end -/
def sampleRun : List Action :=
  [.hostSend (.request 1 .simple 0), .hostSend (.request 2 (.build false true) 7), .hostSend (.request 3 .invalid 0),
   .deliver, .deliver, .deliver, .start 2, .svcReq (some 2) 0 7, .take false 3, .writeDone, .take true 0, .writeDone,
   .hostAnswer 0, .deliver, .svcReq (some 2) 1 7, .take true 1, .finish 1 true, .writeDone, .hostAnswer 1, .take false 1,
   .deliver, .finish 2 true, .writeDone, .take false 2, .writeDone, .close]

example : ((run (init false) sampleRun).map canExit) = some true := by decide
example : ((run (init false) sampleRun).map (·.written)) =
    some [response 3 1, ⟨true, 0, 0, 7⟩, ⟨true, 1, 1, 7⟩, response 1 0, response 2 0] := by decide

/-! ## 2. requests to the host -/

/-- **Ids of requests to the host are unique.** At every moment of every run the ids in the `callbacks` table are
pairwise distinct and all below `nextRequestID`. -/
theorem service_request_ids_unique (s : State) (h : Reach s) :
    (s.callbacks.map (·.id)).Nodup ∧ ∀ c ∈ s.callbacks, c.id < s.nextId :=
  ⟨(idsOk_reach h).nodup, (idsOk_reach h).below⟩

theorem find_callback {l : List Callback} (hn : (l.map (·.id)).Nodup) {c : Callback} (hc : c ∈ l) :
    l.find? (·.id == c.id) = some c := by
  induction l with
  | nil => cases hc
  | cons x xs ih =>
    simp only [List.map_cons, List.nodup_cons] at hn
    rcases List.mem_cons.1 hc with rfl | hc
    · simp
    · have hne : x.id ≠ c.id := by
        intro he
        exact hn.1 (he ▸ List.mem_map.2 ⟨c, hc, rfl⟩)
      have : (x.id == c.id) = false := by simpa using hne
      simp only [List.find?_cons, this]
      exact ih hn.2 hc

/-- **An answer reaches exactly the sender.** When the reader takes the host's response to request `c.id`, the
service does not panic, the entry of `c` leaves the table, the number of outstanding requests of the handler that
sent it (`c.owner`) goes down by one and that of every other handler stays as it is. -/
theorem answer_reaches_its_sender (s : State) (h : Reach s) (c : Callback) (hc : c ∈ s.callbacks)
    (rest : List HostPkt) (hst : s.stdin = .response c.id :: rest) (hnb : readerBlocked s = false)
    (hnp : s.panicked = false) :
    ∃ s', step s .deliver = some s' ∧ s'.panicked = false ∧ s'.callbacks.length + 1 = s.callbacks.length ∧
      ∀ tid, outstanding s' tid + (if c.owner = some tid then 1 else 0) = outstanding s tid := by
  have hf := find_callback (idsOk_reach h).nodup hc
  refine ⟨({ s with stdin := rest, delivered := s.delivered ++ [.response c.id],
                     callbacks := s.callbacks.eraseP (·.id == c.id) }),
    by simp [step, hnp, hnb, hst, hf], hnp, ?_, ?_⟩
  · have := List.length_eraseP_of_mem (p := fun x : Callback => x.id == c.id) hc (by simp)
    simp only [this]
    have : 0 < s.callbacks.length := List.length_pos_of_mem hc
    omega
  · intro tid
    have := countP_eraseP_find (fun x : Callback => x.id == c.id) (fun x : Callback => x.owner == some tid) s.callbacks c hf
    simp only [outstanding]
    by_cases ho : c.owner = some tid <;> simp [ho] at this ⊢ <;> omega

/-- **A response nobody waits for kills the service** (`panic("callback nil for id …")`; the host is trusted, so this
is an observation about the code, not a finding): unknown id, or an id answered a second time. -/
theorem stale_answer_panics (s : State) (id : Nat) (rest : List HostPkt) (hst : s.stdin = .response id :: rest)
    (hnone : ∀ c ∈ s.callbacks, c.id ≠ id) (hnb : readerBlocked s = false) (hnp : s.panicked = false) :
    ∃ s', step s .deliver = some s' ∧ s'.panicked = true := by
  have hf : s.callbacks.find? (·.id == id) = none := by
    rw [List.find?_eq_none]
    intro c hc; simpa using hnone c hc
  exact ⟨StdioAsync.panic { s with stdin := rest, delivered := s.delivered ++ [.response id] },
    by simp [step, hnp, hnb, hst, hf], rfl⟩

/-- non-vacuity of both: after `sampleRun` up to the first request to the host, the host's answer is delivered;
a second answer with the same id panics -/
example : ((run (init false) (sampleRun.take 13 ++ [.hostSend (.response 0), .deliver, .deliver])).map (·.panicked))
    = some true := by decide
example : ((run (init false) (sampleRun.take 14)).map (fun s => (s.panicked, s.callbacks))) = some (false, []) := by
  decide


/-! ## 3. no deadlock while the host answers -/

/-- **No deadlock under a responsive host.** Take any state of any run in which the service has not panicked and
something is still in flight (a packet not yet read, a handler running, a packet waiting for or inside the writer).
If the host can still answer (it keeps stdin open while requests to it are outstanding) and uses distinct ids for
its outstanding requests, then some DRAINING action is enabled: the writer finishes or takes a packet, the reader
takes the next packet, the host answers an outstanding request of the service, a helper or a handler ends. No
dispose waits for a cancel that waits for a rebuild that waits for the dispose. -/
theorem no_deadlock_under_responsive_host (s : State) (_h : Reach s) (hnp : s.panicked = false) (hns : ¬ Settled s)
    (hresp : s.callbacks ≠ [] → s.closed = false) (hn : (s.tasks.map (·.id)).Nodup) :
    ∃ a, Draining a = true ∧ (step s a).isSome = true :=
  progress s hnp hns hresp hn

/-- **Draining terminates.** From a reachable state, every sequence of draining actions (no new request from the
host, no new request to the host) is at most `debt s` long: each of them strictly decreases that measure. -/
theorem draining_terminates (s s' : State) (h : Reach s) (as : List Action) (hd : ∀ a ∈ as, Draining a = true)
    (hr : run s as = some s') : as.length + debt s' ≤ debt s :=
  draining_run_bounded as s s' (idsOk_reach h) hd hr

/-- Both together — **every host request is eventually answered**: let the host stop sending new requests and the
handlers stop asking the host; then after at most `debt s` further steps, whatever the schedule, no draining action
is left, and at that point (if the service has not panicked, stdin is still open for outstanding requests of the
service, and the host's request ids are distinct) nothing is in flight: every request has its response on stdout. -/
theorem drained_state_is_settled (s : State) (h : Reach s) (hnp : s.panicked = false)
    (hresp : s.callbacks ≠ [] → s.closed = false) (hn : (s.tasks.map (·.id)).Nodup)
    (hmax : ∀ a, Draining a = true → step s a = none) :
    Settled s ∧ ∀ i, s.written.countP (isResp i) = s.delivered.countP (isReqIn i) := by
  have hs : Settled s := by
    apply Classical.byContradiction
    intro hns
    obtain ⟨a, hda, hen⟩ := progress s hnp hns hresp hn
    rw [hmax a hda] at hen
    cases hen
  refine ⟨hs, fun i => ?_⟩
  have ha := answered_reach h i
  obtain ⟨_, ht, hp, hw⟩ := hs
  simpa [outQueue, ht, hp, hw] using ha

/-- … and when nothing is in flight every request delivered so far has been answered (on stdout) -/
theorem settled_means_answered (s : State) (h : Reach s) (hs : Settled s) (i : Nat) :
    s.written.countP (isResp i) = s.delivered.countP (isReqIn i) := by
  have ha := answered_reach h i
  obtain ⟨_, ht, hp, hw⟩ := hs
  simpa [outQueue, ht, hp, hw] using ha

/-- non-vacuity: in the middle of `sampleRun` (build 2 waits for the host, transform 1 runs, a refusal is queued)
the hypotheses hold and the state is not settled; the theorem's action exists -/
example : (run (init false) (sampleRun.take 8)).map
    (fun s => (s.panicked, s.tasks.map (·.id), s.callbacks.length, s.closed, s.pending.length)) =
    some (false, [1, 2], 1, false, 2) := by decide

/-- … its debt is 29, and twelve draining actions (of which the host's answer is one) settle it -/
example : (run (init false) (sampleRun.take 8)).map debt = some 29 := by decide
example : (run (init false) (sampleRun.take 8 ++ [.take false 3, .writeDone, .take true 0, .writeDone, .hostAnswer 0,
    .deliver, .finish 1 true, .take false 1, .writeDone, .finish 2 true, .take false 2, .writeDone])).map
    (fun s => (debt s, s.stdin.length + s.tasks.length + s.pending.length + s.writing.toList.length,
      s.written.map (·.id))) = some (1, 0, [3, 0, 1, 2]) := by decide

/-- the hypothesis on stdin is needed: a handler that waits for the host after the host closed stdin waits for
ever (`runService` then never returns; `canExit` stays false) -/
example : ((run (init false) [.hostSend (.request 2 (.build false true) 7), .deliver, .start 2, .svcReq (some 2) 0 7,
    .take true 0, .writeDone, .close]).map
      (fun s => (Settled s : Prop) ∨ ∃ a ∈ [Action.deliver, .hostAnswer 0, .finish 2 true, .finish 2 false, .writeDone,
        .take true 0, .take false 2, .start 2], (step s a).isSome = true)) = some False := by
  simp [run, step, init, Settled, deliverRequest, addTask, mkTask, findTask, findActive, finishTask, outstanding,
    readerBlocked, setStarted]

/-! ## 4. the writer -/

/-- **Every request to the host is put on the wire exactly once.** At every moment, each id below `nextRequestID`
is carried by exactly one request packet among those written, being written or waiting for the writer, and no
other id by any. -/
theorem every_service_request_sent_once (s : State) (h : Reach s) (n : Nat) :
    (s.written ++ outQueue s).countP (isReqOut n) = if n < s.nextId then 1 else 0 :=
  requestsOnce_reach h n

open EsbuildModel.Stdio in
/-- the protocol packet of a machine packet, for an arbitrary assignment of payloads -/
def toPacket (payload : OutPkt → Val) (p : OutPkt) : Packet := ⟨payload p, p.id, p.isRequest⟩

open EsbuildModel.Stdio in
/-- what is in the stdout pipe when the writer goroutine has got `k` bytes of its current packet out (after the
version header): the packets written so far, each whole, in the order the writer took them, then a prefix of the
current one -/
def stdoutBytes (payload : OutPkt → Val) (s : State) (k : Nat) : Bytes :=
  wire (s.written.map (fun p => encBody (toPacket payload p))) ++
    (match s.writing with
     | some p => (encodePacket (toPacket payload p)).take k
     | none => [])

open EsbuildModel.Stdio in
/-- **Packets are written whole and one after the other.** Whatever the schedule, whatever bytes of the current
packet are already out and however the host's reads cut the stream: the host's framing loop recovers exactly the
packets the writer has completed, in order, and is left with a proper prefix of the packet being written — bytes of
two packets are never interleaved (single writer goroutine, modelled by the single `writing` slot). -/
theorem writer_is_serial (payload : OutPkt → Val) (s : State) (k : Nat) (chunks : List Bytes)
    (hlen : ∀ p ∈ s.written ++ s.writing.toList, (encBody (toPacket payload p)).length < 4294967296)
    (hk : ∀ p, s.writing = some p → k < (encodePacket (toPacket payload p)).length)
    (hne : ∀ c ∈ chunks, c ≠ []) (hflat : chunks.flatten = stdoutBytes payload s k) :
    ∃ tail, runFraming [] chunks = some (s.written.map (fun p => encBody (toPacket payload p)), tail) ∧
      readLPS tail = none ∧
      (s.writing = none → tail = []) := by
  unfold stdoutBytes at hflat
  have hp : ∀ b ∈ s.written.map (fun p => encBody (toPacket payload p)), b.length < 4294967296 := by
    intro b hb
    obtain ⟨p, hp, rfl⟩ := List.mem_map.1 hb
    exact hlen p (List.mem_append_left _ hp)
  cases hw : s.writing with
  | none =>
    rw [hw] at hflat
    exact ⟨[], C20Stdio.framing_delivers _ [] chunks hp (by rfl) hne hflat, by rfl, fun _ => rfl⟩
  | some p =>
    rw [hw] at hflat
    have hl := hlen p (by simp [hw])
    have hkp := hk p hw
    have hnone : readLPS ((encodePacket (toPacket payload p)).take k) = none := by
      refine readLPS_prefix_none (u := (encodePacket (toPacket payload p)).drop k) (s := encBody (toPacket payload p))
        (by simp [encodePacket]) ?_ hl
      intro hd
      have := congrArg List.length hd
      simp only [List.length_drop, List.length_nil] at this
      omega
    exact ⟨_, C20Stdio.framing_delivers _ _ chunks hp hnone hne hflat, hnone, fun h => by cases h⟩

open EsbuildModel.Stdio in
/-- … and each recovered frame decodes to a packet with the id and the request flag it was sent with -/
theorem written_packet_decodes (payload : OutPkt → Val) (p : OutPkt) (hs : MapsSorted (payload p))
    (hl : (encBody (toPacket payload p)).length < 4294967296) (hid : p.id < 2147483648) :
    decodePacket (encBody (toPacket payload p)) = .ok ⟨wireV (payload p), p.id, p.isRequest⟩ [] := by
  have := (C20Stdio.codec_roundtrip_wire (toPacket payload p) [] hs hl).2
  simpa [toPacket, Nat.mod_eq_of_lt hid] using this

/-- non-vacuity: two refusals, the first written, three bytes of the second out; the stream arrives in single
bytes; the host recovers the first packet and keeps the three bytes -/
def twoRefusals : List Action :=
  [.hostSend (.request 3 .invalid 0), .deliver, .take false 3, .writeDone, .hostSend (.request 4 .invalid 0), .deliver,
   .take false 4]

example : (run (init false) twoRefusals).map (fun s => (s.written, s.writing)) =
    some ([response 3 1], some (response 4 1)) := by decide
example : stdoutBytes (fun _ => .nil) ⟨[], false, [], [], [], [], 0, 0, [], [], some (response 4 1), [response 3 1], false, false⟩ 3
    = [5, 0, 0, 0, 7, 0, 0, 0, 0, 5, 0, 0] := by decide
example : Stdio.runFraming [] ([5, 0, 0, 0, 7, 0, 0, 0, 0, 5, 0, 0].map (fun b => [b])) = some ([[7, 0, 0, 0, 0]], [5, 0, 0]) := by
  decide

/-! ## 5. dispose and cancel wait -/

theorem finish_dispose_not_blocked {s s' : State} {tid : Nat} {ok : Bool} {t : Task} (ht : findTask s tid = some t)
    (hd : t.cmd = .dispose) (hs : step s (.finish tid ok) = some s') : disposeBlocked s t.key = false := by
  unfold step at hs
  split at hs
  · cases hs
  · simp only [ht] at hs
    unfold finishTask at hs
    split at hs
    · cases hs
    · simp only [hd] at hs
      split at hs
      · cases hs
      · rename_i hb; simpa using hb

/-- **Dispose waits.** When the handler of a `dispose` request reaches its response, every `rebuild`, `watch` and
`serve` request on the same build key that the service has taken so far has its response already at the writer
goroutine (written or being written — hence in front of the dispose response on stdout), or was refused by the
reader, whose refusal is waiting for the writer. No such handler is still running or still blocked in `sendPacket`
holding the build's wait group. -/
theorem dispose_waits (s s' : State) (h : Reach s) (tid : Nat) (ok : Bool) (t : Task) (ht : findTask s tid = some t)
    (hd : t.cmd = .dispose) (hs : step s (.finish tid ok) = some s') (i : Nat) (cmd : Cmd)
    (hreq : HostPkt.request i cmd t.key ∈ s.delivered) (hw : waits3 cmd = true) :
    AtWriter i s ∨ ∃ p ∈ s.pending, isResp i p.pkt = true ∧ p.fromReader = true := by
  have hb := finish_dispose_not_blocked ht hd hs
  simp only [disposeBlocked, Bool.or_eq_false_iff, List.any_eq_false] at hb
  obtain ⟨⟨hb1, hb2⟩, _⟩ := hb
  rcases staged_reach h i cmd t.key hreq hw with ⟨u, hu, _, hk, hh, hw3⟩ | ⟨p, hp, hr, hq | hq⟩ | hat
  · exfalso
    have := hb1 u hu
    have hhc : isHolderCmd u.cmd = true := by
      cases hc : u.cmd <;> simp_all [waits3, isHolderCmd]
    simp [hk, hh, hhc] at this
  · exfalso
    have := hb2 p hp
    simp [hq] at this
  · exact .inr ⟨p, hp, hr, hq⟩
  · exact .inl hat

/-- **Cancel waits.** When the handler of a `cancel` request reaches its response, no rebuild of the group of
rebuilds that was active when the cancel was taken is still running, and no OnStart helper that joined the group. -/
theorem cancel_waits (s s' : State) (tid : Nat) (ok : Bool) (t : Task) (ht : findTask s tid = some t)
    (hc : t.cmd = .cancel) (hs : step s (.finish tid ok) = some s') (g : Nat) (hg : t.group = some g) :
    (∀ u ∈ s.tasks, u.cmd = .rebuild → u.group ≠ some g) ∧ g ∉ s.helpers := by
  unfold step at hs
  split at hs
  · cases hs
  · simp only [ht] at hs
    unfold finishTask at hs
    split at hs
    · cases hs
    · simp only [hc] at hs
      split at hs
      · cases hs
      · rename_i hb
        simp only [cancelBlocked, hg, Bool.not_eq_true, Bool.or_eq_false_iff, List.any_eq_false] at hb
        refine ⟨?_, ?_⟩
        · intro u hu hr hgu
          have := hb.1 u hu
          simp [hr, hgu] at this
        · intro hm
          have := hb.2 g hm
          simp at this

/-- non-vacuity: a context (key 5), a rebuild (id 2) and a watch (id 3) on it, then dispose (id 4). The dispose
handler cannot answer while the rebuild runs, nor while the rebuild's response waits for the writer; it can once the
writer has taken both responses. -/
def disposeRun : List Action :=
  [.hostSend (.request 1 (.build true false) 5), .deliver, .start 1, .finish 1 true, .take false 1, .writeDone,
   .hostSend (.request 2 .rebuild 5), .hostSend (.request 3 .watch 5), .hostSend (.request 4 .dispose 5),
   .deliver, .deliver, .deliver]

example : (run (init false) (disposeRun ++ [.finish 4 true])).isNone = true := by decide
example : (run (init false) (disposeRun ++ [.finish 2 true, .finish 3 true, .finish 4 true])).isNone = true := by decide
example : (run (init false) (disposeRun ++ [.finish 2 true, .finish 3 true, .take false 2, .writeDone, .take false 3,
    .finish 4 true, .writeDone, .take false 4, .writeDone, .close])).map (fun s => (canExit s, s.written.map (·.id))) =
    some (true, [1, 2, 3, 4]) := by decide

/-- a cancel taken while rebuild 2 runs waits for it (group 0); a rebuild taken afterwards joins the same group -/
example : (run (init false) (disposeRun.take 7 ++ [.deliver, .hostSend (.request 6 .cancel 5), .deliver,
    .hostSend (.request 7 .rebuild 5), .deliver])).map (fun s => s.tasks.map (fun t => (t.id, t.group))) =
    some [(2, some 0), (6, some 0), (7, some 0)] := by decide
example : (run (init false) (disposeRun.take 7 ++ [.deliver, .hostSend (.request 6 .cancel 5), .deliver,
    .finish 6 true])).isNone = true := by decide

/-! ## 6. a trusted host never makes the service panic -/

/-- **An honest host never makes the service panic.** If the host (a) writes responses only as answers to requests
of the service, each at most once (`hostAnswer`), and (b) never sends a `build` request with a build key it has used
in an earlier `build` request of the session, then no interleaving whatsoever reaches a panic: a response always
finds its callback, `createActiveBuild` never finds its key taken, `destroyActiveBuild` always finds its key, and
(since fix e2efb4f) the OnStart helper never touches a nil context. Nothing is assumed about ids of requests,
about waiting for responses, or about the order of rebuild / cancel / dispose / resolve / watch / serve. -/
theorem honest_host_never_panics (pings : Bool) (as : List Action) (s : State)
    (hh : HonestRun (init pings) as) (h : run (init pings) as = some s) : s.panicked = false :=
  (honest_run_inv as _ s (answersOk_init pings) (keyOk_init pings) rfl hh h).1

/-- the invariants behind it: every response waiting in stdin has its callback, and per build key the handlers and
the `activeBuilds` entry are in one of four shapes (`KeyOkC`) -/
theorem honest_host_invariants (pings : Bool) (as : List Action) (s : State)
    (hh : HonestRun (init pings) as) (h : run (init pings) as = some s) : AnswersOk s ∧ ∀ k, KeyOk k s :=
  (honest_run_inv as _ s (answersOk_init pings) (keyOk_init pings) rfl hh h).2

/-- non-vacuity: `sampleRun`, `disposeRun` and the run that used to kill the real service (rebuild, cancel, dispose
sent without waiting, the rebuild reaching OnStart afterwards) are honest runs -/
example : HonestRun (init false) sampleRun := honestRunB_sound _ _ (by decide)
example : HonestRun (init false) disposeRun := honestRunB_sound _ _ (by decide)

def rebuildCancelDispose : List Action :=
  disposeRun.take 6 ++ [.hostSend (.request 2 .rebuild 5), .hostSend (.request 3 .cancel 5),
    .hostSend (.request 4 .dispose 5), .deliver, .deliver, .deliver]

example : HonestRun (init false) rebuildCancelDispose := honestRunB_sound _ _ (by decide)
/-- … after which the helper is not started any more (before the fix this step was the nil pointer dereference at
service.go:706), while it is started when the context is still there -/
example : (run (init false) (rebuildCancelDispose ++ [.startCancel 2])).isNone = true := by decide
example : (run (init false) (disposeRun.take 6 ++ [.hostSend (.request 2 .rebuild 5), .hostSend (.request 3 .cancel 5),
    .deliver, .deliver, .startCancel 2])).map (·.helpers) = some [0] := by decide
/-- … and the session ends normally: the dispose answers after the rebuild, the cancel whenever it likes -/
example : (run (init false) (rebuildCancelDispose ++ [.finish 2 true, .take false 2, .writeDone, .finish 4 true,
    .take false 4, .writeDone, .finish 3 true, .take false 3, .writeDone, .close])).map
    (fun s => (canExit s, s.written.map (·.id))) = some (true, [1, 2, 4, 3]) := by decide

/-- both hypotheses are needed (each run also made on the real service, which dies the same way):
(a) a response nobody waits for — `panic("callback nil for id …")`;
(b) a build key used again while its context is alive — `panic("Internal error")` in createActiveBuild -/
example : (run (init false) [.hostSend (.response 7), .deliver]).map (·.panicked) = some true := by decide
example : (run (init false) (disposeRun.take 6 ++ [.hostSend (.request 2 (.build false false) 5), .deliver, .start 2])).map
    (·.panicked) = some true := by decide

/-- not a panic, but the other way a host can wedge the service: a dispose sent before the context's build response
may be taken before the context exists. It is answered (by the reader), the context is created afterwards and
nobody disposes it: everything is answered, yet `runService` never returns (observed on the real service: both
responses arrive, the process does not exit after stdin is closed). -/
example : (run (init false) [.hostSend (.request 1 (.build true false) 5), .hostSend (.request 2 .dispose 5), .deliver,
    .deliver, .take false 2, .writeDone, .start 1, .finish 1 true, .take false 1, .writeDone, .close]).map
    (fun s => (canExit s, s.written.map (·.id), s.actives.map (·.key))) = some (false, [2, 1], [5]) := by decide

/-! ## not proved

-- OPEN `cancel_waits`, history form: "the response of every rebuild taken before a cancel is at the writer before the
--   cancel's response" is FALSE of the code by design (`rebuildWaitGroup.Done()` runs before the rebuild's sendPacket);
--   the step form above is what the code guarantees.
-- OPEN `service_returns`: "after stdin is closed an honest session ends" needs one more obligation of the host (every
--   context is disposed, by a dispose sent after the context's build response); see the last example.
-- Not modelled: the contents of responses (only: fixed refusal or not), `serve-request` callbacks (tag 5 is accepted by
--   the machine but never produced by the kernel), uint32 wrap-around of `nextRequestID`, write errors on stdout
--   (`os.Exit(1)`), a host that stops reading stdout (then the reader can block in `sendPacket` for ever), malformed
--   request values (type assertions in handleIncomingPacket: covered by Props/C20Stdio for the synchronous part).
-/

end EsbuildModel.C20Async
