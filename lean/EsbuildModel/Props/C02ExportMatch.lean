import EsbuildModel.Lemmas.ExportMatchExamples
import EsbuildModel.Lemmas.ExportMatchTotal
/-!
# C02 — which binding an import names: the linker against ECMA-262

Model: `Impl/ExportMatch.lean` (steps 3–5 of `scanImportsAndExports`: `ResolvedExports` with
`PotentiallyAmbiguousExportStarRefs`, the import tracker, the filter behind `SortedAndFilteredExportAliases`).
Specification: `Spec/EsModules.lean` (ECMA-262 16.2.1.7 `GetExportedNames`, `ResolveExport`, and their uses at link time),
applied to `toSpec t`, the linker's tables read as Source Text Module Records (`Impl/ExportMatchView.lean`).

All statements are for EVERY table: any number of files, names, export stars; star cycles, import cycles, diamonds,
shadowing included.  Hypotheses (each one is forced: dropping it makes the statement false, see the examples at the end
and the report of the work package for the real-file reproductions):

* `WF t`        – what the parser guarantees (indices in range, one entry per export alias, `ExportsRef` fresh);
* `EsmOnly t`   – every file is an ES module with an `export`, nothing external, no TypeScript "maybe a type" rule;
* `NoReexportCycle` – no named re-export leads back to itself through other re-exports / export stars: the tracker follows
                  only the first star source and reports a cycle (or an ambiguity) where ECMA-262 skips the circular path;
* `ReexportsLink` – every indirect export entry resolves to a binding, i.e. every module passes the specification's own
                  link check (InitializeEnvironment 7.a); otherwise both sides report an error, but not the same one.
-/
namespace EsbuildModel.C02ExportMatch
open EsbuildModel.ExportMatch EsbuildModel.Spec EsbuildModel.Spec.EsModules

/-- **The import tracker ends at the specification's binding.**  For every import `ni` of every file `s`:
`matchImportWithExport` terminates (no out-of-range access, fuel suffices) and its result, read in the specification's
vocabulary (`resolutionOf`: Normal ↦ that binding / the namespace object, Ambiguous ↦ ambiguous, no match ↦ null), is
exactly what InitializeEnvironment computes for the import entry: `importedModule.ResolveExport(importName)` (or the
namespace object for `import * as`).  The result is found / ambiguous / no-match and never "cycle". -/
theorem import_binds_to_spec_binding (t : ExportMatch.Table) (k : Bool) (hwf : WF t) (hesm : EsmOnly t)
    (hnc : NoReexportCycle (toSpec t)) (hlink : ReexportsLink (toSpec t))
    (s : Nat) (f : File) (ni : NamedImport) (hf : t[s]? = some f) (hi : findImport f ni.ref = some ni) :
    ∃ rs R tg, allResolved t = some rs ∧ matchImport ⟨t, rs, k⟩ s ni.ref = some R ∧ ni.target = some tg ∧
      resolveImport (toSpec t) ⟨tg, importNameOf ni, ni.ref⟩ = some (resolutionOf t R) ∧
      (R.kind = .normal ∨ R.kind = .ambiguous ∨ R = {}) := by
  obtain ⟨rs, hrs⟩ := allResolved_some hwf
  have H : Hyps t rs := ⟨hwf, hesm, hrs, hnc, hlink⟩
  obtain ⟨R, hR, hnone, hbind, hamb⟩ := matchImport_spec H k hf hi
  have hfm := List.mem_of_getElem? hf
  have hnim := (findImport_mem hi).1
  cases htg : ni.target with
  | none => exact absurd htg (hesm.targets f hfm ni hnim)
  | some tg =>
    have htlt : tg < t.length := hwf.targets f hfm ni hnim tg htg
    refine ⟨rs, R, tg, hrs, hR, rfl, ?_⟩
    by_cases hs : ni.isStar = true
    · -- import * as ns
      have hp : Pointed t ni ⟨tg, .namespace⟩ := by simp [Pointed, htg, hs]
      have hRb := hbind _ hp (fun b' hb' => by simpa [Pointed, htg, hs] using hb')
      have hg : GoodBinding t ⟨tg, .namespace⟩ :=
        ⟨t[tg], List.getElem?_eq_getElem htlt, fun r hr => by cases hr⟩
      refine ⟨?_, Or.inl (by rw [(noLoc_fields hRb).1]; exact normalOf_kind _ _)⟩
      rw [← resolutionOf_noLoc, hRb]
      simp [resolveImport, importNameOf, hs, toSpec_length, htlt, resolutionOf_normalOf hg]
    · have hs' : ni.isStar = false := by simpa using hs
      have hpointed : ∀ b, Pointed t ni b ↔ Reaches (toSpec t) (tg, ni.alias) b := by
        intro b; simp [Pointed, htg, hs']
      obtain ⟨r, hr, hrnull, hrbind, hramb⟩ :=
        resolveExport_spec (toSpec_wellFormed hwf) (by rw [toSpec_length]; exact htlt) ni.alias
      simp only [resolveImport, importNameOf, hs', Bool.false_eq_true, if_false, hr, Option.some.injEq]
      cases r with
      | null =>
        have := hnone (fun b hb => hrnull rfl b ((hpointed b).1 hb))
        subst this
        exact ⟨by simp [resolutionOf], Or.inr (Or.inr rfl)⟩
      | binding b =>
        obtain ⟨hb, hu⟩ := hrbind b rfl
        have hRb := hbind b ((hpointed b).2 hb) (fun b' hb' => hu b' ((hpointed b').1 hb'))
        refine ⟨?_, Or.inl (by rw [(noLoc_fields hRb).1]; exact normalOf_kind _ _)⟩
        rw [← resolutionOf_noLoc, hRb, resolutionOf_normalOf (reaches_good hwf hb)]
      | ambiguous =>
        obtain ⟨b1, b2, h1, h2, hne⟩ := hramb rfl
        have hk := hamb b1 b2 ((hpointed b1).2 h1) ((hpointed b2).2 h2) hne
        exact ⟨by simp [resolutionOf, hk], Or.inr (Or.inl hk)⟩

/-- **`ResolvedExports` is `ResolveExport`.**  For every file `m` and EVERY name `a`, with `res` the file's
`ResolvedExports` after step 3 and `results` the outcome of step 4 for all imports:

* `ResolveExport(m, a)` is null  iff  `a` is not a key of `ResolvedExports`;
* it is ambiguous  iff  `a` is a key and step 5 removes it from `SortedAndFilteredExportAliases` (`keepAlias = false`);
* it is the binding `b`  iff  `a` is a key, step 5 keeps it, and the symbol the export is finally bound to
  (`finalRef`, the linker's `mainRef`: the entry's own symbol, or what `ImportsToBind` says if it is a re-exported import)
  is `b` (the namespace object if that symbol is the target file's `ExportsRef`).

The three cases are exhaustive and exclusive on both sides, so each "iff" follows. -/
theorem resolvedExports_eq_spec (t : ExportMatch.Table) (k : Bool) (hwf : WF t) (hesm : EsmOnly t)
    (hnc : NoReexportCycle (toSpec t)) (hlink : ReexportsLink (toSpec t)) (m : Nat) (hm : m < t.length) (a : ExportMatch.Name) :
    ∃ rs res results, allResolved t = some rs ∧ rs[m]? = some res ∧ matchAll ⟨t, rs, k⟩ = some results ∧
      match resolveExport (toSpec t) m a with
      | some .null => res.lookup a = none
      | some .ambiguous => ∃ ex, res.lookup a = some ex ∧ keepAlias results ex = false
      | some (.binding b) => ∃ ex, res.lookup a = some ex ∧ keepAlias results ex = true ∧
          bindingOf t (finalRef results ex.src ex.ref) = b
      | none => False := by
  obtain ⟨rs, hrs⟩ := allResolved_some hwf
  have H : Hyps t rs := ⟨hwf, hesm, hrs, hnc, hlink⟩
  obtain ⟨res, hres1, hres2⟩ := allResolved_get hrs hm
  obtain ⟨results, hresults⟩ := matchAll_some H k
  refine ⟨rs, res, results, hrs, hres1, hresults, ?_⟩
  exact resolvedExports_core H hm hres2 hresults a

/-- **The keys of `ResolvedExports` are `GetExportedNames`** (as sets), for every file of an ESM-only table — export-star
cycles, diamonds and shadowing included; no further hypothesis.  `addExportsForExportStar` terminates within its fuel
and never indexes out of range. -/
theorem resolvedExports_keys_eq_exportedNames (t : ExportMatch.Table) (hwf : WF t) (hesm : EsmOnly t) (m : Nat)
    (hm : m < t.length) :
    ∃ res names, resolvedExports t m = some res ∧ getExportedNames (toSpec t) m = some names ∧
      ∀ a, (res.lookup a).isSome ↔ a ∈ names := by
  obtain ⟨res, hres⟩ := resolvedExports_some hwf hm
  obtain ⟨names, hn, h⟩ := keys_iff_exported hwf hesm hm hres
  exact ⟨res, names, hres, hn, h⟩

/-- **Namespace shape.**  The aliases that survive step 5 (`SortedAndFilteredExportAliases`, before sorting) are exactly
the [[Exports]] of the module namespace object (GetModuleNamespace: the exported names whose resolution is a binding). -/
theorem export_aliases_eq_namespace_exports (t : ExportMatch.Table) (k : Bool) (hwf : WF t) (hesm : EsmOnly t)
    (hnc : NoReexportCycle (toSpec t)) (hlink : ReexportsLink (toSpec t)) (m : Nat)
    (hm : m < t.length) :
    ∃ rs res results L, allResolved t = some rs ∧ rs[m]? = some res ∧ matchAll ⟨t, rs, k⟩ = some results ∧
      namespaceExports (toSpec t) m = some L ∧ ∀ a, a ∈ filteredAliases results res ↔ a ∈ L := by
  obtain ⟨rs, hrs⟩ := allResolved_some hwf
  have H : Hyps t rs := ⟨hwf, hesm, hrs, hnc, hlink⟩
  obtain ⟨res, hres1, hres2⟩ := allResolved_get hrs hm
  obtain ⟨results, hresults⟩ := matchAll_some H k
  obtain ⟨names, hnames, hkeys⟩ := keys_iff_exported hwf hesm hm hres2
  have hm' : m < (toSpec t).length := by rw [toSpec_length]; exact hm
  obtain ⟨L, hL, hLmem⟩ := namespaceExports_spec hnames (fun n _ => by
    obtain ⟨r, hr, _⟩ := resolveExport_spec (toSpec_wellFormed hwf) hm' n
    exact ⟨r, hr⟩)
  refine ⟨rs, res, results, L, hrs, hres1, hresults, hL, ?_⟩
  intro a
  have hcore := resolvedExports_core H hm hres2 hresults a
  have hnodup := resolvedExports_keys hwf hres2
  rw [hLmem]
  simp only [filteredAliases, List.mem_map, List.mem_filter]
  constructor
  · rintro ⟨⟨a', ex⟩, ⟨hmem, hkeep⟩, rfl⟩
    have hl := (mem_iff_lookup hnodup a' ex).1 hmem
    refine ⟨(hkeys a').1 (by rw [hl]; rfl), ?_⟩
    simp only at hkeep hcore
    cases hr : resolveExport (toSpec t) m a' with
    | none => rw [hr] at hcore; exact absurd hcore id
    | some r =>
      rw [hr] at hcore
      cases r with
      | binding b => exact ⟨b, rfl⟩
      | null => simp only at hcore; rw [hl] at hcore; cases hcore
      | ambiguous =>
        obtain ⟨ex', hl', hk'⟩ := hcore
        rw [hl] at hl'; cases hl'
        rw [hkeep] at hk'; cases hk'
  · rintro ⟨_, b, hb⟩
    rw [hb] at hcore
    obtain ⟨ex, hl, hkeep, _⟩ := hcore
    exact ⟨(a, ex), ⟨(mem_iff_lookup hnodup a ex).2 hl, hkeep⟩, rfl⟩

/-- **The model is total.**  On every table whose indices are in range — CommonJS files, files with dynamic exports,
externals, TypeScript files, re-export cycles of any shape included — steps 3 and 4 of the model produce a result:
neither `addExportsForExportStar` nor `matchImportWithExport` indexes out of range, and the fuel they are run with
(`t.length + 1` resp. `matchFuel t`, the number of different trackers + 1) is never exhausted. -/
theorem linker_model_total (t : ExportMatch.Table) (k : Bool) (hwf : WF t) :
    ∃ rs results, allResolved t = some rs ∧ matchAll ⟨t, rs, k⟩ = some results := by
  obtain ⟨rs, hrs⟩ := allResolved_some hwf
  obtain ⟨results, hres⟩ := matchAll_total hwf hrs k
  exact ⟨rs, results, hrs, hres⟩

/-! ## Non-vacuity: a table that meets every hypothesis

```
m0: import {c as i1} from "./m1"; import * as i2 from "./m1"; import {a as i3} from "./m1"; export {own as e} from "./m1"
m1: export * from "./m2"; export * from "./m3"; export let own
m2: export * from "./m1"; export let a; export {b as c} from "./m3"        (star cycle m1 ↔ m2)
m3: export let a, b; export default …
```
`a` reaches m1 from m2 and from m3 (two different bindings: ambiguous), `c` is a renamed re-export of m3's `b`,
`own` is m1's own export and is seen again through the star cycle, `default` never passes an export star. -/

def exTable : ExportMatch.Table := [
  ⟨.esm, false, false, 0, [⟨"e", 9, 50⟩], [],
    [⟨1, some 1, "c", false, some 7, false⟩, ⟨2, some 1, "", true, none, false⟩, ⟨3, some 1, "a", false, some 7, false⟩,
     ⟨9, some 1, "own", false, some 7, true⟩]⟩,
  ⟨.esm, false, false, 0, [⟨"own", 1, 10⟩], [some 2, some 3], []⟩,
  ⟨.esm, false, false, 0, [⟨"a", 1, 20⟩, ⟨"c", 2, 30⟩], [some 1], [⟨2, some 3, "b", false, some 5, true⟩]⟩,
  ⟨.esm, false, false, 0, [⟨"a", 1, 10⟩, ⟨"b", 2, 20⟩, ⟨"default", 3, 30⟩], [], []⟩ ]

def exLevel : Nat → Nat
  | 0 => 2 | 1 => 1 | 2 => 1 | _ => 0

theorem exTable_wf : WF exTable := by constructor <;> simp [exTable] <;> decide
theorem exTable_esm : EsmOnly exTable := by constructor <;> simp [exTable]
theorem exTable_noCycle : NoReexportCycle (toSpec exTable) := noReexportCycle_of_level exLevel (by decide) (by decide)
theorem exTable_link : ReexportsLink (toSpec exTable) := reexportsLink_of_check (by decide)

/-- the theorems apply to `exTable`, and what they say there is not trivial: `c` is bound to m3's `b` (symbol 2),
`a` is ambiguous, the namespace import names m1's namespace object, on both sides -/
example :
    (∃ rs, allResolved exTable = some rs ∧
      (matchImport ⟨exTable, rs, true⟩ 0 1).map (resolutionOf exTable) = some (.binding ⟨3, .name 2⟩) ∧
      (matchImport ⟨exTable, rs, true⟩ 0 2).map (resolutionOf exTable) = some (.binding ⟨1, .namespace⟩) ∧
      (matchImport ⟨exTable, rs, true⟩ 0 3).map (resolutionOf exTable) = some .ambiguous) ∧
    resolveExport (toSpec exTable) 1 "c" = some (.binding ⟨3, .name 2⟩) ∧
    resolveExport (toSpec exTable) 1 "a" = some .ambiguous ∧
    resolveExport (toSpec exTable) 1 "default" = some .null ∧
    getExportedNames (toSpec exTable) 1 = some ["own", "a", "c", "b"] ∧
    namespaceExports (toSpec exTable) 1 = some ["own", "c", "b"] := by
  refine ⟨⟨_, rfl, ?_⟩, ?_⟩ <;> decide

example := import_binds_to_spec_binding exTable true exTable_wf exTable_esm exTable_noCycle exTable_link
example := resolvedExports_eq_spec exTable true exTable_wf exTable_esm exTable_noCycle exTable_link
example := export_aliases_eq_namespace_exports exTable true exTable_wf exTable_esm exTable_noCycle
  exTable_link
example := resolvedExports_keys_eq_exportedNames exTable exTable_wf exTable_esm
example := linker_model_total exTable true exTable_wf

/-! ## Two `export *` paths to ONE binding through different export clauses

`d: let x; export {x as a, x as b}`, `b: export {a as n} from d`, `c: export {b as n} from d`, `a: export * from b, c`,
`import {n} from a`.  Before the fix of `matchImportWithExport` (commit "two 'export *' paths to the same binding through
different export clauses are not ambiguous") the final comparison also compared the locations of the two export clauses
(24 and 32 below) and reported `n` as ambiguous; now the table meets every hypothesis and both sides bind `n` to `x`. -/
def twoClausesTable : ExportMatch.Table := [
  ⟨.esm, false, false, 0, [⟨"e", 5, 9⟩], [], [⟨1, some 1, "n", false, some 7, false⟩]⟩,
  ⟨.esm, false, false, 0, [], [some 2, some 3], []⟩,
  ⟨.esm, false, false, 0, [⟨"n", 1, 8⟩], [], [⟨1, some 4, "a", false, some 5, true⟩]⟩,
  ⟨.esm, false, false, 0, [⟨"n", 1, 8⟩], [], [⟨1, some 4, "b", false, some 5, true⟩]⟩,
  ⟨.esm, false, false, 0, [⟨"a", 1, 24⟩, ⟨"b", 1, 32⟩], [], []⟩ ]

def twoClausesLevel : Nat → Nat
  | 0 => 3 | 1 => 2 | 2 => 1 | 3 => 1 | _ => 0

theorem twoClausesTable_wf : WF twoClausesTable := by constructor <;> simp [twoClausesTable] <;> decide
theorem twoClausesTable_esm : EsmOnly twoClausesTable := by constructor <;> simp [twoClausesTable]
theorem twoClausesTable_noCycle : NoReexportCycle (toSpec twoClausesTable) :=
  noReexportCycle_of_level twoClausesLevel (by decide) (by decide)
theorem twoClausesTable_link : ReexportsLink (toSpec twoClausesTable) := reexportsLink_of_check (by decide)

example : (∃ rs, allResolved twoClausesTable = some rs ∧
      (matchImport ⟨twoClausesTable, rs, true⟩ 0 1).map (resolutionOf twoClausesTable) = some (.binding ⟨4, .name 1⟩)) ∧
    resolveExport (toSpec twoClausesTable) 1 "n" = some (.binding ⟨4, .name 1⟩) := by
  refine ⟨⟨_, rfl, ?_⟩, ?_⟩ <;> decide

example := import_binds_to_spec_binding twoClausesTable true twoClausesTable_wf twoClausesTable_esm
  twoClausesTable_noCycle twoClausesTable_link

/-! ## Every remaining hypothesis is needed: the model (= the real linker, see the correspondence kernel) disagrees
with ECMA-262 without it -/

/-! `NoReexportCycle` — a re-export cycle entered through an export star next to a real binding
(`s: export {a as e} from t`, `t: export * from s2, s3`, `s2: export {e as a} from s`, `s3: export let a`,
`import {e} from s`): the linker follows the first star source round the cycle and reports an error, the specification
(and Node) skips the circular path and binds `e` to s3's `a`. -/
def cycleCounterexample : ExportMatch.Table := [
  ⟨.esm, false, false, 0, [⟨"x", 5, 9⟩], [], [⟨1, some 1, "e", false, some 7, false⟩]⟩,
  ⟨.esm, false, false, 0, [⟨"e", 1, 8⟩], [], [⟨1, some 2, "a", false, some 5, true⟩]⟩,
  ⟨.esm, false, false, 0, [], [some 3, some 4], []⟩,
  ⟨.esm, false, false, 0, [⟨"a", 1, 8⟩], [], [⟨1, some 1, "e", false, some 5, true⟩]⟩,
  ⟨.esm, false, false, 0, [⟨"a", 1, 11⟩], [], []⟩ ]

example : (∃ rs, allResolved cycleCounterexample = some rs ∧
      (matchImport ⟨cycleCounterexample, rs, true⟩ 0 1).map (·.kind) = some .ambiguous) ∧
    resolveExport (toSpec cycleCounterexample) 1 "e" = some (.binding ⟨4, .name 1⟩) := by
  refine ⟨⟨_, rfl, ?_⟩, ?_⟩ <;> decide

/-! `ReexportsLink` — a star source whose re-export does not resolve next to a real binding
(`b: export {zz as n} from d` with no `zz` in d, `c: export let n`, `a: export * from b, c`): the specification resolves
`a.n` to c's binding (and rejects module b on its own), the linker reports `n` as ambiguous. -/
def linkCounterexample : ExportMatch.Table := [
  ⟨.esm, false, false, 0, [⟨"x", 5, 9⟩], [], [⟨1, some 1, "n", false, some 7, false⟩]⟩,
  ⟨.esm, false, false, 0, [], [some 2, some 3], []⟩,
  ⟨.esm, false, false, 0, [⟨"n", 1, 8⟩], [], [⟨1, some 4, "zz", false, some 5, true⟩]⟩,
  ⟨.esm, false, false, 0, [⟨"n", 1, 11⟩], [], []⟩,
  ⟨.esm, false, false, 0, [⟨"other", 1, 11⟩], [], []⟩ ]

example : (∃ rs, allResolved linkCounterexample = some rs ∧
      (matchImport ⟨linkCounterexample, rs, true⟩ 0 1).map (·.kind) = some .ambiguous) ∧
    resolveExport (toSpec linkCounterexample) 1 "n" = some (.binding ⟨3, .name 1⟩) := by
  refine ⟨⟨_, rfl, ?_⟩, ?_⟩ <;> decide

/-! Totality also covers what the other theorems exclude: a CommonJS file, an external `export *`, an import from an
external module and a pure re-export cycle (`m1: export {x as y} from m2`, `m2: export {y as x} from m1`), where the
tracker answers Namespace, Ignore and Cycle. -/
def mixedTable : ExportMatch.Table := [
  ⟨.esm, true, false, 0, [], [],
    [⟨1, some 1, "y", false, some 7, false⟩, ⟨2, some 3, "q", false, some 8, false⟩, ⟨3, none, "z", false, some 9, false⟩]⟩,
  ⟨.dyn, false, false, 0, [⟨"y", 1, 8⟩], [none, some 3], [⟨1, some 2, "x", false, some 5, true⟩]⟩,
  ⟨.esm, false, false, 0, [⟨"x", 1, 8⟩], [], [⟨1, some 1, "y", false, some 5, true⟩]⟩,
  ⟨.cjs, false, false, 0, [], [], []⟩ ]

theorem mixedTable_wf : WF mixedTable := by constructor <;> simp [mixedTable] <;> decide

example : ∃ rs, allResolved mixedTable = some rs ∧
    (matchImport ⟨mixedTable, rs, false⟩ 0 1).map (·.kind) = some .cycle ∧
    (matchImport ⟨mixedTable, rs, false⟩ 0 2).map (·.kind) = some .namespace ∧
    (matchImport ⟨mixedTable, rs, true⟩ 0 3).map (·.kind) = some .ignore := by
  refine ⟨_, rfl, ?_⟩; decide

example := linker_model_total mixedTable false mixedTable_wf

end EsbuildModel.C02ExportMatch
