import EsbuildModel.Lemmas.IdentLexSound
import EsbuildModel.Lemmas.IdentLexTables
import EsbuildModel.Props.C13IdentPrint
/-!
C01 / C13 — SOUNDNESS of the identifier arms of `js_lexer.Next` (model `IdentLex.next`) against ECMA-262 12.7.

-- OPEN (FALSE of the code, recorded defect): the full statement
--   `next T a src = .tok k n name raw false → k ≠ .priv → IsIdentifierName U (src.take n) name`
-- does not hold: `𝒜` (two escapes that denote the two surrogate halves of U+1D49C) is returned as the
-- identifier `𝒜` without an error, because `helpers.UTF16ToString` joins the two decoded units before `IsIdentifier` looks at
-- them; 12.7.1.1 makes each escape a Syntax Error of its own (a surrogate is not ID_Start / ID_Continue).  See
-- `surrogate_pair_escapes_accepted` below; the theorem is proved under the hypothesis that no escape of the token denotes a
-- surrogate code point.
-/
namespace EsbuildModel.Props.C01IdentSound
open EsbuildModel.IdentLex
open EsbuildModel.Spec.JsIdentifier
open EsbuildModel.Props.C13IdentPrint (chars_cp)

/-- (1) SOUNDNESS (partial: see the note above).  A token of the `'a'…'Z'`, `\` or `default` arm that was returned WITHOUT the
"Invalid identifier" error covers `n` characters that parse (grammar of 12.7: any mix of characters and well-formed
`\uXXXX` / `\u{…}` with a value ≤ 0x10FFFF) into elements `es` with IdentifierCodePoints `cps`; and when none of these code
points is a surrogate, the reported name IS `cps` (so its StringValue is `stringValue cps`) and the covered text is a valid
IdentifierName of the specification (start / part characters, early errors of 12.7.1.1 included).  The keyword token is
only returned for a name written without escapes. -/
theorem lex_identifier_value_partial {T : Tables} {U : UnicodeProps} (A : Agree T U) (atFileStart : Bool) (src : List Nat)
    (hsrc : ∀ c ∈ src, c ≤ 0x10FFFF) {k : Kind} {n : Nat} {name : List Nat} {raw : Bool}
    (h : next T atFileStart src = .tok k n name raw false) (hk : k ≠ .priv) :
    ∃ (es : List Elem) (cps : List Nat), src.take n = es.flatMap Elem.text ∧ es.map Elem.cp = cps.map some ∧
      ((∀ c ∈ cps, isSurrogate c = false) → name = cps ∧ IsIdentifierName U (src.take n) name) ∧
      (k = .keyword → raw = true ∧ name = src.take n ∧ isKeyword name = true) ∧
      (k = .escapedKeyword → raw = false ∧ isKeyword name = true) := by
  obtain ⟨pre, es, htake, hes, hpre, hcase⟩ := next_inv T (T_cont_127 A) atFileStart src h hk
  have hsub : ∀ c ∈ src.take n, c ≤ 0x10FFFF := fun c hc => hsrc c (List.mem_of_mem_take hc)
  rcases hcase with ⟨hraw, hes0, hne, hname, _, hkind⟩ | ⟨hraw, cps, hcp, hname, hinv, hkind⟩
  · -- written without escapes
    subst hes0; subst hname
    rcases hpre with h0 | ⟨c, r, rfl, hst, hr⟩
    · exact absurd h0 hne
    · have h92 : ∀ x ∈ c :: r, x ≠ 92 := by
        intro x hx
        rcases List.mem_cons.1 hx with rfl | hx
        · exact (not_92_13_of_start hst).1
        · exact (not_92_13_of_cont (hr x hx)).1
      have htext : src.take n = ((c :: r).map Elem.char).flatMap Elem.text := by
        rw [htake]; simp only [textOf, List.flatMap_nil, List.append_nil]
        exact (textOf_chars (c :: r)).symm
      refine ⟨(c :: r).map Elem.char, c :: r, htext, chars_cp _ h92, ?_, ?_, ?_⟩
      · intro _
        refine ⟨rfl, (c :: r).map Elem.char, htext, chars_cp _ h92, c, r, rfl, ?_, ?_⟩
        · rw [← isIdStart_eq A]; exact hst
        · intro d hd; rw [← isIdCont_eq A]; exact hr d hd
      · intro hkw
        refine ⟨hraw, ?_, ?_⟩
        · rw [htake]; simp [textOf]
        · rw [hkind] at hkw
          cases hk' : isKeyword (c :: r) with
          | true => rfl
          | false => rw [hk'] at hkw; simp at hkw
      · intro hkw; rw [hkind] at hkw; split at hkw <;> cases hkw
  · -- written with at least one escape
    have htext : src.take n = (pre.map Elem.char ++ es).flatMap Elem.text := by
      rw [htake]; exact (textOf_chars_append pre es).symm
    refine ⟨pre.map Elem.char ++ es, cps, htext, hcp, ?_, ?_, ?_⟩
    · intro hns
      have hle : ∀ v ∈ cps, v ≤ 0x10FFFF :=
        cps_le_of_valid (forall₂_of_map_eq hcp) (by
          intro c hc
          have : c ∈ src.take n := by rw [htext]; exact hc
          exact hsub c this)
      have hsc : Scalars cps := fun v hv => ⟨hle v hv, hns v hv⟩
      have hn : name = cps := by rw [hname, joinUnits_flatMap cps hsc]
      refine ⟨hn, ?_⟩
      simp only [Bool.false_eq_true, if_false] at hinv
      rw [hn, rangeRunes_scalars cps hns] at hinv
      have hid : isIdentifierRunes T cps = true := by
        cases hh : isIdentifierRunes T cps with
        | true => rfl
        | false => rw [hh] at hinv; cases hinv
      obtain ⟨c0, tail, hc, hs, ht⟩ := (isIdentifierWith_iff _ _ _).1 hid
      rw [hn]
      refine ⟨pre.map Elem.char ++ es, htext, hcp, c0, tail, hc, ?_, ?_⟩
      · rw [← isIdStart_eq A]; exact hs
      · intro d hd; rw [← isIdCont_eq A]; exact ht d hd
    · intro hkw; rw [hkind] at hkw; simp only [Bool.false_eq_true, if_false] at hkw; split at hkw <;> cases hkw
    · intro hkw
      rw [hkind] at hkw
      simp only [Bool.false_eq_true, if_false] at hkw
      refine ⟨hraw, ?_⟩
      cases hk' : isKeyword name with
      | true => rfl
      | false => rw [hk'] at hkw; simp at hkw

/-- non-vacuity of the theorem: `aé` is such a token … -/
example : next genTables false [97, 92, 117, 48, 48, 69, 57, 59] = .tok .ident 7 [97, 0xE9] false false := by decide +kernel

/-- … and the recorded DEFECT (run on the real lexer by kernel `identlex`, branch `esc:surrogate-pair-*`): the twelve characters
`𝒜` come back as the one-character identifier U+1D49C without an error, although each escape denotes a surrogate code
point, which is neither ID_Start nor ID_Continue (V8: "SyntaxError: Invalid or unexpected token"). -/
theorem surrogate_pair_escapes_accepted :
    next genTables true [92, 117, 68, 56, 51, 53, 92, 117, 68, 67, 57, 67] = .tok .ident 12 [0x1D49C] false false ∧
    startChar genU 0xD835 = false ∧ partChar genU 0xDC9C = false := by decide +kernel

end EsbuildModel.Props.C01IdentSound
