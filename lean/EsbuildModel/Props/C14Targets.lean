import EsbuildModel.Lemmas.Targets
import EsbuildModel.Lemmas.TargetText
/-! # C14 — from the option TEXT to the feature set: property theorems (work package `targets`)

Tables: `Gen.CompatTable` (js_table.go) and `Gen.TargetTables` (css_table.go, the name tables, `validTargets`, the ES switch,
the version regex), all regenerated from the source on every run. Specs: `Spec.VersionLine` (semver precedence of
major.minor.patch with a pre-release before its release) and `Spec.TargetText` (how a version is spelled). -/
namespace EsbuildModel.C14Targets
open EsbuildModel.Targets EsbuildModel.Spec.VersionLine EsbuildModel.Spec.TargetText
open EsbuildModel.Compat (V Range compareVersions isVersionSupported)

/-! ## (1) the version comparison -/

/-- `version_order_total`: `compareVersions(a, b)` is the three-way comparison of the table version `a` (a release) with the
user's version `b` on the version line: missing components of `b` count as 0, components are compared numerically in the
order major, minor, patch, and ANY non-empty pre-release text puts `b` immediately before its release (the content of the
text is never looked at here). The version line is a strict total order. -/
theorem version_order_total (a : V) (b : Compat.Semver) :
    (compareVersions a b < 0 ↔ (ofTable a).lt (ofUser b)) ∧
    (compareVersions a b = 0 ↔ ofTable a = ofUser b) ∧
    (compareVersions a b > 0 ↔ (ofUser b).lt (ofTable a)) :=
  ⟨compareVersions_lt a b, compareVersions_eq a b, compareVersions_gt a b⟩

theorem version_line_strict_total :
    (∀ p : Pt, ¬ p.lt p) ∧ (∀ p q r : Pt, p.lt q → q.lt r → p.lt r) ∧ (∀ p q : Pt, p.lt q ∨ p = q ∨ q.lt p) :=
  ⟨Pt.lt_irrefl, fun _ _ _ => Pt.lt_trans, Pt.trichotomy⟩

/-- non-vacuity: "1.0.0" > "1.0.0-alpha" (the comment in the source), node 12.19 < 12.20.0, "13" = 13.0.0 -/
example : compareVersions (1, 0, 0) { parts := [1, 0, 0], pre := true } = 1 := by decide
example : compareVersions (12, 20, 0) { parts := [12, 19], pre := false } > 0 := by decide
example : compareVersions (13, 0, 0) { parts := [13], pre := false } = 0 := by decide

/-- `CompareSemver` (used only to pick among duplicate engines) orders by the same version line: "less" implies not above,
"not less" implies not below — whatever the pre-release texts are. -/
theorem compare_semver_respects_line (a b : Sv) (ha : a.parts.length ≤ 3) (hb : b.parts.length ≤ 3) :
    (compareSemver a b < 0 → a.pt.le b.pt) ∧ (¬ compareSemver a b < 0 → b.pt.le a.pt) :=
  ⟨compareSemver_lt a b ha hb, compareSemver_ge a b ha hb⟩

example : compareSemver { parts := [1], pre := ['-', 'r', 'c', '.', '9'] } { parts := [1, 0, 0], pre := ['-', 'r', 'c', '.', '1', '0'] } < 0 := by
  simp [compareSemver, cmpParts, trimDash]
  rw [cmpPre]; simp [splitOff]
  rw [cmpPre]; simp [splitOff, partNum, atoi, digitsVal, maxInt]
example : compareSemver { parts := [1, 0], pre := [] } { parts := [1], pre := ['-', 'a'] } > 0 := by
  simp [compareSemver, cmpParts]

/-! ## (2) ranges and monotonicity, engine by engine -/

/-- the set of versions that support a feature is what the ranges say: start inclusive, end exclusive, `0.0.0` = no end -/
theorem range_membership (ranges : List Range) (v : Compat.Semver) :
    isVersionSupported ranges v = true ↔
      ∃ r ∈ ranges, inRange (ofTable r.1) (if r.2 = (0, 0, 0) then none else some (ofTable r.2)) (ofUser v) :=
  isVersionSupported_iff ranges v

example : isVersionSupported [((12, 20, 0), (13, 0, 0)), ((13, 2, 0), (0, 0, 0))] { parts := [12, 22], pre := false } = true := by decide
example : isVersionSupported [((12, 20, 0), (13, 0, 0)), ((13, 2, 0), (0, 0, 0))] { parts := [13, 1], pre := false } = false := by decide

/-- THE REVIEWED EXCEPTION LIST: the rows of js_table.go that are not one open-ended range (bugs fixed and reintroduced,
features removed again). Any change of the table that adds or removes such a row breaks this theorem. -/
theorem js_closed_rows :
    closedRows Gen.compatTable =
      [("DynamicImport", "Node"), ("ImportAssertions", "Node"), ("ImportAttributes", "Node"),
       ("NodeColonPrefixImport", "Node"), ("NodeColonPrefixRequire", "Node")] := by decide +kernel

/-- css_table.go has no such row -/
theorem css_closed_rows : closedRows Gen.cssTable = [] := by decide +kernel

/-- `engine_monotone`: for every feature and engine outside the exception list, a feature unsupported at a version is
unsupported at every lower version (raising the version never removes support); an engine without a row never supports. -/
theorem engine_monotone (f e : String) (hx : (f, e) ∉ closedRows Gen.compatTable) (v v' : Sv) (hle : v.pt.le v'.pt)
    (h : f ∈ jsUnsupported [(e, v')]) : f ∈ jsUnsupported [(e, v)] := by
  simp only [jsUnsupported, Compat.unsupported, List.mem_filter, Bool.and_eq_true] at h ⊢
  refine ⟨h.1, h.2.1, ?_⟩
  cases hl : Gen.compatTable.lookup f with
  | none => have := h.2.2; rw [hl] at this; simp at this
  | some es =>
    have h3 := h.2.2; rw [hl] at h3
    exact unsupported_antitone Gen.compatTable f e es hl hx v v' hle h3

theorem css_engine_monotone (f e : String) (v v' : Sv) (hle : v.pt.le v'.pt)
    (h : f ∈ cssUnsupported [(e, v')]) : f ∈ cssUnsupported [(e, v)] := by
  simp only [cssUnsupported, List.mem_filter, Bool.and_eq_true] at h ⊢
  refine ⟨h.1, h.2.1, ?_⟩
  cases hl : Gen.cssTable.lookup f with
  | none => have := h.2.2; rw [hl] at this; simp at this
  | some es =>
    have h3 := h.2.2; rw [hl] at h3
    cases hb : isBrowser e with
    | false => simp [toCompat, hb, Compat.featureUnsupported] at h3
    | true =>
      have hx : (f, e) ∉ closedRows Gen.cssTable := by rw [css_closed_rows]; simp
      simp only [toCompat, List.map_cons, List.map_nil, List.filter_cons, hb, if_true, List.filter_nil] at h3 ⊢
      exact unsupported_antitone Gen.cssTable f e es hl hx v v' hle h3

/-- non-vacuity: optional chaining at chrome 90 (needs 91) and hence at chrome 80; `Nesting` at safari 17.1 (needs 17.2) -/
example : "OptionalChain" ∈ jsUnsupported [("Chrome", { parts := [90], pre := [] })] := by decide +kernel
example : ({ parts := [80], pre := [] } : Sv).pt.le ({ parts := [90], pre := [] } : Sv).pt := by decide
example : "Nesting" ∈ cssUnsupported [("Safari", { parts := [17, 1], pre := [] })] := by decide +kernel
/-- the exception is real: dynamic import is usable at node 12.20 and NOT at the higher node 13.1 -/
example : "DynamicImport" ∉ jsUnsupported [("Node", { parts := [12, 20], pre := [] })] ∧
    "DynamicImport" ∈ jsUnsupported [("Node", { parts := [13, 1], pre := [] })] := by decide +kernel

/-! ## (3) several engines -/

/-- `multi_engine_is_intersection`: the unsupported set for a constraint map is the union of the per-constraint unsupported
sets — a feature is usable iff every constrained engine (and the ES target) supports it. -/
theorem multi_engine_is_intersection (cs : Constraints) (f : String) :
    f ∈ jsUnsupported cs ↔ ∃ c ∈ cs, f ∈ jsUnsupported [c] := jsUnsupported_iff cs f

theorem css_multi_engine_is_intersection (cs : Constraints) (f : String) :
    f ∈ cssUnsupported cs ↔ ∃ c ∈ cs, f ∈ cssUnsupported [c] := cssUnsupported_iff cs f

/-- `--target=es2020`, node, deno, hermes, rhino do not affect CSS -/
theorem css_ignores_non_browsers (c : String × Sv) (cs : Constraints) (h : c.1 ∉ Gen.browserEngines) :
    cssUnsupported (c :: cs) = cssUnsupported cs :=
  cssUnsupported_skip c cs (by simpa [isBrowser] using h)

example : "Bigint" ∈ jsUnsupported [("Chrome", { parts := [100], pre := [] }), ("Safari", { parts := [13], pre := [] })] ∧
    "Bigint" ∉ jsUnsupported [("Chrome", { parts := [100], pre := [] })] := by decide +kernel
example : "ES" ∉ Gen.browserEngines ∧ "Node" ∉ Gen.browserEngines := by decide

/-- DUPLICATE ENGINES (`--target=chrome58,chrome60`, or `engines` naming one engine twice): for every engine the map keeps
one of the versions written for it (or the ES version of `target`), and that one is a LOWEST on the version line. `Cand`
= "is the initial entry or a well-formed entry of the list for this engine". -/
theorem duplicate_engine_keeps_lowest (target : Nat) (engines : List (Nat × Targets.Text)) (tname : String) (cs : Constraints)
    (errs : List Targets.Text) (h : constraintsOf target engines = some (tname, .ok cs errs)) (n : String) :
    ∃ cs0 : Constraints,
      (cs0 = [] ∨ ∃ parts, Gen.targetES.lookup tname = some parts ∧ parts ≠ [] ∧ cs0 = [("ES", { parts := parts, pre := [] })]) ∧
      (∀ w, Cand cs0 engines n w → ∃ v, cs.lookup n = some v ∧ Cand cs0 engines n v ∧ v.pt.le w.pt) ∧
      (∀ v, cs.lookup n = some v → Cand cs0 engines n v) := constraintsOf_min target engines tname cs errs h n

/-- non-vacuity, and the consequence for the rows of the exception list: `node12.20,node13.1` keeps node 12.20, so dynamic
import counts as supported although node 13.1 (which is in the list) does not support it — for duplicates of ONE engine the
result is the feature set of the lowest version, not the intersection. (Run on the real code: see the report.) -/
example : constraintsOf 0 [(7, "12.20".toList), (7, "13.1".toList)] =
    some ("DefaultTarget", .ok [("Node", { parts := [12, 20], pre := [] })] []) := by
  simp [constraintsOf, engineLoop, parseVersion, matchVersion, optDotDigits, atoi, digitsVal, maxInt, convertEngineName,
    addConstraint, setC, compareSemver, cmpParts, List.lookup, Gen.apiTargets, Gen.targetES, Gen.apiEngineNames, Gen.apiEngineToCompat]

/-! ## (5) prefixes -/

/-- a prefix is emitted for a property iff some constrained browser has an item with that prefix that is either always
prefixed or whose first unprefixed version lies above the constraint -/
theorem prefix_emitted_iff (items : List (String × String × V)) (cs : Constraints) (p : String) :
    p ∈ prefixesOf items cs ↔ p ∈ Gen.cssPrefixBits ∧ ∃ c ∈ cs, c.1 ∈ Gen.browserEngines ∧
      ∃ it ∈ items, it.2.1 = p ∧ it.1 = c.1 ∧ (it.2.2 = (0, 0, 0) ∨ c.2.pt.lt (ofTable it.2.2)) := by
  rw [mem_prefixesOf]; simp [isBrowser]

/-- raising the version of an engine never adds a prefix -/
theorem prefix_antitone (items : List (String × String × V)) (e : String) (v v' : Sv) (hle : v.pt.le v'.pt) (p : String)
    (h : p ∈ prefixesOf items [(e, v')]) : p ∈ prefixesOf items [(e, v)] := by
  rw [mem_prefixesOf] at h ⊢
  obtain ⟨hp, c, hc, hb, it, hit, h1, h2, h3⟩ := h
  have : c = (e, v') := by simpa using hc
  subst this
  refine ⟨hp, (e, v), by simp, hb, it, hit, h1, h2, ?_⟩
  rcases h3 with h3 | h3
  · exact Or.inl h3
  · exact Or.inr (by
      rcases hle with hlt | heq
      · exact Pt.lt_trans hlt h3
      · simp only at heq ⊢; rw [heq]; exact h3)

/-- the entries of `CSSPrefixData` are exactly the properties of the table with a non-empty prefix set -/
theorem prefix_data_entries (cs : Constraints) (prop : String) (ps : List String) :
    (prop, ps) ∈ cssPrefixData cs ↔ ps ≠ [] ∧ ∃ items, (prop, items) ∈ Gen.cssPrefixTable ∧ ps = prefixesOf items cs := by
  simp only [cssPrefixData, List.mem_filter, List.mem_map]
  constructor
  · rintro ⟨⟨⟨p, items⟩, hm, heq⟩, hne⟩
    simp only [Prod.mk.injEq] at heq
    obtain ⟨h1, h2⟩ := heq
    subst h1; subst h2
    exact ⟨by intro h; simp [h] at hne, items, hm, rfl⟩
  · rintro ⟨hne, items, hm, rfl⟩
    exact ⟨⟨(prop, items), hm, rfl⟩, by cases h : prefixesOf items cs <;> simp_all⟩

example : (cssPrefixData [("Safari", { parts := [15, 3], pre := [] })]).lookup "DAppearance" = some ["WebkitPrefix"] := by decide +kernel
example : (cssPrefixData [("Safari", { parts := [15, 4], pre := [] })]).lookup "DAppearance" = none := by decide +kernel

/-! ## (4) the text of a target list -/

/-- the regex the model transcribes is the one in the source now -/
theorem version_regex_is_modelled : Gen.versionRegexText = versionRegexText := by decide

/-- `versionRegex` accepts EXACTLY the well-formed spellings (X, X.Y, X.Y.Z with an optional `-id.id` tag) … -/
theorem version_text_accepted_iff (t : Targets.Text) :
    (∃ g, matchVersion t = some g) ↔ ∃ s : Spelling, s.WellFormed ∧ s.text = t := by
  constructor
  · rintro ⟨⟨g1, g2, g3, g4⟩, h⟩
    obtain ⟨s, hw, ht, _⟩ := matchVersion_sound t g1 g2 g3 g4 h
    exact ⟨s, hw, ht⟩
  · rintro ⟨s, hw, rfl⟩
    exact ⟨_, matchVersion_complete s hw⟩

/-- … and the constraint built from a well-formed spelling has exactly the numbers it spells: X always; Y and Z too unless
one does not fit a 64-bit `int`, in which case the list silently ends there (`chrome1.99999999999999999999.5` = chrome 1);
an X that does not fit is refused ("Invalid version"); the pre-release text is kept verbatim. -/
theorem version_parts (s : Spelling) (h : s.WellFormed) :
    parseVersion s.text =
      if value s.x ≤ maxInt then some { parts := partsOf s, pre := s.pre.getD [] } else none :=
  parseVersion_of_spelling s h

/-- a refused text is either malformed or has an X beyond the `int` range -/
theorem version_refused_iff (t : Targets.Text) :
    parseVersion t = none ↔ (¬ ∃ s : Spelling, s.WellFormed ∧ s.text = t) ∨ ∃ s : Spelling, s.WellFormed ∧ s.text = t ∧ ¬ value s.x ≤ maxInt := by
  constructor
  · intro h
    by_cases hw : ∃ s : Spelling, s.WellFormed ∧ s.text = t
    · obtain ⟨s, hs, rfl⟩ := hw
      refine Or.inr ⟨s, hs, rfl, ?_⟩
      rw [version_parts s hs] at h
      intro hle; simp [hle] at h
    · exact Or.inl hw
  · rintro (h | ⟨s, hs, rfl, hbig⟩)
    · cases hm : matchVersion t with
      | none => simp [parseVersion, hm]
      | some g => exact absurd ((version_text_accepted_iff t).mp ⟨g, hm⟩) h
    · rw [version_parts s hs]; simp [hbig]

/-- non-vacuity: "12.19.0-rc.1" is well formed -/
example : (Spelling.mk ['1', '2'] (some ['1', '9']) (some ['0']) (some ['-', 'r', 'c', '.', '1'])).WellFormed := by
  refine ⟨⟨by simp, by decide⟩, ?_, ?_, ?_⟩
  · intro y hy; simp at hy; subst hy; exact ⟨by simp, by decide⟩
  · intro z hz; simp at hz; subst hz; exact ⟨⟨by simp, by decide⟩, by simp⟩
  · intro p hp; simp at hp; subst hp
    exact ⟨[['r', 'c'], ['1']], by simp, by decide, rfl⟩
example : parseVersion "12.19.0-rc.1".toList = some { parts := [12, 19, 0], pre := "-rc.1".toList } := by decide
example : parseVersion "1.99999999999999999999.5".toList = some { parts := [1], pre := [] } := by decide
example : parseVersion "1.2.3.4".toList = none ∧ parseVersion "1.".toList = none ∧ parseVersion "v1".toList = none ∧
    parseVersion "1-a..b".toList = none ∧ parseVersion "99999999999999999999".toList = none := by decide

/-- the engine names of the CLI are prefix-free, so the Go loop over the `validEngines` MAP has at most one hit: the
result does not depend on the iteration order -/
theorem engine_names_prefix_free :
    (Gen.cliEngines.map (·.1)).Pairwise (fun a b => ¬ a.toList.isPrefixOf b.toList ∧ ¬ b.toList.isPrefixOf a.toList) :=
  engines_prefix_free

/-- every engine name followed by a non-empty text is read as that engine with that text as its version … -/
theorem engine_item (key name : String) (hm : (key, name) ∈ Gen.cliEngines) (ver : Targets.Text) (hv : ver ≠ []) :
    parseItem (key.toList ++ ver) = .engine name ver := by
  simp only [parseItem, target_lookup_none_of_engine key name hm ver, findEngine_hit _ engines_prefix_free key name hm ver]
  cases ver with
  | nil => exact absurd rfl hv
  | cons _ _ => rfl

/-- … and the bare name is "missing a version number" -/
theorem engine_item_missing (key name : String) (hm : (key, name) ∈ Gen.cliEngines) : parseItem key.toList = .missingVersion := by
  have h1 := target_lookup_none_of_engine key name hm []
  have h2 := findEngine_hit _ engines_prefix_free key name hm []
  simp only [List.append_nil] at h1 h2
  simp [parseItem, h1, h2]

/-- an ES name in any letter case selects its target -/
theorem es_item (k t : String) (hm : (k, t) ∈ Gen.cliTargets) (v : Targets.Text) (hl : toLower v = k.toList) :
    parseItem v = .target t := by
  have := List.all_eq_true.mp targets_lookup_self _ hm
  simp only [beq_iff_eq] at this
  simp [parseItem, hl, this]

/-- es20xx ↔ year arithmetic through both tables (cli `validTargets`, then the switch of `validateFeatures`): `esYYYY`
constrains ES to [YYYY] for 2015 ≤ YYYY ≤ 2026, es6 = es2015, es5 ↦ [5], esnext ↦ no ES constraint; nothing else is a target -/
theorem es_year_arithmetic :
    (∀ y ∈ List.range' 2015 12, (Gen.cliTargets.lookup s!"es{y}").bind (fun t => Gen.targetES.lookup t) = some [y]) ∧
    (Gen.cliTargets.lookup "es6").bind (fun t => Gen.targetES.lookup t) = some [2015] ∧
    (Gen.cliTargets.lookup "es5").bind (fun t => Gen.targetES.lookup t) = some [5] ∧
    (Gen.cliTargets.lookup "esnext").bind (fun t => Gen.targetES.lookup t) = some [] ∧
    Gen.cliTargets.length = 15 := by decide

example : ("chrome", "EngineChrome") ∈ Gen.cliEngines := by decide
example : parseItem "node12.19.0".toList = .engine "EngineNode" "12.19.0".toList := by decide
example : parseItem "ES2020".toList = .target "ES2020" ∧ parseItem "Chrome58".toList = .invalid ∧ parseItem "ie".toList = .missingVersion := by decide

/-- a list of acceptable items gives the LAST ES target named (DefaultTarget if none) and the engines in order … -/
theorem target_list_ok (items : List Targets.Text) (h : ∀ v ∈ items, itemOk v = true) :
    parseTargetsFrom 0 items "DefaultTarget" [] = .ok (lastTarget items "DefaultTarget") (enginesOf items) := by
  simpa using parseTargetsFrom_ok items 0 "DefaultTarget" [] h

/-- … and the first unacceptable item is the one reported, whatever follows it -/
theorem target_list_first_error (pre : List Targets.Text) (bad : Targets.Text) (post : List Targets.Text)
    (h : ∀ v ∈ pre, itemOk v = true) (hb : itemOk bad = false) :
    parseTargetsFrom 0 (pre ++ bad :: post) "DefaultTarget" [] =
      if parseItem bad = .missingVersion then .missingVersion pre.length else .invalid pre.length := by
  simpa using parseTargetsFrom_bad pre bad post 0 "DefaultTarget" [] h hb

example : parseTargetArg "chrome58,firefox57,es2020".toList =
    .ok "ES2020" [("EngineChrome", "58".toList), ("EngineFirefox", "57".toList)] := by decide
example : parseTargetArg "es2020,,chrome58".toList = .invalid 1 ∧ parseTargetArg [] = .ok "DefaultTarget" [] := by decide

-- OPEN `target_text_roundtrip` (PrettyPrint ∘ parse is stable): for every (target, engines) on which validateFeatures does
-- not panic, parsing the printed target list (`targetText` of every constraint, "esnext") as a `--target=` value and
-- validating again gives the same constraint map and the same printed text. Missing: `parseVersion (Sv.str v) = some v`,
-- which needs `digitsVal (Nat.repr n).toList = n` (no such lemma in core) — the rest follows from `engine_item`, `es_item`,
-- `version_parts`. The kernel checks the statement on every `cliv` operation (field `stable=`), 0 failures.
example : (validateFeatures 8 [(0, "058".toList), (7, "12.19.0-rc.1".toList)]) =
    .ok { js := jsUnsupported [("ES", ⟨[2020], []⟩), ("Chrome", ⟨[58], []⟩), ("Node", ⟨[12, 19, 0], "-rc.1".toList⟩)],
          css := cssUnsupported [("Chrome", ⟨[58], []⟩)], pfx := cssPrefixData [("Chrome", ⟨[58], []⟩)],
          env := "\"chrome58\", \"es2020\", \"node12.19.0-rc.1\"".toList, errs := [] } := by decide +kernel

end EsbuildModel.C14Targets
