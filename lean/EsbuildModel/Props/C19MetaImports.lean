import EsbuildModel.Lemmas.MetaImports
/-
C19 (the metafile is an exact account of the build): the CONTENT of `imports` / `exports` / `entryPoint` /
`cssBundle` of an output and of `imports` of an input, for ALL chunk descriptions and record lists
(model: Impl/MetaImports.lean; correspondence kernel `metaimports` on real builds, with the re-parsed emitted code as
oracle for the print events).
-/
namespace EsbuildModel.MetaImports.Props
open EsbuildModel.MetaImports

/-! ## 1. imports of an output -/

/-- SPECIFICATION of the entry that the `k`-th statement of the cross-chunk prefix stands for: the statement imports
cross-chunk import number `i`, which names chunk `j`; the entry is an `import-statement` of that chunk (by its unique
key, replaced by the final path later) and is not external -/
def prefixEntry (x : Ctx) (c : Chunk) (i : Nat) : Option Imp :=
  (c.cross[i]?).bind fun kj => (x.keys[kj.2]?).map fun key => { path := key, kind := .stmt, external := false }

/-- SPECIFICATION of the entry of one print event of a JavaScript compile result -/
def eventEntryJS (c : Chunk) : Ev → Option Imp
  | .path i k => (c.records[i]?).map fun r => { path := r.path, kind := k, external := !r.notExternal }
  | .file key => some { path := key, kind := .fileLoader, external := false }

theorem prefix_lookup (x : Ctx) (c : Chunk) (rs : List Rec) (h : crossRecords x c = some rs) (i : Nat) :
    printJS rs (.path i .stmt) = prefixEntry x c i := by
  have h1 := mapM_some_getElem? h i
  simp only [printJS, prefixEntry, ← h1]
  cases c.cross[i]? with
  | none => rfl
  | some kj =>
    obtain ⟨k, j⟩ := kj
    simp only [Option.bind_some]
    cases hk : x.keys[j]? <;> simp

/-- `output_imports_exact` (JavaScript): whenever the generator does not panic, the list is the entries of the
statements of the cross-chunk prefix, in order, followed by the entries of the print events of the compile results, in
order - one entry per statement / event, nothing else. In particular an import record that no print event refers to
(its statement was removed by tree shaking, or it was never printed) contributes NOTHING, whether external or not; a
record printed twice is listed twice. -/
theorem output_imports_exact (x : Ctx) (c : Chunk) (l : List Imp) (hjs : c.isJS = true)
    (h : rawImports x c = some l) :
    ∃ pre fil, l = pre ++ fil ∧ c.prefixStmts.map (prefixEntry x c) = pre.map some ∧
      c.prints.map (eventEntryJS c) = fil.map some := by
  simp only [rawImports, hjs, ↓reduceIte, prefixImports, fileImports] at h
  cases hcr : crossRecords x c with
  | none => simp [hcr] at h
  | some rs =>
    simp only [hcr, Option.bind_some] at h
    cases hp : c.prefixStmts.mapM (fun i => printJS rs (.path i .stmt)) with
    | none => simp [hp] at h
    | some pre =>
      cases hf : c.prints.mapM (printJS c.records) with
      | none => simp [hp, hf] at h
      | some fil =>
        simp only [hp, hf, Option.bind_some, Option.map_some, Option.some.injEq] at h
        refine ⟨pre, fil, h.symm, ?_, ?_⟩
        · rw [← (mapM_eq_some_iff _ _ _).mp hp]
          exact List.map_congr_left fun i _ => (prefix_lookup x c rs hcr i).symm
        · rw [← (mapM_eq_some_iff _ _ _).mp hf]
          exact List.map_congr_left fun ev _ => by cases ev <;> rfl

/-- the number of entries: one per prefix statement and one per print event ("no duplicates beyond what the code
emits, nothing for what is not printed") -/
theorem output_imports_count (x : Ctx) (c : Chunk) (l : List Imp) (hjs : c.isJS = true) (h : imports x c = some l) :
    l.length = c.prefixStmts.length + c.prints.length := by
  simp only [imports] at h
  cases hr : rawImports x c with
  | none => simp [hr] at h
  | some raw =>
    simp only [hr, Option.map_some, Option.some.injEq] at h
    obtain ⟨pre, fil, rfl, h1, h2⟩ := output_imports_exact x c raw hjs hr
    have e1 := congrArg List.length h1
    have e2 := congrArg List.length h2
    simp only [List.length_map] at e1 e2
    rw [← h]; simp [e1, e2]

/-- CSS: one entry per print event, with the kind OF THE RECORD -/
theorem output_imports_exact_css (x : Ctx) (c : Chunk) (l : List Imp) (hcss : c.isJS = false)
    (h : rawImports x c = some l) :
    c.prints.map (printCSS c.records) = l.map some := by
  simp only [rawImports, hcss, Bool.false_eq_true, ↓reduceIte, fileImports] at h
  exact (mapM_eq_some_iff _ _ _).mp h

/-- what the metafile says and what the emitted code says are two readings of the SAME list: entry `k` of `imports`
and import `k` of the code have the same kind, and their paths are the two substitutions of one raw path -/
theorem imports_emitted_aligned (x : Ctx) (c : Chunk) (l : List Imp) (h : imports x c = some l) :
    ∃ raw, rawImports x c = some raw ∧ l = raw.map (fun i => { i with path := substKeys x.json i.path }) ∧
      emitted x c = some (raw.map fun i => (substKeys x.emit i.path, i.kind)) := by
  simp only [imports] at h
  cases hr : rawImports x c with
  | none => simp [hr] at h
  | some raw =>
    simp only [hr, Option.map_some, Option.some.injEq] at h
    exact ⟨raw, rfl, h.symm, by simp [emitted, hr]⟩

/-- the FINAL path: a raw path that is the unique key of chunk `j` is listed with the final (pretty) path of chunk `j`
in the metafile and appears with the path of chunk `j` relative to this chunk in the code; `FirstMatch` holds for
the tables of a build because all keys have the same length and are pairwise different -/
theorem chunk_reference_final_path (x : Ctx) (key fj fe : Str) (hk : key ≠ [])
    (hj : FirstMatch x.json key fj key) (he : FirstMatch x.emit key fe key) :
    substKeys x.json key = fj ∧ substKeys x.emit key = fe :=
  ⟨substKeys_key _ _ _ hk hj, substKeys_key _ _ _ hk he⟩

/-- an external path (no key inside) is listed as it is printed -/
theorem external_path_unchanged (x : Ctx) (p : Str) (hj : KeyFree x.json p) (he : KeyFree x.emit p) :
    substKeys x.json p = p ∧ substKeys x.emit p = p :=
  ⟨substKeys_keyFree _ _ hj, substKeys_keyFree _ _ he⟩

/-! non-vacuity: an entry chunk with one prefix statement (chunk 1), an external `require` printed once, an external
record that is NOT printed, and a dynamic import of chunk 1 -/
def exKeys : List Str := [str "KC00000000", str "KC00000001"]
def exCtx : Ctx where
  keepESM := true
  asciiOnly := true
  min := false
  keys := exKeys
  pretty := [str "<runtime>", str "a.js"]
  emit := [(str "KC00000000", str "./a.js"), (str "KC00000001", str "./chunk-X.js")]
  json := [(str "KC00000000", str "out/a.js"), (str "KC00000001", str "out/chunk-X.js")]
def exChunk : Chunk where
  isJS := true
  isEntry := true
  source := 1
  entryIsCSS := false
  cross := [(.dynamic, 1), (.stmt, 1)]
  prefixStmts := [1]
  wrapCJS := false
  aliases := [str "b", str "a"]
  toOther := []
  css := some 1
  records := [⟨str "ext-a", .require, false⟩, ⟨str "ext-b", .stmt, false⟩, ⟨str "KC00000001", .dynamic, true⟩]
  prints := [.path 0 .require, .path 2 .dynamic]

set_option maxRecDepth 4000
example : imports exCtx exChunk = some [⟨str "out/chunk-X.js", .stmt, false⟩, ⟨str "ext-a", .require, true⟩,
    ⟨str "out/chunk-X.js", .dynamic, false⟩] := by decide
example : emitted exCtx exChunk = some [(str "./chunk-X.js", .stmt), (str "ext-a", .require), (str "./chunk-X.js", .dynamic)] := by
  decide
example : FirstMatch exCtx.json (str "KC00000001") (str "out/chunk-X.js") (str "KC00000001") :=
  Or.inr ⟨Or.inr (by decide), Or.inl ⟨rfl, rfl⟩⟩
example : KeyFree exCtx.json (str "ext-a") :=
  ⟨by decide, by decide, by decide, by decide, by decide, trivial⟩

/-! ## 2. exports -/

/-- `output_exports_exact`: `exports` is THE sorted arrangement of the aliases the chunk exports: of
`SortedAndFilteredExportAliases` for an ESM-syntax entry (only `default` when the entry is wrapped as CommonJS), of the
cross-chunk export aliases for another chunk, and empty for every format that does not keep ESM syntax. Names coming
only from `export * from <external>` are not in `SortedAndFilteredExportAliases` and so never listed. -/
theorem output_exports_exact (x : Ctx) (c : Chunk) :
    Sorted (exports x c) ∧ (exports x c).Perm (exportAliases x c) ∧
    (∀ l, Sorted l → l.Perm (exportAliases x c) → l = exports x c) ∧
    (x.keepESM = false → exports x c = []) ∧
    (x.keepESM = true → c.isEntry = true → c.wrapCJS = true → exports x c = [str "default"]) ∧
    (x.keepESM = true → c.isEntry = true → c.wrapCJS = false → (exports x c).Perm c.aliases) ∧
    (x.keepESM = true → c.isEntry = false → (exports x c).Perm c.toOther) := by
  refine ⟨sortStrs_sorted _, sortStrs_perm _, ?_, ?_, ?_, ?_, ?_⟩
  · intro l hs hp
    exact sorted_perm_unique _ _ hs (sortStrs_sorted _) (hp.trans (sortStrs_perm _).symm)
  · intro h; simp [exports, exportAliases, h, sortStrs]
  · intro h1 h2 h3; simp [exports, exportAliases, h1, h2, h3, sortStrs, insertStr]
  · intro h1 h2 h3
    have := sortStrs_perm (exportAliases x c)
    simpa [exports, exportAliases, h1, h2, h3] using this
  · intro h1 h2
    have := sortStrs_perm (exportAliases x c)
    simpa [exports, exportAliases, h1, h2] using this

example : exports exCtx exChunk = [str "a", str "b"] := by decide

/-! ## 3. entryPoint, cssBundle -/

/-- `entrypoint_cssbundle`: a JavaScript output has `entryPoint` exactly when its chunk is an entry-point chunk - the
linker makes no difference between entry points given by the user and the entry points the bundler creates for the
targets of `import()` under code splitting: both get the field; a CSS output has it only when the entry file itself is
a CSS file (not for the CSS bundle of a JavaScript entry). The value is the pretty path of `chunk.sourceIndex`.
`cssBundle`: only JavaScript outputs, exactly when `hasCSSChunk`, and the value is the final path of that CSS chunk. -/
theorem entrypoint_cssbundle (x : Ctx) (c : Chunk) :
    ((entryPoint x c).isSome ↔ (c.isEntry = true ∧ (c.isJS = true ∨ c.entryIsCSS = true))) ∧
    (∀ v, entryPoint x c = some v → v = x.pretty[c.source]?) ∧
    ((cssBundleRaw x c).isSome ↔ (c.isJS = true ∧ c.css.isSome)) ∧
    (∀ j key f, c.isJS = true → c.css = some j → x.keys[j]? = some key → key ≠ [] → FirstMatch x.json key f key →
      (cssBundleRaw x c).map (Option.map (substKeys x.json)) = some (some f)) := by
  refine ⟨?_, ?_, ?_, ?_⟩
  · unfold entryPoint
    cases c.isEntry <;> cases c.isJS <;> cases c.entryIsCSS <;> simp
  · intro v h
    unfold entryPoint at h
    split at h
    · exact (Option.some.inj h).symm
    · cases h
  · unfold cssBundleRaw
    cases c.isJS <;> cases c.css <;> simp
  · intro j key f hjs hc hk hne hfm
    simp [cssBundleRaw, hjs, hc, hk, substKeys_key _ _ _ hne hfm]

example : entryPoint exCtx exChunk = some (some (str "a.js")) := by decide
example : (cssBundleRaw exCtx exChunk).map (Option.map (substKeys exCtx.json)) = some (some (str "out/chunk-X.js")) := by decide

/-! ## 4. imports of an input -/

/-- SPECIFICATION of one entry of `inputs[f].imports` -/
def inputEntry (pretty : List Str) (r : InRec) : Option InImp :=
  match r.target with
  | none => some ⟨r.spec, r.kind, true, none⟩
  | some t => (pretty[t]?).map fun p => ⟨p, r.kind, false, some r.spec⟩

/-- `input_imports_exact`: when bundling, `imports` of an input has one entry per import record, in RECORD order
(the parser's order: statement imports in source order, then `require()` / `import()` in source order): a record
resolved into the bundle gives `{path: pretty path of the target, kind, original: the specifier}` (`original` is always
there, also when it equals the path), every other record - external, failed inside try/catch, or NEVER RESOLVED because
the import was unused (TypeScript type-only import) - gives `{path: the specifier, kind, external: true}`. The
specifier text and the kind of every record can be read back from the list. Without bundling the list is empty. -/
theorem input_imports_exact (pretty : List Str) (recs : List InRec) (l : List InImp)
    (h : inputImports true pretty recs = some l) :
    recs.map (inputEntry pretty) = l.map some ∧
    l.map (fun i => (i.original.getD i.path, i.kind)) = recs.map (fun r => (r.spec, r.kind)) ∧
    l.map (·.external) = recs.map (·.target.isNone) := by
  simp only [inputImports, ↓reduceIte] at h
  have h1 := (mapM_eq_some_iff _ _ _).mp h
  have h2 : recs.map (inputEntry pretty) = l.map some := by
    rw [← h1]; exact List.map_congr_left fun r _ => by unfold inputEntry inputImport; rfl
  refine ⟨h2, ?_, ?_⟩
  · clear h h1
    induction recs generalizing l with
    | nil => cases l <;> simp at h2 ⊢
    | cons r t ih =>
      cases l with
      | nil => simp at h2
      | cons i u =>
        simp only [List.map_cons, List.cons.injEq] at h2 ⊢
        refine ⟨?_, ih u h2.2⟩
        have := h2.1
        unfold inputEntry at this
        cases ht : r.target with
        | none => simp [ht] at this; subst this; rfl
        | some t =>
          simp [ht] at this
          obtain ⟨p, _, rfl⟩ := this; rfl
  · clear h h1
    induction recs generalizing l with
    | nil => cases l <;> simp at h2 ⊢
    | cons r t ih =>
      cases l with
      | nil => simp at h2
      | cons i u =>
        simp only [List.map_cons, List.cons.injEq] at h2 ⊢
        refine ⟨?_, ih u h2.2⟩
        have := h2.1
        unfold inputEntry at this
        cases ht : r.target with
        | none => simp [ht] at this; subst this; rfl
        | some t =>
          simp [ht] at this
          obtain ⟨p, _, rfl⟩ := this; rfl

theorem input_imports_unbundled (pretty : List Str) (recs : List InRec) : inputImports false pretty recs = some [] := rfl

example : inputImports true [str "a.ts", str "b.ts"]
    [⟨str "./types", .stmt, none⟩, ⟨str "./b", .stmt, some 1⟩, ⟨str "ext", .require, none⟩] =
    some [⟨str "./types", .stmt, true, none⟩, ⟨str "b.ts", .stmt, false, some (str "./b")⟩, ⟨str "ext", .require, true, none⟩] := by
  decide

end EsbuildModel.MetaImports.Props
