import EsbuildModel.Lemmas.Exports
/-! # C11 — module resolution agrees with Node: property theorems -/
namespace EsbuildModel.C11
open EsbuildModel.Exports

/-- `Exports.best_pattern` (core): two DIFFERENT subpath-pattern keys of an exports/imports map that
both apply to the same request never tie in PATTERN_KEY_COMPARE (equal base length and equal length).
Hence the pattern esbuild picks — the first applicable key after sorting with `expansionKeysArray.Less`
— is the unique best match Node prescribes, independent of the order of the keys in package.json and
of the stability of the sort. Holds for all keys and requests. -/
theorem matching_pattern_keys_never_tie (k1 k2 m : List Nat) (i : Nat)
    (h1 : starIndex k1 = some i) (h2 : starIndex k2 = some i) (hl : k1.length = k2.length)
    (m1 : (matchKeyWith k1 m).isSome = true) (m2 : (matchKeyWith k2 m).isSome = true) : k1 = k2 :=
  Exports.matching_keys_never_tie k1 k2 m i h1 h2 hl m1 m2

/-- the hypotheses are satisfiable: "./features/*.js" applies to "./features/x.js" with subpath "x" -/
example : matchKeyWith [46,47,102,47,42,46,106,115] [46,47,102,47,120,46,106,115] = some [120] := by decide

/-- and overlapping patterns are ranked: "./f/*.js" (base 4) before "./*" (base 2) whatever the input order -/
example : select [[46,47,42], [46,47,102,47,42,46,106,115]] [46,47,102,47,120,46,106,115]
        = select [[46,47,102,47,42,46,106,115], [46,47,42]] [46,47,102,47,120,46,106,115] := by decide

end EsbuildModel.C11
