import EsbuildModel.Lemmas.ScopesLookupThm
/-!
C15 — identifier lookup of the parser against ResolveBinding of ECMA-262 (theorem 1 of the work package).

Model: Impl/Scopes.lean (all three passes: declareSymbol in the parse pass, hoistSymbols, findSymbol in the visit pass)
run on the scope operations the parser performs for a program of the fragment of Spec/JsScopes.lean
(Impl/ScopesSyntax.lean; the kernel `scope`, op `core`, compares exactly this run with js_parser.Parse on source text).
Spec: `Program.walk` (Spec/JsScopes.lean): for every declaration occurrence the bindings it declares, for every identifier
reference the binding it resolves to (8.2, 10.2.11, 16.1.7, B.3.2, B.3.4), bindings identified by (environment, name).

"The same symbol": `Conn syms a b` — `a` and `b` are joined by `Symbol.Link` edges (Lemmas/ScopesConn.lean); the second
theorem says it with ast.FollowSymbols (`followSym`, Impl/ScopesSyntax.lean), which terminates on every symbol here because
every link goes to a later symbol of the table (`LinksInc`, Lemmas/ScopesLinksInc.lean).  `RefAgrees`
(Lemmas/ScopesLookupThm.lean) is the statement for one reference.

Proved here, for every FLAT program (`Program.flat`, Spec/JsScopes.lean: `var` and function declarations stand only at
the top level of a function / script / module, no class declaration, nothing declares the name `arguments`; no bound on
nesting or length) without early error:

* `lookup_agrees_with_spec_partial` — the model finds a symbol for every reference and declaration of the walk, in the same
  order; a reference the spec resolves to a binding gets a bound symbol that is joined to the symbol of EVERY declaration
  occurrence of that binding; a reference the spec cannot resolve gets an unbound (global) symbol.
* `lookup_agrees_with_spec_partial_follow` — the same with ast.FollowSymbols: it maps the symbol of the reference and the
  symbol of each declaration occurrence of the binding to the same symbol (what `checkProps` evaluates).

-- OPEN (the full statement, `lookup_agrees_with_spec`): the same conclusion for every program of the fragment, i.e. with
-- `var` in nested blocks (hoisting through block / catch scopes), block-level function declarations (Annex B.3.2:
-- `declSym r d 1` is the symbol of the hoisted `var`), classes, and declarations of the name `arguments`:
--   theorem lookup_agrees_with_spec (p : Program) (r : Result) (h : runProgram p = some r)
--       (h0 : p.earlyError = false) (h1 : dupBlockFnL p.body = false) (h2 : blockFnClashL p.body = false) :
--       r.refs.length = p.walk.refs.length ∧ r.declRefs.length = p.walk.decls.length ∧
--       ∀ j s, r.refs[j]? = some s → RefAgrees r p.walk s (p.walk.refs[j]?)
-- It is evaluated by `checkProps` (Impl/ScopesSyntax.lean) on every program the kernel `scope` generates for op `core`
-- (more than 100 000 programs against the REAL parser, 0 counterexamples under the three hypotheses).  The hypotheses are
-- forced (each is a difference between esbuild and Node that was reproduced on the real binary, see the report):
--   h1: `function t(){ { function f(){return 1} function f(){return 2} } return typeof f }`  (two symbols, both hoisted)
--   h2: `(function(a){ var a; { function a(){} } return typeof a })(1)`, `function g(){ var arguments = 5; function
--       arguments(){} return typeof arguments }`, `function t(){ { function arguments(){} } return typeof arguments }`
-- Missing for a proof: hoistSymbols keeps "joined" and sets every link once (Lemmas/ScopesLinks.lean has the bounds), the
-- spec side of `var` in nested blocks (the var resolves past the blocks because there is no early error), and Annex B.
-/
namespace EsbuildModel.Scopes
open JsScopes

/-- **Theorem 1 on flat programs.** -/
theorem lookup_agrees_with_spec_partial (p : Program) (r : Result) (h : runProgram p = some r)
    (hflat : p.flat = true) (hne : p.earlyError = false) :
    r.refs.length = p.walk.refs.length ∧ r.declRefs.length = p.walk.decls.length ∧
    ∀ (j s : Nat), r.refs[j]? = some s → RefAgrees r p.walk s (p.walk.refs[j]?) := by
  obtain ⟨⟨ρ, hd, hr⟩, _⟩ := lookup_flat p r h hflat hne
  refine ⟨hr.length, hd.length, fun j s hs => ?_⟩
  cases hw : p.walk.refs[j]? with
  | none =>
    have h1 := List.getElem?_eq_none_iff.mp hw
    have h2 : j < r.refs.length := by
      rcases Nat.lt_or_ge j r.refs.length with h2 | h2
      · exact h2
      · rw [List.getElem?_eq_none_iff.mpr h2] at hs; cases hs
    rw [hr.length] at h2; omega
  | some ob =>
    have hro := hr.get j s ob hs hw
    cases ob with
    | none => exact hro
    | some b =>
      obtain ⟨m', h1, h2, hkn⟩ := hro
      refine ⟨hkn, fun i d bs k hdi hbi hbk => ?_⟩
      obtain ⟨b0, hb0, m'', h5, h6⟩ := hd.get i d bs hdi hbi
      subst hb0
      cases k with
      | succ k => simp at hbk
      | zero =>
        simp only [List.getElem?_cons_zero, Option.some.injEq] at hbk
        subst hbk
        rw [h1] at h5; cases h5
        exact ⟨d, by simp [declSym], h6.trans h2.symm⟩

/-- the same with ast.FollowSymbols (which terminates on every symbol here: every link goes to a later symbol): it maps
the symbol of the reference and the symbol of each declaration occurrence of the binding to the same symbol -/
theorem lookup_agrees_with_spec_partial_follow (p : Program) (r : Result) (h : runProgram p = some r)
    (hflat : p.flat = true) (hne : p.earlyError = false) (j i k : Nat) (s d : Nat) (b : Binding) (bs : List Binding)
    (hs : r.refs[j]? = some s) (hb : p.walk.refs[j]? = some (some b))
    (hd : r.declRefs[i]? = some d) (hbs : p.walk.decls[i]? = some bs) (hk : bs[k]? = some b) :
    ∃ x rs, declSym r d k = some x ∧ followSym r.syms x = some rs ∧ followSym r.syms s = some rs := by
  have := (lookup_agrees_with_spec_partial p r h hflat hne).2.2 j s hs
  rw [hb] at this
  obtain ⟨⟨k0, hk0, _⟩, hall⟩ := this
  obtain ⟨x, hx, hc⟩ := hall i d bs k hd hbs hk
  have hslt : s < r.syms.length := by
    rcases Nat.lt_or_ge s r.syms.length with h1 | h1
    · exact h1
    · simp [kindOf?, List.getElem?_eq_none h1] at hk0
  obtain ⟨rs, h1, h2⟩ := hc.followSym_eq (lookup_flat p r h hflat hne).2 hslt
  exact ⟨x, rs, hx, h1, h2⟩

-- non-vacuity -------------------------------------------------------------------------------------------------

/-- `let a; function f(p) { let b; { let c; a; p; b; c; g } try { x } catch (e) { e } arguments } var v;
(function h(){ h; v });` with a = 2, p = 3, b = 4, c = 5, e = 6, f = 7, g = 8, x = 9, v = 10, h = 11 -/
def exLookup : Program :=
  ⟨false, false,
    [.lex .let_ 2,
     .fn 7 false [3] false
       [.lex .let_ 4, .block [.lex .let_ 5, .ref 2, .ref 3, .ref 4, .ref 5, .ref 8],
        .try_ [.ref 9] (.ident 6) [.ref 6], .ref 0],
     .var_ 10,
     .fnExpr (some 11) [] false [.ref 11, .ref 10]]⟩

example : exLookup.flat = true := by decide
set_option linter.unusedSimpArgs false in
example : exLookup.earlyError = false := by
  simp [exLookup, Program.earlyError, fnError, listError, Stmt.earlyError, blockError, topLexNames, varNamesL, Stmt.varNames,
    topFnNames, hasDup, inter, lexNames, dupLex, plainFnNames, CatchParam.bound, CatchParam.isPattern]
example : (runProgram exLookup).isSome = true := by decide +kernel
-- the first reference (`a` inside the block inside `f`) resolves to the `let a` of the script, the declaration number 0
set_option linter.unusedSimpArgs false in
example : exLookup.walk.refs[0]? = some (some ⟨⟨[], .lexical⟩, 2⟩) := by
  simp [exLookup, Program.walk, walkList, Stmt.walk, fnWalk, fnCtx, fnEnvs, Walk.append, Walk.empty, resolve,
    Ctx.enterBlock, topLexNames, varNamesL, Stmt.varNames, topFnNames, lexNames, annexBFn, annexBList, Stmt.annexB,
    annexBBlock, plainFnNames, CatchParam.bound, CatchParam.isPattern, JsScopes.argumentsName]
set_option linter.unusedSimpArgs false in
example : exLookup.walk.decls[0]? = some [⟨⟨[], .lexical⟩, 2⟩] := by
  simp [exLookup, Program.walk, walkList, Stmt.walk, fnWalk, fnCtx, fnEnvs, Walk.append, Walk.empty, resolve,
    Ctx.enterBlock, topLexNames, varNamesL, Stmt.varNames, topFnNames, lexNames, annexBFn, annexBList, Stmt.annexB,
    annexBBlock, plainFnNames, CatchParam.bound, CatchParam.isPattern, JsScopes.argumentsName]
-- the reference `g` is unresolvable
set_option linter.unusedSimpArgs false in
example : exLookup.walk.refs[4]? = some none := by
  simp [exLookup, Program.walk, walkList, Stmt.walk, fnWalk, fnCtx, fnEnvs, Walk.append, Walk.empty, resolve,
    Ctx.enterBlock, topLexNames, varNamesL, Stmt.varNames, topFnNames, lexNames, annexBFn, annexBList, Stmt.annexB,
    annexBBlock, plainFnNames, CatchParam.bound, CatchParam.isPattern, JsScopes.argumentsName]
-- and the model indeed gives the two occurrences of `a` the same symbol, `g` an unbound one
example : (runProgram exLookup).map (fun r => (r.refs[0]?, r.declRefs[0]?)) = some (some 0, some 0) := by decide +kernel
example : (runProgram exLookup).map (fun r => r.refs[4]?.bind (kindOf? r.syms)) = some (some .unbound) := by decide +kernel

end EsbuildModel.Scopes
