import EsbuildModel.Props.C13Json
/-!
# C16 — `ParseJSON` terminates on every input without a crash (property theorems)

`R.crash` in the model (`Impl/JsonLex.lean`, `Impl/Json.lean`) stands for a Go run-time panic other than the
`LexerPanic` that `ParseJSON` recovers (slice or index out of range in `scanIdentifierWithEscapes`, a missing case of
`parseNumericLiteralOrDot`) and for running out of the recursion fuel `2·len(source) + 3`.
-/
namespace EsbuildModel.C16Json
open EsbuildModel.Json

/-- **json_total.** For EVERY byte string — valid UTF-8 or not, any flavour, any options — `ParseJSON` ends with
`ok = true` and an expression, or with `ok = false` after a `LexerPanic`; it never crashes, and the structural
recursion on the input needs no more than `2·len + 3` nested calls / loop rounds. -/
theorem json_total {P : Params} {Rd : Rat → F64} (hP : ParamsOK P Rd) (o : Opts) (bytes : List Nat) :
    ∃ ok ast msgs, parseJSON o P bytes = .done ok ast msgs := by
  have h := parseJSON_ne_crash hP o bytes
  cases hp : parseJSON o P bytes with
  | crash => exact absurd hp h
  | done ok ast msgs => exact ⟨ok, ast, msgs, rfl⟩

/-- **json_token_progress.** Every call of `Next` that succeeds leaves strictly less to read unless it is at the end
of the file (`mu` = remaining code points + 1 for a pending token): the lexer cannot loop. -/
theorem json_token_progress {P : Params} {Rd : Rat → F64} (hP : ParamsOK P Rd) (fl : Flavor) (L L' : Lx)
    (h : next fl P L = .ok L') : mu L' ≤ L.rest.length :=
  (next_total hP fl L).2 L' h

/-- **json_fuel_irrelevant.** A run of `parseExpr` that does not run out of fuel gives the same result with any
larger fuel: the fuel is a proof device, not behaviour. -/
theorem json_fuel_irrelevant (o : Opts) (P : Params) (L : Lx) (n m : Nat) (h : parseExpr o P n L ≠ .crash) (hm : n ≤ m) :
    parseExpr o P m L = parseExpr o P n L :=
  parseExpr_fuel o P L n m h hm

/-! ## non-vacuity -/

example : ∃ ok ast msgs, parseJSON ⟨.json, true, false⟩ C13Json.toyParams [0xFF, 0x5B, 0x22, 0x5C] = .done ok ast msgs :=
  json_total C13Json.toy_ok _ _

end EsbuildModel.C16Json
