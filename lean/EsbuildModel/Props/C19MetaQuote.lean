import EsbuildModel.Lemmas.MetaImports
import EsbuildModel.Spec.Json
/-
C19, `json_wellformed` (the string part): every string the metafile assembly writes with `helpers.QuoteForJSON` is a
string token of RFC 8259 (Spec/Json.lean: a derivation `cs : List SChar` with `strOk rfc8259`) whose value is the
UTF-16 form of the text, for ALL texts and both settings of `asciiOnly`.
-/
namespace EsbuildModel.MetaImports.Props
open EsbuildModel.MetaImports EsbuildModel.Spec EsbuildModel.Spec.Json

theorem toNat_ofNat_small (n : Nat) (h : n < 0xD800) : (Char.ofNat n).toNat = n := by
  have hv : n.isValidChar := Or.inl h
  simp [Char.ofNat, hv, Char.toNat, Char.ofNatAux]

theorem toNat_ofNat_valid (n : Nat) (h : n < 0xD800 ∨ (0xDFFF < n ∧ n < 0x110000)) : (Char.ofNat n).toNat = n := by
  have hv : n.isValidChar := h
  simp [Char.ofNat, hv, Char.toNat, Char.ofNatAux]

/-- the character of `hexChars[d]` -/
def hc (d : Nat) : Char := Char.ofNat (hexC d)

theorem hc_toNat (d : Nat) (h : d < 16) : (hc d).toNat = hexC d := by
  unfold hc; apply toNat_ofNat_small; unfold hexC; split <;> omega

theorem hexD_hc (d : Nat) (h : d < 16) : hexD (hc d) = d := by
  have := hc_toNat d h
  unfold hexD Num.hexVal?
  rw [this]; unfold hexC
  split <;> simp <;> (repeat' split) <;> simp_all <;> omega

theorem isHexDigit_hc (d : Nat) (h : d < 16) : isHexDigit (hc d) = true := by
  have := hc_toNat d h
  unfold isHexDigit Num.hexVal?
  rw [this]; unfold hexC
  split <;> simp <;> (repeat' split) <;> simp_all <;> omega

/-- the derivation item `\uXXXX` for a code unit -/
def uItem (c : Nat) : SChar := .u (hc (c / 4096 % 16)) (hc (c / 256 % 16)) (hc (c / 16 % 16)) (hc (c % 16))

theorem uItem_render (c : Nat) : (uItem c).render.map (·.toNat) = u4 c := by
  have h1 : c / 4096 % 16 < 16 := Nat.mod_lt _ (by decide)
  have h2 : c / 256 % 16 < 16 := Nat.mod_lt _ (by decide)
  have h3 : c / 16 % 16 < 16 := Nat.mod_lt _ (by decide)
  have h4 : c % 16 < 16 := Nat.mod_lt _ (by decide)
  simp [uItem, SChar.render, u4, hc_toNat, h1, h2, h3, h4]

theorem uItem_units (c : Nat) (h : c < 65536) : (uItem c).units = [c] := by
  have h1 : c / 4096 % 16 < 16 := Nat.mod_lt _ (by decide)
  have h2 : c / 256 % 16 < 16 := Nat.mod_lt _ (by decide)
  have h3 : c / 16 % 16 < 16 := Nat.mod_lt _ (by decide)
  have h4 : c % 16 < 16 := Nat.mod_lt _ (by decide)
  simp only [uItem, SChar.units, hexD_hc, h1, h2, h3, h4, List.cons.injEq, and_true]
  omega

theorem uItem_ok (c : Nat) (n : Option Char) : (uItem c).ok rfc8259 n = true := by
  simp [uItem, SChar.ok, isHexDigit_hc, Nat.mod_lt]

/-- the derivation items of one rune -/
def itemOf (a : Bool) (c : Nat) : List SChar :=
  if canPrint a c then [.lit (Char.ofNat c)]
  else if c = 8 then [.esc 'b']
  else if c = 12 then [.esc 'f']
  else if c = 10 then [.esc 'n']
  else if c = 13 then [.esc 'r']
  else if c = 9 then [.esc 't']
  else if c = 92 then [.esc '\\']
  else if c = 34 then [.esc '"']
  else if c ≤ 0xFFFF then [uItem c]
  else [uItem (0xD800 + (c - 0x10000) / 1024 % 1024), uItem (0xDC00 + (c - 0x10000) % 1024)]

theorem canPrint_valid (a : Bool) (c : Nat) (hc : c < 0x110000) (h : canPrint a c = true) :
    (c < 0xD800 ∨ (0xDFFF < c ∧ c < 0x110000)) ∧ 0x20 ≤ c ∧ c ≠ 34 ∧ c ≠ 92 := by
  unfold canPrint at h
  split at h
  · simp at h; omega
  · simp at h; omega

theorem itemOf_render (a : Bool) (c : Nat) (hc : c < 0x110000) :
    (strRender (itemOf a c)).map (·.toNat) = quoteRune a c := by
  unfold itemOf quoteRune
  split
  · rename_i h
    have := canPrint_valid a c hc h
    simp [strRender, SChar.render, toNat_ofNat_valid c this.1]
  · repeat' split
    all_goals first
      | (simp [strRender, SChar.render]; done)
      | (simp only [strRender, List.flatMap_cons, List.flatMap_nil, List.append_nil, List.map_append, uItem_render])

theorem itemOf_units (a : Bool) (c : Nat) (hc : c < 0x110000) : strUnits (itemOf a c) = Unicode.utf16 c := by
  unfold itemOf
  split
  · rename_i h
    have := canPrint_valid a c hc h
    simp [strUnits, SChar.units, toNat_ofNat_valid c this.1]
  · repeat' split
    all_goals first
      | (subst_vars; simp [strUnits, SChar.units, rfcEscape, Unicode.utf16]; done)
      | (rename_i h; simp [strUnits, uItem_units c (by omega), Unicode.utf16, h]; done)
      | (rename_i h
         have e1 : (c - 0x10000) / 1024 % 1024 = (c - 0x10000) / 1024 := Nat.mod_eq_of_lt (by omega)
         simp only [strUnits, List.flatMap_cons, List.flatMap_nil, List.append_nil]
         rw [uItem_units _ (by omega), uItem_units _ (by omega), e1]
         simp [Unicode.utf16, h])

theorem strOk_cons (d : Dialect) (c : SChar) (t : List SChar) :
    strOk d (c :: t) = (c.ok d ((strRender t).head?) && strOk d t) := rfl

theorem esc_ok (ch : Char) (h : (rfcEscape ch).isSome = true) (n : Option Char) : (SChar.esc ch).ok rfc8259 n = true := by
  simp [SChar.ok, h]

theorem itemOf_ok (a : Bool) (c : Nat) (hc : c < 0x110000) (rest : List SChar) (hr : strOk rfc8259 rest = true) :
    strOk rfc8259 (itemOf a c ++ rest) = true := by
  unfold itemOf
  split
  · rename_i h
    have hv := canPrint_valid a c hc h
    have ht := toNat_ofNat_valid c hv.1
    have h1 : Char.ofNat c ≠ '"' := fun e => hv.2.2.1 (by rw [← ht, e]; rfl)
    have h2 : Char.ofNat c ≠ '\\' := fun e => hv.2.2.2 (by rw [← ht, e]; rfl)
    simp only [List.cons_append, List.nil_append, strOk_cons, hr, Bool.and_true]
    have h3 : rfc8259.jsStrings = false := rfl
    simp [SChar.ok, h3, h1, h2, ht, hv.2.1]
  · repeat' split
    all_goals
      simp only [List.cons_append, List.nil_append, strOk_cons, hr, Bool.and_true, uItem_ok, Bool.and_self]
    all_goals exact esc_ok _ (by decide) _

/-- `json_wellformed` for strings: `QuoteForJSON(text)` is an RFC 8259 string token, and the string it denotes is
`text` (as UTF-16 code units; a lone surrogate that WTF-8 decoding delivers denotes itself). With `asciiOnly` the
token consists of ASCII characters only. -/
theorem quote_valid (a : Bool) (s : Str) (h : ∀ c ∈ s, c < 0x110000) :
    ∃ cs : List SChar, strOk rfc8259 cs = true ∧ (strTok cs).map (·.toNat) = quoteJSON a s ∧
      strUnits cs = s.flatMap Unicode.utf16 := by
  refine ⟨s.flatMap (itemOf a), ?_, ?_, ?_⟩
  · induction s with
    | nil => rfl
    | cons c t ih =>
      simp only [List.flatMap_cons]
      exact itemOf_ok a c (h c (List.mem_cons_self)) _ (ih fun d hd => h d (List.mem_cons_of_mem _ hd))
  · have : ∀ t : Str, (∀ c ∈ t, c < 0x110000) → (strRender (t.flatMap (itemOf a))).map (·.toNat) = t.flatMap (quoteRune a) := by
      intro t ht
      induction t with
      | nil => rfl
      | cons c u ih =>
        have e := itemOf_render a c (ht c (List.mem_cons_self))
        simp only [strRender] at e ih ⊢
        simp only [List.flatMap_cons, List.flatMap_append, List.map_append, e]
        rw [ih fun d hd => ht d (List.mem_cons_of_mem _ hd)]
    simp [strTok, quoteJSON, this s h]
  · induction s with
    | nil => rfl
    | cons c t ih =>
      have e := itemOf_units a c (h c (List.mem_cons_self))
      simp only [strUnits] at e ih ⊢
      simp only [List.flatMap_cons, List.flatMap_append, e]
      rw [ih fun d hd => h d (List.mem_cons_of_mem _ hd)]

/-- with `asciiOnly` nothing above U+007E is written -/
theorem quote_ascii (s : Str) : ∀ b ∈ quoteJSON true s, b < 127 := by
  have hx : ∀ d, hexC d < 127 ∨ 16 ≤ d := fun d => by unfold hexC; split <;> omega
  have hu : ∀ c, ∀ b ∈ u4 c, b < 127 := by
    intro c b hb
    simp only [u4, List.mem_cons, List.not_mem_nil, or_false] at hb
    have m := fun (n : Nat) => Nat.mod_lt n (show 16 > 0 by decide)
    rcases hb with rfl | rfl | rfl | rfl | rfl | rfl
    · omega
    · omega
    all_goals (unfold hexC; split <;> omega)
  intro b hb
  simp only [quoteJSON, List.mem_cons, List.mem_append, List.mem_flatMap, List.not_mem_nil, or_false] at hb
  rcases hb with rfl | ⟨c, _, hb⟩ | rfl
  · omega
  · unfold quoteRune at hb
    split at hb
    · rename_i hp
      unfold canPrint at hp
      simp only [List.mem_cons, List.not_mem_nil, or_false] at hb
      subst hb
      split at hp
      · omega
      · simp at hp
    · repeat' split at hb
      all_goals first
        | (simp only [List.mem_cons, List.not_mem_nil, or_false] at hb; omega)
        | exact hu _ b hb
        | (rcases List.mem_append.mp hb with hb | hb <;> exact hu _ b hb)
  · omega

example : quoteJSON true (str "a\"é\n") = str "\"a\\\"\\u00E9\\n\"" := by decide
example : quoteJSON false [0x1F600, 0xFEFF] = [34, 0x1F600] ++ str "\\uFEFF\"" := by decide
example : quoteJSON true [0x1F600] = str "\"\\uD83D\\uDE00\"" := by decide

end EsbuildModel.MetaImports.Props
