import EsbuildModel.Lemmas.Quote
/-! # C01 — transform preserves literal values: property theorems -/
namespace EsbuildModel.C01
open EsbuildModel.Quote Spec.JsString

/-- `Quote.decode_print`: for every option set (ASCII-only, `\\u{…}` support, inline-script protection,
line limit / no-wrap), quote character (`"`, `'` or a backtick), current line length and EVERY sequence
of UTF-16 code units (lone surrogates included), the escaped body that `printUnquotedUTF16` emits is a
valid body of a string (or template) literal of that kind and its String Value (ECMA-262 SV/TV) is
exactly the input sequence. -/
theorem string_literal_value_preserved (o : Opts) (q : Nat) (hq : q = 34 ∨ q = 39 ∨ q = 96) (cur : Nat)
    (text : List Nat) (hu : ∀ u ∈ text, u < 65536) :
    ∃ fuel, decode q fuel (printUnquoted o q cur text) = some text := decode_print o q hq cur text hu

/-- non-vacuity / sanity on a nasty input: NUL before a digit, `</script`, `${`, a lone surrogate, a
valid pair, U+2028, in a template literal with ASCII-only output and a line limit of 5 -/
example : ∃ fuel, decode 96 fuel
    (printUnquoted { asciiOnly := true, noUnicodeEscapes := false, noInlineScript := false, lineLimit := 5, noWrap := false } 96 3
      [0, 49, 60, 47, 83, 99, 114, 105, 112, 116, 36, 123, 55296, 55357, 56832, 8232, 10, 96])
    = some [0, 49, 60, 47, 83, 99, 114, 105, 112, 116, 36, 123, 55296, 55357, 56832, 8232, 10, 96] :=
  string_literal_value_preserved _ 96 (by decide) 3 _ (by decide)

end EsbuildModel.C01
