import EsbuildModel.Impl.Lower
/-!
C05 — syntax lowering preserves behaviour: for the lowering of optional chaining and nullish coalescing
(Impl/Lower.lean, compared with the real parser's lowered AST by the kernel `lower`).

Theorem `lowering_preserves_behaviour`: for every source expression of the fragment, every world (values of
identifiers, properties, results of calls — which may depend on the whole history of calls) and every initial
state, the lowered expression yields the same value or the same exception and makes the same calls with the
same arguments in the same order.  No bound on the size or nesting of the expression.

Everything else C05 speaks about (classes, private names, destructuring, async, generators, templates, `using`,
…) is outside this model; see the search c05-prog.
-/
namespace EsbuildModel.Lower

/-- what `lowerC` guarantees about its three results -/
def Good (w : World) (e : S) (acc : T) (pend : Option T) : Prop :=
  match pend with
  | none => ∀ s : TState,
      (evalT w acc s).1 = (evalC w e s.tr).1.top ∧ (evalT w acc s).2.tr = (evalC w e s.tr).2 ∧
      (evalC w e s.tr).1 ≠ .short
  | some t => ∀ s : TState,
      ((evalT w t s).1 = .err → evalC w e s.tr = (.err, (evalT w t s).2.tr)) ∧
      (∀ v, (evalT w t s).1 = .val v → v.nullish = true → evalC w e s.tr = (.short, (evalT w t s).2.tr)) ∧
      (∀ v, (evalT w t s).1 = .val v → v.nullish = false →
        (evalT w acc (evalT w t s).2).1 = (evalC w e s.tr).1.top ∧
        (evalT w acc (evalT w t s).2).2.tr = (evalC w e s.tr).2 ∧ (evalC w e s.tr).1 ≠ .short)

/-- closing the pending test gives an expression that behaves like the source in an ordinary context -/
theorem fin_ok (w : World) (e : S) (acc : T) (pend : Option T) (h : Good w e acc pend) (s : TState) :
    (evalT w (fin acc pend) s).1 = (evalC w e s.tr).1.top ∧ (evalT w (fin acc pend) s).2.tr = (evalC w e s.tr).2 := by
  cases pend with
  | none => exact ⟨(h s).1, (h s).2.1⟩
  | some t =>
    have hs := h s
    simp only [fin, evalT]
    cases ht : evalT w t s with
    | mk r s1 =>
      rw [ht] at hs
      cases r with
      | err =>
        have := hs.1 rfl
        simp [this, CRes.top]
      | val v =>
        cases hv : v.nullish with
        | true =>
          have := hs.2.1 v rfl hv
          simp [this, hv, evalT, CRes.top]
        | false =>
          have := hs.2.2 v rfl hv
          simp only [hv]
          exact ⟨this.1, this.2.1⟩

theorem assign_ok (w : World) (full : T) (n : Nat) (s : TState) :
    (evalT w (.assign n full) s).1 = (evalT w full s).1 ∧ (evalT w (.assign n full) s).2.tr = (evalT w full s).2.tr ∧
    (∀ v, (evalT w full s).1 = .val v →
      evalT w (.tmp n) (evalT w (.assign n full) s).2 = (.val v, (evalT w (.assign n full) s).2)) := by
  simp only [evalT]
  cases h : evalT w full s with
  | mk r s1 =>
    cases r with
    | err => simp
    | val u => simp

/-- evaluating the test part of a capture is evaluating the captured expression, and the reference part then
reads the value back without any effect -/
theorem capture_ok (w : World) (full : T) (n : Nat) (s : TState) :
    (evalT w (capture full n).1 s).1 = (evalT w full s).1 ∧
    (evalT w (capture full n).1 s).2.tr = (evalT w full s).2.tr ∧
    (∀ v, (evalT w full s).1 = .val v →
      evalT w (capture full n).2.1 (evalT w (capture full n).1 s).2 = (.val v, (evalT w (capture full n).1 s).2)) := by
  cases full with
  | id x => simp [capture, evalT]
  | lit v => simp [capture, evalT]
  | call f a => exact assign_ok w _ n s
  | dot o p => exact assign_ok w _ n s
  | tmp k => exact assign_ok w _ n s
  | assign k e => exact assign_ok w _ n s
  | ifEqNull c y no => exact assign_ok w _ n s
  | ifNeNull c y no => exact assign_ok w _ n s

theorem lowerC_good (w : World) : ∀ (e : S) (n : Nat), Good w e (lowerC e n).1 (lowerC e n).2.1 := by
  intro e
  induction e with
  | id x => intro n s; simp [lowerC, evalT, evalC, CRes.top]
  | lit v => intro n s; simp [lowerC, evalT, evalC, CRes.top]
  | call f a ih =>
    intro n
    show Good w (.call f a) (.call f (fin (lowerC a n).1 (lowerC a n).2.1)) none
    intro s
    have hf := fin_ok w a _ _ (ih n) s
    simp only [evalT, evalC]
    cases ha : evalC w a s.tr with
    | mk cr tr1 =>
      rw [ha] at hf
      cases ht : evalT w (fin (lowerC a n).1 (lowerC a n).2.1) s with
      | mk r s1 =>
        rw [ht] at hf
        simp only at hf
        cases cr <;> simp only [CRes.top] at hf <;> obtain ⟨h1, h2⟩ := hf <;> subst h1 <;> subst h2 <;>
          simp [CRes.top]
  | dot o p ih =>
    intro n
    have iho := ih n
    show Good w (.dot o p) (.dot (lowerC o n).1 p) (lowerC o n).2.1
    cases hp : (lowerC o n).2.1 with
    | none =>
      rw [hp] at iho
      intro s
      have := iho s
      simp only [evalT, evalC]
      cases ho : evalC w o s.tr with
      | mk cr tr1 =>
        rw [ho] at this
        cases hto : evalT w (lowerC o n).1 s with
        | mk r s1 =>
          rw [hto] at this
          simp only at this
          obtain ⟨h1, h2, h3⟩ := this
          cases cr with
          | short => exact absurd rfl h3
          | err => simp only [CRes.top] at h1; subst h1; subst h2; simp [CRes.top]
          | val v =>
            simp only [CRes.top] at h1; subst h1; subst h2
            cases hv : v.nullish <;> simp [hv, CRes.top]
    | some t =>
      rw [hp] at iho
      intro s
      have := iho s
      refine ⟨?_, ?_, ?_⟩
      · intro herr
        have h := this.1 herr
        simp [evalC, h]
      · intro v hv hn
        have h := this.2.1 v hv hn
        simp [evalC, h]
      · intro v hv hn
        have h := this.2.2 v hv hn
        simp only [evalT, evalC]
        cases ho : evalC w o s.tr with
        | mk cr tr1 =>
          rw [ho] at h
          cases hto : evalT w (lowerC o n).1 (evalT w t s).2 with
          | mk r s1 =>
            rw [hto] at h
            simp only at h
            obtain ⟨h1, h2, h3⟩ := h
            cases cr with
            | short => exact absurd rfl h3
            | err => simp only [CRes.top] at h1; subst h1; subst h2; simp [CRes.top]
            | val u =>
              simp only [CRes.top] at h1; subst h1; subst h2
              cases hu : u.nullish <;> simp [hu, CRes.top]
  | optDot o p ih =>
    intro n
    show Good w (.optDot o p)
      (.dot (capture (fin (lowerC o n).1 (lowerC o n).2.1) (lowerC o n).2.2).2.1 p)
      (some (capture (fin (lowerC o n).1 (lowerC o n).2.1) (lowerC o n).2.2).1)
    intro s
    have hf := fin_ok w o _ _ (ih n) s
    have hc := capture_ok w (fin (lowerC o n).1 (lowerC o n).2.1) (lowerC o n).2.2 s
    generalize capture (fin (lowerC o n).1 (lowerC o n).2.1) (lowerC o n).2.2 = c at hc ⊢
    obtain ⟨hc1, hc2, hc3⟩ := hc
    cases ho : evalC w o s.tr with
    | mk cr tr1 =>
      rw [ho] at hf
      simp only at hf
      obtain ⟨hf1, hf2⟩ := hf
      refine ⟨?_, ?_, ?_⟩
      · intro herr
        rw [hc1] at herr
        rw [hc2, hf2]
        rw [herr] at hf1
        cases cr <;> simp only [CRes.top, reduceCtorEq] at hf1
        simp [evalC, ho]
      · intro v hv hn
        rw [hc1] at hv
        rw [hc2, hf2]
        rw [hv] at hf1
        cases cr with
        | err => simp [CRes.top] at hf1
        | short => simp [evalC, ho]
        | val u =>
          simp only [CRes.top, Res.val.injEq] at hf1
          subst hf1
          simp [evalC, ho, hn]
      · intro v hv hn
        have hread := hc3 v (by rw [← hc1]; exact hv)
        rw [hc1] at hv
        rw [hv] at hf1
        cases cr with
        | err => simp [CRes.top] at hf1
        | short =>
          simp only [CRes.top, Res.val.injEq] at hf1
          rw [hf1] at hn; simp [Val.nullish] at hn
        | val u =>
          simp only [CRes.top, Res.val.injEq] at hf1
          subst hf1
          simp only [evalT, hread, evalC, ho, hn]
          simp [CRes.top, hc2, hf2]
  | paren a ih =>
    intro n
    show Good w (.paren a) (fin (lowerC a n).1 (lowerC a n).2.1) none
    intro s
    have hf := fin_ok w a _ _ (ih n) s
    simp only [evalC]
    cases ha : evalC w a s.tr with
    | mk cr tr1 =>
      rw [ha] at hf
      cases cr <;> simp_all [CRes.top]
  | nullish a b iha ihb =>
    intro n
    show Good w (.nullish a b)
      (.ifNeNull (capture (fin (lowerC a n).1 (lowerC a n).2.1) (lowerC a n).2.2).1
        (capture (fin (lowerC a n).1 (lowerC a n).2.1) (lowerC a n).2.2).2.1
        (fin (lowerC b (capture (fin (lowerC a n).1 (lowerC a n).2.1) (lowerC a n).2.2).2.2).1
             (lowerC b (capture (fin (lowerC a n).1 (lowerC a n).2.1) (lowerC a n).2.2).2.2).2.1)) none
    intro s
    have hfa := fin_ok w a _ _ (iha n) s
    have hc := capture_ok w (fin (lowerC a n).1 (lowerC a n).2.1) (lowerC a n).2.2 s
    generalize capture (fin (lowerC a n).1 (lowerC a n).2.1) (lowerC a n).2.2 = c at hc ⊢
    obtain ⟨hc1, hc2, hc3⟩ := hc
    simp only [evalT]
    cases hta : evalT w c.1 s with
    | mk r s1 =>
      rw [hta] at hc1 hc2 hc3
      simp only at hc1 hc2 hc3
      cases ha : evalC w a s.tr with
      | mk cr tr1 =>
        rw [ha] at hfa
        simp only at hfa
        rw [← hc1, ← hc2] at hfa
        obtain ⟨hr, htr⟩ := hfa
        have hfb := fin_ok w b _ _ (ihb c.2.2) s1
        cases r with
        | err =>
          cases cr <;> simp only [CRes.top, reduceCtorEq] at hr
          simp [evalC, ha, CRes.top, htr]
        | val v =>
          have hread := hc3 v hc1.symm
          cases hn : v.nullish with
          | true =>
            simp only [if_true]
            cases cr with
            | err => simp [CRes.top] at hr
            | short =>
              simp only [evalC, ha]
              rw [← htr]
              cases hb : evalC w b s1.tr with
              | mk crb trb =>
                rw [hb] at hfb
                cases crb <;> simp_all [CRes.top]
            | val u =>
              simp only [CRes.top, Res.val.injEq] at hr
              subst hr
              simp only [evalC, ha, hn, if_true]
              rw [← htr]
              cases hb : evalC w b s1.tr with
              | mk crb trb =>
                rw [hb] at hfb
                cases crb <;> simp_all [CRes.top]
          | false =>
            simp only [Bool.false_eq_true, if_false, hread]
            cases cr with
            | err => simp [CRes.top] at hr
            | short =>
              simp only [CRes.top, Res.val.injEq] at hr
              rw [hr] at hn; simp [Val.nullish] at hn
            | val u =>
              simp only [CRes.top, Res.val.injEq] at hr
              subst hr
              simp [evalC, ha, hn, CRes.top, htr]

/-- C05 (optional chaining and nullish coalescing): the lowered expression returns the same value or throws
the same way, and performs the same calls with the same arguments in the same order, in every world and from
every state. -/
theorem lowering_preserves_behaviour (w : World) (e : S) (tr : Trace) (tm : Nat → Val) :
    (evalT w (lower e) ⟨tr, tm⟩).1 = (evalS w e tr).1 ∧ (evalT w (lower e) ⟨tr, tm⟩).2.tr = (evalS w e tr).2 := by
  have := fin_ok w e _ _ (lowerC_good w e 0) ⟨tr, tm⟩
  simpa [lower, evalS] using this

-- ---------------------------------------------------------------- non-vacuity

/-- a world in which f0 returns null on its first call and an object afterwards -/
def exW : World :=
  { var := fun x => if x = 0 then .null else .obj x,
    prop := fun v p => match v with | .obj i => .num (i + p) | _ => .undef,
    ret := fun _ _ tr => if tr.length = 0 then .null else .obj 7 }
def exE : S := .nullish (.optDot (.optDot (.call 0 (.id 1)) 2) 3) (.dot (.call 1 (.id 0)) 4)
example : evalS exW exE [] = (.val (.num 11), [(0, .obj 1), (1, .null)]) := by decide
example : (evalT exW (lower exE) ⟨[], fun _ => .undef⟩).1 = .val (.num 11) := by decide

end EsbuildModel.Lower
