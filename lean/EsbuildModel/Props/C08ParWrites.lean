import EsbuildModel.Lemmas.ParWrites
import EsbuildModel.Impl.ParWritesReview
/-
C08 — builds are deterministic whatever the goroutine schedule: the goroutines themselves.

Part 1: the interleaving theorems (ALL numbers of workers, ALL interleavings `Merge`) that justify the classes of
        Gen/ParWrites.lean.
Part 2: the regenerated facts agree with the hand-written review (Impl/ParWritesReview.lean).
-/
namespace EsbuildModel.ParWrites

/-! ## Part 1 — interleaving theorems -/

/-- (1) `slot`: workers that each update only their own slot of an array (with functions of that slot's old value and
of data fixed before the fork) leave, under EVERY interleaving of their steps, exactly what the sequential loop leaves. -/
theorem disjoint_slot_writers_commute {V : Type} (progs : List (List (V → V))) (out : List (Mem V → Mem V))
    (hm : Merge (slotWorkers progs) out) (m : Mem V) :
    run out m = sequentialResult progs m := by
  rw [merge_eq_sequential hm (crossCommute_slotWorkers progs) m]
  unfold slotWorkers
  rw [run_slotWorkersFrom]
  funext k
  simp only [sequentialResult, Nat.not_lt_zero, if_false, Nat.sub_zero]
  cases progs[k]? <;> rfl

/-- non-vacuity: three workers, a schedule that is not the sequential one -/
example : Merge (slotWorkers [[(· + 1), (· * 2)], [(· + 5)], [fun _ => 7]])
    [slotStep 2 (fun _ => 7), slotStep 0 (· + 1), slotStep 1 (· + 5), slotStep 0 (· * 2)] :=
  Merge.step 2 (by decide) _ [] rfl <| Merge.step 0 (by decide) _ [slotStep 0 (· * 2)] rfl <|
  Merge.step 1 (by decide) _ [] rfl <| Merge.step 0 (by decide) _ [] rfl <|
  Merge.done (all_nil_of_length rfl)

/-- the sequential loop is itself one of the schedules -/
theorem sequential_is_a_schedule {α : Type} (ls : List (List α)) : Merge ls ls.flatten := merge_flatten ls

/-- why READS of a neighbour's slot are listed by the extractor: a worker that copies slot 0 while worker 0 writes it
gets a schedule-dependent result. -/
theorem neighbour_read_is_schedule_dependent :
    ∃ out₁ out₂ : List (Mem Nat → Mem Nat),
      Merge [[slotStep 0 (fun _ => 1)], [copyStep 1 0]] out₁ ∧ Merge [[slotStep 0 (fun _ => 1)], [copyStep 1 0]] out₂ ∧
      run out₁ (fun _ => 0) 1 ≠ run out₂ (fun _ => 0) 1 := by
  refine ⟨[slotStep 0 (fun _ => 1), copyStep 1 0], [copyStep 1 0, slotStep 0 (fun _ => 1)], ?_, ?_, ?_⟩
  · exact Merge.step 0 (by decide) _ [] rfl <| Merge.step 1 (by decide) _ [] rfl <|
      Merge.done (all_nil_of_length rfl)
  · exact Merge.step 1 (by decide) _ [] rfl <| Merge.step 0 (by decide) _ [] rfl <|
      Merge.done (all_nil_of_length rfl)
  · simp [run, slotStep, copyStep]

/-- (2) `underMutex` / `atomic` with a commutative accumulator: workers whose critical sections apply operations of a
commuting family reach, under EVERY interleaving, the state of the sequential loop. -/
theorem mutex_commutative_accumulator {σ X : Type} (A : CommAcc σ X) (work : List (List X)) (out : List (σ → σ))
    (hm : Merge (work.map (accWorker A)) out) (s : σ) :
    run out s = work.flatten.foldl (fun s x => A.op x s) s := by
  rw [merge_eq_sequential hm (crossCommute_accWorkers A work) s]
  have : (work.map (accWorker A)).flatten = work.flatten.map A.op := flatten_map_map A.op work
  rw [this, run_map_op]

/-- instances: counter add and set insert are commuting families (`counterAcc`, `setAcc`) -/
example (work : List (List Int)) (out) (hm : Merge (work.map (accWorker counterAcc)) out) :
    run out 0 = work.flatten.foldl (fun s x => s + x) 0 := mutex_commutative_accumulator counterAcc work out hm 0

example : Merge ([[1, 2], [10]].map (accWorker counterAcc)) [counterAcc.op 1, counterAcc.op 10, counterAcc.op 2] :=
  Merge.step 0 (by decide) _ [counterAcc.op 2] rfl <| Merge.step 1 (by decide) _ [] rfl <|
  Merge.step 0 (by decide) _ [] rfl <| Merge.done (all_nil_of_length rfl)

/-- (2') map stores under a mutex: inserts commute only for DISTINCT keys, so the hypothesis is that no two workers
store under the same key (keys are unique ids: source indices, chunk indices, …). -/
theorem mutex_map_insert_distinct_keys {K V : Type} [DecidableEq K] (work : List (List (K × V)))
    (hkeys : ∀ (i j : Nat) (hi : i < work.length) (hj : j < work.length), i ≠ j →
      ∀ a ∈ work[i], ∀ b ∈ work[j], a.1 ≠ b.1)
    (out : List ((K → Option V) → (K → Option V))) (hm : Merge (work.map (fun kvs => kvs.map mapInsert)) out)
    (m : K → Option V) :
    run out m = work.flatten.foldl (fun m kv => mapInsert kv m) m := by
  have hc : CrossCommute (work.map (fun kvs => kvs.map (mapInsert (K := K) (V := V)))) := by
    intro i j hi hj hij a ha b hb s
    simp only [List.getElem_map, List.mem_map] at ha hb
    obtain ⟨x, hx, rfl⟩ := ha
    obtain ⟨y, hy, rfl⟩ := hb
    exact mapInsert_comm x y (hkeys i j (by simpa using hi) (by simpa using hj) hij x hx y hy) s
  rw [merge_eq_sequential hm hc m, flatten_map_map, run_map_op]

example : ∀ (i j : Nat) (hi : i < [[(1, "a"), (2, "b")], [(3, "c")]].length) (hj : j < [[(1, "a"), (2, "b")], [(3, "c")]].length), i ≠ j →
    ∀ a ∈ [[(1, "a"), (2, "b")], [(3, "c")]][i], ∀ b ∈ [[(1, "a"), (2, "b")], [(3, "c")]][j], a.1 ≠ b.1 := by
  intro i j hi hj hij a ha b hb
  simp only [List.length_cons, List.length_nil] at hi hj
  have hi' : i = 0 ∨ i = 1 := by omega
  have hj' : j = 0 ∨ j = 1 := by omega
  rcases hi' with rfl | rfl <;> rcases hj' with rfl | rfl
  · exact absurd rfl hij
  · simp at ha hb; rcases ha with rfl | rfl <;> subst hb <;> decide
  · simp at ha hb; rcases hb with rfl | rfl <;> subst ha <;> decide
  · exact absurd rfl hij

/-- without the hypothesis the last store wins: two workers storing under the SAME key are schedule dependent -/
theorem map_insert_same_key_is_schedule_dependent :
    run [mapInsert (1, "a"), mapInsert (1, "b")] (fun _ => none) 1 ≠ run [mapInsert (1, "b"), mapInsert (1, "a")] (fun _ => none) 1 := by
  simp [run, mapInsert]

/-- (3) `channelSend`, collect then sort: whatever order the results of the workers arrive in (any interleaving of the
workers' send sequences), sorting what was received by a total order that distinguishes all results gives ONE list:
the sorted list of everything that was sent. -/
theorem channel_collect_then_sort {R : Type} (le : R → R → Bool)
    (htrans : ∀ a b c, le a b = true → le b c = true → le a c = true)
    (htotal : ∀ a b, (le a b || le b a) = true)
    (sends : List (List R))
    (hstrict : ∀ a ∈ sends.flatten, ∀ b ∈ sends.flatten, le a b = true → le b a = true → a = b)
    (arrival : List R) (hm : Merge sends arrival) :
    (received arrival).mergeSort le = sends.flatten.mergeSort le := by
  have hp : arrival.Perm sends.flatten := merge_perm hm
  have hperm : (arrival.mergeSort le).Perm (sends.flatten.mergeSort le) :=
    ((List.mergeSort_perm arrival le).trans hp).trans (List.mergeSort_perm sends.flatten le).symm
  apply List.Perm.eq_of_pairwise (le := fun a b => le a b = true) _
    (List.pairwise_mergeSort htrans htotal arrival) (List.pairwise_mergeSort htrans htotal sends.flatten) hperm
  intro a b ha hb h1 h2
  have ha' : a ∈ sends.flatten := hp.subset (List.mem_mergeSort.mp ha)
  have hb' : b ∈ sends.flatten := List.mem_mergeSort.mp hb
  exact hstrict a ha' b hb' h1 h2

/-- non-vacuity: results keyed by distinct numbers, two workers, an arrival order that interleaves them -/
example : Merge [[3, 1], [2]] [3, 2, 1] :=
  Merge.step 0 (by decide) 3 [1] rfl <| Merge.step 1 (by decide) 2 [] rfl <| Merge.step 0 (by decide) 1 [] rfl <|
  Merge.done (all_nil_of_length rfl)
example : ∀ a ∈ [[3, 1], [2]].flatten, ∀ b ∈ [[3, 1], [2]].flatten, (decide (a ≤ b)) = true → (decide (b ≤ a)) = true → a = b := by
  decide

/-- (4) NEGATIVE: `if firstErr == nil { firstErr = e }` under a mutex keeps the value of whichever worker gets the lock
first: the result is the head of the ARRIVAL order … -/
theorem first_writer_wins_keeps_first_arrival {E : Type} (es : List E) :
    run (es.map firstWins) none = es.head? := by
  cases es with
  | nil => rfl
  | cons e es => simp only [List.map_cons, run_cons, firstWins, List.head?_cons]; exact firstWins_run es e

/-- … and therefore depends on the schedule as soon as two workers offer different values: this pattern is NOT an
order-independent join (the review must flag every such site and look at what the kept value reaches). -/
theorem first_writer_wins_is_schedule_dependent {E : Type} (a b : E) (hab : a ≠ b) :
    ∃ out₁ out₂ : List (Option E → Option E),
      Merge [[firstWins a], [firstWins b]] out₁ ∧ Merge [[firstWins a], [firstWins b]] out₂ ∧
      run out₁ none ≠ run out₂ none := by
  refine ⟨[firstWins a, firstWins b], [firstWins b, firstWins a], ?_, ?_, ?_⟩
  · exact Merge.step 0 (by simp) _ [] rfl <| Merge.step 1 (by simp) _ [] rfl <|
      Merge.done (all_nil_of_length rfl)
  · exact Merge.step 1 (by simp) _ [] rfl <| Merge.step 0 (by simp) _ [] rfl <|
      Merge.done (all_nil_of_length rfl)
  · simp only [run, List.foldl, firstWins]
    intro h; exact hab (Option.some.inj h)

example : (1 : Nat) ≠ 2 := by decide

/-- the same for an unsorted `append` under a mutex (`x = append(x, r)`): the list IS the arrival order -/
theorem append_under_mutex_keeps_arrival_order {R : Type} (rs : List R) (init : List R) :
    run (rs.map (fun r (l : List R) => l ++ [r])) init = init ++ rs := by
  induction rs generalizing init with
  | nil => simp [run]
  | cons r rs ih => simp only [List.map_cons, run_cons]; rw [ih]; simp

/-! ## Part 2 — the regenerated facts agree with the review -/

open EsbuildModel.Gen.ParWrites EsbuildModel.ParWritesReview

/-- Every `go` statement that the type-checked extractor finds NOW in the build pipeline (linker, bundler, graph, renamer,
printers, parsers, resolver, cache, pkg/api without serve/watch files) is a reviewed one and has exactly the reviewed facts:
same enclosing function and position among that function's go statements, same loop, same own variables, same classified
writes to shared memory, same foreign reads of slot arrays, same callees that receive shared memory. A new goroutine, an
unlocked append to a shared slice, a write to a neighbour's slot, a first-error-wins assignment … make this proof fail. -/
theorem facts_match_review : sites = reviewed.map (·.expected) := rfl

/-- the review is complete: at every site, the reasons given are exactly for the items that need one — every write that
is not slot / waitGroup / localOnly, every foreign read of a slot array, the callees that receive shared memory -/
theorem review_complete :
    reviewed.map (fun r => r.why.map (·.1)) = reviewed.map (fun r => r.expected.needs) := rfl

/-- no first-writer-wins write outside the reviewed list (the pattern is schedule dependent:
`first_writer_wins_is_schedule_dependent`) -/
theorem no_unreviewed_first_writer_wins :
    firstWriterWins = firstWriterWinsReviewed.map (fun r => (r.1, r.2.1)) := rfl

/-- esbuild's go.mod asks for a language version before 1.22, where a loop variable is ONE variable for all iterations:
the extractor therefore never accepts a captured loop variable as a worker's own index (class `sharedLoopVar`), and no
goroutine body mentions one: they all receive the loop variables as arguments. -/
theorem no_goroutine_uses_a_shared_loop_variable :
    loopVarPerIteration = false ∧ sharedLoopVarUses = [] := ⟨rfl, rfl⟩

/-- the verdicts of the review, for the record: 20 sites deterministic, 2 FLAGGED (F1: diagnostics order of equal messages
from parallel onStart callbacks; F2: location of the load diagnostics of a file with several importers), 3 outside a build -/
theorem review_verdicts : verdicts = [
    ("ScanBundle", 0, "FLAGGED-diagnostics-order"), ("ScanBundle", 1, "deterministic"),
    ("scanner.maybeParseFile", 0, "FLAGGED-diagnostics-location"),
    ("scanner.preprocessInjectedFiles", 0, "deterministic"), ("scanner.preprocessInjectedFiles", 1, "deterministic"),
    ("scanner.preprocessInjectedFiles", 2, "deterministic"), ("scanner.addEntryPoints", 0, "deterministic"),
    ("Bundle.Compile", 0, "deterministic"), ("Bundle.computeDataForSourceMapsInParallel", 0, "deterministic"),
    ("CloneLinkerGraph", 0, "deterministic"),
    ("linkerContext.generateChunksInParallel", 0, "deterministic"), ("linkerContext.generateChunksInParallel", 1, "deterministic"),
    ("linkerContext.generateChunksInParallel", 2, "deterministic"), ("linkerContext.computeCrossChunkDependencies", 0, "deterministic"),
    ("linkerContext.scanImportsAndExports", 0, "deterministic"), ("linkerContext.renameSymbolsInChunk", 0, "deterministic"),
    ("linkerContext.generateChunkJS", 0, "deterministic"), ("linkerContext.generateChunkCSS", 0, "deterministic"),
    ("linkerContext.generateIsolatedHashInParallel", 0, "deterministic"), ("NumberRenamer.AssignNamesByScope", 0, "deterministic"),
    ("internalContext.rebuild", 0, "out-of-scope"), ("internalContext.Watch", 0, "out-of-scope"),
    ("internalContext.Dispose", 0, "out-of-scope"), ("rebuildImpl", 0, "deterministic"), ("rebuildImpl", 1, "deterministic")] := rfl

end EsbuildModel.ParWrites
