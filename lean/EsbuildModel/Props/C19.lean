import EsbuildModel.Lemmas.Pieces
/-! # C19 — the metafile is an exact account of the build: property theorems -/
namespace EsbuildModel.C19
open EsbuildModel.Pieces

/-- `Meta.count_eq_len`: the byte count the metafile reports (computed by `accurateFinalByteCount`
before the final paths are substituted) equals the length of the bytes `substituteFinalPaths`
produces — for ALL piece lists and ALL path functions. -/
theorem count_eq_len (pathOf : Kind → Nat → List Nat) (ps : List Piece) :
    byteCount pathOf ps = (substitute pathOf ps).length := Pieces.count_eq_len pathOf ps

/-- splitting an output at its unique keys loses nothing: data ++ key bytes, concatenated, is the output -/
theorem pieces_partition_output (pre : List Nat) (nFiles nChunks fuel : Nat) (out : List Nat) :
    rejoin (breakOutput pre nFiles nChunks fuel out) = out := rejoin_break pre nFiles nChunks fuel out

example := count_eq_len (fun _ i => [i, i]) [{ data := [1], index := 3, kind := .chunk }, { data := [2, 2], index := 0, kind := .none }]
end EsbuildModel.C19
