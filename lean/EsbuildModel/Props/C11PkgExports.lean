import EsbuildModel.Lemmas.PkgExportsTop
/-! # C11 — module resolution agrees with Node: package.json "exports" / "imports"

Model  : `EsbuildModel.PkgExports`  (Impl/PkgExports.lean)  — esbuild's esmPackageExportsResolve,
         esmPackageImportsResolve, esmPackageImportsExportsResolve, esmPackageTargetResolve, transcribed from Go.
Spec   : `EsbuildModel.NodeExports` (Spec/NodeExports.lean) — Node's documented PACKAGE_EXPORTS_RESOLVE,
         PACKAGE_IMPORTS_RESOLVE, PACKAGE_IMPORTS_EXPORTS_RESOLVE, PATTERN_KEY_COMPARE, PACKAGE_TARGET_RESOLVE;
         `strict = true` is the documentation, `strict = false` the Node 20 binary (validated against it).
Hypotheses: `exportsOK`, `importsOK` (Lemmas/PkgExportsHyp.lean), decidable; each conjunct excludes one KNOWN
         difference between esbuild and Node, witnessed below by a concrete package.json on which the two
         functions differ (`example … ≠ … := by decide`); the ones marked RUN were also run on the real esbuild
         and the real Node 20.

All theorems hold for every export map, request, condition set; no bound on sizes or nesting depth. -/
namespace EsbuildModel.C11
open EsbuildModel.PkgExports EsbuildModel.NodeExports

/-- **model_refines_spec (exports).** For every "exports" value, every requested subpath and every set of
conditions that meet `exportsOK`: translating esbuild's (path, pjStatus) into Node's vocabulary gives exactly
what PACKAGE_EXPORTS_RESOLVE returns or throws — the same resolved path, or the same class of error — both
for the documented algorithm and for the Node 20 variant. -/
theorem model_refines_spec_exports (strict : Bool) (subpath : Str) (exports : Target) (conditions : List Str)
    (h : exportsOK subpath exports = true) :
    classify false (exportsResolve ['/'] subpath exports conditions) =
      packageExportsResolve strict ['/'] subpath exports conditions :=
  exports_ok strict conditions subpath exports h

/-- **model_refines_spec (imports).** The same for "#" specifiers and the "imports" field. -/
theorem model_refines_spec_imports (strict : Bool) (specifier : Str) (imports : Target) (conditions : List Str)
    (h : importsOK specifier imports = true) :
    classify true (importsResolve specifier imports conditions) =
      packageImportsResolve strict ['/'] specifier (some imports) conditions :=
  imports_ok strict conditions specifier imports h

/-- Node resolves a request to a file iff esbuild does, and then to the same path, with an *exact* status
(no extension probing); Node throws iff esbuild refuses. -/
theorem node_resolves_iff_esbuild_resolves (strict : Bool) (subpath : Str) (exports : Target)
    (conditions : List Str) (h : exportsOK subpath exports = true) (p : Str) :
    packageExportsResolve strict ['/'] subpath exports conditions = .resolved p ↔
      ((exportsResolve ['/'] subpath exports conditions).1 = p ∧
       ((exportsResolve ['/'] subpath exports conditions).2 = .exact ∨
        (exportsResolve ['/'] subpath exports conditions).2 = .exactEndsWithStar ∨
        (exportsResolve ['/'] subpath exports conditions).2 = .inexact)) := by
  rw [← model_refines_spec_exports strict subpath exports conditions h]
  generalize exportsResolve ['/'] subpath exports conditions = r
  obtain ⟨q, st⟩ := r
  cases st <;> simp [classify]

theorem esbuild_refuses_when_node_throws (strict : Bool) (subpath : Str) (exports : Target)
    (conditions : List Str) (h : exportsOK subpath exports = true) (e : Err)
    (hn : packageExportsResolve strict ['/'] subpath exports conditions = .error e) :
    (exportsResolve ['/'] subpath exports conditions).2 ≠ .exact ∧
    (exportsResolve ['/'] subpath exports conditions).2 ≠ .exactEndsWithStar ∧
    (exportsResolve ['/'] subpath exports conditions).2 ≠ .inexact ∧
    (exportsResolve ['/'] subpath exports conditions).2 ≠ .packageResolve := by
  rw [← model_refines_spec_exports strict subpath exports conditions h] at hn
  generalize exportsResolve ['/'] subpath exports conditions = r at hn
  obtain ⟨q, st⟩ := r
  cases st <;> simp [classify] at hn ⊢

/-! ## Determinism facts (about esbuild's implementation, no hypothesis on the shape of the strings) -/

theorem conditionLoop_first (pk sub : Str) (pat int : Bool) (conds : List Str)
    (pre post : List (Str × Target)) (k : Str) (v : Target)
    (hpre : ∀ p ∈ pre, (p.1 = ['d', 'e', 'f', 'a', 'u', 'l', 't'] ∨ conds.contains p.1 = true) →
      (PkgExports.targetResolve pk sub pat int conds p.2).2.isUndefined = true)
    (hk : k = ['d', 'e', 'f', 'a', 'u', 'l', 't'] ∨ conds.contains k = true)
    (hv : (PkgExports.targetResolve pk sub pat int conds v).2.isUndefined = false) :
    PkgExports.conditionLoop pk sub pat int conds (pre ++ (k, v) :: post) =
      some (PkgExports.targetResolve pk sub pat int conds v) := by
  induction pre with
  | nil =>
    have hk' : (decide (k = ['d', 'e', 'f', 'a', 'u', 'l', 't']) || conds.contains k) = true := by
      simp only [Bool.or_eq_true, decide_eq_true_eq]; exact hk
    simp only [List.nil_append, PkgExports.conditionLoop, hk', ↓reduceIte, hv, Bool.false_eq_true]
  | cons p ps ih =>
    obtain ⟨pk', pv⟩ := p
    have ih' := ih (fun q hq => hpre q (by simp [hq]))
    simp only [List.cons_append, PkgExports.conditionLoop]
    cases happ : (decide (pk' = ['d', 'e', 'f', 'a', 'u', 'l', 't']) || conds.contains pk')
    · simpa using ih'
    · have := hpre (pk', pv) (by simp) (by
        simp only [Bool.or_eq_true, decide_eq_true_eq] at happ; exact happ)
      simp only [↓reduceIte, this]
      exact ih'

/-- **A condition object yields the FIRST matching key in source order.** If `k` is "default" or an active
condition, its value resolves to something (anything but "undefined": a path, null, or an error), and every
applicable key written BEFORE it resolves to "undefined" (in particular: if no earlier key is applicable),
then the object resolves to what `k`'s value resolves to — whatever is written after `k`. -/
theorem first_matching_condition_wins (pk sub : Str) (pat int : Bool) (conds : List Str)
    (pre post : List (Str × Target)) (k : Str) (v : Target)
    (hobj : isMixed (pre ++ (k, v) :: post) = false)
    (hpre : ∀ p ∈ pre, (p.1 = ['d', 'e', 'f', 'a', 'u', 'l', 't'] ∨ conds.contains p.1 = true) →
      (PkgExports.targetResolve pk sub pat int conds p.2).2.isUndefined = true)
    (hk : k = ['d', 'e', 'f', 'a', 'u', 'l', 't'] ∨ conds.contains k = true)
    (hv : (PkgExports.targetResolve pk sub pat int conds v).2.isUndefined = false) :
    PkgExports.targetResolve pk sub pat int conds (.obj (pre ++ (k, v) :: post)) =
      PkgExports.targetResolve pk sub pat int conds v := by
  simp only [PkgExports.targetResolve, hobj, Bool.false_eq_true, ↓reduceIte,
    conditionLoop_first pk sub pat int conds pre post k v hpre hk hv]

/-- **An exact key that maps to `null` blocks the request**, whatever patterns would also apply. -/
theorem exact_null_blocks (l : List (Str × Target)) (subpath : Str) (conds : List Str)
    (hs : subpath ≠ ['.']) (hslash : hasSuffix subpath ['/'] = false) (hstar : indexByte subpath '*' = none)
    (hobj : isMixed l = false) (hdot : keysStartWithDot l = true)
    (h : valueForKey l subpath = some .null) :
    exportsResolve ['/'] subpath (.obj l) conds = ([], .packagePathNotExported) := by
  simp [exportsResolve, kindOf, hobj, hs, hdot, PkgExports.importsExportsResolve, hslash, hstar, h,
    PkgExports.targetResolve]

/-- **A `null` target under the most specific applicable pattern blocks the request, even though a less specific
pattern would resolve it** (Node: "null … to block access to private subfolders"): if no exact key equals the
request, the pattern key `k` applies to it and maps to null, and `k` is strictly more specific (`Less`, i.e.
PATTERN_KEY_COMPARE) than every other expansion key that applies, the request is not exported. -/
theorem most_specific_null_blocks (l : List (Str × Target)) (subpath : Str) (conds : List Str) (k : Str)
    (hs : subpath ≠ ['.']) (hobj : isMixed l = false) (hdot : keysStartWithDot l = true)
    (hnoexact : (if !hasSuffix subpath ['/'] && (indexByte subpath '*').isNone
                 then valueForKey l subpath else none) = none)
    (hk : (k, Target.null) ∈ l) (hexp : isExpansionKey k = true) (hmatch : keyMatches subpath k = true)
    (hbest : ∀ x ∈ l, isExpansionKey x.1 = true → keyMatches subpath x.1 = true →
      x = (k, Target.null) ∨ less k x.1 = true) :
    exportsResolve ['/'] subpath (.obj l) conds = ([], .packagePathNotExported) := by
  have hmem : ∀ x, x ∈ expansionKeysOf l ↔ x ∈ l ∧ isExpansionKey x.1 = true := by
    intro x; simp [expansionKeysOf, mem_sortEntries, List.mem_filter]
  have hloop := expansionLoop_most_specific ['/'] subpath false conds (expansionKeysOf l)
    (sortEntries_sorted _) k .null ((hmem _).mpr ⟨hk, hexp⟩) hmatch
    (fun x hx hm => hbest x ((hmem x).mp hx).1 ((hmem x).mp hx).2 hm)
  rw [expansionLoop_null ['/'] subpath false conds k [] hmatch] at hloop
  have hie : PkgExports.importsExportsResolve subpath l ['/'] false conds = ([], .null) := by
    unfold PkgExports.importsExportsResolve
    rw [hnoexact]
    exact hloop
  simp [exportsResolve, kindOf, hobj, hs, hdot, hie]

/-- `expansionKeysArray.Less` is a strict weak order; hence `sort.Stable` can only produce the order that the
model's stable insertion sort produces, and that order is sorted. -/
theorem less_is_strict_weak_order :
    (∀ a b, less a b = true → less b a = false) ∧
    (∀ a b c, less a b = false → less b c = false → less a c = false) ∧
    (∀ es, Sorted (sortEntries es)) :=
  ⟨less_asymm, less_negtrans, sortEntries_sorted⟩

/-! ## Non-vacuity: the hypotheses hold on a realistic package.json, and the theorems say something there -/

private def s (x : String) : Str := x.toList

/-- `{ ".": {"import": "./esm/index.js", "require": "./cjs/index.js"}, "./features/*.js": "./src/features/*.js",
      "./internal/*": null, "./*": ["./dist/*.js", null], "./package.json": "./package.json" }` -/
private def demo : Target :=
  .obj [ (s ".", .obj [(s "import", .str (s "./esm/index.js")), (s "require", .str (s "./cjs/index.js"))]),
         (s "./features/*.js", .str (s "./src/features/*.js")),
         (s "./internal/*", .null),
         (s "./*", .arr [.str (s "./dist/*.js"), .null]),
         (s "./package.json", .str (s "./package.json")) ]

example : exportsOK (s "./features/x.js") demo = true := by decide
example : exportsOK (s "./internal/secret") demo = true := by decide
example : exportsOK (s ".") demo = true := by decide
example : packageExportsResolve true ['/'] (s "./features/x.js") demo [s "import", s "node"] = .resolved (s "/src/features/x.js") := by decide
example : exportsResolve ['/'] (s "./features/x.js") demo [s "import", s "node"] = (s "/src/features/x.js", .exact) := by decide
example : exportsResolve ['/'] (s ".") demo [s "require", s "node"] = (s "/cjs/index.js", .exact) := by decide
example : exportsResolve ['/'] (s "./lib/a") demo [s "import"] = (s "/dist/lib/a.js", .exact) := by decide
/-- the null under "./internal/*" blocks although "./*" applies too (hypotheses of `most_specific_null_blocks`) -/
example : exportsResolve ['/'] (s "./internal/secret") demo [s "import"] = ([], .packagePathNotExported) := by decide
example : keyMatches (s "./internal/secret") (s "./internal/*") = true ∧ keyMatches (s "./internal/secret") (s "./*") = true ∧
    less (s "./internal/*") (s "./*") = true := by decide
/-- `first_matching_condition_wins`: "require" comes second; "import" is not active, so the first applicable key is "require" -/
example : PkgExports.targetResolve ['/'] [] false false [s "require"]
      (.obj ([(s "import", .str (s "./esm/index.js"))] ++ (s "require", .str (s "./cjs/index.js")) :: [(s "default", .str (s "./x.js"))])) =
    (s "/cjs/index.js", .exact) := by decide

/-- imports: `{ "#dep": {"node": "dep-node-native", "default": "./dep-polyfill.js"}, "#internal/*": "./src/internal/*.js" }` -/
private def demoImports : Target :=
  .obj [ (s "#dep", .obj [(s "node", .str (s "dep-node-native")), (s "default", .str (s "./dep-polyfill.js"))]),
         (s "#internal/*", .str (s "./src/internal/*.js")) ]
example : importsOK (s "#dep") demoImports = true ∧ importsOK (s "#internal/a/b") demoImports = true := by decide
example : packageImportsResolve true ['/'] (s "#dep") (some demoImports) [s "node"] = .package (s "dep-node-native") := by decide
example : importsResolve (s "#internal/a/b") demoImports [s "browser"] = (s "/src/internal/a/b.js", .exact) := by decide

/-! ## Every hypothesis is needed: where esbuild (model) and Node (spec) differ

Each `example` evaluates both functions on a concrete input that violates exactly one conjunct. -/

/-- D1 (FIXED in /repo, commit "reject a package subpath pattern match whose first segment is "..", "." or
"node_modules" as Node does"). `findInvalidSegment` skips everything up to the first "/" — right for targets (which begin
with "./"), wrong for the part matched by "*"; the call is now `findInvalidSegment("./" + subpath)`. Before the fix
exports {"./*": "./dist/*.js"}, request "dep/../x" resolved to dep/x.js (outside "./dist/") where Node throws
ERR_INVALID_MODULE_SPECIFIER. These inputs now MEET the hypotheses and both sides refuse them (regression examples). -/
example : exportsOK (s "./../x") (.obj [(s "./*", .str (s "./dist/*.js"))]) = true
    ∧ classify false (exportsResolve ['/'] (s "./../x") (.obj [(s "./*", .str (s "./dist/*.js"))]) []) = .error .invalidSpecifier
    ∧ packageExportsResolve true ['/'] (s "./../x") (.obj [(s "./*", .str (s "./dist/*.js"))]) [] = .error .invalidSpecifier
    ∧ packageExportsResolve false ['/'] (s "./../x") (.obj [(s "./*", .str (s "./dist/*.js"))]) [] = .error .invalidSpecifier := by decide
example : exportsOK (s "./node_modules/x") (.obj [(s "./*", .str (s "./dist/*.js"))]) = true
    ∧ classify false (exportsResolve ['/'] (s "./node_modules/x") (.obj [(s "./*", .str (s "./dist/*.js"))]) []) = .error .invalidSpecifier
    ∧ packageExportsResolve false ['/'] (s "./node_modules/x") (.obj [(s "./*", .str (s "./dist/*.js"))]) [] = .error .invalidSpecifier := by decide
example : exportsOK (s "./.") (.obj [(s "./*", .str (s "./dist/*.js"))]) = true
    ∧ classify false (exportsResolve ['/'] (s "./.") (.obj [(s "./*", .str (s "./dist/*.js"))]) []) = .error .invalidSpecifier
    ∧ packageExportsResolve false ['/'] (s "./.") (.obj [(s "./*", .str (s "./dist/*.js"))]) [] = .error .invalidSpecifier := by decide

/-- D1' RUN (what remains of D1 after the fix). In a pattern match, as in a target (D6, D7), Node compares the forbidden
segments case-insensitively and percent-decoded, and the documentation also forbids empty segments (Node 20: DEP0166);
esbuild compares literally and accepts empty segments. Request "dep/NODE_MODULES/x": Node: ERR_INVALID_MODULE_SPECIFIER,
esbuild resolves; request "dep/a//b": documentation: Invalid Module Specifier, Node 20 and esbuild resolve. (`subOK`) -/
example : classify false (exportsResolve ['/'] (s "./NODE_MODULES/x") (.obj [(s "./*", .str (s "./dist/*.js"))]) []) = .resolved (s "/dist/NODE_MODULES/x.js")
    ∧ packageExportsResolve false ['/'] (s "./NODE_MODULES/x") (.obj [(s "./*", .str (s "./dist/*.js"))]) [] = .error .invalidSpecifier := by decide
example : classify false (exportsResolve ['/'] (s "./a//b") (.obj [(s "./*", .str (s "./dist/*.js"))]) []) = .resolved (s "/dist/a//b.js")
    ∧ packageExportsResolve true ['/'] (s "./a//b") (.obj [(s "./*", .str (s "./dist/*.js"))]) [] = .error .invalidSpecifier
    ∧ packageExportsResolve false ['/'] (s "./a//b") (.obj [(s "./*", .str (s "./dist/*.js"))]) [] = .resolved (s "/dist/a//b.js") := by decide

/-- D2 RUN. "*" may stand for the empty string in esbuild ("If matchKey starts with but is not equal to patternBase" is
not tested): exports {"./b*": "./lib/*.js"}, request "dep/b": Node: not exported; esbuild: "./lib/.js". (`mapOK`, 5th conjunct) -/
example : classify false (exportsResolve ['/'] (s "./b") (.obj [(s "./b*", .str (s "./lib/*.js"))]) []) = .resolved (s "/lib/.js")
    ∧ packageExportsResolve false ['/'] (s "./b") (.obj [(s "./b*", .str (s "./lib/*.js"))]) [] = .error .notExported := by decide

/-- D3 RUN (deliberate in esbuild). Folder mappings ("./lib/": "./dist/"), removed in Node 17, still work in esbuild and
give an INEXACT result (extension probing). (`keyOK`) -/
example : exportsResolve ['/'] (s "./lib/x") (.obj [(s "./lib/", .str (s "./dist/"))]) [] = (s "/dist/x", .inexact)
    ∧ packageExportsResolve false ['/'] (s "./lib/x") (.obj [(s "./lib/", .str (s "./dist/"))]) [] = .error .notExported := by decide

/-- D4 RUN. A nested object with a key starting with "." next to one that does not: esbuild's parser rejects the object
(invalid), Node just never selects the "./x" key. {".": {"./x": "./a.js", "default": "./b.js"}}: Node: ./b.js; esbuild: error. (`wf`) -/
example : classify false (exportsResolve ['/'] (s ".") (.obj [(s ".", .obj [(s "./x", .str (s "./a.js")), (s "default", .str (s "./b.js"))])]) []) = .error .invalidTarget
    ∧ packageExportsResolve false ['/'] (s ".") (.obj [(s ".", .obj [(s "./x", .str (s "./a.js")), (s "default", .str (s "./b.js"))])]) [] = .resolved (s "/b.js") := by decide

/-- D5 RUN. Array-index keys in a condition object: Node: ERR_INVALID_PACKAGE_CONFIG; esbuild does not look. (`wf`) -/
example : classify false (exportsResolve ['/'] (s ".") (.obj [(s ".", .obj [(s "1", .str (s "./a.js")), (s "default", .str (s "./b.js"))])]) []) = .resolved (s "/b.js")
    ∧ packageExportsResolve false ['/'] (s ".") (.obj [(s ".", .obj [(s "1", .str (s "./a.js")), (s "default", .str (s "./b.js"))])]) [] = .error .invalidConfig := by decide

/-- D6 RUN. Forbidden segments are compared case-insensitively (and percent-decoded) by Node, literally by esbuild:
{".": "./a/NODE_MODULES/b.js"}: Node: ERR_INVALID_PACKAGE_TARGET; esbuild resolves. (`canonSeg`) -/
example : classify false (exportsResolve ['/'] (s ".") (.obj [(s ".", .str (s "./a/NODE_MODULES/b.js"))]) []) = .resolved (s "/a/NODE_MODULES/b.js")
    ∧ packageExportsResolve false ['/'] (s ".") (.obj [(s ".", .str (s "./a/NODE_MODULES/b.js"))]) [] = .error .invalidTarget := by decide

/-- D7 RUN. Empty segments: the documentation throws, Node 20 warns (DEP0166) and keeps "//" in the URL, esbuild's
path.Join removes it (same file on disk). (`targetOK`: no empty segment) -/
example : classify false (exportsResolve ['/'] (s ".") (.obj [(s ".", .str (s "./a//b.js"))]) []) = .resolved (s "/a/b.js")
    ∧ packageExportsResolve true ['/'] (s ".") (.obj [(s ".", .str (s "./a//b.js"))]) [] = .error .invalidTarget
    ∧ packageExportsResolve false ['/'] (s ".") (.obj [(s ".", .str (s "./a//b.js"))]) [] = .resolved (s "/a//b.js") := by decide

/-- D8. "\" is a path separator for Node's URL resolution, an ordinary character for esbuild. (`plainStr`) -/
example : classify false (exportsResolve ['/'] (s ".") (.obj [(s ".", .str (s "./a\\b.js"))]) []) = .resolved (s "/a\\b.js")
    ∧ packageExportsResolve false ['/'] (s ".") (.obj [(s ".", .str (s "./a\\b.js"))]) [] = .resolved (s "/a/b.js") := by decide

/-- D9 RUN. "exports": 5 — esbuild: invalid package configuration; Node: not exported (both refuse; the class differs). -/
example : classify false (exportsResolve ['/'] (s ".") .other []) = .error .invalidConfig
    ∧ packageExportsResolve false ['/'] (s ".") .other [] = .error .notExported := by decide

/-- D10 RUN. A request ending in "/": documentation: Invalid Module Specifier; Node 20 (DEP0155) and esbuild go on with the
patterns. (`requestOK`) -/
example : classify false (exportsResolve ['/'] (s "./x/") (.obj [(s "./*", .str (s "./*.js"))]) []) = .resolved (s "/x/.js")
    ∧ packageExportsResolve true ['/'] (s "./x/") (.obj [(s "./*", .str (s "./*.js"))]) [] = .error .invalidSpecifier
    ∧ packageExportsResolve false ['/'] (s "./x/") (.obj [(s "./*", .str (s "./*.js"))]) [] = .resolved (s "/x/.js") := by decide

/-- D11 RUN. "#/…" specifiers: Node 20: ERR_INVALID_MODULE_SPECIFIER; esbuild resolves them. (`importsOK`) -/
example : classify true (importsResolve (s "#/x") (.obj [(s "#/*", .str (s "./src/*.js"))]) []) = .resolved (s "/src/x.js")
    ∧ packageImportsResolve false ['/'] (s "#/x") (some (.obj [(s "#/*", .str (s "./src/*.js"))])) [] = .error .invalidSpecifier := by decide

/-- D12 RUN. A URL as "imports" target: Node: ERR_INVALID_PACKAGE_TARGET; esbuild hands "node:fs" to package resolution. (`targetOK`) -/
example : classify true (importsResolve (s "#fs") (.obj [(s "#fs", .str (s "node:fs"))]) []) = .package (s "node:fs")
    ∧ packageImportsResolve false ['/'] (s "#fs") (some (.obj [(s "#fs", .str (s "node:fs"))])) [] = .error .invalidTarget := by decide

/-- D13. A key with two "*": never an expansion key for Node; esbuild uses the first "*" — but then the rest of the key
must occur literally in the request, i.e. the request itself contains "*", which esbuild's Resolve refuses beforehand.
(`requestOK`; for requests without "*" such keys are covered by the theorem, see the example after this one) -/
example : classify false (exportsResolve ['/'] (s "./a/q/b/*") (.obj [(s "./a/*/b/*", .str (s "./dist/*.js"))]) []) = .resolved (s "/dist/q.js")
    ∧ packageExportsResolve false ['/'] (s "./a/q/b/*") (.obj [(s "./a/*/b/*", .str (s "./dist/*.js"))]) [] = .error .notExported := by decide

example : exportsOK (s "./a/q/b/c") (.obj [(s "./a/*/b/*", .str (s "./dist/*.js")), (s "./a/*", .str (s "./lib/*.js"))]) = true
    ∧ exportsResolve ['/'] (s "./a/q/b/c") (.obj [(s "./a/*/b/*", .str (s "./dist/*.js")), (s "./a/*", .str (s "./lib/*.js"))]) [] = (s "/lib/q/b/c.js", .exact) := by decide

/-- D14 RUN. "imports" that is not an object: esbuild: invalid package configuration; Node: import not defined (class only). -/
example : classify true (importsResolve (s "#a") (.str (s "./a.js")) []) = .error .invalidConfig
    ∧ packageImportsResolve false ['/'] (s "#a") (some (.str (s "./a.js"))) [] = .error .importNotDefined := by decide

end EsbuildModel.C11
