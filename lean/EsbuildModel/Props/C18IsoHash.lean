import EsbuildModel.Lemmas.IsoHashInj
import EsbuildModel.Lemmas.IsoHashName
import EsbuildModel.Lemmas.IsoHashOutput
/-! # C18 — the ISOLATED hash of one chunk and the hashed name: property theorems

Model: `Impl/IsoHash.lean` (`generateIsolatedHash`, the streaming xxhash digest, `HashForFileName`).
`Tuple` (Lemmas/IsoHash.lean) is what the routine mixes in: file entries (namespace, path, part range) of a
JS chunk, the `Data` of the template parts, the public path, the pieces' data spans, the three
source-map pieces, the external legal comments.
-/
namespace EsbuildModel.C18IsoHash
open EsbuildModel.IsoHash
open EsbuildModel.Pieces (Piece Kind substitute)

/-! ## 0. The hash is a function of the pre-image, the pre-image is the encoding of the tuple -/

/-- The digest `generateIsolatedHash` sends depends only on the CONCATENATION of the bytes it writes
(`Digest.Write` buffers 32-byte blocks; the boundaries of the Write calls do not matter): it is the
digest of one `Write` of the pre-image. -/
theorem isolated_hash_function_of_preimage (ctx : Ctx) (c : Chunk) :
    isoHash ctx c = (preimage ctx c).map fun p => (Digest.new.write p).sum := by
  unfold isoHash preimage
  cases writes ctx c with
  | none => rfl
  | some ws => simp [digestOfWrites_flatten]

/-- The bytes fed to the hash are the encoding `encode` of the chunk's tuple: the file entries
(`lenPrefixed ns ++ lenPrefixed path ++ le32 begin ++ le32 end`) followed by the length-prefixed items
template parts, public path (if not empty), piece data, source-map prefix / mappings / suffix, legal comments
(if not empty).  The routine panics exactly when a part range names a file outside `c.graph.Files`. -/
theorem preimage_is_tuple_encoding (ctx : Ctx) (c : Chunk) :
    preimage ctx c = (tupleOf ctx c).map encode := preimage_eq_encode ctx c

/-! ## 1. Injectivity of the pre-image

-- OPEN `isolated_preimage_injective` (full statement):
--   ∀ a b : Tuple, Fits a → Fits b → encode a = encode b → a = b
-- is FALSE of the code: the number of file entries, of template parts and of pieces, and whether the
-- public path / the legal comments were written, are not written to the hash, so different tuples can
-- have the same pre-image (the four `example`s after the theorem; the second one was run end to end on the
-- real binary: same hash `T77MEJVX` for `--entry-names=[name]-[hash] --public-path=.js` and for
-- `--entry-names=[name]-[hash].js[hash]`).  What holds is the statement under the shape hypotheses below.
-/

/-- Two chunks (of any two builds) with the same pre-image have the same tuple, provided
* every written length fits its uint32 prefix (`Fits`),
* both source maps are absent or start with `{` while their mappings do not (`SMShape`: true of every map
  `generateSourceMapForChunk` writes),
* both templates have the same, non-zero number of parts (same `--entry-names` / `--chunk-names` shape),
* the public path is empty in both or in neither,
* no file's namespace is equal to the first template part of either chunk.
The numbers of part ranges and of pieces, and the presence of the legal comments, need NOT be assumed equal:
they are recovered. -/
theorem isolated_preimage_injective_partial (ctx ctx' : Ctx) (c c' : Chunk) (a b : Tuple)
    (ha : tupleOf ctx c = some a) (hb : tupleOf ctx' c' = some b)
    (fa : Fits a) (fb : Fits b) (sa : SMShape a.sm) (sb : SMShape b.sm)
    (hT : a.tmpl.length = b.tmpl.length) (hTne : a.tmpl ≠ [])
    (hP : a.pub = [] ↔ b.pub = [])
    (hns : ∀ f ∈ a.files ++ b.files, a.tmpl.head? ≠ some f.ns ∧ b.tmpl.head? ≠ some f.ns)
    (h : preimage ctx c = preimage ctx' c') : a = b := by
  rw [preimage_is_tuple_encoding, preimage_is_tuple_encoding, ha, hb] at h
  simp only [Option.map_some, Option.some.injEq, encode] at h
  have hTne' : b.tmpl ≠ [] := by
    intro h0; rw [h0] at hT; exact hTne (List.eq_nil_of_length_eq_zero hT)
  obtain ⟨hF, hI⟩ := files_items_inj a.files b.files (items a) (items b) fa.files fb.files fa.items fb.items
    (items_ne_nil a) (items_ne_nil b)
    (fun f hf => by rw [items_head a hTne]; exact (hns f (by simp [hf])).1)
    (fun f hf => by rw [items_head b hTne']; exact (hns f (by simp [hf])).2) h
  obtain ⟨h1, h2, h3, h4, h5⟩ := items_inj a b hT hP sa sb hI
  cases a; cases b; simp_all

/-- non-vacuity: a JS chunk with the SAME path in two namespaces, two pieces, a source map and legal
comments meets every hypothesis (against itself), and a chunk that differs only in the namespace of the
second file has a different pre-image. -/
example :
    let files : List FileInfo := [⟨nsFile, [47, 97], [97]⟩, ⟨[104], [97], [97]⟩, ⟨nsFile, [97], [98]⟩]
    let ctx : Ctx := ⟨files, []⟩
    let sm : SMPieces := ⟨[123, 34], [65, 65, 65, 65], [34, 125]⟩
    let mk (second : Nat) : Chunk :=
      ⟨.js [⟨0, 0, 3⟩, ⟨second, 1, 2⟩], [[46, 47, 97, 45], [46, 106, 115]],
       .pieces [⟨[97, 98], 1, .chunk, []⟩, ⟨[99], 0, .none, []⟩], sm, [47, 42, 33]⟩
    ∃ a b, tupleOf ctx (mk 1) = some a ∧ tupleOf ctx (mk 2) = some b ∧
      Fits a ∧ Fits b ∧ SMShape a.sm ∧ a.tmpl.length = b.tmpl.length ∧ a.tmpl ≠ [] ∧
      (a.pub = [] ↔ b.pub = []) ∧
      (∀ f ∈ a.files ++ b.files, a.tmpl.head? ≠ some f.ns ∧ b.tmpl.head? ≠ some f.ns) ∧
      a ≠ b ∧ preimage ctx (mk 1) ≠ preimage ctx (mk 2) := by
  refine ⟨_, _, rfl, rfl, ⟨by decide, by decide⟩, ⟨by decide, by decide⟩, ?_, by decide, by decide,
    by decide, by decide, by decide, by decide⟩
  exact Or.inr ⟨by decide, by decide⟩

/-- FALSE without the hypotheses (1/4): a file entry with `partIndexBegin = 4` reads like three template
parts — the number of entries is not written. -/
example :
    let a : Tuple := ⟨[⟨nsFile, [112], 4, 7⟩], [], [], [[120]], ⟨[], [], []⟩, []⟩
    let b : Tuple := ⟨[], [nsFile, [112], [7, 0, 0, 0]], [], [[120]], ⟨[], [], []⟩, []⟩
    Fits a ∧ Fits b ∧ a ≠ b ∧ encode a = encode b := by
  exact ⟨⟨by decide, by decide⟩, ⟨by decide, by decide⟩, by decide, by decide⟩

/-- FALSE without the hypotheses (2/4): template `a-[hash].js` with public path `.js` against template
`a-[hash].js[hash].js` without public path (run on the real binary: both builds get the hash T77MEJVX). -/
example :
    let a : Tuple := ⟨[], [[97, 45], [46, 106, 115]], [46, 106, 115], [[120]], ⟨[], [], []⟩, []⟩
    let b : Tuple := ⟨[], [[97, 45], [46, 106, 115], [46, 106, 115]], [], [[120]], ⟨[], [], []⟩, []⟩
    Fits a ∧ Fits b ∧ a ≠ b ∧ encode a = encode b := by
  exact ⟨⟨by decide, by decide⟩, ⟨by decide, by decide⟩, by decide, by decide⟩

/-- FALSE without the hypotheses (3/4): a public path reads like a first piece. -/
example :
    let a : Tuple := ⟨[], [[97]], [120], [[121]], ⟨[], [], []⟩, []⟩
    let b : Tuple := ⟨[], [[97]], [], [[120], [121]], ⟨[], [], []⟩, []⟩
    Fits a ∧ Fits b ∧ a ≠ b ∧ encode a = encode b := by
  exact ⟨⟨by decide, by decide⟩, ⟨by decide, by decide⟩, by decide, by decide⟩

/-- FALSE without `SMShape` (4/4): legal comments read like a source-map suffix after one more (empty)
piece; the right-hand source map (empty prefix, non-empty suffix) is one esbuild never produces. -/
example :
    let a : Tuple := ⟨[], [[97]], [], [[120]], ⟨[], [], []⟩, [122]⟩
    let b : Tuple := ⟨[], [[97]], [], [[120], []], ⟨[], [], [122]⟩, []⟩
    Fits a ∧ Fits b ∧ SMShape a.sm ∧ ¬ SMShape b.sm ∧ a ≠ b ∧ encode a = encode b := by
  refine ⟨⟨by decide, by decide⟩, ⟨by decide, by decide⟩, Or.inl (by decide), ?_, by decide, by decide⟩
  rintro (h | h) <;> revert h <;> decide

/-! ## 2. The hashed tuple covers the chunk file

`finalContents pathOf out` is what `substituteFinalPaths` returns for the chunk (the joiner itself when
there are no pieces, otherwise every piece's data followed by the final path of the asset / chunk the
piece refers to); `refsOf pathOf out` is the list of those substituted paths, one per piece.
-/

/-- If two chunks (of any two builds) have the same tuple — which holds when their isolated pre-images
are equal under the hypotheses of `isolated_preimage_injective_partial` — and the paths substituted for
their references to OTHER files are the same, in order, then the chunk files have the same bytes, and the
source-map pieces and the legal-comments file are the same too. -/
theorem isolated_covers_output (ctx ctx' : Ctx) (c c' : Chunk) (t : Tuple)
    (pathOf pathOf' : Kind → Nat → List Nat)
    (h : tupleOf ctx c = some t) (h' : tupleOf ctx' c' = some t)
    (hrefs : refsOf pathOf c.out = refsOf pathOf' c'.out) :
    finalContents pathOf c.out = finalContents pathOf' c'.out ∧
    c.outputSourceMap = c'.outputSourceMap ∧
    c.externalLegalComments = c'.externalLegalComments := by
  unfold tupleOf at h h'
  cases he : fileEntries ctx c <;> rw [he] at h <;> simp only [reduceCtorEq, Option.some.injEq] at h
  cases he' : fileEntries ctx' c' <;> rw [he'] at h' <;> simp only [reduceCtorEq, Option.some.injEq] at h'
  subst h
  simp only [Tuple.mk.injEq] at h'
  obtain ⟨_, _, _, hd, hs, hl⟩ := h'
  refine ⟨?_, hs.symm, hl.symm⟩
  rw [finalContents_eq_zip, finalContents_eq_zip, hd, hrefs]

/-- the contrapositive a user relies on: if the bytes of the chunk file differ although every reference was
substituted by the same path, then the hashed tuples differ. -/
theorem output_change_changes_tuple (ctx ctx' : Ctx) (c c' : Chunk) (t t' : Tuple)
    (pathOf pathOf' : Kind → Nat → List Nat)
    (h : tupleOf ctx c = some t) (h' : tupleOf ctx' c' = some t')
    (hrefs : refsOf pathOf c.out = refsOf pathOf' c'.out)
    (hdiff : finalContents pathOf c.out ≠ finalContents pathOf' c'.out ∨
             c.outputSourceMap ≠ c'.outputSourceMap ∨
             c.externalLegalComments ≠ c'.externalLegalComments) : t ≠ t' := by
  intro htt
  subst htt
  obtain ⟨h1, h2, h3⟩ := isolated_covers_output ctx ctx' c c' t pathOf pathOf' h h' hrefs
  rcases hdiff with hd | hd | hd
  · exact hd h1
  · exact hd h2
  · exact hd h3

/-- non-vacuity: a chunk whose output is kept in the joiner and a chunk with one final piece holding the
same bytes have the same tuple (and the same file contents, `abc`); a chunk with pieces `ab`·C1·`c`
and one with `ab`·C2·`c` have the same tuple as well, and the same contents when both references are
substituted by the same path — and different contents when they are not (the tuple does not say WHICH
chunk a piece refers to: known finding c18-hash-ignores-reference-order). -/
example :
    let ctx : Ctx := ⟨[], []⟩
    let sm : SMPieces := ⟨[], [], []⟩
    let c1 : Chunk := ⟨.css, [[97]], .joiner [97, 98, 99], sm, []⟩
    let c2 : Chunk := ⟨.css, [[97]], .pieces [⟨[97, 98, 99], 0, .none, []⟩], sm, []⟩
    let c3 : Chunk := ⟨.css, [[97]], .pieces [⟨[97, 98], 1, .chunk, []⟩, ⟨[99], 0, .none, []⟩], sm, []⟩
    let c4 : Chunk := ⟨.css, [[97]], .pieces [⟨[97, 98], 2, .chunk, []⟩, ⟨[99], 0, .none, []⟩], sm, []⟩
    let same : Kind → Nat → List Nat := fun _ _ => [47]
    let byIndex : Kind → Nat → List Nat := fun _ i => [48 + i]
    tupleOf ctx c1 = tupleOf ctx c2 ∧ refsOf same c1.out = refsOf same c2.out ∧
    finalContents same c1.out = [97, 98, 99] ∧
    tupleOf ctx c3 = tupleOf ctx c4 ∧ refsOf same c3.out = refsOf same c4.out ∧
    finalContents same c3.out = [97, 98, 47, 99] ∧
    refsOf byIndex c3.out ≠ refsOf byIndex c4.out ∧
    finalContents byIndex c3.out ≠ finalContents byIndex c4.out := by
  decide

/-! ## 3. The hashed name -/

/-- For EVERY sequence of writes the name `HashForFileName(hash.Sum(nil))` exists (no panic), has exactly
8 characters, all from `A`–`Z` `2`–`7` (no padding character, nothing that needs escaping in a path or
URL), and is a function of the first 5 of the 8 digest bytes only. -/
theorem name_is_function_of_hash (ws : List (List Nat)) :
    ∃ n, hashForFileName (digestOfWrites ws).sum = some n ∧ n.length = 8 ∧ (∀ ch ∈ n, IsB32 ch) ∧
      hashForFileName ((digestOfWrites ws).sum.take 5) = some n := by
  have hl : 5 ≤ (digestOfWrites ws).sum.length := by rw [sum_length]; decide
  obtain ⟨n, h1, h2, h3⟩ := hashForFileName_shape _ hl
  exact ⟨n, h1, h2, h3, by rw [← hashForFileName_take5 _ hl]; exact h1⟩

/-- the same for any byte string of at least 5 bytes (the final hash is another xxhash digest) -/
theorem name_shape (d : List Nat) (h : 5 ≤ d.length) :
    ∃ n, hashForFileName d = some n ∧ n.length = 8 ∧ (∀ ch ∈ n, IsB32 ch) ∧
      hashForFileName (d.take 5) = some n := by
  obtain ⟨n, h1, h2, h3⟩ := hashForFileName_shape d h
  exact ⟨n, h1, h2, h3, by rw [← hashForFileName_take5 d h]; exact h1⟩

/-- … and of nothing less: two digests whose names are equal agree on their first 5 bytes (40 bits of the
64-bit hash end up in the name, none of them is lost in the base32 step). -/
theorem name_determines_first_five_bytes (d d' : List Nat) (h : 5 ≤ d.length) (h' : 5 ≤ d'.length)
    (hb : ∀ x ∈ d, x < 256) (hb' : ∀ x ∈ d', x < 256)
    (hn : hashForFileName d = hashForFileName d') : d.take 5 = d'.take 5 := by
  obtain ⟨a0, a1, a2, a3, a4, r, rfl⟩ := exists_cons5 d h
  obtain ⟨b0, b1, b2, b3, b4, r', rfl⟩ := exists_cons5 d' h'
  rw [hashForFileName_cons5, hashForFileName_cons5, Option.some.injEq] at hn
  have ha : a0 < 256 ∧ a1 < 256 ∧ a2 < 256 ∧ a3 < 256 ∧ a4 < 256 :=
    ⟨hb _ (by simp), hb _ (by simp), hb _ (by simp), hb _ (by simp), hb _ (by simp)⟩
  have hb2 : b0 < 256 ∧ b1 < 256 ∧ b2 < 256 ∧ b3 < 256 ∧ b4 < 256 :=
    ⟨hb' _ (by simp), hb' _ (by simp), hb' _ (by simp), hb' _ (by simp), hb' _ (by simp)⟩
  obtain ⟨e0, e1, e2, e3, e4⟩ := b32group5_inj _ _ _ _ _ _ _ _ _ _ ha hb2 hn
  simp [e0, e1, e2, e3, e4]

/-- `HashForFileName` panics (slice bounds out of range) exactly on the empty byte string -/
theorem name_panics_iff_empty (d : List Nat) : hashForFileName d = none ↔ d = [] :=
  hashForFileName_none_iff d

/-- non-vacuity: the digest bytes 00 44 32 14 c7 … give "ABCDEFGH"; changing byte 5 or later changes
nothing, changing byte 4 changes the name; 1–4 bytes give a padded name; no bytes panic. -/
example :
    hashForFileName [0, 68, 50, 20, 199, 1, 2, 3] = some [65, 66, 67, 68, 69, 70, 71, 72] ∧
    hashForFileName [0, 68, 50, 20, 199, 9, 9, 9] = some [65, 66, 67, 68, 69, 70, 71, 72] ∧
    hashForFileName [0, 68, 50, 20, 198, 1, 2, 3] = some [65, 66, 67, 68, 69, 70, 71, 71] ∧
    hashForFileName [255] = some [55, 52, 61, 61, 61, 61, 61, 61] ∧
    hashForFileName [] = none := by
  decide

end EsbuildModel.C18IsoHash
